------------------------------- MODULE Linker -------------------------------
(* The ppci linker (ppci/binutils/linker.py, layout.py, objectfile.py) as a   *)
(* state machine over an abstract object-file state.  Properties C12 (and the *)
(* placement half of C11, C13, C14).                                          *)
(*                                                                            *)
(* Section contents are sequences of *provenance tags*, one per byte:         *)
(*     <<o, s, k>>   byte k (0-based) of section s of input object o          *)
(*     Pad           alignment padding inserted by the linker                 *)
(*     Patched(r)    a byte rewritten by output relocation r                  *)
(* so "every input byte is preserved, in order, except at relocation sites"   *)
(* is a statement about tags, independent of byte values.                     *)
(*                                                                            *)
(* The phases of Linker.link are the actions                                  *)
(*   Start            entry symbol + extra symbols                            *)
(*   InjectSections   inject_object, first loop: pad + append each section    *)
(*   MergeGlobal / InjectLocal / DuplicateGlobal   one symbol of the object   *)
(*   InjectRelocs     shifted relocations, entry merge; next object           *)
(*   PlaceSection / PlaceSectionData / DefineSymbol / AlignTo / CloseMemory   *)
(*                    one memory input of layout_sections                     *)
(*   CheckUndefined   check_undefined_symbols                                 *)
(*   RelaxNone        do_relaxations when nothing shrinks (C13 adds Relax)    *)
(*   Relocate         one _do_relocation                                      *)
(*   Fail(reason)     the CompilerError exits                                 *)
(* What the property leaves open is a *parameter* of the action (amount of    *)
(* padding, alignment given to an output section): any legal value keeps all  *)
(* invariants; ppci's choice is Design*.                                      *)
EXTENDS Integers, Sequences, FiniteSets, LinkerJobs

(* LinkerJobs defines Jobs, the link jobs under consideration: Seq([inp, lay, opt])
     inp  Seq of input objects [secs, syms, rels, entry]
     lay  [on, entry, mems: Seq([name, loc, size, ins: Seq([k, name, al])])]
     opt  [partial, entry, extra: Seq([name, value])]
   (a plain definition rather than a CONSTANT: TLC evaluates a constant-level definition once,
   but re-evaluates the right-hand side of a cfg substitution `Jobs <- X` on every use).
   tla/LinkerJobs.tla is the trace variant (jobs read from TRACE_FILE); for model checking the
   engine supplies a LinkerJobs module that takes the jobs from LinkerJobs_MC.               *)
VARIABLES
    job,     \* index of the job being linked (the job itself never changes)
    ph,      \* "start" | "inject" | "layout" | "check" | "relax" | "relocate" | "done" | "failed"
    nxt,     \* next input object / next output relocation
    sub,     \* progress inside one inject_object: [st, k, offs, map]
    dst,     \* output object [secs, syms, rels, images, entry]
    placed,  \* where each input section went: Seq([o, s, sec, off, size, align])
    cur,     \* layout cursor [m, j, addr, img]
    fail     \* "" | "multiple" | "undefined" | "memory" | "entry" | "reloc"
vars == <<job, ph, nxt, sub, dst, placed, cur, fail>>
inp == Jobs[job].inp
lay == Jobs[job].lay
opt == Jobs[job].opt

MkT(f) == f \o <<>>                       \* force a concrete tuple (TLC evaluates [x \in S |-> e] lazily)
MaxOf(a, b) == IF a >= b THEN a ELSE b

-----------------------------------------------------------------------------
(* address arithmetic (kept in small operators: the relaxation action of C13 *)
(* re-uses them)                                                             *)
AlignUp(a, al)        == ((a + al - 1) \div al) * al
DesignPad(len, al)    == AlignUp(len, al) - len            \* inject_object: `while size % alignment != 0`
LegalPad(len, al, p)  == p >= 0 /\ (len + p) % al = 0
DesignAlign(old, inal) == MaxOf(old, inal)                   \* `if input.alignment > output.alignment`
LegalAlign(old, inal, new) == new >= 1 /\ new % inal = 0 /\ (old = 0 \/ new % old = 0)
DefaultAlign == 4                                          \* objectfile.Section.__init__

-----------------------------------------------------------------------------
(* provenance tags *)
Pad == <<0, 0, 0>>
Tag(o, s, k) == <<o, s, k>>
Patched(r) == <<-1, r, 0>>
IsInputTag(t) == t[1] > 0
IsPatched(t)  == t[1] = -1
Tags(o, s, n) == MkT([k \in 1..n |-> <<o, s, k - 1>>])
Pads(n)       == MkT([k \in 1..n |-> Pad])

-----------------------------------------------------------------------------
(* look-ups *)
SecIdx(secs, n) == IF \E i \in 1..Len(secs) : secs[i].name = n
                   THEN CHOOSE i \in 1..Len(secs) : secs[i].name = n ELSE 0
HasSec(secs, n) == SecIdx(secs, n) > 0
SecOf(secs, n)  == secs[SecIdx(secs, n)]
SymIdx(syms, id) == IF \E i \in 1..Len(syms) : syms[i].id = id
                    THEN CHOOSE i \in 1..Len(syms) : syms[i].id = id ELSE 0
\* ObjectFile.symbol_map holds the global symbols by name
GlobalIdx(syms, n) == IF \E i \in 1..Len(syms) : syms[i].name = n /\ syms[i].binding = "global"
                      THEN CHOOSE i \in 1..Len(syms) : syms[i].name = n /\ syms[i].binding = "global" ELSE 0
NewSection(n, al) == [name |-> n, addr |-> 0, align |-> al, data |-> <<>>, copyof |-> ""]
NewSymbol(id, n, b, def, val, sec, typ, size, org) ==
    [id |-> id, name |-> n, binding |-> b, def |-> def, value |-> val, sec |-> sec, typ |-> typ,
     size |-> size, org |-> org]
\* ObjectFile.get_symbol_id_value: the final address a symbol designates
SymAddr(d, id) == LET y == d.syms[SymIdx(d.syms, id)] IN
                  IF y.sec = "" THEN y.value ELSE SecOf(d.secs, y.sec).addr + y.value
SecEnd(s) == s.addr + Len(s.data)

EntryName == IF opt.entry # "" THEN opt.entry ELSE IF lay.on THEN lay.entry ELSE ""

-----------------------------------------------------------------------------
(* Start: Linker.link up to merge_objects *)
ExtraSyms(first) == MkT([k \in 1..Len(opt.extra) |->
    NewSymbol(first + k - 1, opt.extra[k].name, "global", TRUE, opt.extra[k].value, "", "object", 0, <<-2, k>>)])
StartDst ==
    LET e == EntryName
        es == IF e = "" THEN <<>> ELSE <<NewSymbol(0, e, "global", FALSE, 0, "", "object", 0, <<0, 0>>)>>
    IN [secs |-> <<>>, syms |-> es \o ExtraSyms(Len(es)), rels |-> <<>>, images |-> <<>>,
        entry |-> IF e = "" THEN -1 ELSE 0]
NoSub == [st |-> "secs", k |-> 1, offs |-> <<>>, map |-> <<>>]
NoCur == [m |-> 1, j |-> 1, addr |-> 0, img |-> <<>>]

Start == /\ ph = "start"
         /\ dst' = StartDst
         /\ ph' = "inject" /\ nxt' = 1 /\ sub' = NoSub
         /\ UNCHANGED <<job, placed, cur, fail>>

-----------------------------------------------------------------------------
(* inject_object, first loop.  pads[k] / aligns[k]: padding inserted before,  *)
(* and alignment of the output section after, section k of object o.          *)
RECURSIVE InjSecs(_, _, _, _, _, _, _)
InjSecs(secs, o, k, pads, aligns, offs, pl) ==
    IF k > Len(inp[o].secs) THEN [ok |-> TRUE, secs |-> secs, offs |-> offs, placed |-> pl]
    ELSE LET s   == inp[o].secs[k]
             i   == SecIdx(secs, s.name)
             old == IF i = 0 THEN NewSection(s.name, 0) ELSE secs[i]
             off == Len(old.data) + pads[k]
             new == [old EXCEPT !.align = aligns[k],
                                !.data = old.data \o Pads(pads[k]) \o Tags(o, k, s.size)]
             secs2 == IF i = 0 THEN Append(secs, new) ELSE [secs EXCEPT ![i] = new]
         IN IF LegalPad(Len(old.data), s.align, pads[k]) /\ LegalAlign(old.align, s.align, aligns[k])
            THEN InjSecs(secs2, o, k + 1, pads, aligns, Append(offs, off),
                         Append(pl, [o |-> o, s |-> k, sec |-> s.name, off |-> off, size |-> s.size,
                                     align |-> s.align]))
            ELSE [ok |-> FALSE, secs |-> secs, offs |-> offs, placed |-> pl]

\* ppci's own choice of the free parameters
DesignPads(o)   == MkT([k \in 1..Len(inp[o].secs) |->
    LET i == SecIdx(dst.secs, inp[o].secs[k].name) IN
    DesignPad(IF i = 0 THEN 0 ELSE Len(dst.secs[i].data), inp[o].secs[k].align)])
DesignAligns(o) == MkT([k \in 1..Len(inp[o].secs) |->
    LET i == SecIdx(dst.secs, inp[o].secs[k].name) IN
    DesignAlign(IF i = 0 THEN DefaultAlign ELSE dst.secs[i].align, inp[o].secs[k].align)])

InjectSections(o, pads, aligns) ==
    /\ ph = "inject" /\ sub.st = "secs" /\ nxt = o /\ o <= Len(inp)
    /\ Len(pads) = Len(inp[o].secs) /\ Len(aligns) = Len(inp[o].secs)
    /\ LET r == InjSecs(dst.secs, o, 1, pads, aligns, <<>>, placed) IN
        /\ r.ok
        /\ dst' = [dst EXCEPT !.secs = r.secs]
        /\ placed' = r.placed
        /\ sub' = [st |-> "syms", k |-> 1, offs |-> r.offs, map |-> <<>>]
    /\ UNCHANGED <<job, ph, nxt, cur, fail>>

-----------------------------------------------------------------------------
(* inject_object, second loop: one symbol per step *)
InSym(o) == inp[o].syms[sub.k]
\* shifted value / section of input symbol y of object o
ShiftedValue(o, y) == IF y.def THEN sub.offs[SecIdx(inp[o].secs, y.sec)] + y.value ELSE 0
SymStep(o) == ph = "inject" /\ sub.st = "syms" /\ nxt = o /\ sub.k <= Len(inp[o].syms)
AdvanceSym(id) == sub' = [sub EXCEPT !.k = @ + 1, !.map = Append(@, id)]
FailWith(r) == ph' = "failed" /\ fail' = r

\* a local symbol, or a global name seen for the first time: inject_symbol
InjectNew(o) ==
    /\ SymStep(o)
    /\ LET y == InSym(o) IN
        /\ y.binding # "global" \/ GlobalIdx(dst.syms, y.name) = 0
        /\ LET id == Len(dst.syms) IN
            /\ dst' = [dst EXCEPT !.syms = Append(@, NewSymbol(id, y.name, y.binding, y.def, ShiftedValue(o, y),
                                   IF y.def THEN y.sec ELSE "", y.typ, y.size,
                                   IF y.def THEN <<o, sub.k>> ELSE <<0, 0>>))]
            /\ AdvanceSym(id)
    /\ UNCHANGED <<job, ph, nxt, placed, cur, fail>>

\* merge_global_symbol on a name that exists: reference, or first definition of it
MergeGlobal(o) ==
    /\ SymStep(o)
    /\ LET y == InSym(o)
           g == GlobalIdx(dst.syms, y.name) IN
        /\ y.binding = "global" /\ g > 0
        /\ ~(y.def /\ dst.syms[g].def)
        /\ dst' = IF y.def
                  THEN [dst EXCEPT !.syms[g].def = TRUE, !.syms[g].value = ShiftedValue(o, y),
                                   !.syms[g].sec = y.sec, !.syms[g].org = <<o, sub.k>>]
                  ELSE dst
        /\ AdvanceSym(dst.syms[g].id)
    /\ UNCHANGED <<job, ph, nxt, placed, cur, fail>>

\* second definition of a global name: "Multiple defined symbol"
DuplicateGlobal(o) ==
    /\ SymStep(o)
    /\ LET y == InSym(o)
           g == GlobalIdx(dst.syms, y.name) IN
        y.binding = "global" /\ g > 0 /\ y.def /\ dst.syms[g].def
    /\ FailWith("multiple")
    /\ UNCHANGED <<job, nxt, sub, dst, placed, cur>>

-----------------------------------------------------------------------------
(* inject_object, third loop + entry merge; then the next object / phase *)
MappedId(o, id) == sub.map[SymIdx(inp[o].syms, id)]
ShiftedRels(o) == MkT([k \in 1..Len(inp[o].rels) |->
    LET r == inp[o].rels[k] IN
    [type |-> r.type, sym |-> MappedId(o, r.sym), sec |-> r.sec,
     off |-> sub.offs[SecIdx(inp[o].secs, r.sec)] + r.off, add |-> r.add, size |-> r.size, ctl |-> r.ctl]])
AfterInject == IF nxt < Len(inp) THEN "inject"
               ELSE IF opt.partial THEN "done"
               ELSE IF lay.on THEN "layout" ELSE "check"
RelStep(o) == ph = "inject" /\ sub.st = "syms" /\ nxt = o /\ sub.k = Len(inp[o].syms) + 1

InjectRelocsResult(o) ==
    [dst EXCEPT !.rels = @ \o ShiftedRels(o),
                !.entry = IF inp[o].entry # -1 THEN MappedId(o, inp[o].entry) ELSE @]
InjectRelocs(o) ==
    /\ RelStep(o)
    /\ ~(inp[o].entry # -1 /\ dst.entry # -1)
    /\ dst' = InjectRelocsResult(o)
    /\ nxt' = nxt + 1 /\ sub' = NoSub /\ ph' = AfterInject
    /\ cur' = IF AfterInject = "layout" /\ Len(lay.mems) > 0
              THEN [m |-> 1, j |-> 1, addr |-> lay.mems[1].loc, img |-> <<>>] ELSE cur
    /\ UNCHANGED <<job, placed, fail>>
\* "Multiple entry points defined"
DuplicateEntry(o) ==
    /\ RelStep(o)
    /\ inp[o].entry # -1 /\ dst.entry # -1
    /\ FailWith("entry")
    /\ UNCHANGED <<job, nxt, sub, dst, placed, cur>>

-----------------------------------------------------------------------------
(* layout_sections: one memory input per step *)
Mem == lay.mems[cur.m]
LayStep == ph = "layout" /\ cur.m <= Len(lay.mems) /\ cur.j <= Len(Mem.ins)
In == Mem.ins[cur.j]
NextIn(addr, img) == cur' = [cur EXCEPT !.j = @ + 1, !.addr = addr, !.img = img]

\* Section(name): al is the alignment a section created here gets (ppci: DefaultAlign)
PlaceSectionResult(al) ==
    LET secs0 == IF HasSec(dst.secs, In.name) THEN dst.secs ELSE Append(dst.secs, NewSection(In.name, al))
        i == SecIdx(secs0, In.name)
        a == AlignUp(cur.addr, secs0[i].align)
    IN [dst EXCEPT !.secs = [secs0 EXCEPT ![i].addr = a]]
PlaceSection(al) ==
    /\ LayStep /\ In.k = "section" /\ al >= 1
    /\ LET d == PlaceSectionResult(al)
           s == SecOf(d.secs, In.name) IN
        /\ dst' = d
        /\ NextIn(SecEnd(s), Append(cur.img, In.name))
    /\ UNCHANGED <<job, ph, nxt, sub, placed, fail>>

\* SectionData(name): a copy of the section's present contents in a new section _$name_
CopyName(n) == "_$" \o n \o "_"
PlaceSectionData(al) ==
    /\ LayStep /\ In.k = "sectiondata" /\ al >= 1
    /\ HasSec(dst.secs, In.name) /\ ~HasSec(dst.secs, CopyName(In.name))
    /\ cur.addr % al = 0
    /\ LET src == SecOf(dst.secs, In.name)
           new == [name |-> CopyName(In.name), addr |-> cur.addr, align |-> al, data |-> src.data,
                   copyof |-> In.name] IN
        /\ dst' = [dst EXCEPT !.secs = Append(@, new)]
        /\ NextIn(SecEnd(new), Append(cur.img, new.name))
    /\ UNCHANGED <<job, ph, nxt, sub, placed, fail>>

\* DefineSymbol(name): an empty section _$name_ here and a global symbol at its start
DefineSymbol(al) ==
    /\ LayStep /\ In.k = "symbol" /\ al >= 1
    /\ ~HasSec(dst.secs, CopyName(In.name))
    /\ cur.addr % al = 0
    /\ LET g == GlobalIdx(dst.syms, In.name)
           new == [NewSection(CopyName(In.name), al) EXCEPT !.addr = cur.addr] IN
        /\ ~(g > 0 /\ dst.syms[g].def)
        /\ dst' = [dst EXCEPT !.secs = Append(@, new),
                     !.syms = IF g > 0
                              THEN [@ EXCEPT ![g].def = TRUE, ![g].value = 0, ![g].sec = new.name,
                                             ![g].org = <<-1, cur.m>>]
                              ELSE Append(@, NewSymbol(Len(@), In.name, "global", TRUE, 0, new.name,
                                                       "object", 0, <<-1, cur.m>>))]
        /\ NextIn(cur.addr, Append(cur.img, new.name))
    /\ UNCHANGED <<job, ph, nxt, sub, placed, fail>>
DefineSymbolTwice ==
    /\ LayStep /\ In.k = "symbol"
    /\ LET g == GlobalIdx(dst.syms, In.name) IN g > 0 /\ dst.syms[g].def
    /\ FailWith("multiple")
    /\ UNCHANGED <<job, nxt, sub, dst, placed, cur>>

AlignTo ==
    /\ LayStep /\ In.k = "align"
    /\ NextIn(AlignUp(cur.addr, In.al), cur.img)
    /\ UNCHANGED <<job, ph, nxt, sub, dst, placed, fail>>

\* objectfile.Image.size: from the image address to the end of its last section, gaps included
RECURSIVE ImgEnd(_, _, _, _)
ImgEnd(secs, names, k, at) ==
    IF k > Len(names) THEN at
    ELSE LET s == SecOf(secs, names[k]) IN ImgEnd(secs, names, k + 1, MaxOf(at, s.addr) + Len(s.data))
ImageSize(secs, img) == ImgEnd(secs, img.secs, 1, img.addr) - img.addr

MemDone == ph = "layout" /\ cur.m <= Len(lay.mems) /\ cur.j = Len(Mem.ins) + 1
ThisImage == [name |-> Mem.name, addr |-> Mem.loc, secs |-> cur.img]
CloseMemory ==
    /\ MemDone
    /\ ImageSize(dst.secs, ThisImage) <= Mem.size
    /\ dst' = [dst EXCEPT !.images = Append(@, ThisImage)]
    /\ IF cur.m < Len(lay.mems)
       THEN cur' = [m |-> cur.m + 1, j |-> 1, addr |-> lay.mems[cur.m + 1].loc, img |-> <<>>] /\ ph' = ph
       ELSE cur' = [cur EXCEPT !.m = @ + 1] /\ ph' = "check"
    /\ UNCHANGED <<job, nxt, sub, placed, fail>>
MemoryOverflow ==
    /\ MemDone
    /\ ImageSize(dst.secs, ThisImage) > Mem.size
    /\ FailWith("memory")
    /\ UNCHANGED <<job, nxt, sub, dst, placed, cur>>
\* a layout without memories
EmptyLayout == /\ ph = "layout" /\ Len(lay.mems) = 0 /\ ph' = "check"
               /\ UNCHANGED <<job, nxt, sub, dst, placed, cur, fail>>

-----------------------------------------------------------------------------
(* check_undefined_symbols *)
UndefinedGlobals(d) == {i \in 1..Len(d.syms) : d.syms[i].binding = "global" /\ ~d.syms[i].def}
CheckUndefined ==
    /\ ph = "check"
    /\ UndefinedGlobals(dst) = {}
    /\ ph' = "relax"
    /\ UNCHANGED <<job, nxt, sub, dst, placed, cur, fail>>
UndefinedFound ==
    /\ ph = "check"
    /\ UndefinedGlobals(dst) # {}
    /\ FailWith("undefined")
    /\ UNCHANGED <<job, nxt, sub, dst, placed, cur>>

(* do_relaxations when no relocation can shrink: nothing changes.  (Property  *)
(* C13 replaces this by a Relax action built from AlignUp / SecEnd / SymAddr.) *)
RelaxNone ==
    /\ ph = "relax"
    /\ ph' = (IF Len(dst.rels) = 0 THEN "done" ELSE "relocate")
    /\ nxt' = 1
    /\ UNCHANGED <<job, sub, dst, placed, cur, fail>>

-----------------------------------------------------------------------------
(* _do_relocation: the bytes of the field are rewritten, nothing else         *)
RelocSite(d, r) == LET e == d.rels[r] IN {e.off + k : k \in 1..e.size}     \* 1-based positions
RelocInBounds(d, r) == LET e == d.rels[r] IN
    HasSec(d.secs, e.sec) /\ e.off >= 0 /\ e.off + e.size <= Len(SecOf(d.secs, e.sec).data)
RelocateResult(r) ==
    LET e == dst.rels[r]
        i == SecIdx(dst.secs, e.sec) IN
    [dst EXCEPT !.secs[i].data = MkT([p \in 1..Len(@) |-> IF p \in RelocSite(dst, r) THEN Patched(r) ELSE @[p]])]
\* S, A, P of relocation r (addresses of the final layout)
RelS(d, r) == SymAddr(d, d.rels[r].sym)
RelA(d, r) == d.rels[r].add
RelP(d, r) == SecOf(d.secs, d.rels[r].sec).addr + d.rels[r].off
Relocate(r) ==
    /\ ph = "relocate" /\ nxt = r /\ r <= Len(dst.rels)
    /\ RelocInBounds(dst, r)
    /\ dst' = RelocateResult(r)
    /\ nxt' = r + 1
    /\ ph' = IF r = Len(dst.rels) THEN "done" ELSE ph
    /\ UNCHANGED <<job, sub, placed, cur, fail>>
\* the value does not fit the field (decided by Reloc.tla in the trace specification)
RelocateFails(r) ==
    /\ ph = "relocate" /\ nxt = r /\ r <= Len(dst.rels)
    /\ FailWith("reloc")
    /\ UNCHANGED <<job, nxt, sub, dst, placed, cur>>

-----------------------------------------------------------------------------
Finished == ph \in {"done", "failed"}
Terminated == Finished /\ UNCHANGED vars

(* the linker as ppci built it: free parameters chosen by the Design operators *)
DesignNext ==
    \/ Start
    \/ \E o \in 1..Len(inp) :
          \/ InjectSections(o, DesignPads(o), DesignAligns(o))
          \/ InjectNew(o) \/ MergeGlobal(o) \/ DuplicateGlobal(o)
          \/ InjectRelocs(o) \/ DuplicateEntry(o)
    \/ PlaceSection(DefaultAlign) \/ PlaceSectionData(1) \/ DefineSymbol(1) \/ DefineSymbolTwice
    \/ AlignTo \/ CloseMemory \/ MemoryOverflow \/ EmptyLayout
    \/ CheckUndefined \/ UndefinedFound \/ RelaxNone
    \/ \E r \in 1..Len(dst.rels) : Relocate(r)
    \/ Terminated

-----------------------------------------------------------------------------
(* Invariants: the clauses of property C12 *)
Placed == ph \in {"check", "relax", "relocate", "done"}           \* layout (if any) has been applied
InImage(n) == \E g \in 1..Len(dst.images) : \E k \in 1..Len(dst.images[g].secs) : dst.images[g].secs[k] = n
MemOfImage(g) == lay.mems[CHOOSE m \in 1..Len(lay.mems) : lay.mems[m].name = dst.images[g].name]

\* every section's address satisfies its alignment
Placement == \A i \in 1..Len(dst.secs) : dst.secs[i].addr % dst.secs[i].align = 0
\* ... and so does every *input* section where it ended up
InputAligned == \A p \in 1..Len(placed) :
    HasSec(dst.secs, placed[p].sec) =>
        (SecOf(dst.secs, placed[p].sec).addr + placed[p].off) % placed[p].align = 0
\* every section of an image lies inside the memory region the layout declares for it
Inside == Placed /\ lay.on => \A g \in 1..Len(dst.images) :
    LET m == MemOfImage(g) IN
    \A k \in 1..Len(dst.images[g].secs) :
        LET s == SecOf(dst.secs, dst.images[g].secs[k]) IN m.loc <= s.addr /\ SecEnd(s) <= m.loc + m.size
\* sections of one image never overlap
NoOverlap == \A g \in 1..Len(dst.images) :
    \A k1, k2 \in 1..Len(dst.images[g].secs) : k1 < k2 =>
        LET s1 == SecOf(dst.secs, dst.images[g].secs[k1])
            s2 == SecOf(dst.secs, dst.images[g].secs[k2]) IN
        SecEnd(s1) <= s2.addr \/ SecEnd(s2) <= s1.addr
\* provenance: every input section is present, contiguous and in order at its recorded offset,
\* changed only at relocation sites; everything else is padding
Content ==
    /\ \A p \in 1..Len(placed) :
         LET q == placed[p] IN
         HasSec(dst.secs, q.sec) /\
         \A k \in 0..(q.size - 1) :
             LET t == SecOf(dst.secs, q.sec).data[q.off + k + 1] IN t = Tag(q.o, q.s, k) \/ IsPatched(t)
    /\ \A i \in 1..Len(dst.secs) : \A b \in 1..Len(dst.secs[i].data) :
         LET t == dst.secs[i].data[b] IN
         /\ IsInputTag(t) =>
              \E p \in 1..Len(placed) :
                  /\ placed[p].o = t[1] /\ placed[p].s = t[2]
                  /\ placed[p].sec = (IF dst.secs[i].copyof = "" THEN dst.secs[i].name ELSE dst.secs[i].copyof)
                  /\ placed[p].off + t[3] + 1 = b
         /\ IsPatched(t) =>
              /\ t[2] \in 1..Len(dst.rels) /\ dst.rels[t[2]].sec = dst.secs[i].name
              /\ b \in RelocSite(dst, t[2])
\* nothing is lost: the object is complete once all inputs are merged
AllPlaced == ph \in {"layout", "check", "relax", "relocate", "done"} =>
    \A o \in 1..Len(inp) : \A s \in 1..Len(inp[o].secs) :
        \E p \in 1..Len(placed) : placed[p].o = o /\ placed[p].s = s
\* every symbol is defined at its section's final address plus its (shifted) offset
SymbolAt == \A j \in 1..Len(dst.syms) :
    LET y == dst.syms[j] IN
    y.def /\ y.org[1] > 0 =>
        LET o == y.org[1]
            x == inp[o].syms[y.org[2]]
            s == SecIdx(inp[o].secs, x.sec) IN
        \E p \in 1..Len(placed) :
            /\ placed[p].o = o /\ placed[p].s = s
            /\ y.sec = placed[p].sec /\ y.value = placed[p].off + x.value
            /\ SymAddr(dst, y.id) = SecOf(dst.secs, placed[p].sec).addr + placed[p].off + x.value
\* symbols defined by the layout sit at the address of their (empty) section
LayoutSymbolAt == \A j \in 1..Len(dst.syms) :
    LET y == dst.syms[j] IN
    y.def /\ y.org[1] = -1 => HasSec(dst.secs, y.sec) /\ y.value = 0 /\ Len(SecOf(dst.secs, y.sec).data) = 0
\* every relocation still refers to a symbol of the output and to a site inside its section
RelocsResolve == ph \in {"layout", "check", "relax", "relocate", "done"} =>
    \A r \in 1..Len(dst.rels) : SymIdx(dst.syms, dst.rels[r].sym) > 0 /\ RelocInBounds(dst, r)
\* an output is produced only if every global is defined (unless partial)
NoUndefinedOutput == ph \in {"relax", "relocate", "done"} /\ ~opt.partial => UndefinedGlobals(dst) = {}

(* error outcomes, characterised on the *inputs* (independently of the walk above) *)
AllSyms == UNION {{<<o, k>> : k \in 1..Len(inp[o].syms)} : o \in 1..Len(inp)}
AllIns  == UNION {{<<m, j>> : j \in 1..Len(lay.mems[m].ins)} : m \in 1..Len(lay.mems)}
GlobalDefs == {d \in AllSyms : inp[d[1]].syms[d[2]].binding = "global" /\ inp[d[1]].syms[d[2]].def}
LayoutDefs == IF lay.on /\ ~opt.partial THEN {e \in AllIns : lay.mems[e[1]].ins[e[2]].k = "symbol"} ELSE {}
DefNames == {inp[d[1]].syms[d[2]].name : d \in GlobalDefs}
            \cup {lay.mems[d[1]].ins[d[2]].name : d \in LayoutDefs}
            \cup {opt.extra[k].name : k \in 1..Len(opt.extra)}
RefNames == {inp[d[1]].syms[d[2]].name : d \in {e \in AllSyms : inp[e[1]].syms[e[2]].binding = "global"}}
            \cup (IF EntryName = "" THEN {} ELSE {EntryName})
MultiplyDefined ==
    \/ \E d1, d2 \in GlobalDefs : d1 # d2 /\ inp[d1[1]].syms[d1[2]].name = inp[d2[1]].syms[d2[2]].name
    \/ \E d \in GlobalDefs : \E k \in 1..Len(opt.extra) : opt.extra[k].name = inp[d[1]].syms[d[2]].name
    \/ \E d \in GlobalDefs : \E e \in LayoutDefs :
          lay.mems[e[1]].ins[e[2]].name = inp[d[1]].syms[d[2]].name
    \/ \E e1, e2 \in LayoutDefs : e1 # e2 /\ lay.mems[e1[1]].ins[e1[2]].name = lay.mems[e2[1]].ins[e2[2]].name
    \/ \E e \in LayoutDefs : \E k \in 1..Len(opt.extra) : opt.extra[k].name = lay.mems[e[1]].ins[e[2]].name
SomeUndefined == ~opt.partial /\ RefNames \ DefNames # {}

\* a link that ends without error had no multiply-defined / undefined global and no overfull memory
DoneIsClean == ph = "done" =>
    /\ fail = ""
    /\ ~MultiplyDefined /\ ~SomeUndefined
    /\ (lay.on /\ ~opt.partial => \A g \in 1..Len(dst.images) :
            ImageSize(dst.secs, dst.images[g]) <= MemOfImage(g).size)
\* and a failure has its cause in the inputs
FailIsJustified == ph = "failed" =>
    /\ fail = "multiple"  => MultiplyDefined
    /\ fail = "undefined" => SomeUndefined /\ ~MultiplyDefined
    /\ fail = "memory"    => ImageSize(dst.secs, ThisImage) > Mem.size
    /\ fail = "entry"     => Cardinality({o \in 1..Len(inp) : inp[o].entry # -1}) + (IF EntryName = "" THEN 0 ELSE 1) > 1
    /\ fail \in {"multiple", "undefined", "memory", "entry", "reloc"}
=============================================================================
