------------------------------- MODULE Msp430 -------------------------------
(* The MSP430 CPU instruction set (TI "MSP430x1xx Family User's Guide"       *)
(* SLAU049 / "MSP430x2xx Family User's Guide" SLAU144, chapter 3 "RISC       *)
(* 16-Bit CPU": 3.3 addressing modes, 3.4 instruction set, figures 3-9       *)
(* "double operand instruction format", 3-10 "single operand instruction     *)
(* format", 3-11 "jump instruction format", tables 3-2 (constant generators  *)
(* CG1 / CG2), 3-3 (source / destination addressing modes), 3-11 ... 3-13,   *)
(* and the list of emulated instructions), transcribed from the manual       *)
(* independently of ppci.                                                    *)
(*                                                                           *)
(*   Decode(b)     instruction bytes (little-endian words) -> record          *)
(*   Matches(w)    the instruction formats a first word belongs to            *)
(*   Encode(i)     the reference encoder (inverse; laws in Msp430_MC)         *)
(*   Asm(mn, ops, pc)  meaning of a printed line (ppci's spelling mov.w /     *)
(*                 mov.b, TI's mov / mov.b, the emulated instructions)        *)
(*   WF(i)         records the encoder accepts                                *)
(*   Reads(i) / Writes(i)   architectural register sets (r0 = PC, r1 = SP,    *)
(*                 r2 = SR / CG1, r3 = CG2)                                   *)
(*   MRanges       operand ranges per printed form (boundary generation)      *)
EXTENDS Integers, Sequences, FiniteSets, TLC

P2(n) == 2 ^ n
Bits(x, lo, n) == (x \div P2(lo)) % P2(n)             \* field x<lo+n-1:lo>
Bit(x, k) == (x \div P2(k)) % 2
SignExt(v, n) == IF v >= P2(n - 1) THEN v - P2(n) ELSE v
Pattern(v, n) == IF v < 0 THEN v + P2(n) ELSE v
W16(v) == ((v % 65536) + 65536) % 65536               \* value -> 16-bit pattern (address arithmetic is mod 2^16)

PC == 0
SP == 1
SR == 2
CG == 3
NoReg == 16

(* An operand.  m: none | reg | idx (X(Rn); Rn = PC: symbolic mode) | abs    *)
(* (&ADDR) | ind (@Rn) | inc (@Rn+) | imm (#N, also the six constants of the  *)
(* constant generators); r register number, v 16-bit pattern.                *)
NoOp == [m |-> "none", r |-> NoReg, v |-> 0]
Reg(r) == [m |-> "reg", r |-> r, v |-> 0]
Idx(r, x) == [m |-> "idx", r |-> r, v |-> x]
Abs(x) == [m |-> "abs", r |-> NoReg, v |-> x]
Ind(r) == [m |-> "ind", r |-> r, v |-> 0]
Inc(r) == [m |-> "inc", r |-> r, v |-> 0]
Imm(x) == [m |-> "imm", r |-> NoReg, v |-> x]

(* The decoded instruction.                                                  *)
(*  mn   mnemonic of the core instruction set (27 instructions; jumps by the  *)
(*       first name of the manual: jne jeq jnc jc jn jge jl jmp)               *)
(*  bw   0 word / 1 byte operation                                            *)
(*  src  source operand (format I)       dst  destination (format I) / the    *)
(*       single operand (format II)                                           *)
(*  rel  jump displacement in bytes relative to the address of the next       *)
(*       instruction (PC + 2)                                                 *)
(*  cg   the source immediate is produced by a constant generator (no         *)
(*       extension word): a choice between equivalent encodings               *)
(*  len  length in bytes                                                      *)
I0 == [mn |-> "", bw |-> 0, src |-> NoOp, dst |-> NoOp, rel |-> 0, cg |-> FALSE, len |-> 0]
NotInsn == {"undefined", "unsupported", "truncated", "toolong", "none", "nomode"}
Bad(k, len) == [I0 EXCEPT !.mn = k, !.len = len]
Valid(i) == i.mn \notin NotInsn
\* what C08 compares: operation and operands, not the choice among equivalent encodings
Core(i) == [i EXCEPT !.cg = FALSE, !.len = 0]
NoAsm == Bad("none", 0)
NoMode == Bad("nomode", 0)

-----------------------------------------------------------------------------
(* Formats, by the top bits of the first word                                *)
Fmt == {"jump", "double", "single", "reserved"}
Match(f, w) ==
    CASE f = "jump"     -> Bits(w, 13, 3) = 1                               \* 001 cond(3) offset(10)
      [] f = "double"   -> Bits(w, 12, 4) >= 4                              \* opcode(4) src(4) Ad B/W As(2) dst(4)
      [] f = "single"   -> Bits(w, 10, 6) = 4                               \* 000100 opcode(3) B/W As(2) reg(4)
      [] f = "reserved" -> Bits(w, 12, 4) = 0 \/ (Bits(w, 12, 4) = 1 /\ Bits(w, 10, 2) # 0)   \* MSP430X extensions
Matches(w) == {f \in Fmt : Match(f, w)}

DoubleMn == <<"mov", "add", "addc", "subc", "sub", "cmp", "dadd", "bit", "bic", "bis", "xor", "and">>   \* opcodes 4..15
SingleMn == <<"rrc", "swpb", "rra", "sxt", "push", "call", "reti">>                                     \* opcodes 0..6
JumpMn == <<"jne", "jeq", "jnc", "jc", "jn", "jge", "jl", "jmp">>                                       \* conditions 0..7
WordOnly == {"swpb", "sxt", "call", "reti"}
IndexOf(seq, x) == CHOOSE k \in 1..Len(seq) : seq[k] = x

(* Table 3-2: values of the constant generators                              *)
IsCG(as, r) == r = CG \/ (r = SR /\ as >= 2)
CGValue(as, r) == IF r = CG THEN <<0, 1, 2, 65535>>[as + 1] ELSE (IF as = 2 THEN 4 ELSE 8)
CGValues == {0, 1, 2, 4, 8, 65535}
\* does the source (As, register) take an extension word?  indexed / symbolic / absolute, immediate (@PC+)
SrcExt(as, r) == (as = 1 /\ r # CG) \/ (as = 3 /\ r = PC)
SrcOp(as, r, x) ==
    CASE IsCG(as, r)        -> Imm(CGValue(as, r))
      [] as = 0             -> Reg(r)
      [] as = 1 /\ r = SR   -> Abs(x)                                      \* absolute mode: X(0)
      [] as = 1             -> Idx(r, x)                                   \* r = PC: symbolic mode
      [] as = 2             -> Ind(r)
      [] as = 3 /\ r = PC   -> Imm(x)                                      \* immediate mode: @PC+
      [] OTHER              -> Inc(r)
\* destination: Ad = 0 register, Ad = 1 indexed / symbolic / absolute (always an extension word)
DstDefined(ad, r) == ad = 0 \/ r # CG                                       \* X(R3) as a destination is not defined
DstOp(ad, r, x) == IF ad = 0 THEN Reg(r) ELSE IF r = SR THEN Abs(x) ELSE Idx(r, x)

Words(b) == [k \in 1..(Len(b) \div 2) |-> b[2 * k - 1] + 256 * b[2 * k]]
\* the decoder proper: first word + the words that follow it (it must use all of them)
DecodeW(ws) ==
    LET w == ws[1]  n == Len(ws)  m == Matches(w) IN
    IF m = {"jump"} THEN
        (IF n # 1 THEN Bad("toolong", 2 * n)
         ELSE [I0 EXCEPT !.mn = JumpMn[Bits(w, 10, 3) + 1], !.rel = 2 * SignExt(Bits(w, 0, 10), 10), !.len = 2])
    ELSE IF m = {"double"} THEN
        (LET as == Bits(w, 4, 2)  sr == Bits(w, 8, 4)  ad == Bit(w, 7)  dr == Bits(w, 0, 4)
             ns == IF SrcExt(as, sr) THEN 1 ELSE 0   nd == ad IN
         IF ~DstDefined(ad, dr) THEN Bad("undefined", 2 * n)
         ELSE IF n < 1 + ns + nd THEN Bad("truncated", 2 * n)
         ELSE IF n > 1 + ns + nd THEN Bad("toolong", 2 * n)
         ELSE [I0 EXCEPT !.mn = DoubleMn[Bits(w, 12, 4) - 3], !.bw = Bit(w, 6),
                         !.src = SrcOp(as, sr, IF ns = 1 THEN ws[2] ELSE 0),
                         !.dst = DstOp(ad, dr, IF nd = 1 THEN ws[2 + ns] ELSE 0),
                         !.cg = IsCG(as, sr), !.len = 2 * n])
    ELSE IF m = {"single"} THEN
        (LET op == Bits(w, 7, 3)  as == Bits(w, 4, 2)  r == Bits(w, 0, 4)  ns == IF SrcExt(as, r) THEN 1 ELSE 0 IN
         IF op = 7 THEN Bad("undefined", 2 * n)
         ELSE IF op = 6 THEN (IF w # 4864 THEN Bad("undefined", 2 * n)     \* RETI = 1300h
                              ELSE IF n # 1 THEN Bad("toolong", 2 * n)
                              ELSE [I0 EXCEPT !.mn = "reti", !.len = 2])
         ELSE IF Bit(w, 6) = 1 /\ SingleMn[op + 1] \in WordOnly THEN Bad("undefined", 2 * n)
         ELSE IF n < 1 + ns THEN Bad("truncated", 2 * n)
         ELSE IF n > 1 + ns THEN Bad("toolong", 2 * n)
         ELSE [I0 EXCEPT !.mn = SingleMn[op + 1], !.bw = Bit(w, 6), !.dst = SrcOp(as, r, IF ns = 1 THEN ws[2] ELSE 0),
                         !.cg = IsCG(as, r), !.len = 2 * n])
    ELSE Bad("unsupported", 2 * n)
Decode(b) == IF Len(b) = 0 \/ Len(b) % 2 = 1 \/ Len(b) > 6 THEN Bad("undefined", Len(b)) ELSE DecodeW(Words(b))
\* first words that start no instruction of the MSP430 CPU
UndefinedW(w) ==
    LET m == Matches(w) IN
    CASE m = {"double"} -> ~DstDefined(Bit(w, 7), Bits(w, 0, 4))
      [] m = {"single"} -> LET op == Bits(w, 7, 3) IN
                           op = 7 \/ (op = 6 /\ w # 4864) \/ (op < 6 /\ Bit(w, 6) = 1 /\ SingleMn[op + 1] \in WordOnly)
      [] m = {"jump"} -> FALSE
      [] OTHER -> TRUE
\* number of bytes the instruction that starts with word w occupies (0: not an instruction of the model)
LengthOf(w) ==
    LET m == Matches(w) IN
    IF UndefinedW(w) THEN 0
    ELSE IF m = {"jump"} THEN 2
    ELSE IF m = {"double"} THEN 2 + (IF SrcExt(Bits(w, 4, 2), Bits(w, 8, 4)) THEN 2 ELSE 0) + 2 * Bit(w, 7)
    ELSE (IF w = 4864 THEN 2 ELSE 2 + (IF SrcExt(Bits(w, 4, 2), Bits(w, 0, 4)) THEN 2 ELSE 0))

-----------------------------------------------------------------------------
(* Well-formed records and the reference encoder                             *)
SrcWF(o, cg) ==
    /\ o.v \in 0..65535
    /\ CASE o.m = "reg" -> o.r \in 0..15 /\ o.r # CG /\ o.v = 0 /\ ~cg     \* register-mode R3 reads as the constant 0
         [] o.m = "idx" -> o.r \in 0..15 /\ o.r \notin {SR, CG} /\ ~cg
         [] o.m = "abs" -> o.r = NoReg /\ ~cg
         [] o.m = "ind" -> o.r \in 0..15 /\ o.r \notin {SR, CG} /\ o.v = 0 /\ ~cg
         [] o.m = "inc" -> o.r \in 1..15 /\ o.r \notin {SR, CG} /\ o.v = 0 /\ ~cg
         [] o.m = "imm" -> o.r = NoReg /\ (cg => o.v \in CGValues)
         [] OTHER -> FALSE
DstWF(o) ==
    /\ o.v \in 0..65535
    /\ CASE o.m = "reg" -> o.r \in 0..15 /\ o.v = 0
         [] o.m = "idx" -> o.r \in 0..15 /\ o.r \notin {SR, CG}
         [] o.m = "abs" -> o.r = NoReg
         [] OTHER -> FALSE
InSeq(seq, x) == \E k \in 1..Len(seq) : seq[k] = x
WF(i) ==
    CASE InSeq(JumpMn, i.mn) -> i.bw = 0 /\ i.src = NoOp /\ i.dst = NoOp /\ ~i.cg /\ i.rel \in -1024..1022 /\ i.rel % 2 = 0 /\ i.len = 2
      [] InSeq(DoubleMn, i.mn) -> i.bw \in {0, 1} /\ SrcWF(i.src, i.cg) /\ DstWF(i.dst) /\ i.rel = 0
      [] i.mn = "reti" -> i = [I0 EXCEPT !.mn = "reti", !.len = 2]
      [] InSeq(SingleMn, i.mn) -> i.bw \in {0, 1} /\ (i.mn \in WordOnly => i.bw = 0) /\ i.src = NoOp /\ SrcWF(i.dst, i.cg) /\ i.rel = 0
      [] OTHER -> FALSE

\* <<As, register, extension words>> of a source operand
SrcEnc(o, cg) ==
    CASE o.m = "reg" -> <<0, o.r, <<>>>>
      [] o.m = "idx" -> <<1, o.r, <<o.v>>>>
      [] o.m = "abs" -> <<1, SR, <<o.v>>>>
      [] o.m = "ind" -> <<2, o.r, <<>>>>
      [] o.m = "inc" -> <<3, o.r, <<>>>>
      [] o.m = "imm" /\ ~cg -> <<3, PC, <<o.v>>>>
      [] o.m = "imm" /\ cg ->
            (CASE o.v = 0 -> <<0, CG, <<>>>> [] o.v = 1 -> <<1, CG, <<>>>> [] o.v = 2 -> <<2, CG, <<>>>>
               [] o.v = 65535 -> <<3, CG, <<>>>> [] o.v = 4 -> <<2, SR, <<>>>> [] o.v = 8 -> <<3, SR, <<>>>>)
DstEnc(o) ==
    CASE o.m = "reg" -> <<0, o.r, <<>>>>
      [] o.m = "idx" -> <<1, o.r, <<o.v>>>>
      [] o.m = "abs" -> <<1, SR, <<o.v>>>>
EncodeW(i) ==
    IF InSeq(JumpMn, i.mn) THEN <<P2(13) + (IndexOf(JumpMn, i.mn) - 1) * P2(10) + Pattern(i.rel \div 2, 10)>>
    ELSE IF i.mn = "reti" THEN <<4864>>
    ELSE IF InSeq(SingleMn, i.mn) THEN
        (LET s == SrcEnc(i.dst, i.cg) IN
         <<4 * P2(10) + (IndexOf(SingleMn, i.mn) - 1) * P2(7) + i.bw * 64 + s[1] * 16 + s[2]>> \o s[3])
    ELSE (LET s == SrcEnc(i.src, i.cg)  d == DstEnc(i.dst) IN
          <<(IndexOf(DoubleMn, i.mn) + 3) * P2(12) + s[2] * 256 + d[1] * 128 + i.bw * 64 + s[1] * 16 + d[2]>> \o s[3] \o d[3])
RECURSIVE WordBytes(_)
WordBytes(ws) == IF ws = <<>> THEN <<>> ELSE <<ws[1] % 256, ws[1] \div 256>> \o WordBytes(Tail(ws))
Encode(i) == WordBytes(EncodeW(i))
\* the length a well-formed record must carry
LenOf(i) == 2 * Len(EncodeW(i))

-----------------------------------------------------------------------------
(* Architectural register sets.  R2 is the status register: the flags are    *)
(* part of it.  A write to R3 is discarded but is still a write of the       *)
(* register field.                                                           *)
OpRegs(o) == IF o.m \in {"reg", "idx", "ind", "inc"} THEN {o.r} ELSE {}
AutoInc(o) == IF o.m = "inc" THEN {o.r} ELSE {}
NoFlags == {"mov", "bic", "bis", "swpb", "push", "call"}
NoWriteBack == {"cmp", "bit", "push", "call"}
Reads(i) ==
    IF InSeq(JumpMn, i.mn) THEN {PC} \cup (IF i.mn = "jmp" THEN {} ELSE {SR})
    ELSE IF i.mn = "reti" THEN {SP}
    ELSE IF InSeq(SingleMn, i.mn) THEN OpRegs(i.dst) \cup (IF i.mn = "rrc" THEN {SR} ELSE {}) \cup (IF i.mn \in {"push", "call"} THEN {SP} ELSE {})
                                        \cup (IF i.mn = "call" THEN {PC} ELSE {})
    ELSE OpRegs(i.src) \cup (IF i.dst.m = "reg" THEN (IF i.mn = "mov" THEN {} ELSE {i.dst.r}) ELSE OpRegs(i.dst))
         \cup (IF i.mn \in {"addc", "subc", "dadd"} THEN {SR} ELSE {})
Writes(i) ==
    IF InSeq(JumpMn, i.mn) THEN {PC}
    ELSE IF i.mn = "reti" THEN {SP, SR, PC}
    ELSE IF InSeq(SingleMn, i.mn) THEN
        (IF i.dst.m = "reg" /\ i.mn \notin NoWriteBack THEN {i.dst.r} ELSE {}) \cup AutoInc(i.dst)
        \cup (IF i.mn \in NoFlags THEN {} ELSE {SR}) \cup (IF i.mn \in {"push", "call"} THEN {SP} ELSE {})
        \cup (IF i.mn = "call" THEN {PC} ELSE {})
    ELSE (IF i.dst.m = "reg" /\ i.mn \notin NoWriteBack THEN {i.dst.r} ELSE {}) \cup AutoInc(i.src)
         \cup (IF i.mn \in NoFlags THEN {} ELSE {SR})

-----------------------------------------------------------------------------
(* Operand tokens of a printed line: <<kind, number, text>>, kind in          *)
(*  r register  i integer  l label (number = its address)  # & @ + ( ) ,      *)
(*  x unknown glyph                                                           *)
RECURSIVE PatR(_, _)
PatR(ops, k) == IF k > Len(ops) THEN "" ELSE ops[k][1] \o PatR(ops, k + 1)
Pat(ops) == PatR(ops, 1)
Num(ops, k) == ops[k][2]
Slice(ops, a, b) == [k \in 1..(b - a + 1) |-> ops[a + k - 1]]
CommaAt(ops) == {k \in 1..Len(ops) : ops[k][1] = ","}

\* a source operand as written; "nomode": the architecture has no such addressing mode
\* (R2 / R3 in an indirect, autoincrement or indexed slot select the constant generators, @PC+ is the
\* immediate mode and takes its extension word)
SrcText(ops) ==
    LET p == Pat(ops) IN
    CASE p = "r" -> IF Num(ops, 1) = CG THEN Imm(0) ELSE Reg(Num(ops, 1))
      [] p \in {"#i", "#l"} -> Imm(W16(Num(ops, 2)))
      [] p \in {"&i", "&l"} -> Abs(W16(Num(ops, 2)))
      [] p = "@r" -> IF Num(ops, 2) \in {SR, CG} THEN NoOp ELSE Ind(Num(ops, 2))
      [] p = "@r+" -> IF Num(ops, 2) \in {SR, CG, PC} THEN NoOp ELSE Inc(Num(ops, 2))
      [] p = "i(r)" -> IF Num(ops, 3) \in {SR, CG} THEN NoOp ELSE Idx(Num(ops, 3), W16(Num(ops, 1)))
      [] p = "i" -> Idx(PC, W16(Num(ops, 1)))                                \* reference disassembler: symbolic mode, raw X
      [] OTHER -> [NoOp EXCEPT !.m = "bad"]
DstText(ops) ==
    LET p == Pat(ops) IN
    CASE p = "r" -> Reg(Num(ops, 1))
      [] p \in {"&i", "&l"} -> Abs(W16(Num(ops, 2)))
      [] p = "i(r)" -> IF Num(ops, 3) \in {SR, CG} THEN NoOp ELSE Idx(Num(ops, 3), W16(Num(ops, 1)))
      [] p = "i" -> Idx(PC, W16(Num(ops, 1)))
      [] OTHER -> [NoOp EXCEPT !.m = "bad"]
\* a destination operand read as a source (rla dst = add dst, dst)
AsSrc(o) == IF o.m = "reg" /\ o.r = CG THEN Imm(0) ELSE o

\* mnemonic spellings: base, base.w (word), base.b (byte)
Suffixed(base) == {<<base, 0>>, <<base \o ".w", 0>>, <<base \o ".b", 1>>}
BaseNames == {DoubleMn[k] : k \in 1..12} \cup {"rrc", "rra", "push", "swpb", "sxt", "call"}
             \cup {"adc", "clr", "dadc", "dec", "decd", "inc", "incd", "inv", "pop", "rla", "rlc", "sbc", "tst"}
Spellings == UNION {{<<s[1], base, s[2]>> : s \in Suffixed(base)} : base \in BaseNames}
MnParses(mn) == {s \in Spellings : s[1] = mn}
JumpAlias == {<<"jne", "jne">>, <<"jnz", "jne">>, <<"jeq", "jeq">>, <<"jz", "jeq">>, <<"jnc", "jnc">>, <<"jlo", "jnc">>,
              <<"jc", "jc">>, <<"jhs", "jc">>, <<"jn", "jn">>, <<"jge", "jge">>, <<"jl", "jl">>, <<"jmp", "jmp">>}
D2(mn, bw, s, d) == IF s.m = "bad" \/ d.m = "bad" THEN NoAsm ELSE IF s.m = "none" \/ d.m = "none" THEN NoMode
                    ELSE [I0 EXCEPT !.mn = mn, !.bw = bw, !.src = s, !.dst = d]
S1(mn, bw, o) == IF o.m = "bad" THEN NoAsm ELSE IF o.m = "none" THEN NoMode
                 ELSE IF bw = 1 /\ mn \in WordOnly THEN NoAsm ELSE [I0 EXCEPT !.mn = mn, !.bw = bw, !.dst = o]
\* the emulated instructions of the manual that take one operand: <<core mnemonic, source>>
Emul1 == [adc |-> <<"addc", Imm(0)>>, clr |-> <<"mov", Imm(0)>>, dadc |-> <<"dadd", Imm(0)>>, dec |-> <<"sub", Imm(1)>>,
          decd |-> <<"sub", Imm(2)>>, inc |-> <<"add", Imm(1)>>, incd |-> <<"add", Imm(2)>>, inv |-> <<"xor", Imm(65535)>>,
          pop |-> <<"mov", Inc(SP)>>, sbc |-> <<"subc", Imm(0)>>, tst |-> <<"cmp", Imm(0)>>]
\* ... and those without operand: <<core mnemonic, source, destination>>
Emul0 == [ret |-> <<"mov", Inc(SP), Reg(PC)>>, nop |-> <<"mov", Imm(0), Reg(CG)>>,
          clrc |-> <<"bic", Imm(1), Reg(SR)>>, clrz |-> <<"bic", Imm(2), Reg(SR)>>, clrn |-> <<"bic", Imm(4), Reg(SR)>>,
          dint |-> <<"bic", Imm(8), Reg(SR)>>, setc |-> <<"bis", Imm(1), Reg(SR)>>, setz |-> <<"bis", Imm(2), Reg(SR)>>,
          setn |-> <<"bis", Imm(4), Reg(SR)>>, eint |-> <<"bis", Imm(8), Reg(SR)>>]
Asm(mn0, ops, pc) ==
    LET n == Len(ops)  cs == CommaAt(ops)  ps == MnParses(mn0) IN
    IF \E a \in JumpAlias : a[1] = mn0 THEN
        (IF Pat(ops) \in {"l", "i"}
         THEN [I0 EXCEPT !.mn = (CHOOSE a \in JumpAlias : a[1] = mn0)[2],
                         !.rel = IF ops[1][1] = "l" THEN Num(ops, 1) - (pc + 2) ELSE Num(ops, 1) - 2]   \* "$+N"
         ELSE NoAsm)
    ELSE IF mn0 = "reti" THEN (IF n = 0 THEN [I0 EXCEPT !.mn = "reti"] ELSE NoAsm)
    ELSE IF mn0 \in DOMAIN Emul0 THEN
        (IF n = 0 THEN [I0 EXCEPT !.mn = Emul0[mn0][1], !.src = Emul0[mn0][2], !.dst = Emul0[mn0][3]] ELSE NoAsm)
    ELSE IF mn0 = "br" THEN (IF cs = {} /\ n > 0 THEN D2("mov", 0, SrcText(ops), Reg(PC)) ELSE NoAsm)
    ELSE IF Cardinality(ps) # 1 THEN NoAsm
    ELSE
        (LET s == CHOOSE x \in ps : TRUE  base == s[2]  bw == s[3] IN
         IF InSeq(DoubleMn, base) THEN
             (IF Cardinality(cs) # 1 THEN NoAsm
              ELSE LET c == CHOOSE k \in cs : TRUE IN
                   IF c = 1 \/ c = n THEN NoAsm
                   ELSE D2(base, bw, SrcText(Slice(ops, 1, c - 1)), DstText(Slice(ops, c + 1, n))))
         ELSE IF cs # {} \/ n = 0 THEN NoAsm
         ELSE IF InSeq(SingleMn, base) THEN S1(base, bw, SrcText(ops))
         ELSE IF base \in {"rla", "rlc"} THEN
             (LET d == DstText(ops) IN D2(IF base = "rla" THEN "add" ELSE "addc", bw, AsSrc(d), d))
         ELSE D2(Emul1[base][1], bw, Emul1[base][2], DstText(ops)))

-----------------------------------------------------------------------------
(* Operand ranges of the printed forms: <<what, lo, hi, alignment>>          *)
(*  imm   "#N" immediates and "X(Rn)" offsets: a 16-bit pattern, written      *)
(*        signed or unsigned                                                 *)
(*  jump  label distance from the address of the next instruction            *)
MRanges == {<<"imm", -32768, 65535, 1>>, <<"jump", -1024, 1022, 2>>}
=============================================================================
