-------------------------------- MODULE IRC --------------------------------
(***************************************************************************)
(* Iterated register coalescing as built in                                 *)
(*   ppci/codegen/registerallocator.py : GraphColoringRegisterAllocator     *)
(* (George & Appel's work-list algorithm, Briggs / George coalescing tests, *)
(* the pq-test of Smith, Ramsey & Holloway for aliasing register classes,    *)
(* optimistic spilling), one operator per method of the class, operating on  *)
(* an explicit allocator state `s'.  The order in which the code's           *)
(* OrderedSet.pop() / min() pick elements is abstracted: every element is    *)
(* possible.  Loops over neighbours are order independent and are written    *)
(* as their combined effect.                                                 *)
(*                                                                          *)
(* Instance  I = [N      number of interference-graph nodes (1..N),          *)
(*                cls    class of every node,                                *)
(*                pre    the machine register of a pre-coloured node, else 0,*)
(*                E      interference edges (set of two-element sets),        *)
(*                M      the move instructions <<dst node, src node>>,        *)
(*                R, cregs, ali  machine registers 1..R, the registers of     *)
(*                       every class (cls_regs), and for each register the    *)
(*                       set of registers it overlaps (itself included) —     *)
(*                       arch.info.alias,                                     *)
(*                sub    sub[c1][c2] = issubclass(c1, c2)]                    *)
(*                                                                          *)
(* Allocator state s (names as in the code):                                 *)
(*   adj, madj        MaskableGraph.adj_map / _masked_adj                     *)
(*   nodes            ig.nodes (unmasked, not merged away)                    *)
(*   rep              ig.temp_map: original node -> node that now stands for it*)
(*   ncls, reg, nmoves   node.reg_class, node.reg (0 = None), node.moves       *)
(*   simplifyWL, freezeWL, spillWL, stack      the node work lists             *)
(*   wlMoves, active, coalesced, constrained, frozen   the move sets           *)
(*   nb               the _num_blocked cache                                  *)
(*   spilled          result of assign_colors                                 *)
(*   err              "" or the exception the code would raise                *)
(*   pot              (history, not in the code) the potential spills chosen   *)
(*                    by select_spill: the only nodes allowed on the simplify  *)
(*                    work list without being trivially colourable             *)
(***************************************************************************)
EXTENDS Integers, Sequences, FiniteSets, TLC

MaxOf(S) == CHOOSE x \in S : \A y \in S : y <= x
RECURSIVE SumOver(_, _)
SumOver(fn, S) == IF S = {} THEN 0 ELSE LET x == CHOOSE y \in S : TRUE IN fn[x] + SumOver(fn, S \ {x})

NodesOf(I) == 1..I.N
RegsOfClass(I, c) == I.cregs[c]
K(I, c) == Cardinality(RegsOfClass(I, c))
\* q(B, C): how many class-B registers one class-C register can block
Q(I, B, C) == LET S == {Cardinality(I.ali[r] \cap RegsOfClass(I, B)) : r \in RegsOfClass(I, C)}
              IN IF S = {} THEN 0 ELSE MaxOf(S)
Precolored(I) == {n \in NodesOf(I) : I.pre[n] # 0}
MoveIds(I) == 1..Len(I.M)
Dst(I, s, m) == s.rep[I.M[m][1]]        \* self.node(move.defined_registers[0])
Src(I, s, m) == s.rep[I.M[m][2]]        \* self.node(move.used_registers[0])

IsColored(s, n) == s.reg[n] # 0
CalcNumBlocked(I, s, n) == SumOver([j \in s.adj[n] |-> Q(I, s.ncls[n], s.ncls[j])], s.adj[n])
IsColorable(I, s, n) == IsColored(s, n) \/ s.nb[n] < K(I, s.ncls[n])
IsMoveRelated(s, n) == s.nmoves[n] # {}

\* Graph.has_edge asserts that both nodes are in the graph
GraphHasEdge(s, a, b) == b \in s.adj[a]
\* registerallocator.has_edge: an edge, or an edge of a register aliasing a pre-coloured end
AliasNodes(I, s, t) == {t2 \in NodesOf(I) : I.pre[t2] # 0 /\ I.pre[t2] \in I.ali[s.reg[t]]}
HasEdge(I, s, t, r) ==
    \/ GraphHasEdge(s, t, r)
    \/ t \in Precolored(I) /\ \E t2 \in AliasNodes(I, s, t) : GraphHasEdge(s, s.rep[t2], r)
    \/ r \in Precolored(I) /\ \E r2 \in AliasNodes(I, s, r) : GraphHasEdge(s, t, s.rep[r2])

---------------------------------------------------------------------------
\* init_data
InitState(I) ==
    LET adj0 == [n \in NodesOf(I) |-> {m \in NodesOf(I) : m # n /\ {n, m} \in I.E}]
        base == [adj |-> adj0, madj |-> [n \in NodesOf(I) |-> {}], nodes |-> NodesOf(I),
                 rep |-> [n \in NodesOf(I) |-> n], ncls |-> I.cls, reg |-> I.pre,
                 nmoves |-> [n \in NodesOf(I) |-> {m \in MoveIds(I) : I.M[m][1] = n \/ I.M[m][2] = n}]]
        nb0 == [n \in NodesOf(I) |-> SumOver([j \in adj0[n] |-> Q(I, I.cls[n], I.cls[j])], adj0[n])]
        col(n) == I.pre[n] # 0 \/ nb0[n] < K(I, I.cls[n])
        free == NodesOf(I) \ Precolored(I)
    IN base @@ [nb |-> nb0,
                spillWL |-> {n \in free : ~col(n)},
                freezeWL |-> {n \in free : col(n) /\ base.nmoves[n] # {}},
                simplifyWL |-> {n \in free : col(n) /\ base.nmoves[n] = {}},
                stack |-> <<>>,
                wlMoves |-> MoveIds(I), active |-> {}, coalesced |-> {}, constrained |-> {}, frozen |-> {},
                spilled |-> {}, err |-> "", pot |-> {}]

Fail(s, what) == [s EXCEPT !.err = IF s.err = "" THEN what ELSE s.err]

\* release_pressure(m, cls) for every m in S (only cached nodes: the non-pre-coloured ones)
Release(I, s, S, c) ==
    [s EXCEPT !.nb = [m \in NodesOf(I) |-> IF m \in S /\ m \notin Precolored(I)
                                             THEN s.nb[m] - Q(I, s.ncls[m], c) ELSE s.nb[m]]]

\* enable_moves(nodes)
EnableMoves(s, S) ==
    LET mv == UNION {s.nmoves[n] : n \in S} \cap s.active
    IN [s EXCEPT !.active = s.active \ mv, !.wlMoves = s.wlMoves \cup mv]

\* decrement_degree(m) for every m in S
DecrementDegree(I, s, S) ==
    LET go == {m \in S : m \in s.spillWL /\ IsColorable(I, s, m)}
        s1 == EnableMoves(s, go \cup UNION {s.adj[m] : m \in go})
    IN [s1 EXCEPT !.spillWL = s.spillWL \ go,
                  !.freezeWL = s.freezeWL \cup {m \in go : IsMoveRelated(s, m)},
                  !.simplifyWL = s.simplifyWL \cup {m \in go : ~IsMoveRelated(s, m)}]

\* MaskableGraph.mask_node
MaskNode(I, s, n) ==
    LET nbrs == s.adj[n] \cup s.madj[n] IN
    [s EXCEPT !.adj = [x \in NodesOf(I) |-> IF x \in nbrs THEN s.adj[x] \ {n} ELSE s.adj[x]],
              !.madj = [x \in NodesOf(I) |-> IF x \in nbrs THEN s.madj[x] \cup {n} ELSE s.madj[x]],
              !.nodes = s.nodes \ {n}]
UnmaskNode(I, s, n) ==
    LET nbrs == s.adj[n] \cup s.madj[n] IN
    [s EXCEPT !.adj = [x \in NodesOf(I) |-> IF x \in nbrs THEN s.adj[x] \cup {n} ELSE s.adj[x]],
              !.madj = [x \in NodesOf(I) |-> IF x \in nbrs THEN s.madj[x] \ {n} ELSE s.madj[x]],
              !.nodes = s.nodes \cup {n}]

\* simplify(): n was popped from simplify_worklist
Simplify(I, s, n) ==
    LET s1 == [s EXCEPT !.simplifyWL = s.simplifyWL \ {n}, !.stack = Append(s.stack, n)]
        s2 == MaskNode(I, s1, n)
        s3 == Release(I, s2, s2.adj[n], s2.ncls[n])
    IN DecrementDegree(I, s3, s3.adj[n])

UnlinkMove(I, s, m) ==
    [s EXCEPT !.nmoves = [x \in NodesOf(I) |-> IF x \in {Src(I, s, m), Dst(I, s, m)} THEN s.nmoves[x] \ {m}
                                                ELSE s.nmoves[x]]]

\* add_worklist(u): freeze_worklist.remove(u) raises KeyError when u is not there
AddWorklist(I, s, u) ==
    IF u \notin Precolored(I) /\ ~IsMoveRelated(s, u) /\ IsColorable(I, s, u)
    THEN IF u \in s.freezeWL
         THEN [s EXCEPT !.freezeWL = s.freezeWL \ {u}, !.simplifyWL = s.simplifyWL \cup {u}]
         ELSE Fail(s, "add_worklist: KeyError freeze_worklist.remove")
    ELSE s

\* ok(t, r): the George test for one neighbour
Ok(I, s, t, r) == IsColored(s, t) \/ IsColorable(I, s, t) \/ HasEdge(I, s, t, r)

CommonClassExists(I, c1, c2) == I.sub[c1][c2] \/ I.sub[c2][c1]
CommonClass(I, c1, c2) == IF I.sub[c1][c2] THEN c1 ELSE c2
\* conservative(u, v): the Briggs test with the pq measure
Conservative(I, s, u, v) ==
    LET ns == s.adj[u] \cup s.adj[v]
        B == CommonClass(I, s.ncls[u], s.ncls[v])
        heavy == {j \in ns : ~IsColorable(I, s, j)}
    IN SumOver([j \in heavy |-> Q(I, B, s.ncls[j])], heavy) < K(I, B)

\* Graph.combine + InterferenceGraph.combine + MaskableGraph.combine: v merges into u
GraphCombine(I, s, u, v) ==
    LET sv == IF v \in s.nodes THEN s ELSE UnmaskNode(I, s, v)     \* "node m is going away, unmask it first"
        av == sv.adj[v]                                             \* unmasked neighbours of v
        mv == sv.madj[v]                                            \* masked neighbours of v
    IN [sv EXCEPT
          !.adj = [x \in NodesOf(I) |->
                     IF x = u THEN (sv.adj[u] \cup av) \ {u, v}
                     ELSE IF x = v THEN {}
                     ELSE IF x \in av THEN (sv.adj[x] \ {v}) \cup {u}
                     ELSE IF x \in mv THEN (sv.adj[x] \ {v}) \cup {u}    \* masked neighbour keeps the end of the edge
                     ELSE sv.adj[x]],
          !.madj = [x \in NodesOf(I) |->
                     IF x = u THEN sv.madj[u] \cup mv
                     ELSE IF x = v THEN {}
                     ELSE sv.madj[x]],
          !.nodes = sv.nodes \ {v},
          !.rep = [x \in NodesOf(I) |-> IF sv.rep[x] = v THEN u ELSE sv.rep[x]],
          !.nmoves = [x \in NodesOf(I) |-> IF x = u THEN sv.nmoves[u] \cup sv.nmoves[v] ELSE sv.nmoves[x]]]

\* combine(u, v)
Combine(I, s, u, v) ==
    LET s1 == IF v \in s.freezeWL THEN [s EXCEPT !.freezeWL = s.freezeWL \ {v}]
              ELSE IF v \in s.spillWL THEN [s EXCEPT !.spillWL = s.spillWL \ {v}]
              ELSE Fail(s, "combine: KeyError spill_worklist.remove")
        s2 == Release(I, Release(I, s1, s1.adj[u], s1.ncls[u]), s1.adj[v], s1.ncls[v])
        s3 == [s2 EXCEPT !.ncls[u] = CommonClass(I, s2.ncls[u], s2.ncls[v])]
        s4 == GraphCombine(I, s3, u, v)
        s5 == IF u \notin Precolored(I) THEN [s4 EXCEPT !.nb[u] = CalcNumBlocked(I, s4, u)] ELSE s4
        s6 == [s5 EXCEPT !.nb = [t \in NodesOf(I) |-> IF t \in s5.adj[u] /\ t \notin Precolored(I)
                                                       THEN s5.nb[t] + Q(I, s5.ncls[t], s5.ncls[u]) ELSE s5.nb[t]]]
        s7 == DecrementDegree(I, s6, s6.adj[u])
    IN IF ~IsColorable(I, s7, u) /\ u \in s7.freezeWL
       THEN [s7 EXCEPT !.freezeWL = s7.freezeWL \ {u}, !.spillWL = s7.spillWL \cup {u}]
       ELSE s7

\* coalesc(): m was popped from worklistMoves
CoalesceOutcome(I, s, m) ==
    LET x == Dst(I, s, m)  y == Src(I, s, m)
        u == IF y \in Precolored(I) THEN y ELSE x
        v == IF y \in Precolored(I) THEN x ELSE y
    IN IF u = v THEN "identity"
       ELSE IF v \in Precolored(I) \/ HasEdge(I, s, u, v) THEN "constrained"
       ELSE IF \/ (IsColored(s, u) /\ I.sub[s.ncls[u]][s.ncls[v]] /\ \A t \in s.adj[v] : Ok(I, s, t, u))
               \/ (~IsColored(s, u) /\ Conservative(I, s, u, v)) THEN "coalesced"
       ELSE "active"
Coalesce(I, s, m) ==
    LET x == Dst(I, s, m)  y == Src(I, s, m)
        u == IF y \in Precolored(I) THEN y ELSE x
        v == IF y \in Precolored(I) THEN x ELSE y
        s0 == [s EXCEPT !.wlMoves = s.wlMoves \ {m}]
        out == CoalesceOutcome(I, s, m)
    IN IF ~IsColored(s, u) /\ ~CommonClassExists(I, s.ncls[u], s.ncls[v]) /\ u # v /\ out \in {"coalesced", "active"}
       THEN Fail(s0, "common_reg_class: RuntimeError")
       ELSE CASE out = "identity" ->
                   AddWorklist(I, UnlinkMove(I, [s0 EXCEPT !.coalesced = s0.coalesced \cup {m}], m), u)
              [] out = "constrained" ->
                   AddWorklist(I, AddWorklist(I, UnlinkMove(I, [s0 EXCEPT !.constrained = s0.constrained \cup {m}], m), u), v)
              [] out = "coalesced" ->
                   AddWorklist(I, Combine(I, UnlinkMove(I, [s0 EXCEPT !.coalesced = s0.coalesced \cup {m}], m), u, v), u)
              [] OTHER -> [s0 EXCEPT !.active = s0.active \cup {m}]

\* freeze_moves(u)
RECURSIVE FreezeMovesOf(_, _, _, _)
FreezeMovesOf(I, s, u, ms) ==
    IF ms = {} THEN s
    ELSE LET m == CHOOSE z \in ms : TRUE
             s1 == IF m \in s.active THEN [s EXCEPT !.active = s.active \ {m}]
                   ELSE IF m \in s.wlMoves THEN [s EXCEPT !.wlMoves = s.wlMoves \ {m}]
                   ELSE Fail(s, "freeze_moves: KeyError worklistMoves.remove")
             s2 == UnlinkMove(I, s1, m)
             s3 == [s2 EXCEPT !.frozen = s2.frozen \cup {m}]
             v == IF u = Dst(I, s3, m) THEN Src(I, s3, m) ELSE Dst(I, s3, m)
             s4 == IF v \notin Precolored(I) /\ ~IsMoveRelated(s3, v) /\ IsColorable(I, s3, v)
                   THEN IF v \in s3.freezeWL
                        THEN [s3 EXCEPT !.freezeWL = s3.freezeWL \ {v}, !.simplifyWL = s3.simplifyWL \cup {v}]
                        ELSE Fail(s3, "freeze_moves: assert v in freeze_worklist")
                   ELSE s3
         IN FreezeMovesOf(I, s4, u, ms \ {m})
FreezeMoves(I, s, u) == FreezeMovesOf(I, s, u, s.nmoves[u])

\* freeze(): u was popped from freeze_worklist
Freeze(I, s, u) ==
    FreezeMoves(I, [s EXCEPT !.freezeWL = s.freezeWL \ {u}, !.simplifyWL = s.simplifyWL \cup {u}], u)

\* select_spill(): the node of lowest priority (any node here)
SelectSpill(I, s, n) ==
    FreezeMoves(I, [s EXCEPT !.spillWL = s.spillWL \ {n}, !.simplifyWL = s.simplifyWL \cup {n},
                              !.pot = s.pot \cup {n}], n)

\* assign_colors: one node of the stack (the last one) gets its register or is spilled
TakenRegs(I, s, n) == UNION {I.ali[s.reg[m]] : m \in {x \in s.adj[n] : s.reg[x] # 0}}
UncolouredNeighbours(s, n) == {x \in s.adj[n] : s.reg[x] = 0}
AssignOne(I, s, r) ==       \* r = the chosen register, 0 = none available
    LET n == s.stack[Len(s.stack)]
        s1 == UnmaskNode(I, [s EXCEPT !.stack = SubSeq(s.stack, 1, Len(s.stack) - 1)], n)
    IN IF r = 0 THEN [s1 EXCEPT !.spilled = s1.spilled \cup {n}] ELSE [s1 EXCEPT !.reg[n] = r]
OkRegs(I, s) ==
    LET n == s.stack[Len(s.stack)]
        s1 == UnmaskNode(I, s, n)
    IN RegsOfClass(I, s1.ncls[n]) \ TakenRegs(I, s1, n)

---------------------------------------------------------------------------
(* Invariants (Appel's, the ones in the dormant check_invariants, plus the  *)
(* result).                                                                 *)
Working(s) == s.simplifyWL # {} \/ s.wlMoves # {} \/ s.freezeWL # {} \/ s.spillWL # {}

NoException(s) == s.err = ""
WorklistInvariants(I, s) ==
    /\ \A u \in s.simplifyWL : (u \in s.pot \/ IsColorable(I, s, u)) /\ ~IsMoveRelated(s, u)
    /\ \A u \in s.freezeWL : IsColorable(I, s, u) /\ IsMoveRelated(s, u)
    /\ \A u \in s.spillWL : ~IsColorable(I, s, u)
MovesPartition(I, s) ==
    /\ s.wlMoves \cup s.active \cup s.coalesced \cup s.constrained \cup s.frozen = MoveIds(I)
    /\ Cardinality(s.wlMoves) + Cardinality(s.active) + Cardinality(s.coalesced)
       + Cardinality(s.constrained) + Cardinality(s.frozen) = Len(I.M)
\* every node that still stands for itself is pre-coloured or in exactly one place
StackSet(s) == {s.stack[k] : k \in 1..Len(s.stack)}
NodesPartition(I, s) ==
    LET alive == {n \in NodesOf(I) : s.rep[n] = n} \ Precolored(I) IN
    /\ s.simplifyWL \cup s.freezeWL \cup s.spillWL \cup StackSet(s) = alive
    /\ Cardinality(s.simplifyWL) + Cardinality(s.freezeWL) + Cardinality(s.spillWL) + Len(s.stack)
         = Cardinality(alive)
\* "This invariant should hold: num_blocked == self.calc_num_blocked(node)"
CacheCoherent(I, s) ==
    \A n \in (s.nodes \ Precolored(I)) : s.nb[n] = CalcNumBlocked(I, s, n)
\* a move is linked to its end points exactly while it may still be coalesced
MovesLinked(I, s) ==
    \A m \in MoveIds(I) : (m \in s.wlMoves \cup s.active) <=> (m \in s.nmoves[Src(I, s, m)] /\ m \in s.nmoves[Dst(I, s, m)])
\* interference is never lost: two original nodes that interfere are still separated
EdgesPreserved(I, s) ==
    \A e \in I.E : \A a \in e : \A b \in e :
        a # b => LET ra == s.rep[a]  rb == s.rep[b] IN
                 ra # rb /\ (rb \in s.adj[ra] \cup s.madj[ra])
\* the result: after assign_colors, interfering nodes that both got a register do not overlap
ColourOf(s, a) == s.reg[s.rep[a]]
ProperColouring(I, s) ==
    \A e \in I.E : \A a \in e : \A b \in e :
        (a # b /\ ColourOf(s, a) # 0 /\ ColourOf(s, b) # 0) => ColourOf(s, b) \notin I.ali[ColourOf(s, a)]
ClassRespected(I, s) ==
    \A n \in NodesOf(I) : (s.rep[n] = n /\ s.reg[n] # 0 /\ I.pre[n] = 0) => s.reg[n] \in I.cregs[s.ncls[n]]
=============================================================================
