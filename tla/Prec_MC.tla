------------------------------ MODULE Prec_MC ------------------------------
(* Idiom M for Prec.tla: the printer / reader pair of the C expression grammar    *)
(* checked on every expression tree with at most NFull operators over the full    *)
(* operator table, at most NRep operators over one operator per level and         *)
(* associativity, every tree of the replay domain, and the hand-written readings. *)
EXTENDS Prec
CONSTANTS NFull, NRep, NTyped, NLeaves, GenFull
VARIABLES mode, root, t, j
vars == <<mode, root, t, j>>

LeavesFull == IF NLeaves = 1 THEN {I("a")} ELSE {I("a"), [k |-> "num", n |-> "1"]}
LeavesRep  == {I("a")}
TypedTrees == TypedTreesN(NTyped, GenFull)

\* constant-level sets: TLC computes them once
FullTrees == TreesUpTo(NFull, FullTable, LeavesFull)
RepTrees  == TreesUpTo(NRep, RepTable, LeavesRep)
\* fan-out: the first step picks the family and the root of the tree, the second the tree (so that all workers share)
RootOf(x) == IF x.k \in {"bin", "pre", "post", "mem"} THEN <<x.k, x.op>> ELSE <<x.k, "">>
Roots == {RootOf(x) : x \in TreesUpTo(1, FullTable, {I("a")})}
Init == mode = "start" /\ root = <<>> /\ t = Err /\ j = 0
PickRoot  == mode = "start" /\ mode' \in {"full", "rep", "typed"} /\ root' \in Roots /\ t' = Err /\ j' = 0
PickFull  == mode = "full"  /\ t = Err /\ t' \in {x \in FullTrees : RootOf(x) = root} /\ UNCHANGED <<mode, root, j>>
PickRep   == mode = "rep"   /\ t = Err /\ t' \in {x \in RepTrees : RootOf(x) = root} /\ UNCHANGED <<mode, root, j>>
PickTyped == mode = "typed" /\ t = Err /\ t' \in {x \in TypedTrees : RootOf(x) = root} /\ UNCHANGED <<mode, root, j>>
PickKnown == mode = "start" /\ mode' = "known" /\ j' \in 1..Len(Known) /\ t' = Err /\ root' = <<>>
Next == PickRoot \/ PickFull \/ PickRep \/ PickTyped \/ PickKnown

\* every action is enabled in a reachable state (the state after PickRoot with that family and root), so an exhaustive
\* search takes every action (TLC's -coverage cannot be used here: its cost model unfolds the recursive reader)
ASSUME /\ Roots # {}
       /\ \A r \in Roots : \E x \in FullTrees : RootOf(x) = r
       /\ \E x \in RepTrees : RootOf(x) \in Roots
       /\ \E x \in TypedTrees : RootOf(x) \in Roots
       /\ Len(Known) > 0

Tree == mode \in {"full", "rep", "typed"} /\ t # Err
TypeOK        == mode \in {"start", "full", "rep", "typed", "known"} /\ j \in 0..Len(Known)
LawRoundTrip  == Tree => RoundTrip(t)
LawFullParens == Tree => RoundTripFull(t)
LawMinimal    == Tree => Minimal(t)
LawShorter    == Tree => Len(PrintMin(t)) <= Len(PrintFull(t))
LawKnown      == mode = "known" => KnownOK(j)
\* what the comparison with ppci's AST forgets is only -> and conversions: it keeps every tree of the replay domain apart
LawNormKeeps  == (mode = "typed" /\ t # Err) => (Norm(Norm(t)) = Norm(t) /\ Parse(PrintMin(Norm(t))) = Norm(t))
=============================================================================
