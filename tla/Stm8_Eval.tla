----------------------------- MODULE Stm8_Eval -----------------------------
(* Idiom E for the stm8 part of X12: one state per record observed on the    *)
(* real ppci code (harness/mos6502gen.py); one invariant per clause.         *)
(*                                                                           *)
(* t = "enc": one instruction instance of ppci.arch.stm8: mn, ops = the text *)
(*     ppci printed, tokenised; pc = address of the instruction; out = [ok,  *)
(*     exc, bytes]: what encode() / the assembler on the printed text        *)
(*     produced                                                              *)
EXTENDS Stm8, Json, IOUtils
Recs == JsonDeserialize(IOEnv.TRACE_FILE)
ChunkLen == 16
NChunks == (Len(Recs) + ChunkLen - 1) \div ChunkLen
VARIABLES chunk, idx
vars == <<chunk, idx>>
Init == chunk = 0 /\ idx = 0
PickChunk == chunk = 0 /\ chunk' \in 1..NChunks /\ idx' = 0
PickRec == chunk > 0 /\ idx = 0 /\ chunk' = chunk
           /\ idx' \in ((chunk - 1) * ChunkLen + 1)..(IF chunk * ChunkLen < Len(Recs) THEN chunk * ChunkLen ELSE Len(Recs))
Next == PickChunk \/ PickRec

AsmOf(r) == Asm(r.mn, r.ops, r.pc)
IsEnc == idx > 0 /\ Recs[idx].t = "enc"
\* not a verdict (reported as a note): the printed line is outside the modelled assembly notation
SyntaxKnown == IsEnc => AsmOf(Recs[idx]) # NoAsm
\* X12: whatever ppci accepts and emits decodes (pre-code, opcode, big-endian operands in the manual's byte order) to
\* the operation and operands it prints.  Bytes that are no instruction, too short or too long are violations, and so
\* is a printed (mnemonic, operands) combination the instruction set does not have: it agrees with no bytes.
\* not a verdict (note): a printed memory address / offset / pointer is negative; the manual's addresses are unsigned
NegAddr(a) == \E j \in 1..Len(a.o) : a.o[j].k \in {"mem", "ptr"} /\ a.o[j].v < 0
AddressesUnsigned == IsEnc => \E a \in {AsmOf(Recs[idx])} : a # NoAsm => ~NegAddr(a)
EncodingAgrees == (IsEnc /\ Recs[idx].out.ok) =>
    \E a \in {AsmOf(Recs[idx])} : (a # NoAsm /\ ~NegAddr(a)) => Agrees(Decode(Recs[idx].out.bytes), a)
=============================================================================
