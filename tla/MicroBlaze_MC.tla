--------------------------- MODULE MicroBlaze_MC ---------------------------
(* Idiom M for MicroBlaze.tla: laws of the MicroBlaze model.                 *)
(*  family "mb.w"    instruction words: every opcode x rD / rA field samples  *)
(*        (all 32 values of the field that carries flags or a condition) x   *)
(*        low halfwords (type A: rB samples x every value of the function    *)
(*        bits 10:0): exactly one class matches; a defined instruction is    *)
(*        well-formed and re-encodes to the same word; split / join laws     *)
(*  family "mb.ln"   printed reference lines x registers x labelled boundary *)
(*        operands, label forms (imm prefix + instruction, 8 bytes) at       *)
(*        displacements where the 16-bit halves carry:                       *)
(*        Decode(Encode(Asm(line))) = Asm(line)                              *)
(*  family "mb.pre"  the imm prefix: a 32-bit value splits into the prefix   *)
(*        pattern and the low half and joins back                            *)
EXTENDS MicroBlaze, SequencesExt
CONSTANTS Deep, Fams
VARIABLES fam, pick

Row(r) == [mns |-> SetToSeq(r[1]), pat |-> r[2], lo |-> r[3], hi |-> r[4], align |-> r[5],
           vals |-> SetToSeq({[v |-> v, inside |-> Inside(r[3], r[4], r[5], v)] : v \in Labelled(r[3], r[4], r[5])})]
Table == [rows |-> SetToSeq({Row(r) : r \in Ranges})]

None == [k |-> "none"]
Rg(r) == <<"r", r, "">>
Im(v) == <<"i", v, "">>
Lb == <<"l", 0, "L_t">>
ImmsIn(r) == {v \in Labelled(r[3], r[4], r[5]) : Inside(r[3], r[4], r[5], v)}
RangeOf(mn, pat) == CHOOSE r \in Ranges : mn \in r[1] /\ r[2] = pat
RS == IF Deep THEN {0, 1, 15, 16, 30, 31} ELSE {0, 15, 31}
PcB == 1073741824
ShapeOf(m) == (CHOOSE x \in ATab : x[3] = m)[4]
NLineGroups == 5
LineGroup(g) ==
    CASE g = 1 -> {<<m, <<Rg(d), Rg(a), Rg(b)>>, 0, 0>> : m \in {x \in AMn : ShapeOf(x) = "dab"}, d \in RS, a \in RS, b \in RS}
      [] g = 2 -> {<<m, <<Rg(d), Rg(a)>>, 0, 0>> : m \in {x \in AMn : ShapeOf(x) # "dab"} \cup BccMn \cup {"brld", "brald", "brk"}, d \in 0..31, a \in RS}
                  \cup {<<m, <<Rg(b)>>, 0, 0>> : m \in {"br", "bra", "brd", "brad"}, b \in 0..31}
      [] g = 3 -> {<<m, <<Rg(d), Rg(a), Im(v)>>, 0, 0>> : m \in BMn, d \in RS, a \in RS, v \in ImmsIn(RangeOf("addi", "rri"))}
                  \cup {<<m, <<Rg(d), Rg(a), Im(v)>>, 0, 0>> : m \in BsMn, d \in RS, a \in RS, v \in ImmsIn(RangeOf("bslli", "rri"))}
      [] g = 4 -> {<<"imm", <<Im(v)>>, 0, 0>> : v \in ImmsIn(RangeOf("imm", "i")) \cup {-1, -32768}}
                  \cup {<<m, <<Rg(a), Im(v)>>, 0, 0>> : m \in RtMn \cup BcciMn \cup {"brlid", "bralid", "brki"}, a \in RS, v \in ImmsIn(RangeOf("rtsd", "ri"))}
                  \cup {<<m, <<Im(v)>>, 0, 0>> : m \in {"bri", "brai", "brid", "braid"}, v \in ImmsIn(RangeOf("bri", "i"))}
      [] g = 5 -> {<<m, <<Rg(a), Lb>>, PcB + 4 + v, PcB>> : m \in BcciMn \cup {"brlid"}, a \in {0, 5, 31}, v \in ImmsIn(RangeOf("beqi", "rl"))}
                  \cup {<<m, <<Lb>>, PcB + 4 + v, PcB>> : m \in {"bri", "brid"}, v \in ImmsIn(RangeOf("bri", "l"))}
                  \cup {<<m, <<Rg(a), Lb>>, s, PcB>> : m \in {"bralid", "brki"}, a \in {0, 15}, s \in ImmsIn(RangeOf("addik", "rrl"))}
                  \cup {<<m, <<Rg(d), Rg(a), Lb>>, s, PcB>> : m \in {"addik", "lwi", "swi", "ori"}, d \in {3, 31}, a \in {0, 1}, s \in ImmsIn(RangeOf("addik", "rrl"))}

Sparse == {y \in 0..2047 : y < 8 \/ y % 32 = 0 \/ y % 32 = 1}
HiRest(op) == IF op \in {38, 46} THEN {d * 32 + a : d \in (IF Deep THEN {0, 5, 31} ELSE {0, 5}), a \in 0..31}
              ELSE IF op \in {39, 45, 47} THEN {d * 32 + a : d \in 0..31, a \in (IF Deep THEN {0, 6, 31} ELSE {6})}
              ELSE IF op \in AOps THEN (IF Deep THEN {0, 166, 1023} ELSE {166}) ELSE (IF Deep THEN {0, 166, 1023, 32, 1, 31, 992} ELSE {0, 166, 1023})
LoFor(op) == IF op \in {38, 39} THEN {b * 2048 + x : b \in {0, 7, 31}, x \in {0, 1, 2, 512, 1024, 2047}}
             ELSE IF op \in AOps THEN {b * 2048 + x : b \in (IF Deep THEN {0, 31} ELSE {31}), x \in (IF Deep \/ op \in {22, 36} THEN 0..2047 ELSE Sparse)}
             ELSE {0, 1, 4, 31, 32, 32767, 32768, 65535, 4660, 512, 1024, 543, 1055} \cup (IF Deep THEN {43690, 1536, 2048, 64} ELSE {})
\* every value of the function bits with one setting of the register fields, a sparse sample with the others
LoForHi(hi) == IF (hi \div 1024) \in AOps \ {38, 39, 22, 36} /\ hi % 1024 # 166 THEN {x \in LoFor(hi \div 1024) : (x % 2048) \in Sparse}
               ELSE LoFor(hi \div 1024)
PreVals == {0, 1, -1, 32767, 32768, 65535, 65536, -32768, -32769, -65536, 305419896, -305419896, 2147483647, -2147483647 - 1,
            2147450880, 2147418112, -2147450880, 98304, -98304}

Init == fam = "none" /\ pick = None
PickFam == fam = "none" /\ fam' \in Fams \cap {"mb.w", "mb.ln", "mb.pre"} /\ pick' = None
PickWHi == fam = "mb.w" /\ pick = None /\ UNCHANGED fam /\ \E op \in 0..63 : \E r \in HiRest(op) : pick' = [k |-> "mb.w-", hi |-> op * 1024 + r]
PickWLo == fam = "mb.w" /\ pick.k = "mb.w-" /\ UNCHANGED fam /\ \E lo \in LoForHi(pick.hi) : pick' = [k |-> "mb.w", w |-> <<pick.hi, lo>>]
PickLnG == fam = "mb.ln" /\ pick = None /\ UNCHANGED fam /\ \E g \in 1..NLineGroups : pick' = [k |-> "mb.ln-", g |-> g]
PickLn == fam = "mb.ln" /\ pick.k = "mb.ln-" /\ UNCHANGED fam /\ \E ln \in LineGroup(pick.g) : pick' = [k |-> "mb.ln", ln |-> ln]
PickPre == fam = "mb.pre" /\ pick = None /\ UNCHANGED fam /\ \E v \in PreVals : pick' = [k |-> "mb.pre", v |-> v]
Next == PickFam \/ PickWHi \/ PickWLo \/ PickLnG \/ PickLn \/ PickPre

-----------------------------------------------------------------------------
RegsOK(d) == Reads(d) \subseteq 1..31 /\ Writes(d) \subseteq 1..31
LawOneFormat == pick.k = "mb.w" => Cardinality(Matches(pick.w)) = 1
LawReencode == pick.k = "mb.w" => LET d == DecodeW(pick.w) IN
    /\ d.len = 4 /\ ~d.pre
    /\ Valid(d) => (WF(d) /\ EncodeW(d) = pick.w /\ Decode(Encode(d)) = d /\ RegsOK(d))
LawFields == pick.k = "mb.w" => LET w == pick.w IN
    /\ MkW(Op6(w), F25(w), F20(w), Lo16(w)) = w                               \* type B
    /\ MkW(Op6(w), F25(w), F20(w), F15(w) * 2048 + Lo11(w)) = w               \* type A
    /\ WordBE(BytesBE(w)) = w
LawLine == pick.k = "mb.ln" => LET a == Asm(pick.ln[1], pick.ln[2], pick.ln[3], pick.ln[4]) IN
    /\ a # NoAsm /\ WF(a)
    /\ Core(Decode(Encode(a))) = a
    /\ Len(Encode(a)) = a.len
\* imm prefix: <prefix : low half> is the value; the low half alone would be sign-extended
LawPrefix == pick.k = "mb.pre" => LET v == pick.v  i == Pre([Ins("addik", "") EXCEPT !.rd = 3, !.ra = 0, !.imm = v])  b == Encode(i) IN
    /\ Len(b) = 8 /\ HiHalf(v) \in Half
    /\ Decode(b).imm = v /\ Core(Decode(b)) = i
    /\ Decode(SubBytes(b, 1, 4)) = [Ins("imm", "IMM") EXCEPT !.imm = HiHalf(v)]
    /\ Decode(SubBytes(b, 5, 4)).imm = SignExt(v % 65536, 16)
=============================================================================
