------------------------------ MODULE X64_MC ------------------------------
(* Idiom M for X64.tla: laws of the instruction-format model itself, checked *)
(* exhaustively on small domains before the model judges ppci.               *)
(*  family "fld": every byte as ModRM / SIB / REX (split and re-join, field  *)
(*                ranges), sign extension and displacement bytes on the      *)
(*                boundary integers                                          *)
(*  family "tab": the opcode table is unambiguous and well-formed            *)
(*  family "enc": every table entry x operand instances (every register in   *)
(*                the reg role and in the r/m role, ah..bh, the addressing   *)
(*                forms incl. the rsp/r12 (SIB) and rbp/r13 (disp8) cases,   *)
(*                boundary immediates, operand sizes):                       *)
(*                Decode(EncodeWith(e, i)) = i, and the register-set laws    *)
(*  family "adr": one entry x base x index x scale x boundary displacement   *)
(*  family "kat": known answers (byte strings of the manuals' examples and   *)
(*                of GNU objdump / llvm-objdump listings) for Decode and for *)
(*                the register sets Reads / Writes                           *)
EXTENDS X64, TLC, SequencesExt
CONSTANTS Deep, Fams

VARIABLES fam, cs
vars == <<fam, cs>>
Nil == [k |-> "none"]

\* ---- operand instances
RQ == IF Deep THEN 0..15 ELSE {0, 4, 7, 8, 13, 15}
RegChoices(kind, sz) == IF kind = "xmm" THEN {Xmm(n) : n \in RQ}
                        ELSE {Reg(n, sz) : n \in RQ} \cup (IF sz = 8 THEN {RegHi(n) : n \in 0..3} ELSE {})
MemSmall(sz) == {Mem(3, None, 1, 0, sz), Mem(4, None, 1, 0, sz), Mem(5, None, 1, 0, sz), Mem(12, None, 1, 0, sz),
                 Mem(13, None, 1, 0, sz), Mem(RIP, None, 1, 100, sz), Mem(RIP, None, 1, -2147483647 - 1, sz),
                 Mem(None, None, 1, 4096, sz), Mem(None, None, 1, -1, sz), Mem(0, 1, 1, 5, sz), Mem(13, 12, 8, -129, sz),
                 Mem(None, 9, 4, 128, sz), Mem(8, None, 1, 127, sz), Mem(15, None, 1, 128, sz), Mem(1, None, 1, -128, sz),
                 Mem(2, None, 1, -2147483647 - 1, sz), Mem(6, 15, 2, 2147483647, sz), Mem(4, 5, 1, 0, sz), Mem(5, 13, 1, 0, sz),
                 Mem(12, None, 1, -129, sz)}
Disps == {0, 1, -1, 127, 128, 129, -127, -128, -129, 255, 256, 32767, -32768, 2147483647, -2147483647 - 1}
MemAll(sz) == {Mem(b, x, IF x = None THEN 1 ELSE s, d, sz) :
                   b \in (IF Deep THEN 0..15 ELSE {0, 4, 5, 12, 13, 15}) \cup {None},
                   x \in (IF Deep THEN (0..15) \ {4} ELSE {0, 5, 12, 13}) \cup {None}, s \in {1, 2, 4, 8},
                   d \in (IF Deep THEN Disps ELSE {0, 1, -128, 127, 128, -129, 2147483647, -2147483647 - 1})}
             \cup {Mem(RIP, None, 1, d, sz) : d \in Disps}
ByteVals == {0, 1, 127, 128, 255}
ImmChoices(kind, osz) ==
    CASE kind = "ibs" -> {Imm(SignExtend(<<v>>, osz \div 8)) : v \in ByteVals}
      [] kind = "ibu" -> {Imm(<<v>>) : v \in ByteVals}
      [] kind = "iw" -> {Imm(<<0, 0>>), Imm(<<8, 0>>), Imm(<<255, 255>>)}
      [] kind = "iz" -> {Imm(SignExtend(IF osz = 16 THEN <<v, w>> ELSE <<v, 0, 0, w>>, osz \div 8)) : v \in {0, 1, 255}, w \in {0, 127, 128, 255}}
      [] kind = "iv" -> {Imm(Mk([j \in 1..(osz \div 8) |-> IF j = 1 THEN v ELSE IF j = osz \div 8 THEN w ELSE 17 * j])) :
                             v \in {0, 255}, w \in {0, 128, 255}}
      [] kind = "rel8" -> {Rel(d) : d \in {-128, -1, 0, 127}}
      [] kind = "rel32" -> {Rel(d) : d \in {-2147483647 - 1, -129, 0, 128, 2147483647}}
      [] OTHER -> {One}
Sizes(e) == IF e.w8 THEN {8}
            ELSE IF e.sse THEN (IF e.regk = "gpr" \/ e.rmk = "gpr" THEN {32, 64} ELSE {32})
            ELSE IF e.enc = "D" \/ e.mn \in {"call", "jmp", "ret"} THEN {64}
            ELSE IF e.d64 THEN {16, 64}
            ELSE IF e.mn = "movsxd" THEN {64}
            ELSE {16, 32, 64}
HasRegRole(e) == e.enc \in {"MR", "RM", "RMI"}
RmChoices(e, osz) ==
    (IF e.memonly THEN {} ELSE RegChoices(e.rmk, RmSize(e, osz))) \cup MemSmall(MemSize(e, osz))
\* the abstract instruction for entry e with the chosen operands (= what Decode must return, len filled in later)
Build(e, osz, r, m, im, rep) ==
    LET ops == CASE e.enc = "MR" -> <<m, r>>
                 [] e.enc = "RM" -> <<r, m>>
                 [] e.enc = "M" -> <<m>>
                 [] e.enc = "MI" -> <<m, im>>
                 [] e.enc = "M1" -> <<m, One>>
                 [] e.enc = "MC" -> <<m, Reg(1, 8)>>
                 [] e.enc = "RMI" -> <<r, m, im>>
                 [] e.enc = "O" -> <<m>>
                 [] e.enc = "OI" -> <<m, im>>
                 [] e.enc = "AI" -> <<Reg(0, osz), im>>
                 [] e.enc \in {"I", "D"} -> <<im>>
                 [] OTHER -> <<>>
    IN [st |-> "ok", mn |-> MnOf(e, osz), osz |-> osz, ops |-> ops, len |-> 0, rep |-> rep]
Reps(e) == IF e.mn \in {"movsb", "stosb"} THEN {0, 243, 242} ELSE {0}
Inst(e) ==
    UNION {LET r0 == IF e.regk = "xmm" THEN Xmm(1) ELSE Reg(1, osz)
               rs == IF HasRegRole(e) THEN RegChoices(e.regk, osz) ELSE {r0}
               full == Deep \/ \A t \in Sizes(e) : osz >= t        \* quick: all addressing forms at the largest size only
               ms == IF HasModRM(e) THEN (IF full THEN RmChoices(e, osz)
                                          ELSE {m \in RmChoices(e, osz) : m.k # "mem" \/ m.disp \in {-129, 100} \/ m.base \in {4, 5}})
                     ELSE IF e.enc \in {"O", "OI"} THEN RegChoices("gpr", osz) ELSE {One}
               m0 == IF HasModRM(e) THEN Mem(3, None, 1, 0, MemSize(e, osz))
                     ELSE IF e.enc \in {"O", "OI"} THEN Reg(3, osz) ELSE One
               m1 == IF HasModRM(e) THEN Mem(13, 12, 8, -129, MemSize(e, osz)) ELSE m0
               ims == ImmChoices(e.imm, osz)
               im0 == CHOOSE x \in ims : TRUE
           IN {Build(e, osz, r, m0, im0, 0) : r \in rs} \cup {Build(e, osz, r0, m, im0, 0) : m \in ms}
              \cup {Build(e, osz, r0, m, im, rep) : m \in {m0, m1}, im \in ims, rep \in Reps(e)}
           : osz \in Sizes(e)}
\* quick configuration: the opcode groups that differ only in the opcode number / extension are represented by three members
Representative(e) ==
    \/ Deep
    \/ /\ e.mn \in {AluMn[k] : k \in 1..8} => e.mn \in {"add", "cmp"}
       /\ e.mn \in {ShMn[k] : k \in 1..8} => (e.ext \in {4, 6, 7})
       /\ e.mn \in {JccMn[k] : k \in 1..16} => e.mn \in {"jb", "jg"}
       /\ e.mn \in {CmovMn[k] : k \in 1..16} => e.mn \in {"cmovb", "cmovg"}
       /\ e.mn \in {SetMn[k] : k \in 1..16} => e.mn \in {"sete", "setg"}
       /\ e.sse => e.op \in {16, 17, 42, 45, 46, 88, 126}
\* the others: two instances each (opcode / extension / prefix mapping only)
Few(e) == {i \in Inst(e) : i.osz = (CHOOSE s \in Sizes(e) : \A t \in Sizes(e) : s >= t) /\
                           \A j \in 1..Len(i.ops) : i.ops[j] \in {Reg(1, i.osz), Xmm(1), Reg(3, i.osz), One, Reg(0, i.osz), Reg(1, 8)}
                                                      \/ i.ops[j].k \in {"imm", "rel"}
                                                      \/ (i.ops[j].k = "mem" /\ i.ops[j].base = 3 /\ i.ops[j].idx = None)}

\* ---- known answers (hand-checked against the manuals; the same strings are listed by objdump / llvm-objdump)
W8(v) == IntBytes(v, 8)
Ins(mn, osz, ops, len) == [st |-> "ok", mn |-> mn, osz |-> osz, ops |-> ops, len |-> len, rep |-> 0]
Kat == <<
    <<<<72, 139, 4, 36>>, Ins("mov", 64, <<Reg(0, 64), Mem(4, None, 1, 0, 64)>>, 4)>>,            \* mov rax, [rsp]
    <<<<73, 139, 4, 36>>, Ins("mov", 64, <<Reg(0, 64), Mem(12, None, 1, 0, 64)>>, 4)>>,           \* mov rax, [r12]
    <<<<73, 139, 69, 0>>, Ins("mov", 64, <<Reg(0, 64), Mem(13, None, 1, 0, 64)>>, 4)>>,           \* mov rax, [r13+0]
    <<<<72, 139, 69, 0>>, Ins("mov", 64, <<Reg(0, 64), Mem(5, None, 1, 0, 64)>>, 4)>>,            \* mov rax, [rbp+0]
    <<<<72, 139, 5, 0, 1, 0, 0>>, Ins("mov", 64, <<Reg(0, 64), Mem(RIP, None, 1, 256, 64)>>, 7)>>,   \* mov rax, [rip+0x100]
    <<<<73, 139, 5, 0, 1, 0, 0>>, Ins("mov", 64, <<Reg(0, 64), Mem(RIP, None, 1, 256, 64)>>, 7)>>,   \* REX.B ignored
    <<<<72, 139, 4, 37, 120, 86, 52, 18>>, Ins("mov", 64, <<Reg(0, 64), Mem(None, None, 1, 305419896, 64)>>, 8)>>,
    <<<<74, 139, 68, 37, 128>>, Ins("mov", 64, <<Reg(0, 64), Mem(5, 12, 1, -128, 64)>>, 5)>>,     \* mov rax, [rbp+r12-0x80]
    <<<<75, 139, 132, 236, 128, 0, 0, 0>>, Ins("mov", 64, <<Reg(0, 64), Mem(12, 13, 8, 128, 64)>>, 8)>>,
    <<<<72, 139, 4, 205, 16, 0, 0, 0>>, Ins("mov", 64, <<Reg(0, 64), Mem(None, 1, 8, 16, 64)>>, 8)>>,  \* mov rax, [rcx*8+0x10]
    <<<<76, 137, 200>>, Ins("mov", 64, <<Reg(0, 64), Reg(9, 64)>>, 3)>>,                          \* mov rax, r9
    <<<<137, 216>>, Ins("mov", 32, <<Reg(0, 32), Reg(3, 32)>>, 2)>>,                              \* mov eax, ebx
    <<<<102, 137, 216>>, Ins("mov", 16, <<Reg(0, 16), Reg(3, 16)>>, 3)>>,                         \* mov ax, bx
    <<<<136, 224>>, Ins("mov", 8, <<Reg(0, 8), RegHi(0)>>, 2)>>,                                  \* mov al, ah
    <<<<64, 136, 224>>, Ins("mov", 8, <<Reg(0, 8), Reg(4, 8)>>, 3)>>,                             \* mov al, spl
    <<<<65, 136, 192>>, Ins("mov", 8, <<Reg(8, 8), Reg(0, 8)>>, 3)>>,                             \* mov r8b, al
    <<<<72, 184, 1, 2, 3, 4, 5, 6, 7, 8>>, Ins("mov", 64, <<Reg(0, 64), Imm(<<1, 2, 3, 4, 5, 6, 7, 8>>)>>, 10)>>,
    <<<<65, 191, 255, 255, 255, 255>>, Ins("mov", 32, <<Reg(15, 32), Imm(<<255, 255, 255, 255>>)>>, 6)>>,
    <<<<72, 199, 192, 255, 255, 255, 255>>, Ins("mov", 64, <<Reg(0, 64), Imm(W8(-1))>>, 7)>>,     \* mov rax, -1 (imm32 sign-extended)
    <<<<72, 129, 193, 0, 0, 0, 128>>, Ins("add", 64, <<Reg(1, 64), Imm(W8(-2147483647 - 1))>>, 7)>>,
    <<<<72, 131, 236, 8>>, Ins("sub", 64, <<Reg(4, 64), Imm(W8(8))>>, 4)>>,                       \* sub rsp, 8
    <<<<73, 247, 217>>, Ins("neg", 64, <<Reg(9, 64)>>, 3)>>,
    <<<<73, 209, 225>>, Ins("shl", 64, <<Reg(9, 64), One>>, 3)>>,                                 \* shl r9, 1
    <<<<73, 209, 233>>, Ins("shr", 64, <<Reg(9, 64), One>>, 3)>>,                                 \* shr r9, 1
    <<<<73, 211, 249>>, Ins("sar", 64, <<Reg(9, 64), Reg(1, 8)>>, 3)>>,                           \* sar r9, cl
    <<<<72, 193, 224, 4>>, Ins("shl", 64, <<Reg(0, 64), Imm(<<4>>)>>, 4)>>,
    <<<<65, 81>>, Ins("push", 64, <<Reg(9, 64)>>, 2)>>, <<<<88>>, Ins("pop", 64, <<Reg(0, 64)>>, 1)>>,
    <<<<65, 255, 209>>, Ins("call", 64, <<Reg(9, 64)>>, 3)>>, <<<<255, 37, 0, 0, 0, 0>>, Ins("jmp", 64, <<Mem(RIP, None, 1, 0, 64)>>, 6)>>,
    <<<<232, 251, 255, 255, 255>>, Ins("call", 64, <<Rel(-5)>>, 5)>>, <<<<235, 254>>, Ins("jmp", 64, <<Rel(-2)>>, 2)>>,
    <<<<15, 132, 0, 1, 0, 0>>, Ins("je", 32, <<Rel(256)>>, 6)>>, <<<<124, 16>>, Ins("jl", 32, <<Rel(16)>>, 2)>>,
    <<<<72, 153>>, Ins("cqo", 64, <<>>, 2)>>, <<<<153>>, Ins("cdq", 32, <<>>, 1)>>, <<<<102, 153>>, Ins("cwd", 16, <<>>, 2)>>,
    <<<<72, 152>>, Ins("cdqe", 64, <<>>, 2)>>, <<<<195>>, Ins("ret", 64, <<>>, 1)>>, <<<<15, 5>>, Ins("syscall", 32, <<>>, 2)>>,
    <<<<73, 247, 241>>, Ins("div", 64, <<Reg(9, 64)>>, 3)>>, <<<<102, 247, 254>>, Ins("idiv", 16, <<Reg(6, 16)>>, 3)>>,
    <<<<73, 15, 175, 193>>, Ins("imul", 64, <<Reg(0, 64), Reg(9, 64)>>, 4)>>,
    <<<<72, 141, 68, 36, 8>>, Ins("lea", 64, <<Reg(0, 64), Mem(4, None, 1, 8, 0)>>, 5)>>,
    <<<<76, 15, 182, 201>>, Ins("movzx", 64, <<Reg(9, 64), Reg(1, 8)>>, 4)>>,
    <<<<76, 15, 191, 206>>, Ins("movsx", 64, <<Reg(9, 64), Reg(6, 16)>>, 4)>>,
    <<<<102, 15, 190, 217>>, Ins("movsx", 16, <<Reg(3, 16), Reg(1, 8)>>, 4)>>,
    <<<<72, 99, 195>>, Ins("movsxd", 64, <<Reg(0, 64), Reg(3, 32)>>, 3)>>,
    <<<<205, 128>>, Ins("int", 32, <<Imm(<<128>>)>>, 2)>>,
    <<<<243, 68, 15, 16, 201>>, Ins("movss", 32, <<Xmm(9), Xmm(1)>>, 5)>>,
    <<<<242, 69, 15, 17, 77, 0>>, Ins("movsd", 32, <<Mem(13, None, 1, 0, 64), Xmm(9)>>, 6)>>,
    <<<<242, 73, 15, 42, 201>>, Ins("cvtsi2sd", 64, <<Xmm(1), Reg(9, 64)>>, 5)>>,
    <<<<242, 68, 15, 45, 203>>, Ins("cvtsd2si", 32, <<Reg(9, 32), Xmm(3)>>, 5)>>,
    <<<<102, 68, 15, 46, 12, 37, 64, 0, 0, 0>>, Ins("ucomisd", 32, <<Xmm(9), Mem(None, None, 1, 64, 64)>>, 10)>>,
    <<<<68, 15, 47, 76, 36, 8>>, Ins("comiss", 32, <<Xmm(9), Mem(4, None, 1, 8, 32)>>, 6)>>,
    <<<<243, 15, 90, 193>>, Ins("cvtss2sd", 32, <<Xmm(0), Xmm(1)>>, 4)>>,
    <<<<243, 164>>, [Ins("movsb", 8, <<>>, 2) EXCEPT !.rep = 243]>>, <<<<243>>, [Ins("rep", 0, <<>>, 1) EXCEPT !.rep = 243]>>,
    <<<<72, 141, 195>>, Bad("ud")>>, <<<<6>>, Bad("ud")>>, <<<<72, 139>>, Bad("short")>>, <<<<72, 139, 132>>, Bad("short")>>,
    <<<<72, 139, 5, 1, 2, 3>>, Bad("short")>>, <<<<103, 139, 0>>, Bad("unsupported")>>, <<<<72, 102, 139, 0>>, Bad("unsupported")>> >>

\* the instance sets are constants, computed once (constant level: LET values are cached there, not inside actions)
TableSeq == SetToSeq(Table)
InstSeq == IF "enc" \notin Fams THEN <<>>
           ELSE Mk([j \in 1..Len(TableSeq) |-> SetToSeq(IF Representative(TableSeq[j]) THEN Inst(TableSeq[j]) ELSE Few(TableSeq[j]))])
AdrEntry == CHOOSE e \in Table : e.map = 1 /\ e.op = 139
AdrSeq == IF "adr" \notin Fams THEN <<>> ELSE Mk([b \in 1..18 |-> SetToSeq({Build(AdrEntry, 64, Reg(9, 64), m, One, 0) :
                                          m \in {x \in MemAll(64) : x.base = (IF b = 17 THEN None ELSE IF b = 18 THEN RIP ELSE b - 1)}})])

\* ---- state machine: one state per case
Init == fam = "none" /\ cs = Nil
PickFam == fam = "none" /\ fam' \in Fams /\ cs' = Nil
PickByte == fam = "fld" /\ cs = Nil /\ UNCHANGED fam /\ \E v \in 0..255 : cs' = [k |-> "byte", v |-> v]
PickInt == fam = "fld" /\ cs = Nil /\ UNCHANGED fam /\ \E v \in Disps \cup {-2, 2, 65535, 65536, -65536, 16777215, 16777216, -16777216, -16777217} :
               cs' = [k |-> "int", v |-> v]
PickTab == fam = "tab" /\ cs = Nil /\ UNCHANGED fam /\ \E j \in 1..Len(TableSeq) : cs' = [k |-> "tab", e |-> TableSeq[j]]
PickEntry == fam = "enc" /\ cs = Nil /\ UNCHANGED fam /\ \E j \in 1..Len(TableSeq) : cs' = [k |-> "entry", j |-> j]
PickInst == fam = "enc" /\ cs.k = "entry" /\ UNCHANGED fam
            /\ \E n \in 1..Len(InstSeq[cs.j]) : cs' = [k |-> "ins", e |-> TableSeq[cs.j], ins |-> InstSeq[cs.j][n]]
PickAdrBase == fam = "adr" /\ cs = Nil /\ UNCHANGED fam /\ \E b \in 1..18 : cs' = [k |-> "adr-", b |-> b]
PickAdr == fam = "adr" /\ cs.k = "adr-" /\ UNCHANGED fam
           /\ \E n \in 1..Len(AdrSeq[cs.b]) : cs' = [k |-> "ins", e |-> AdrEntry, ins |-> AdrSeq[cs.b][n]]
PickKat == fam = "kat" /\ cs = Nil /\ UNCHANGED fam /\ \E n \in 1..Len(Kat) : cs' = [k |-> "kat", n |-> n]
Next == PickFam \/ PickByte \/ PickInt \/ PickTab \/ PickEntry \/ PickInst \/ PickAdrBase \/ PickAdr \/ PickKat

\* ---- laws
LawModRM == cs.k = "byte" =>
    LET f == ModRMFields(cs.v)  s == SibFields(cs.v) IN
    /\ f.mod \in 0..3 /\ f.reg \in 0..7 /\ f.rm \in 0..7 /\ ModRMByte(f.mod, f.reg, f.rm) = cs.v
    /\ s.ss \in 0..3 /\ s.index \in 0..7 /\ s.base \in 0..7 /\ SibByte(s.ss, s.index, s.base) = cs.v
LawRex == cs.k = "byte" /\ cs.v \in 64..79 =>
    LET x == RexBits(cs.v) IN x.w \in 0..1 /\ x.r \in 0..1 /\ x.x \in 0..1 /\ x.b \in 0..1 /\ RexByte(x.w, x.r, x.x, x.b) = cs.v
LawSign == cs.k = "byte" => /\ S8(cs.v) \in -128..127 /\ (S8(cs.v) - cs.v) % 256 = 0 /\ IntBytes(S8(cs.v), 1) = <<cs.v>>
                           /\ SignExtend(<<cs.v>>, 4) = IntBytes(S8(cs.v), 4)
LawDisp == cs.k = "int" =>
    /\ S32At(IntBytes(cs.v, 4), 1) = cs.v
    /\ SignExtend(IntBytes(cs.v, 4), 8) = IntBytes(cs.v, 8)
    /\ (DispFits8(cs.v) <=> S8(IntBytes(cs.v, 1)[1]) = cs.v)
    /\ Designates(IntBytes(cs.v, 16), IntBytes(cs.v, 8)) /\ Designates(IntBytes(cs.v, 16), IntBytes(cs.v, 4))
\* no two entries claim the same (map, opcode, extension, selecting prefix); fields are in range
Overlap(a, b) == /\ a.map = b.map
                 /\ (IF a.plus \/ b.plus THEN a.op \div 8 = b.op \div 8 ELSE a.op = b.op)
                 /\ (a.ext = None \/ b.ext = None \/ a.ext = b.ext)
                 /\ (a.sse /\ b.sse => a.pfx = b.pfx)
LawTable == cs.k = "tab" =>
    LET e == cs.e IN
    /\ e.op \in 0..255 /\ e.map \in 1..2 /\ e.ext \in {None} \cup 0..7 /\ e.pfx \in {0, 102, 242, 243}
    /\ (e.plus => e.op % 8 = 0)
    /\ (e.ext # None => HasModRM(e) /\ ~HasRegRole(e))
    /\ (e.imm # "" <=> e.enc \in {"MI", "RMI", "OI", "AI", "I", "D"})
    /\ \A o \in Table : Overlap(e, o) => o = e
    /\ (e.map = 1 => e.op \notin Invalid64 /\ e.op \notin {15, 102, 242, 243} \cup OtherPfx \cup 64..79)
\* the central law: the decoder inverts the reference encoder
LawDecodeEncode == cs.k = "ins" /\ Encodable(cs.e, cs.ins) =>
    LET b == EncodeWith(cs.e, cs.ins) IN Len(b) <= 15 /\ Decode(b) = [cs.ins EXCEPT !.len = Len(b)]
\* ... and consumes exactly the instruction: appended bytes are not part of it, a truncated string is never accepted
LawLength == cs.k = "ins" /\ Encodable(cs.e, cs.ins) =>
    LET b == EncodeWith(cs.e, cs.ins) IN
    /\ Decode(b \o <<144>>).len = Len(b)
    /\ \A n \in (IF Deep \/ fam # "enc" THEN 1..(Len(b) - 1) ELSE {1, 2, Len(b) - 2, Len(b) - 1} \cap 1..(Len(b) - 1)) :
           Decode(SubSeq(b, 1, n)).st # "ok" \/ (n = 1 /\ b[1] \in {242, 243})
\* field laws of the emitted bytes: REX position and bits, SIB presence, displacement form
LawFields == cs.k = "ins" /\ Encodable(cs.e, cs.ins) /\ HasModRM(cs.e) =>
    LET b == EncodeWith(cs.e, cs.ins)
        o == EncOps(cs.e, cs.ins)
        pf == Prefixes(b, 1, NoPfx)
        hasrex == b[pf.pos] \in 64..79
        rex == IF hasrex THEN RexBits(b[pf.pos]) ELSE NoRex
        q == pf.pos + (IF hasrex THEN 1 ELSE 0) + (IF cs.e.map = 2 THEN 2 ELSE 1)       \* the ModRM byte
        f == ModRMFields(b[q])
    IN /\ (o.rm.k # "mem" <=> f.mod = 3)
       /\ (o.rm.k = "mem" =>
             /\ (f.rm = 4 <=> (o.rm.idx # None \/ o.rm.base = None \/ (o.rm.base # RIP /\ o.rm.base % 8 = 4)))   \* SIB
             /\ (o.rm.base = RIP <=> (f.mod = 0 /\ f.rm = 5))
             /\ (o.rm.base \notin {None, RIP} /\ o.rm.base % 8 = 5 => f.mod # 0)                                 \* rbp / r13
             /\ (f.mod = 1 => DispFits8(o.rm.disp))
             /\ (o.rm.base \notin {None, RIP} => rex.b = o.rm.base \div 8)
             /\ (o.rm.idx # None => rex.x = o.rm.idx \div 8))
       /\ (cs.e.ext # None => f.reg = cs.e.ext)
       /\ (rex.w = 1 <=> (cs.ins.osz = 64 /\ ~cs.e.w8 /\ ~cs.e.d64))
\* register sets: address registers are read, never written; compare / test write nothing; the families are in range
LawRegSets == cs.k = "ins" =>
    LET i == cs.ins IN
    /\ Modelled(i)
    /\ Reads(i) \cup Writes(i) \subseteq 0..31
    /\ \A j \in 1..Len(i.ops) : (i.mn # "nop" => Addr(i.ops[j]) \subseteq Reads(i)) /\ (i.ops[j].k = "mem" => Fam(i.ops[j]) = {})
    /\ (i.mn \in MnR2 => Writes(i) = {})
    /\ (i.mn \in MnRW2 \cup MnRW1 \cup MnShift /\ Op(i, 1).k \in {"reg", "xmm"} => Fam(Op(i, 1)) \subseteq Reads(i) \cap Writes(i))
    /\ (i.mn \in MnW1R2 /\ Op(i, 1).k \in {"reg", "xmm"} => Fam(Op(i, 1)) \subseteq Writes(i))
    /\ (i.mn \in {"div", "idiv", "mul"} => 0 \in Reads(i) \cap Writes(i))
    /\ (i.mn \in MnStack <=> 4 \in StackRegs(i))
LawKat == cs.k = "kat" => Decode(Kat[cs.n][1]) = Kat[cs.n][2]
\* known answers for the register sets (SDM instruction pages): <<bytes, reads, writes>>
RwKat == <<
    <<<<72, 1, 216>>, {0, 3}, {0}>>,                       \* add rax, rbx
    <<<<72, 1, 3>>, {0, 3}, {}>>,                          \* add [rbx], rax
    <<<<72, 57, 216>>, {0, 3}, {}>>,                       \* cmp rax, rbx
    <<<<72, 137, 216>>, {3}, {0}>>,                        \* mov rax, rbx
    <<<<74, 139, 68, 37, 128>>, {5, 12}, {0}>>,            \* mov rax, [rbp+r12-0x80]
    <<<<72, 137, 4, 36>>, {0, 4}, {}>>,                    \* mov [rsp], rax
    <<<<72, 141, 68, 11, 8>>, {1, 3}, {0}>>,               \* lea rax, [rbx+rcx+8]
    <<<<73, 247, 217>>, {9}, {9}>>,                        \* neg r9
    <<<<73, 211, 225>>, {1, 9}, {9}>>,                     \* shl r9, cl
    <<<<73, 209, 233>>, {9}, {9}>>,                        \* shr r9, 1
    <<<<72, 211, 35>>, {1, 3}, {}>>,                       \* shl qword [rbx], cl
    <<<<73, 247, 241>>, {0, 2, 9}, {0, 2}>>,               \* div r9
    <<<<246, 243>>, {0, 3}, {0}>>,                         \* div bl (ax / bl)
    <<<<73, 15, 175, 193>>, {0, 9}, {0}>>,                 \* imul rax, r9
    <<<<72, 153>>, {0}, {2}>>,                             \* cqo
    <<<<72, 152>>, {0}, {0}>>,                             \* cdqe
    <<<<65, 81>>, {4, 9}, {4}>>,                           \* push r9
    <<<<88>>, {4}, {0, 4}>>,                               \* pop rax
    <<<<65, 255, 209>>, {4, 9}, {4}>>,                     \* call r9
    <<<<195>>, {4}, {4}>>,                                 \* ret
    <<<<164>>, {6, 7}, {6, 7}>>,                           \* movsb
    <<<<243, 164>>, {1, 6, 7}, {1, 6, 7}>>,                \* rep movsb
    <<<<136, 224>>, {0}, {0}>>,                            \* mov al, ah
    <<<<76, 15, 182, 201>>, {1}, {9}>>,                    \* movzx r9, cl
    <<<<15, 148, 192>>, {}, {0}>>,                         \* sete al
    <<<<72, 15, 68, 195>>, {0, 3}, {0}>>,                  \* cmove rax, rbx
    <<<<72, 135, 216>>, {0, 3}, {0, 3}>>,                  \* xchg rax, rbx
    <<<<243, 68, 15, 16, 201>>, {17}, {25}>>,              \* movss xmm9, xmm1
    <<<<242, 69, 15, 17, 77, 0>>, {13, 25}, {}>>,          \* movsd [r13], xmm9
    <<<<242, 15, 88, 193>>, {16, 17}, {16}>>,              \* addsd xmm0, xmm1
    <<<<242, 73, 15, 42, 201>>, {9}, {17}>>,               \* cvtsi2sd xmm1, r9
    <<<<242, 68, 15, 45, 203>>, {19}, {9}>>,               \* cvtsd2si r9d, xmm3
    <<<<102, 68, 15, 46, 203>>, {19, 25}, {}>>,            \* ucomisd xmm9, xmm3
    <<<<15, 5>>, {}, {1, 11}>> >>                           \* syscall
LawRwKat == cs.k = "kat" /\ cs.n <= Len(RwKat) =>
    LET d == Decode(RwKat[cs.n][1]) IN d.st = "ok" /\ Modelled(d) /\ Reads(d) = RwKat[cs.n][2] /\ Writes(d) = RwKat[cs.n][3]
=============================================================================
