---------------------------- MODULE DbgSession_MC ----------------------------
(* Idiom M: exhaustive exploration of DbgSession.tla for small constants, and *)
(* (idiom G) the generator of behaviours that are replayed into the real      *)
(* Debugger + GdbDebugDriver (TLC -simulate; the `act` variable of every      *)
(* state is the script step).  The cfg text is written by engines/x17.py.     *)
EXTENDS DbgSession, TLC
CONSTANTS MCFlags, MCDrvs, BpAddrs, MCBytes, MaxDepth

PCs2 == <<0, 4>>
PCs3 == <<0, 4, 8>>
Vals == PcSet
RegVecs == [1..NRegs -> Vals]
MemAddrs == MemBase..(MemBase + MemLen - 1)
Forms == {"S", "T"}
Datas == UNION {[1..n -> MCBytes] : n \in 1..MemLen}

Init == \E d \in MCDrvs : InitWith(d, MCFlags)

SetBp == \E a \in BpAddrs : CmdSetBp(a)
ClearBp == \E a \in BpAddrs : CmdClearBp(a)
ReadMem == \E a \in MemAddrs, n \in 1..MemLen : CmdReadMem(a, n)
WriteMem == \E a \in MemAddrs, d \in Datas : CmdWriteMem(a, d)
WriteRegs == \E v \in RegVecs : CmdWriteRegs(v)
SetPc == \E v \in Vals : CmdSetPc(v)
Break == \E b \in BpAddrs, f \in Forms : TgtBreak(b, f)
StepDone == \E f \in Forms : TgtStepDone(f)

Next == \/ CmdRun \/ CmdStop \/ CmdStep \/ CmdRestart \/ SetBp \/ ClearBp \/ ReadMem \/ WriteMem
        \/ CmdReadRegs \/ WriteRegs \/ CmdGetPc \/ SetPc
        \/ StopThread \/ Break \/ StepDone \/ TgtIntr
        \/ DummyNext

Bounded == TLCGet("level") <= MaxDepth

TypeOK ==
  /\ status \in {"RUNNING", "STOPPED"}
  /\ cache \in [1..NRegs -> Vals \cup {NoVal}]
  /\ reason \in {INTERRUPT, BRKPOINT}
  /\ pcstop \in Vals \cup {NoVal}
  /\ tstate \in {"running", "stepping", "halted"}
  /\ tregs \in RegVecs /\ tmem \in [1..MemLen -> MCBytes]
  /\ tbps \subseteq BpAddrs /\ bpset \subseteq BpAddrs
  /\ intr \in 0..MaxIntr /\ Len(stops) <= MaxStops
  /\ lastEv \in {"none", "start", "stop"} /\ outst \in 0..3

\* the resynchronisation predicate used by trace validation implies the state clauses
SyncSound == (drv = "gdb" /\ InSync) => (ViewMatchesTarget /\ CacheCoherent /\ BpConsistent /\ OneStopPerRun
                                          /\ (lastEv = "start" => status = "RUNNING")
                                          /\ (lastEv = "stop" => status = "STOPPED"))
\* the ideal protocol never leaves the synchronised region
AlwaysInSync == drv = "gdb" => InSync

\* without the history of the last action
View == <<drv, flags, status, cache, reason, pcstop, tstate, tregs, tmem, tbps, intr, stops, bpset, lastEv, outst>>
=============================================================================
