-------------------------------- MODULE ArTxt --------------------------------
(* ppci.binutils.archive: an archive is an ordered collection of object      *)
(* files, saved as one JSON document holding the list of members and loaded  *)
(* back.  The clauses of the round trip, over a record                        *)
(*   r = [n, saved = [ok, exc], doc = [ok, keys, nobjects] (shape of the      *)
(*        saved document), loaded = [ok, exc], before / after = projections   *)
(*        of the member objects by data attributes (harness/project_obj.py),  *)
(*        eq = ppci's == per member, text1 / text2 = lines of the saved text  *)
(*        and of the text saved again from the loaded archive].               *)
EXTENDS Naturals, Sequences, FmtBytes

ArFailures(r) ==
    Fails("ArSaved", r.saved.ok)
    \cup (IF ~r.saved.ok THEN {} ELSE
          Fails("ArDocument", r.doc.ok /\ r.doc.nobjects = r.n)      \* one JSON object holding the list of the n members
          \cup Fails("ArLoaded", r.loaded.ok)
          \cup (IF ~r.loaded.ok THEN {} ELSE
                Fails("ArCount", Len(r.after) = r.n /\ Len(r.before) = r.n)
                \cup Fails("ArMembers", Len(r.after) = Len(r.before)
                                        /\ \A k \in 1..Len(r.before) : r.after[k] = r.before[k])   \* same objects, same order
                \cup Fails("ArEqual", Len(r.eq) = r.n /\ \A k \in 1..Len(r.eq) : r.eq[k])
                \cup Fails("ArStable", r.text2 = r.text1)))
ArClauses == {"ArSaved", "ArDocument", "ArLoaded", "ArCount", "ArMembers", "ArEqual", "ArStable"}
=============================================================================
