----------------------------- MODULE Elf_Eval -----------------------------
(* Idiom E: one state per file written by ppci.format.elf.write_elf.          *)
(* A record of TRACE_FILE is                                                  *)
(*   [key, arch, kind ("rel" | "exe"),                                        *)
(*    out  = [ok |-> TRUE, file |-> <<bytes>>] | [ok |-> FALSE, exc |-> "Name"],*)
(*    obj  = the live ObjectFile projected by data attributes                 *)
(*           (harness/project_obj.py, wide integers, names as character codes),*)
(*    ref  = [present |-> FALSE] | what llvm-readobj printed for the file]    *)
(* PickRec reads the file with Elf!Read once and stores the names of the      *)
(* clauses that fail in `bad` (and reference-tool disagreements in `sus`);    *)
(* the invariants only look at these sets, so an error state is small and     *)
(* names every failing clause of the record.                                  *)
EXTENDS Elf, Json, IOUtils, TLC

Recs == JsonDeserialize(IOEnv.TRACE_FILE)
NChunks == 16
VARIABLES chunk, i, bad, sus
vars == <<chunk, i, bad, sus>>

\* ppci declares ELF relocation numbers for x86_64 only; for the other machines a relocatable file
\* with relocation entries is refused with NotImplementedError -- outside the property (no file is written)
Unsupported(r) == /\ ~r.out.ok /\ r.out.exc = "NotImplementedError"
                  /\ r.kind = "rel" /\ r.arch # "x86_64" /\ Len(r.obj.relocations) > 0

Fails(name, holds) == IF holds THEN {} ELSE {name}

Failures(r) ==
    IF ~r.out.ok THEN Fails("Outcome", Unsupported(r))
    ELSE LET F == r.out.file
             O == r.obj
             et == IF r.kind = "rel" THEN ET_REL ELSE ET_EXEC
         IN LET V == Read(F) IN
            WF(F, V)
            \cup Fails("Kind", KindSeen(V, r.arch, et))
            \cup Fails("Sections", SectionsSeen(V, O))
            \cup Fails("Symbols", SymbolsSeen(V, O, et))
            \cup Fails("Relocations", et = ET_REL => RelocationsSeen(V, O, r.arch))
            \cup Fails("Entry", et = ET_EXEC => EntrySeen(V, O))
            \cup Fails("Segments", et = ET_EXEC => SegmentsHold(F, V, O))

\* ---- spec validation: the same file as printed by llvm-readobj (numbers capped like Num) ----
RefOf(V) ==
    [hdr |-> [type |-> V.h.type, machine |-> V.h.machine, entry |-> V.h.entry, phoff |-> V.h.phoff,
              shoff |-> V.h.shoff, ehsize |-> V.h.ehsize, phentsize |-> V.h.phentsize, phnum |-> V.h.phnum,
              shentsize |-> V.h.shentsize, shnum |-> V.h.shnum, shstrndx |-> V.h.shstrndx],
     secs |-> Mk([k \in 1..Len(V.secs) |-> LET s == V.secs[k] IN
                   <<s.name.s, s.type, s.flags, s.addr, s.off, s.size, s.link, s.info, s.align, s.entsize>>]),
     syms |-> Mk([k \in 1..Len(V.syms) |-> LET y == V.syms[k] IN
                   <<y.name.s, y.value, y.size, y.bind, y.typ, y.other, y.shndx>>]),
     relas |-> Mk([k \in 1..Len(V.relas) |-> LET r == V.relas[k] IN <<r.tab, r.off, r.rtype, r.sym, r.add>>]),
     segs |-> Mk([k \in 1..Len(V.segs) |-> LET g == V.segs[k] IN
                   <<g.type, g.off, g.vaddr, g.paddr, g.filesz, g.memsz, g.flags, g.align>>])]
Suspect(r) ==
    IF ~r.out.ok \/ ~r.ref.present THEN {}
    ELSE LET V == Read(r.out.file) IN LET A == RefOf(V) IN
         Fails("RefHeader", A.hdr = r.ref.hdr) \cup Fails("RefSections", A.secs = r.ref.secs)
         \cup Fails("RefSymbols", A.syms = r.ref.syms) \cup Fails("RefRelocations", A.relas = r.ref.relas)
         \cup Fails("RefSegments", A.segs = r.ref.segs)

Init == chunk = 0 /\ i = 0 /\ bad = {} /\ sus = {}
PickChunk == chunk = 0 /\ chunk' \in 1..NChunks /\ UNCHANGED <<i, bad, sus>>
PickRec == /\ chunk > 0 /\ i = 0 /\ chunk' = chunk
           /\ i' \in {k \in 1..Len(Recs) : k % NChunks = chunk - 1}
           /\ bad' = Failures(Recs[i'])
           /\ sus' = Suspect(Recs[i'])
Next == PickChunk \/ PickRec

\* the property, clause by clause
Written       == "Outcome" \notin bad                      \* a file was written (or the case is outside the property)
WellFormedELF == bad \cap WFNames = {}                     \* accepted by a reader that follows the specification
KindOk        == "Kind" \notin bad                         \* class, data encoding, machine, file type
SectionsOk    == "Sections" \notin bad                     \* section names, addresses, contents
SymbolsOk     == "Symbols" \notin bad                      \* symbol names, values, sizes, bindings, types, sections
RelocationsOk == "Relocations" \notin bad                  \* relocation entries
EntryOk       == "Entry" \notin bad                        \* entry point
SegmentsOk    == "Segments" \notin bad                     \* PT_LOAD bytes = image bytes at every address
\* not the property: Elf.tla against an independent ELF tool (a failure is reported as SPEC-SUSPECT)
RefAgrees     == sus = {}
=============================================================================
