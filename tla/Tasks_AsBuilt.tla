--------------------------- MODULE Tasks_AsBuilt ---------------------------
(* Faithful transcription of ppci/build/tasks.py AS FOUND (commit 722bf2e)  *)
(* -- kept to explain the two genuine defects of property C34; it is NOT    *)
(* the specification (Tasks.tla) and not the repaired algorithm             *)
(* (Tasks_Algo.tla).                                                        *)
(*                                                                          *)
(*   TaskRunner.run(project, targets):                                      *)
(*     for target in targets: project.check_target(target)                  *)
(*         check_target(t): state = set(); dfs(t, state)                    *)
(*         dfs(t, state):   state.add(t)                                    *)
(*                          for dep in deps[t]:                             *)
(*                              if dep in state: raise "Dependency loop"    *)
(*                              dfs(dep, state)                             *)
(*                          -- `state` is never popped: it is the set of    *)
(*                          -- ALL targets seen so far, not the current path *)
(*     target_list = union of dependencies(t) for t in targets, + targets   *)
(*     target_list = [get_target(n) for n in target_list]  -- set order     *)
(*     target_list.sort()      -- Target defines only __gt__:               *)
(*                             --  a < b  is  b.__gt__(a)                   *)
(*                             --        is  a.name in dependencies(b.name) *)
(*                             -- a PARTIAL order given to a comparison sort *)
(*     for target in target_list: run its tasks                             *)
(*                                                                          *)
(* list.sort on fewer than 64 elements is CPython's binary insertion sort   *)
(* after count_run (listobject.c, 3.12); PySort below transcribes it.       *)
(*                                                                          *)
(* TLC (engines/c34.py) shows on all graphs of the configured size:         *)
(*   holds:    NeverMissesLoop, SpuriousLoopExplained, MultiPathRejected,   *)
(*             WrongOrderExplained, ExactlyOnce, OnlyNeeded, Completed      *)
(*   violated: NoSpuriousLoop  (e.g. A -> {B,C}, B -> C, request {A}),      *)
(*             SortedIsDependencyOrder (e.g. C -> A, request {B,C}),        *)
(*             hence Refines.                                               *)
EXTENDS Tasks, TLC

CONSTANT SelfDeps

VARIABLES pc,              \* "check" | "collect" | "sort" | "run" | "end"
                           \*   (+ "graph" | "request": staged enumeration of the inputs)
          todo,            \* requested targets not checked yet
          stack,           \* recursion stack of dfs
          state,           \* the set `state` of dfs -- only ever grows
          lst              \* target_list

bvars == <<pc, todo, stack, state, lst>>
allvars == <<vars, bvars>>

Frame(t)  == [t |-> t, rem |-> deps[t]]
Top       == stack[Len(stack)]
Pop       == SubSeq(stack, 1, Len(stack) - 1)
TopWithout(d) == [stack EXCEPT ![Len(stack)].rem = @ \ {d}]
Orders(S) == {s \in [1..Cardinality(S) -> S] : \A j, k \in DOMAIN s : s[j] = s[k] => j = k}

BInit == /\ Init
         /\ pc = "check" /\ todo = requested /\ stack = <<>> /\ state = {} /\ lst = <<>>

----------------------------------------------------------------------------
(* check_target / dfs as found                                              *)

BCheckBegin(r) == /\ pc = "check" /\ stack = <<>> /\ r \in todo
                  /\ todo' = todo \ {r}
                  /\ stack' = <<Frame(r)>>
                  /\ state' = {r}
                  /\ UNCHANGED <<vars, pc, lst>>

BReportLoop(d) == /\ pc = "check" /\ stack # <<>> /\ d \in Top.rem
                  /\ d \in state                      \* seen before, anywhere
                  /\ result' = "loop"
                  /\ pc' = "end"
                  /\ UNCHANGED <<deps, requested, executed, todo, stack, state, lst>>

BDescend(d) == /\ pc = "check" /\ stack # <<>> /\ d \in Top.rem
               /\ d \notin state
               /\ stack' = Append(TopWithout(d), Frame(d))
               /\ state' = state \cup {d}
               /\ UNCHANGED <<vars, pc, todo, lst>>

BReturn == /\ pc = "check" /\ stack # <<>> /\ Top.rem = {}
           /\ stack' = Pop                            \* state is NOT popped
           /\ UNCHANGED <<vars, pc, todo, state, lst>>

BCheckDone == /\ pc = "check" /\ stack = <<>> /\ todo = {}
              /\ pc' = "collect"
              /\ UNCHANGED <<vars, todo, stack, state, lst>>

----------------------------------------------------------------------------
(* closure, arbitrary set order, list.sort with the partial order           *)

\* Project.dependencies(t) is Below(deps, t) when no loop is reachable (it
\* would not terminate otherwise; NeverMissesLoop shows that cannot happen)
BCollect == /\ pc = "collect"
            /\ lst' \in Orders(UNION {Below(deps, t) : t \in requested} \cup requested)
            /\ pc' = "sort"
            /\ UNCHANGED <<vars, todo, stack, state>>

Lt(a, b) == DepLess(deps, a, b)          \* a < b  as evaluated by Target.__gt__

Reverse(s) == [k \in 1..Len(s) |-> s[Len(s) + 1 - k]]
\* count_run: length of the initial run, which is descending iff s[2] < s[1]
RunLen(s, desc) == CHOOSE m \in 2..Len(s) :
                      /\ \A j \in 2..m : Lt(s[j], s[j - 1]) = desc
                      /\ m = Len(s) \/ Lt(s[m + 1], s[m]) # desc
\* binarysort: where pivot goes in the sorted prefix s[1..r] (l, r 0-based offsets)
RECURSIVE BinPos(_, _, _, _)
BinPos(s, pivot, l, r) == IF l >= r THEN l
                          ELSE LET p == l + ((r - l) \div 2)
                               IN  IF Lt(pivot, s[p + 1]) THEN BinPos(s, pivot, l, p)
                                                          ELSE BinPos(s, pivot, p + 1, r)
InsertAt(s, i) == LET l == BinPos(s, s[i], 0, i - 1)
                  IN  SubSeq(s, 1, l) \o <<s[i]>> \o SubSeq(s, l + 1, i - 1)
                         \o SubSeq(s, i + 1, Len(s))
RECURSIVE InsertFrom(_, _)
InsertFrom(s, i) == IF i > Len(s) THEN s ELSE InsertFrom(InsertAt(s, i), i + 1)
PySort(s) == IF Len(s) < 2 THEN s
             ELSE LET desc == Lt(s[2], s[1])
                      m == RunLen(s, desc)
                      s1 == IF desc THEN Reverse(SubSeq(s, 1, m)) \o SubSeq(s, m + 1, Len(s))
                                    ELSE s
                  IN  InsertFrom(s1, m + 1)

BSort == /\ pc = "sort"
         /\ lst' = PySort(lst)
         /\ pc' = "run"
         /\ UNCHANGED <<vars, todo, stack, state>>

BRunTarget == /\ pc = "run" /\ lst # <<>>
              /\ executed' = Append(executed, Head(lst))
              /\ lst' = Tail(lst)
              /\ UNCHANGED <<deps, requested, result, pc, todo, stack, state>>

BRunEnd == /\ pc = "run" /\ lst = <<>>
           /\ result' = "done"
           /\ pc' = "end"
           /\ UNCHANGED <<deps, requested, executed, todo, stack, state, lst>>

BStep == \/ \E r \in Target : BCheckBegin(r)
         \/ \E d \in Target : BReportLoop(d) \/ BDescend(d)
         \/ BReturn \/ BCheckDone \/ BCollect \/ BSort \/ BRunTarget \/ BRunEnd
BSpec == BInit /\ [][BStep]_allvars

----------------------------------------------------------------------------
(* staged enumeration of all (graph, request) pairs (cf. Tasks_MC)          *)
Graphs == {d \in [Target -> SUBSET Target] : SelfDeps \/ \A t \in Target : t \notin d[t]}
SInit == /\ pc = "graph"
         /\ deps = [t \in Target |-> {}] /\ requested = Target
         /\ executed = <<>> /\ result = "running"
         /\ todo = Target /\ stack = <<>> /\ state = {} /\ lst = <<>>
PickGraph == /\ pc = "graph" /\ pc' = "request"
             /\ deps' \in Graphs
             /\ UNCHANGED <<requested, executed, result, todo, stack, state, lst>>
PickRequest == /\ pc = "request" /\ pc' = "check"
               /\ requested' \in (SUBSET Target) \ {{}}
               /\ todo' = requested'
               /\ UNCHANGED <<deps, executed, result, stack, state, lst>>
Ended == pc = "end" /\ UNCHANGED allvars
SNext == PickGraph \/ PickRequest \/ BStep \/ Ended
Sym == Permutations(Target)

----------------------------------------------------------------------------
(* What holds of the code as found ...                                      *)
Whole == executed \o lst
IsDependencyOrder(s) == \A k \in DOMAIN s : deps[s[k]] \subseteq {s[j] : j \in 1..(k - 1)}

\* every reachable cycle is reported (the over-approximating DFS errs on one side only)
NeverMissesLoop == pc \in {"collect", "sort", "run"} => ~Cyclic
\* a loop reported on an acyclic graph is always a target reachable along two paths
SpuriousLoopExplained == result = "loop" /\ ~Cyclic => \E r \in requested : MultiPath(deps, r)
\* ... and every such graph is rejected, whatever the iteration order
MultiPathRejected == pc \in {"collect", "sort", "run"} => \A r \in requested : ~MultiPath(deps, r)
\* the sort yields a wrong order only where DepLess is not a strict weak order
WrongOrderExplained == pc = "run" /\ ~IsDependencyOrder(Whole) => ~StrictWeak(deps, Needed)

(* ... and what does not (TLC prints the counter-examples)                  *)
NoSpuriousLoop == result = "loop" => Cyclic
SortedIsDependencyOrder == pc = "run" => IsDependencyOrder(Whole)
Refines == [][pc \notin {"graph", "request"} => (Next \/ UNCHANGED vars)]_allvars
=============================================================================
