-------------------------------- MODULE Rsp --------------------------------
(* GDB remote serial protocol as implemented by ppci/binutils/dbg/gdb/rsp.py *)
(* (property C35).                                                           *)
(*                                                                           *)
(* One client (RspHandler) talks to one peer (the gdb stub):                  *)
(*   client -> peer : `txlog`, the sequence of transport.send() units         *)
(*                    (a packed packet "$..#cs", or the single byte + / -);   *)
(*                    the peer has consumed the first `peerPos` units         *)
(*   peer -> client : `toClient`, a FIFO of *bytes*; the receiver takes one   *)
(*                    byte per step (RxByte), which subsumes every chunking   *)
(*                    of the stream                                           *)
(*   sender threads : `cl[c]`  (sendpkt: _lock, transmit, wait for ack,       *)
(*                    retransmit, retry budget)                               *)
(*   receiver thread: `dec` (decoder(): idle/body/c1/c2), `ackq`              *)
(*                    (_ack_queue), `rxPend` (a put() blocked on a full       *)
(*                    queue), `delivered` (on_message calls), `rxAlive`       *)
(*                                                                           *)
(* The machine is written once; the set `flags` selects, per design defect,   *)
(* the behaviour of the code as built instead of the behaviour the property   *)
(* demands:                                                                  *)
(*   RspIdeal   == flags = {}                                                 *)
(*   RspAsBuilt == flags = the defects present in the tree                    *)
(*     "NoNack"         decoder() has no branch for '-'                       *)
(*     "QuoteHash"      decoder() does not end the body at '#' after a quote  *)
(*     "NoNotif"        decoder() does not frame "%..#cs" notifications       *)
(*     "NoUnescape"     rsp_unpack returns the escaped body                   *)
(*     "FullKills"      queue.Full from _ack_queue.put leaves _process_byte   *)
(*                      (the receiver thread of transport.TCP dies)           *)
(*     "LastAckIgnored" sendpkt raises after its last retransmission even     *)
(*                      when that one was acknowledged (allowed by the        *)
(*                      property: the budget is exhausted)                    *)
(* `flags` is a variable that never changes, so that the trace specification  *)
(* can choose it per trace.                                                   *)
EXTENDS Naturals, Sequences, FiniteSets

CONSTANTS Budget,        \* sendpkt(data, retries=Budget): number of retransmissions, >= 1
          AckCap,        \* capacity of _ack_queue (Queue(maxsize=1))
          Clients,       \* sender threads
          Payloads,      \* payloads client and peer may put in packets (byte sequences)
          NotifPayloads, \* payloads of peer notifications
          FlagChoices,   \* set of flag sets the model is explored for
          Lim            \* bounds on the environment: record calls, peer, notif, nack, lost, spur, corrupt

-----------------------------------------------------------------------------
(* Bytes, escaping, checksums: the wire format                               *)
Specials == {35, 36, 42, 125}                         \* # $ * }
Xor20(b) == IF (b \div 32) % 2 = 1 THEN b - 32 ELSE b + 32

RECURSIVE Escape(_)
Escape(p) == IF p = <<>> THEN <<>>
             ELSE (IF Head(p) \in Specials THEN <<125, Xor20(Head(p))>> ELSE <<Head(p)>>) \o Escape(Tail(p))
RECURSIVE Unescape(_)
Unescape(s) == IF s = <<>> THEN <<>>
               ELSE IF Head(s) = 125 /\ Len(s) >= 2 THEN <<Xor20(s[2])>> \o Unescape(Tail(Tail(s)))
               ELSE <<Head(s)>> \o Unescape(Tail(s))
RECURSIVE Sum(_)
Sum(s) == IF s = <<>> THEN 0 ELSE Head(s) + Sum(Tail(s))

HexDigit(n) == IF n < 10 THEN 48 + n ELSE 55 + n      \* upper case, as "%02X"
Hex2(n)     == <<HexDigit(n \div 16), HexDigit(n % 16)>>
IsHex(b)    == b \in 48..57 \/ b \in 65..70 \/ b \in 97..102
HexVal(b)   == IF b <= 57 THEN b - 48 ELSE IF b <= 70 THEN b - 55 ELSE b - 87

Frame(lead, p) == LET e == Escape(p) IN <<lead>> \o e \o <<35>> \o Hex2(Sum(e) % 256)
Pack(p)      == Frame(36, p)                          \* $<escaped>#cs
NotifPack(p) == Frame(37, p)                          \* %<escaped>#cs

Body(raw) == SubSeq(raw, 2, Len(raw) - 3)
CsOk(raw) == LET n == Len(raw) IN
             /\ IsHex(raw[n - 1]) /\ IsHex(raw[n])
             /\ 16 * HexVal(raw[n - 1]) + HexVal(raw[n]) = Sum(Body(raw)) % 256
PayloadOf(F, raw) == IF "NoUnescape" \in F THEN Body(raw) ELSE Unescape(Body(raw))

-----------------------------------------------------------------------------
(* decoder(): one byte in, at most one message out                           *)
DecInit    == [st |-> "idle", buf |-> <<>>]
NoMsg      == [k |-> "none"]
AckMsg(v)  == [k |-> "ack", v |-> v]
PktMsg(r)  == [k |-> "pkt", raw |-> r]
NotifMsg(r) == [k |-> "notif", raw |-> r]

DecStep(F, d, b) ==
  CASE d.st = "idle" ->
         IF b = 36 THEN [dec |-> [st |-> "body", buf |-> <<36>>], msg |-> NoMsg]
         ELSE IF b = 37 /\ "NoNotif" \notin F THEN [dec |-> [st |-> "nbody", buf |-> <<37>>], msg |-> NoMsg]
         ELSE IF b = 43 THEN [dec |-> d, msg |-> AckMsg("+")]
         ELSE IF b = 45 /\ "NoNack" \notin F THEN [dec |-> d, msg |-> AckMsg("-")]
         ELSE [dec |-> d, msg |-> NoMsg]                                   \* garbage between packets is skipped
    [] d.st \in {"body", "nbody"} ->
         LET term == b = 35 /\ ~("QuoteHash" \in F /\ d.buf[Len(d.buf)] = 39)
             nst  == IF ~term THEN d.st ELSE IF d.st = "body" THEN "c1" ELSE "nc1"
         IN [dec |-> [st |-> nst, buf |-> Append(d.buf, b)], msg |-> NoMsg]
    [] d.st \in {"c1", "nc1"} ->
         [dec |-> [st |-> IF d.st = "c1" THEN "c2" ELSE "nc2", buf |-> Append(d.buf, b)], msg |-> NoMsg]
    [] d.st = "c2"  -> [dec |-> DecInit, msg |-> PktMsg(Append(d.buf, b))]
    [] d.st = "nc2" -> [dec |-> DecInit, msg |-> NotifMsg(Append(d.buf, b))]

\* what the property demands of a whole byte stream: the messages it contains
RECURSIVE ParseFrom(_, _, _)
ParseFrom(d, s, i) == IF i > Len(s) THEN <<>>
                      ELSE LET r == DecStep({}, d, s[i]) IN
                           (IF r.msg.k = "none" THEN <<>> ELSE <<r.msg>>) \o ParseFrom(r.dec, s, i + 1)
Parse(s) == ParseFrom(DecInit, s, 1)

SelectMap(s, T(_), M(_)) == LET t == SelectSeq(s, T) IN [j \in 1..Len(t) |-> M(t[j])]

-----------------------------------------------------------------------------
VARIABLES flags, txlog, peerPos, toClient, rxStream, ref, dec, ackq, ackIn, rxPend, rxAlive,
          delivered, cl, peerLog, cnt, act
vars == <<flags, txlog, peerPos, toClient, rxStream, ref, dec, ackq, ackIn, rxPend, rxAlive,
          delivered, cl, peerLog, cnt, act>>
\* rxStream: every byte the receiver has taken; ref: the reference decoder (flags = {}) run
\* in lock-step over the same bytes and the messages it found, ref.msgs = Parse(rxStream)
rxVars   == <<rxStream, ref, dec, ackq, ackIn, rxPend, rxAlive, delivered>>
peerVars == <<peerPos, toClient, peerLog>>

Idle == [st |-> "out", wire |-> <<>>, tries |-> 0, nacks |-> 0, last |-> "none"]
Cnt0 == [calls |-> 0, peer |-> 0, notif |-> 0, nack |-> 0, lost |-> 0, spur |-> 0, corrupt |-> 0]

InitLine(line) ==
        /\ flags \in FlagChoices
        /\ txlog = <<>> /\ peerPos = 0 /\ toClient = line /\ rxStream = <<>>
        /\ ref = [dec |-> DecInit, msgs |-> <<>>]
        /\ dec = DecInit /\ ackq = <<>> /\ ackIn = <<>> /\ rxPend = "" /\ rxAlive = TRUE
        /\ delivered = <<>> /\ cl = [c \in Clients |-> Idle]
        /\ peerLog = <<>> /\ cnt = Cnt0 /\ act = [a |-> "Init"]
Init == InitLine(<<>>)

\* the two variants of the machine over the same variables
AsBuiltFlags == {"NoNack", "QuoteHash", "NoNotif", "NoUnescape", "FullKills", "LastAckIgnored"}
RspIdeal   == flags = {}                 \* what the property demands
RspAsBuilt == flags \subseteq AsBuiltFlags \* rsp.py today: the subset found by the probes of engines/c35.py

LockFree == \A c \in Clients : cl[c].st # "wait"
Returned == {"out", "done", "failed", "timeout"}

-----------------------------------------------------------------------------
(* sender: RspHandler.sendpkt                                                *)
\* a thread enters sendpkt(p) and stands before `with self._lock`
Call(c, p) ==
    /\ cl[c].st \in Returned /\ cnt.calls < Lim.calls
    /\ cl' = [cl EXCEPT ![c] = [st |-> "lockwait", wire |-> Pack(p), tries |-> 0, nacks |-> 0, last |-> "none"]]
    /\ cnt' = [cnt EXCEPT !.calls = @ + 1]
    /\ act' = [a |-> "Call", c |-> c, p |-> p]
    /\ UNCHANGED <<flags, txlog>> /\ UNCHANGED rxVars /\ UNCHANGED peerVars

\* lock acquired, rsp_pack, first transmission; the thread now waits in _ack_queue.get
Acquire(c) ==
    /\ cl[c].st = "lockwait" /\ LockFree
    /\ txlog' = Append(txlog, cl[c].wire)
    /\ cl' = [cl EXCEPT ![c].st = "wait", ![c].tries = 1]
    /\ act' = [a |-> "Acquire", c |-> c]
    /\ UNCHANGED <<flags, cnt>> /\ UNCHANGED rxVars /\ UNCHANGED peerVars

\* _ack_queue.get returned v.  F: flags in force for this step.
\*   '+'  : return            '-' : transmit again while the budget lasts, else raise
\* as built ("LastAckIgnored"): inside the retry loop `retries` is decremented
\* after the get and the exception is raised when it reaches 0, whatever v was.
SenderGetF(F, c) ==
    /\ cl[c].st = "wait" /\ ackq # <<>>
    /\ LET v == Head(ackq)
           t == cl[c].tries
           spent == t = Budget + 1
           out == IF "LastAckIgnored" \in F /\ t >= 2
                  THEN (IF spent THEN "failed" ELSE IF v = "+" THEN "done" ELSE "wait")
                  ELSE (IF v = "+" THEN "done" ELSE IF spent THEN "failed" ELSE "wait")
       IN /\ ackq' = Tail(ackq)
          /\ txlog' = IF out = "wait" THEN Append(txlog, cl[c].wire) ELSE txlog
          /\ cl' = [cl EXCEPT ![c].st = out,
                              ![c].tries = IF out = "wait" THEN t + 1 ELSE t,
                              ![c].nacks = IF v = "-" THEN @ + 1 ELSE @,
                              ![c].last = v]
          /\ act' = [a |-> "SenderGet", c |-> c, v |-> v, out |-> out]
    /\ UNCHANGED <<flags, cnt, rxStream, ref, dec, ackIn, rxPend, rxAlive, delivered>> /\ UNCHANGED peerVars
SenderGet(c) == SenderGetF(flags, c)

\* _ack_queue.get(timeout=0.5) raised queue.Empty: sendpkt raises, the lock is released
SenderTimeout(c) ==
    /\ cl[c].st = "wait" /\ ackq = <<>>
    /\ cl' = [cl EXCEPT ![c].st = "timeout"]
    /\ act' = [a |-> "SenderTimeout", c |-> c]
    /\ UNCHANGED <<flags, cnt, txlog>> /\ UNCHANGED rxVars /\ UNCHANGED peerVars

-----------------------------------------------------------------------------
(* receiver: transport.on_byte -> RspHandler._process_byte -> decodepkt      *)
Dispatch(m) ==
    CASE m.k = "ack" ->
           /\ ackIn' = Append(ackIn, m.v)
           /\ IF Len(ackq) < AckCap THEN ackq' = Append(ackq, m.v) /\ rxPend' = ""
                                    ELSE ackq' = ackq /\ rxPend' = m.v      \* put() blocks
           /\ UNCHANGED <<txlog, delivered>>
      [] m.k = "pkt" ->
           /\ IF CsOk(m.raw) THEN /\ txlog' = Append(txlog, <<43>>)
                                  /\ delivered' = Append(delivered, PayloadOf(flags, m.raw))
                             ELSE /\ txlog' = Append(txlog, <<45>>)
                                  /\ delivered' = delivered
           /\ UNCHANGED <<ackq, ackIn, rxPend>>
      [] OTHER -> UNCHANGED <<txlog, delivered, ackq, ackIn, rxPend>>        \* nothing / notification

RxByte ==
    /\ rxAlive /\ rxPend = "" /\ toClient # <<>>
    /\ LET b == Head(toClient)
           r == DecStep(flags, dec, b) IN
       /\ toClient' = Tail(toClient) /\ rxStream' = Append(rxStream, b)
       /\ dec' = r.dec
       /\ LET q == DecStep({}, ref.dec, b) IN
          ref' = [dec |-> q.dec, msgs |-> IF q.msg.k = "none" THEN ref.msgs ELSE Append(ref.msgs, q.msg)]
       /\ Dispatch(r.msg)
       /\ act' = [a |-> "RxByte", b |-> b, msg |-> r.msg]
    /\ UNCHANGED <<flags, cnt, cl, peerPos, peerLog, rxAlive>>

\* the blocked put() goes through because the sender took the queued item
RxPutComplete ==
    /\ rxAlive /\ rxPend # "" /\ Len(ackq) < AckCap
    /\ ackq' = Append(ackq, rxPend) /\ rxPend' = ""
    /\ act' = [a |-> "RxPutComplete"]
    /\ UNCHANGED <<flags, cnt, cl, txlog, rxStream, ref, dec, ackIn, rxAlive, delivered>> /\ UNCHANGED peerVars

\* put(timeout=0.5) raised queue.Full: demanded: the stale ack is dropped and the
\* receiver goes on; as built: the exception leaves on_byte and ends the receiver thread
RxPutTimeout ==
    /\ rxAlive /\ rxPend # "" /\ Len(ackq) >= AckCap
    /\ rxPend' = ""
    /\ rxAlive' = ("FullKills" \notin flags)
    /\ act' = [a |-> "RxPutTimeout", dead |-> "FullKills" \in flags]
    /\ UNCHANGED <<flags, cnt, cl, txlog, rxStream, ref, dec, ackq, ackIn, delivered>> /\ UNCHANGED peerVars

-----------------------------------------------------------------------------
(* peer (environment)                                                        *)
PeerBytes(bs) == toClient' = toClient \o bs
\* the peer reads the client's + / - units as it goes (it does not retransmit in this model):
\* the next unit of interest is the next packet
PktPos == {j \in (peerPos + 1)..Len(txlog) : txlog[j][1] = 36}
PeerHasPkt == PktPos # {}
NextPkt == CHOOSE j \in PktPos : \A k \in PktPos : j <= k
ClientSide == <<flags, txlog, cl>>

PeerAck ==  /\ PeerHasPkt /\ peerPos' = NextPkt /\ PeerBytes(<<43>>)
            /\ act' = [a |-> "PeerAck"]
            /\ UNCHANGED <<peerLog, cnt>> /\ UNCHANGED ClientSide /\ UNCHANGED rxVars
PeerNack == /\ PeerHasPkt /\ cnt.nack < Lim.nack /\ peerPos' = NextPkt /\ PeerBytes(<<45>>)
            /\ cnt' = [cnt EXCEPT !.nack = @ + 1] /\ act' = [a |-> "PeerNack"]
            /\ UNCHANGED <<peerLog>> /\ UNCHANGED ClientSide /\ UNCHANGED rxVars
\* the packet (or the reply) is lost: the sender will time out
PeerLose == /\ PeerHasPkt /\ cnt.lost < Lim.lost /\ peerPos' = NextPkt
            /\ cnt' = [cnt EXCEPT !.lost = @ + 1] /\ act' = [a |-> "PeerLose"]
            /\ UNCHANGED <<toClient, peerLog>> /\ UNCHANGED ClientSide /\ UNCHANGED rxVars
PeerSend(p) == /\ cnt.peer < Lim.peer /\ PeerBytes(Pack(p))
               /\ peerLog' = Append(peerLog, [p |-> p, good |-> TRUE])
               /\ cnt' = [cnt EXCEPT !.peer = @ + 1] /\ act' = [a |-> "PeerSend", p |-> p]
               /\ UNCHANGED peerPos /\ UNCHANGED ClientSide /\ UNCHANGED rxVars
\* a packet with one body byte or checksum digit damaged on the line ('z': no hex digit, in no payload)
PeerSendBad(p, i) ==
    /\ cnt.peer < Lim.peer /\ cnt.corrupt < Lim.corrupt
    /\ i \in 2..Len(Pack(p)) /\ Pack(p)[i] \notin {35, 122}
    /\ PeerBytes([Pack(p) EXCEPT ![i] = 122])
    /\ peerLog' = Append(peerLog, [p |-> p, good |-> FALSE])
    /\ cnt' = [cnt EXCEPT !.peer = @ + 1, !.corrupt = @ + 1] /\ act' = [a |-> "PeerSendBad", p |-> p, i |-> i]
    /\ UNCHANGED peerPos /\ UNCHANGED ClientSide /\ UNCHANGED rxVars
PeerNotify(p) == /\ cnt.notif < Lim.notif /\ PeerBytes(NotifPack(p))
                 /\ cnt' = [cnt EXCEPT !.notif = @ + 1] /\ act' = [a |-> "PeerNotify", p |-> p]
                 /\ UNCHANGED <<peerPos, peerLog>> /\ UNCHANGED ClientSide /\ UNCHANGED rxVars
\* unsolicited + / - (duplicate or late acknowledgement) or line noise 'z'
PeerSpurious(b) == /\ cnt.spur < Lim.spur /\ PeerBytes(<<b>>)
                   /\ cnt' = [cnt EXCEPT !.spur = @ + 1] /\ act' = [a |-> "PeerSpurious", b |-> b]
                   /\ UNCHANGED <<peerPos, peerLog>> /\ UNCHANGED ClientSide /\ UNCHANGED rxVars

\* (state guards stand in front of the quantifiers so that TLC does not enumerate payloads in vain)
CallAny(c)      == cl[c].st \in Returned /\ cnt.calls < Lim.calls /\ \E p \in Payloads : Call(c, p)
PeerSendAny     == cnt.peer < Lim.peer /\ \E p \in Payloads : PeerSend(p)
PeerSendBadAny  == /\ cnt.peer < Lim.peer /\ cnt.corrupt < Lim.corrupt
                   /\ \E p \in Payloads : \E i \in 2..(2 * Len(p) + 4) : PeerSendBad(p, i)
PeerNotifyAny   == cnt.notif < Lim.notif /\ \E p \in NotifPayloads : PeerNotify(p)
PeerSpuriousAny == cnt.spur < Lim.spur /\ \E b \in {43, 45, 122} : PeerSpurious(b)

ClientNext == \E c \in Clients : CallAny(c) \/ Acquire(c) \/ SenderGet(c) \/ SenderTimeout(c)
RxNext     == RxByte \/ RxPutComplete \/ RxPutTimeout
PeerNext   == \/ PeerAck \/ PeerNack \/ PeerLose
              \/ PeerSendAny \/ PeerSendBadAny \/ PeerNotifyAny \/ PeerSpuriousAny
Next == ClientNext \/ RxNext \/ PeerNext

\* fairness for the liveness configuration: threads that can run do run
Fair == /\ \A c \in Clients : WF_vars(Acquire(c)) /\ WF_vars(SenderGet(c) \/ SenderTimeout(c))
        /\ WF_vars(RxNext)
Spec == Init /\ [][Next]_vars /\ Fair

-----------------------------------------------------------------------------
(* The property, clause by clause                                            *)
Msgs == ref.msgs                      \* what the bytes received so far contain
RefIsParse == ref.msgs = Parse(rxStream)   \* (checked in the framing config)
IsPkt(m)  == m.k = "pkt"
IsGood(m) == m.k = "pkt" /\ CsOk(m.raw)
IsAck(m)  == m.k = "ack"
PayloadM(m) == Unescape(Body(m.raw))
AckOfM(m) == IF CsOk(m.raw) THEN <<43>> ELSE <<45>>
ValM(m) == m.v
IsAckUnit(u) == u = <<43>> \/ u = <<45>>
Ident(u) == u

\* Framing: one packed packet is recognised as exactly one packet carrying the payload
FramingOf(p) == /\ Parse(Pack(p)) = <<PktMsg(Pack(p))>>
                /\ CsOk(Pack(p)) /\ Unescape(Body(Pack(p))) = p
                /\ \A j \in 2..Len(Pack(p)) - 3 : Pack(p)[j] \notin {35, 36}   \* no raw # or $ inside the frame
Framing == \A p \in Payloads : FramingOf(p)

\* no incoming message lost or delivered twice: the on_message calls are exactly the
\* well-formed packets of the received stream, in order, payload un-escaped
ExactlyOnce == delivered = SelectMap(Msgs, IsGood, PayloadM)
\* every packet is answered: + for a good checksum, - for a bad one, in order
BadChecksumNacked == SelectMap(txlog, IsAckUnit, Ident) = SelectMap(Msgs, IsPkt, AckOfM)
\* every + and - of the stream reaches the sender side (nothing else does)
NoAckLost == ackIn = SelectMap(Msgs, IsAck, ValM)
ReceiverStaysAlive == rxAlive
\* what the peer sent intact is what was delivered (once the line is drained)
LogGood(e) == e.good
LogP(e) == e.p
PeerDelivered == (toClient = <<>> /\ rxAlive /\ rxPend = "") => delivered = SelectMap(peerLog, LogGood, LogP)

\* Retransmit: one transmission, plus one per '-' consumed while the budget lasts;
\* nothing is transmitted after '+'; raise only with the budget exhausted
Retransmit == \A c \in Clients :
    LET r == cl[c] IN
    /\ r.tries <= Budget + 1
    /\ r.st = "wait"   => r.tries = 1 + r.nacks
    /\ r.st = "done"   => r.last = "+" /\ r.tries = 1 + r.nacks
    /\ r.st = "failed" => r.tries = Budget + 1 /\ r.nacks >= Budget
MutualExclusion == Cardinality({c \in Clients : cl[c].st = "wait"}) <= 1
TypeOK == /\ Len(ackq) <= AckCap /\ rxPend \in {"", "+", "-"} /\ peerPos <= Len(txlog)
          /\ dec.st \in {"idle", "body", "c1", "c2", "nbody", "nc1", "nc2"}

\* liveness: every send eventually returns or raises
SendTerminates == \A c \in Clients : (cl[c].st \in {"lockwait", "wait"}) ~> (cl[c].st \in Returned)
=============================================================================
