---------------------------- MODULE RV32_GenRun ----------------------------
(* Stand-alone run of the generator (used when the laws are not re-checked,  *)
(* e.g. for a replay).                                                       *)
EXTENDS RV32_Gen
ASSUME WriteTable
VARIABLE x
Init == x = 0
Next == UNCHANGED x
=============================================================================
