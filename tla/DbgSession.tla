----------------------------- MODULE DbgSession -----------------------------
(* X17 - debugger session state machine.                                     *)
(*                                                                           *)
(* Mirrors ppci.binutils.dbg.debugger.Debugger driving a target through      *)
(* ppci.binutils.dbg.gdb.client.GdbDebugDriver (and, as a second tiny        *)
(* machine, dummy_driver.DummyDebugDriver).  One action per debugger command *)
(* and per reaction of the remote stub / target:                             *)
(*                                                                           *)
(*   client (main thread)  CmdRun CmdStop CmdStep CmdRestart CmdSetBp        *)
(*                         CmdClearBp CmdReadMem CmdWriteMem CmdReadRegs     *)
(*                         CmdWriteRegs CmdGetPc CmdSetPc                    *)
(*   client (stop thread)  StopThread   = _handle_stop_queue /               *)
(*                                        _process_stop_status               *)
(*   target / stub         TgtBreak TgtStepDone TgtIntr                      *)
(*                                                                           *)
(* Granularity.  A request that has a direct reply (g p P G m M Z z) and the *)
(* acknowledgement of any packet are one atomic exchange (the byte / ack     *)
(* level is the subject of Rsp.tla, property C35).  What stays in flight     *)
(* between actions is exactly the asynchronous part of the protocol:         *)
(*   intr   - interrupt bytes 0x03 sent by the client, not yet seen by the   *)
(*            stub (the line is FIFO: a later packet flushes them first)     *)
(*   stops  - stop replies the stub has sent, not yet consumed by the        *)
(*            client's stop thread (on the wire or in _stop_msg_queue)       *)
(*                                                                           *)
(* `flags` selects the machine: {} is the protocol the property describes,   *)
(* a flag adds one as-built deviation of the implementation:                 *)
(*   "RunAnyway"     run() while RUNNING still sends `c` and fires on_start  *)
(*   "EagerStopped"  stop() sets the status to STOPPED when it sends 0x03,   *)
(*                   not when the stop reply is consumed                     *)
(*   "StaleRegCache" P / G (register writes) leave _register_value_cache     *)
(*                   untouched                                               *)
(* Values: registers are sequences 1..NRegs (register number r of a packet   *)
(* is position r+1), the program counter is register PcIx.                   *)
EXTENDS Integers, Sequences, FiniteSets

CONSTANTS NRegs,      \* number of gdb registers of the architecture
          PCs,        \* sequence of code addresses in program order (cyclic)
          MemBase, MemLen,   \* data memory MemBase .. MemBase+MemLen-1
          PcRes,      \* pcresval of the driver
          MaxIntr, MaxStops  \* bounds on what may be in flight (model checking only)

VARIABLES
  drv,       \* "gdb" | "dummy"
  flags,     \* as-built deviations in force
  \* ---- client (GdbDebugDriver) ----
  status,    \* "RUNNING" | "STOPPED"     self.status
  cache,     \* seq of NRegs values or NoVal   self._register_value_cache
  reason,    \* self.stopreason
  pcstop,    \* self.pcstopval (NoVal = never set)
  \* ---- target behind the stub ----
  tstate,    \* "running" | "stepping" | "halted"
  tregs, tmem, tbps,
  \* ---- in flight ----
  intr, stops,
  \* ---- history / ghost ----
  bpset,     \* addresses the debugger has accepted a set_breakpoint for (not cleared since)
  lastEv,    \* last event fired: "none" | "start" | "stop"
  outst,     \* runs started by the target minus stop replies consumed by the client
  out,       \* what the last action did: [who, st0, tx, ret, evs, viol, evok]
  act        \* the last action (event format of DbgSession_Trace)

vars == <<drv, flags, status, cache, reason, pcstop, tstate, tregs, tmem, tbps, intr, stops,
          bpset, lastEv, outst, out, act>>

NoVal == -1
PcIx == 1
INTERRUPT == 2
BRKPOINT == 5
AllFlags == {"RunAnyway", "EagerStopped", "StaleRegCache"}
PcSet == {PCs[k] : k \in 1..Len(PCs)}
PosOf(pc) == CHOOSE k \in 1..Len(PCs) : PCs[k] = pc
Succ(pc) == IF pc \in PcSet THEN PCs[(PosOf(pc) % Len(PCs)) + 1] ELSE pc
NoCache == [r \in 1..NRegs |-> NoVal]
None == [t |-> "none", v |-> <<>>]   \* results are type-stable: kind + sequence
Min(a, b) == IF a < b THEN a ELSE b
Max(a, b) == IF a < b THEN b ELSE a

-----------------------------------------------------------------------------
(* The stub and the wire as one record, so that an exchange of several       *)
(* packets can be written as a composition of functions.                     *)
Cur == [st |-> tstate, regs |-> tregs, mem |-> tmem, bps |-> tbps, stops |-> stops,
        viol |-> FALSE, outst |-> outst]

IntrMsg == [sig |-> INTERRUPT, form |-> "S", pc |-> NoVal]

\* pending interrupt bytes reach the stub before any later packet (FIFO line): a running
\* target halts and reports it, a halted one ignores them
Flush(T) == IF intr = 0 \/ T.st = "halted" THEN T
            ELSE [T EXCEPT !.st = "halted", !.stops = Append(@, IntrMsg)]

\* the stub receives one packet.  `viol`: the client broke the alternation rule - a request
\* while the target runs, or while a stop reply is still unconsumed.
Recv(T, p) ==
  LET v == T.viol \/ T.st # "halted" \/ T.stops # <<>>
      U == [T EXCEPT !.viol = v] IN
  CASE p.k = "c" -> IF T.st = "halted" THEN [U EXCEPT !.st = "running", !.outst = Min(@ + 1, 3)] ELSE U
    [] p.k = "s" -> IF T.st = "halted" THEN [U EXCEPT !.st = "stepping", !.outst = Min(@ + 1, 3)] ELSE U
    [] p.k = "P" -> [U EXCEPT !.regs[p.r + 1] = p.v]
    [] p.k = "G" -> [U EXCEPT !.regs = p.v]
    [] p.k = "M" -> [U EXCEPT !.mem = [j \in 1..MemLen |->
                         IF j >= p.a - MemBase + 1 /\ j < p.a - MemBase + 1 + Len(p.d)
                         THEN p.d[j - (p.a - MemBase)] ELSE @[j]]]
    [] p.k = "Z" -> [U EXCEPT !.bps = @ \cup {p.a}]
    [] p.k = "z" -> [U EXCEPT !.bps = @ \ {p.a}]
    [] OTHER -> U            \* g, p, m: no effect on the target

SetT(T) == /\ tstate' = T.st /\ tregs' = T.regs /\ tmem' = T.mem /\ tbps' = T.bps
           /\ stops' = T.stops /\ intr' = 0 /\ outst' = T.outst
KeepT == UNCHANGED <<tstate, tregs, tmem, tbps, stops, intr, outst>>

MemBytes(T, a, n) == [j \in 1..n |-> T.mem[a - MemBase + j]]
InMem(a, n) == a >= MemBase /\ n >= 0 /\ a + n <= MemBase + MemLen

-----------------------------------------------------------------------------
(* Events: on_start / on_stop must fire exactly when the status changes.     *)
EvOk(evs, changed) == IF evs = <<>> THEN ~changed
                      ELSE Len(evs) = 1 /\ changed /\ evs[1] # lastEv
Report(who, tx, ret, evs, viol) ==
  /\ out' = [who |-> who, st0 |-> status, tx |-> tx, ret |-> ret, evs |-> evs, viol |-> viol,
             evok |-> EvOk(evs, status' # status)]
  /\ lastEv' = IF evs = <<>> THEN lastEv ELSE evs[Len(evs)]

\* a command the driver refuses (logs a warning): nothing is sent, nothing changes
Refuse(ret) == /\ UNCHANGED <<status, cache>> /\ KeepT
               /\ Report("main", <<>>, ret, <<>>, FALSE)

\* GdbDebugDriver._start
Started(T, tx) == /\ SetT(T) /\ status' = "RUNNING" /\ cache' = NoCache
                  /\ Report("main", tx, None, <<"start">>, T.viol)

Gdb == drv = "gdb"
Stopped == status = "STOPPED"
Keep1 == UNCHANGED <<drv, flags, reason, pcstop>>

-----------------------------------------------------------------------------
(* Commands of the main thread                                               *)
CmdRun ==
  /\ Gdb /\ act' = [a |-> "run"]
  /\ IF Stopped \/ "RunAnyway" \in flags
     THEN Started(Recv(Flush(Cur), [k |-> "c"]), <<[k |-> "c"]>>)
     ELSE Refuse(None)
  /\ UNCHANGED bpset /\ Keep1

CmdStep ==
  /\ Gdb /\ act' = [a |-> "step"]
  /\ IF Stopped
     THEN Started(Recv(Flush(Cur), [k |-> "s"]), <<[k |-> "s"]>>)
     ELSE Refuse(None)
  /\ UNCHANGED bpset /\ Keep1

CmdRestart ==
  /\ Gdb /\ act' = [a |-> "restart"]
  /\ IF Stopped
     THEN LET p == [k |-> "P", r |-> PcIx - 1, v |-> PcRes] IN
          Started(Recv(Recv(Flush(Cur), p), [k |-> "c"]), <<p, [k |-> "c"]>>)
     ELSE Refuse(None)
  /\ UNCHANGED bpset /\ Keep1

CmdStop ==
  /\ Gdb /\ act' = [a |-> "stop"]
  /\ IF ~Stopped
     THEN /\ intr < MaxIntr
          /\ intr' = intr + 1
          /\ status' = IF "EagerStopped" \in flags THEN "STOPPED" ELSE status
          /\ UNCHANGED <<cache, tstate, tregs, tmem, tbps, stops, outst>>
          /\ Report("main", <<[k |-> "intr"]>>, None, <<>>, FALSE)
     ELSE Refuse(None)
  /\ UNCHANGED bpset /\ Keep1

\* a request with a direct reply, sent only when STOPPED
Exchange(p, ret, newcache) ==
  LET T == Recv(Flush(Cur), p) IN
  /\ SetT(T) /\ UNCHANGED status /\ cache' = newcache
  /\ Report("main", <<p>>, ret, <<>>, T.viol)

CmdSetBp(a) ==
  /\ Gdb /\ act' = [a |-> "setbp", x |-> a]
  /\ IF Stopped THEN Exchange([k |-> "Z", a |-> a], None, cache) /\ bpset' = bpset \cup {a}
                ELSE Refuse(None) /\ UNCHANGED bpset
  /\ Keep1

CmdClearBp(a) ==
  /\ Gdb /\ act' = [a |-> "clrbp", x |-> a]
  /\ IF Stopped THEN Exchange([k |-> "z", a |-> a], None, cache) /\ bpset' = bpset \ {a}
                ELSE Refuse(None) /\ UNCHANGED bpset
  /\ Keep1

CmdReadMem(a, n) ==
  /\ Gdb /\ InMem(a, n) /\ act' = [a |-> "rmem", x |-> a, n |-> n]
  /\ IF Stopped THEN Exchange([k |-> "m", a |-> a, n |-> n], [t |-> "bytes", v |-> MemBytes(Cur, a, n)], cache)
                ELSE Refuse([t |-> "bytes", v |-> <<>>])
  /\ UNCHANGED bpset /\ Keep1

CmdWriteMem(a, d) ==
  /\ Gdb /\ InMem(a, Len(d)) /\ act' = [a |-> "wmem", x |-> a, d |-> d]
  /\ IF Stopped THEN Exchange([k |-> "M", a |-> a, d |-> d], None, cache)
                ELSE Refuse(None)
  /\ UNCHANGED bpset /\ Keep1

CmdReadRegs ==
  /\ Gdb /\ act' = [a |-> "rregs"]
  /\ IF Stopped THEN Exchange([k |-> "g"], [t |-> "regs", v |-> tregs], tregs)
                ELSE Refuse([t |-> "regs", v |-> <<>>])
  /\ UNCHANGED bpset /\ Keep1

CmdWriteRegs(v) ==
  /\ Gdb /\ act' = [a |-> "wregs", w |-> v]
  /\ IF Stopped THEN Exchange([k |-> "G", v |-> v], None, IF "StaleRegCache" \in flags THEN cache ELSE v)
                ELSE Refuse(None)
  /\ UNCHANGED bpset /\ Keep1

CmdGetPc ==
  /\ Gdb /\ act' = [a |-> "getpc"]
  /\ IF Stopped
     THEN IF cache[PcIx] # NoVal
          THEN /\ UNCHANGED <<status, cache>> /\ KeepT
               /\ Report("main", <<>>, [t |-> "int", v |-> <<cache[PcIx]>>], <<>>, FALSE)
          ELSE Exchange([k |-> "p", r |-> PcIx - 1], [t |-> "int", v |-> <<tregs[PcIx]>>],
                        [cache EXCEPT ![PcIx] = tregs[PcIx]])
     ELSE Refuse([t |-> "int", v |-> <<0>>])
  /\ UNCHANGED bpset /\ Keep1

CmdSetPc(v) ==
  /\ Gdb /\ act' = [a |-> "setpc", v |-> v]
  /\ IF Stopped THEN Exchange([k |-> "P", r |-> PcIx - 1, v |-> v], None,
                              IF "StaleRegCache" \in flags THEN cache ELSE [cache EXCEPT ![PcIx] = v])
                ELSE Refuse(None)
  /\ UNCHANGED bpset /\ Keep1

-----------------------------------------------------------------------------
(* The stop thread consumes one stop reply: _process_stop_status.            *)
StopThread ==
  /\ Gdb /\ stops # <<>> /\ act' = [a |-> "stopthr"]
  /\ LET m == Head(stops)
         needg == cache[PcIx] = NoVal
         T0 == [Cur EXCEPT !.stops = Tail(stops), !.outst = Max(@ - 1, 0)]
         T1 == IF needg THEN Recv(Flush(T0), [k |-> "g"]) ELSE T0 IN
     /\ tstate' = T1.st /\ tregs' = T1.regs /\ tmem' = T1.mem /\ tbps' = T1.bps
     /\ stops' = T1.stops /\ outst' = T1.outst /\ intr' = IF needg THEN 0 ELSE intr
     /\ reason' = m.sig
     /\ pcstop' = IF m.form = "T" THEN m.pc ELSE pcstop
     /\ cache' = IF needg THEN T1.regs ELSE cache
     /\ status' = "STOPPED"
     /\ Report("stopthr", IF needg THEN <<[k |-> "g"]>> ELSE <<>>, None, <<"stop">>, T1.viol)
  /\ UNCHANGED <<drv, flags, bpset>>

-----------------------------------------------------------------------------
(* The target                                                                *)
TgtReport == /\ out' = [who |-> "target", st0 |-> status, tx |-> <<>>, ret |-> None, evs |-> <<>>,
                      viol |-> FALSE, evok |-> TRUE]
             /\ UNCHANGED lastEv

TgtBreak(b, form) ==
  /\ Gdb /\ tstate = "running" /\ b \in tbps /\ Len(stops) < MaxStops
  /\ act' = [a |-> "tbreak", x |-> b, form |-> form]
  /\ tstate' = "halted" /\ tregs' = [tregs EXCEPT ![PcIx] = b]
  /\ stops' = Append(stops, [sig |-> BRKPOINT, form |-> form, pc |-> IF form = "T" THEN b ELSE NoVal])
  /\ TgtReport
  /\ UNCHANGED <<drv, flags, status, cache, reason, pcstop, tmem, tbps, intr, bpset, outst>>

TgtStepDone(form) ==
  /\ Gdb /\ tstate = "stepping" /\ Len(stops) < MaxStops
  /\ act' = [a |-> "tstep", form |-> form]
  /\ LET npc == Succ(tregs[PcIx]) IN
     /\ tstate' = "halted" /\ tregs' = [tregs EXCEPT ![PcIx] = npc]
     /\ stops' = Append(stops, [sig |-> BRKPOINT, form |-> form, pc |-> IF form = "T" THEN npc ELSE NoVal])
  /\ TgtReport
  /\ UNCHANGED <<drv, flags, status, cache, reason, pcstop, tmem, tbps, intr, bpset, outst>>

TgtIntr ==
  /\ Gdb /\ intr > 0 /\ (tstate # "halted" => Len(stops) < MaxStops)
  /\ act' = [a |-> "tintr"]
  /\ LET T == Flush(Cur) IN tstate' = T.st /\ stops' = T.stops
  /\ intr' = 0
  /\ TgtReport
  /\ UNCHANGED <<drv, flags, status, cache, reason, pcstop, tregs, tmem, tbps, bpset, outst>>

-----------------------------------------------------------------------------
(* DummyDebugDriver: the driver is its own target.  No packets, no events;   *)
(* reads return zeros, writes are dropped (a documented stub).               *)
DummyKeep == /\ UNCHANGED <<drv, flags, cache, reason, pcstop, bpset>> /\ KeepT
DummyCmd(name, newstatus, ret) ==
  /\ drv = "dummy" /\ act' = [a |-> name]
  /\ status' = newstatus
  /\ out' = [who |-> "main", st0 |-> status, tx |-> <<>>, ret |-> ret, evs |-> <<>>, viol |-> FALSE, evok |-> TRUE]
  /\ UNCHANGED lastEv /\ DummyKeep
DummyRun == DummyCmd("run", "RUNNING", None)
DummyRestart == DummyCmd("restart", "RUNNING", None)
DummyStop == DummyCmd("stop", "STOPPED", None)
DummyStep == DummyCmd("step", status, None)
DummyGetPc == DummyCmd("getpc", status, [t |-> "int", v |-> <<0>>])
DummyReadMem(n) == DummyCmd("rmem0", status, [t |-> "bytes", v |-> [j \in 1..n |-> 0]]) /\ n \in 0..MemLen
DummyReadRegs == DummyCmd("rregs", status, [t |-> "regs", v |-> [j \in 1..NRegs |-> 0]])
DummyNext == DummyRun \/ DummyRestart \/ DummyStop \/ DummyStep \/ DummyGetPc \/ DummyReadRegs
             \/ \E n \in 0..MemLen : DummyReadMem(n)

-----------------------------------------------------------------------------
InitWith(d, f) ==
  /\ drv = d /\ flags = f
  /\ status = IF d = "gdb" THEN "RUNNING" ELSE "STOPPED"
  /\ cache = NoCache /\ reason = INTERRUPT /\ pcstop = NoVal
  /\ tstate = "running" /\ tregs = [r \in 1..NRegs |-> PCs[1]] /\ tmem = [j \in 1..MemLen |-> 0]
  /\ tbps = {} /\ intr = 0 /\ stops = <<>>
  /\ bpset = {} /\ lastEv = "none" /\ outst = 1
  /\ out = [who |-> "none", st0 |-> "RUNNING", tx |-> <<>>, ret |-> None, evs |-> <<>>, viol |-> FALSE, evok |-> TRUE]
  /\ act = [a |-> "init"]

-----------------------------------------------------------------------------
(* The clauses of the property                                               *)
IsGdb == drv = "gdb"
Quiescent == intr = 0 /\ stops = <<>>

\* the debugger's view of run/halt equals the target's state: STOPPED is shown only when the
\* target has halted and its stop reply has been consumed; when nothing is in flight the
\* view is exact
ViewMatchesTarget ==
  IsGdb => /\ status = "STOPPED" => tstate = "halted" /\ stops = <<>>
           /\ (Quiescent /\ status = "RUNNING") => tstate # "halted"

\* a register value the client holds (and get_pc / _get_register return) is the target's:
\* a write followed by a read returns the written value
CacheCoherent ==
  (IsGdb /\ status = "STOPPED" /\ tstate = "halted") =>
      \A r \in 1..NRegs : cache[r] # NoVal => cache[r] = tregs[r]

\* a breakpoint is installed in the target iff the debugger accepted it
BpConsistent == IsGdb => tbps = bpset

\* requests other than the interrupt are refused while the view says RUNNING
RefusedWhileRunning ==
  (out.who = "main" /\ out.st0 = "RUNNING") => \A j \in 1..Len(out.tx) : out.tx[j].k = "intr"

\* the client never sends a request while the target runs or a stop reply is unconsumed
Alternation == ~out.viol

\* every run is terminated by exactly one consumed stop reply
OneStopPerRun ==
  IsGdb => /\ Len(stops) <= 1
           /\ outst \in {0, 1}
           /\ (outst = 0) <=> (status = "STOPPED")

\* events fire exactly once per status change, alternating, and agree with the status
EventsOnce ==
  IsGdb => /\ out.evok
           /\ lastEv = "start" => status = "RUNNING"
           /\ lastEv = "stop" => status = "STOPPED"

\* the state from which a history is again indistinguishable from a clean one
InSync ==
  /\ (status = "STOPPED") <=> (tstate = "halted" /\ stops = <<>> /\ outst = 0)
  /\ status = "RUNNING" => Len(stops) <= 1 /\ outst = 1 /\ (stops # <<>> <=> tstate = "halted")
  /\ tbps = bpset
  /\ lastEv # "none" => (lastEv = "start") <=> (status = "RUNNING")
  /\ CacheCoherent

AllClauses == /\ ViewMatchesTarget /\ CacheCoherent /\ BpConsistent /\ RefusedWhileRunning
              /\ Alternation /\ OneStopPerRun /\ EventsOnce
=============================================================================
