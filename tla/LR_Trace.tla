------------------------------ MODULE LR_Trace ------------------------------
(* Idioms E + T for property C32.  TRACE_FILE is a JSON array with one      *)
(* record per grammar of the work list:                                     *)
(*   key    : name of the grammar (for the report only)                     *)
(*   G      : the grammar (LR.tla format)                                   *)
(*   maxlen : length of the longest word tried for this grammar             *)
(*   first  : [ok, sets]  what ppci's calculate_first_sets returned         *)
(*   lr     : [outcome |-> "tables" | "conflict" | "crash", tab |-> ...]    *)
(*            the action/goto tables LrParserBuilder produced (LR.tla       *)
(*            table format; ppci's production numbers + 1)                  *)
(*   runs   : for every word w of the work list                             *)
(*            [w, lr |-> [ok, acc, events, tree], earley |-> [ok, acc]]     *)
(*            lr.acc   : LrParser.parse returned (TRUE) / raised            *)
(*                       ParserException (FALSE); ok = FALSE: anything else *)
(*            lr.events: 0 per token fetched after a shift, p per call of   *)
(*                       the semantic action of production p, in order      *)
(*            lr.tree  : the value parse returned (the semantic actions     *)
(*                       build [p, kids] nodes over [tok, at] leaves)       *)
(*            earley.acc: EarleyParser recognised the word                  *)
(* TLC (a) evaluates the property on every run (clauses Lr.., Earley..),    *)
(* (b) loads ppci's tables into the shift-reduce machine of LR.tla, runs it *)
(* on every word, checks the stack discipline in every configuration, the   *)
(* verdict against Derives (clauses Tables.. / Machine..) and the recorded    *)
(* run of the real driver against the machine's run (DriverAgrees).         *)
(* Fan-out: chunk, then grammar i, then run k, then the machine's steps.    *)
EXTENDS LR, Json, IOUtils

Recs == JsonDeserialize(IOEnv.TRACE_FILE)
NChunks == 64
MaxSteps == 120

VARIABLES chunk, i, lang, k, d, c
vars == <<chunk, i, lang, k, d, c>>

Idle == [Cfg0 EXCEPT !.status = "idle"]
R == Recs[i]
G == R.G
HasTables == R.lr.outcome = "tables"
Tab == R.lr.tab
Run == R.runs[k]
W == Run.w

Init == chunk = 0 /\ i = 0 /\ lang = {} /\ k = 0 /\ d = "?" /\ c = Idle
PickChunk == /\ chunk = 0 /\ chunk' \in 1..NChunks
             /\ UNCHANGED <<i, lang, k, d, c>>
\* choose a grammar; compute its language up to maxlen once (the oracle of
\* every clause: LangUpTo(G, n) = {w : Derives(G, w), Len(w) <= n}, a law
\* model-checked in LR_MC and re-checked here on a sample, LangAgrees)
PickRec == /\ chunk > 0 /\ i = 0
           /\ i' \in {n \in 1..Len(Recs) : n % NChunks = chunk - 1}
           /\ lang' = LangUpTo(Recs[i'].G, Recs[i'].maxlen)
           /\ UNCHANGED <<chunk, k, d, c>>
\* choose a word
PickRun == /\ i > 0 /\ k = 0
           /\ k' \in 1..Len(R.runs)
           /\ d' = IF R.runs[k'].w \in lang THEN "yes" ELSE "no"
           /\ lang' = {}
           /\ c' = IF HasTables THEN Cfg0 ELSE [Cfg0 EXCEPT !.status = "notables"]
           /\ UNCHANGED <<chunk, i>>
AtRunStart == k > 0 /\ c.status \in {"run", "notables"} /\ c.trace = <<>>
\* a sibling state in which only the Earley clause is judged
JudgeEarley == /\ AtRunStart
               /\ c' = [c EXCEPT !.status = "earley"]
               /\ UNCHANGED <<chunk, i, lang, k, d>>

\* ---- the machine on ppci's tables -----------------------------------------
Running == k > 0 /\ c.status = "run" /\ Len(c.trace) < MaxSteps
Shift  == /\ Running /\ CurAct(Tab, W, c).k = "shift"
          /\ c' = ShiftStep(W, c, CurAct(Tab, W, c)) /\ UNCHANGED <<chunk, i, lang, k, d>>
Reduce == /\ Running /\ CurAct(Tab, W, c).k = "reduce"
          /\ c' = ReduceStep(G, Tab, c, CurAct(Tab, W, c).p, FALSE) /\ UNCHANGED <<chunk, i, lang, k, d>>
Accept == /\ Running /\ CurAct(Tab, W, c).k = "accept"
          /\ c' = ReduceStep(G, Tab, c, CurAct(Tab, W, c).p, TRUE) /\ UNCHANGED <<chunk, i, lang, k, d>>
Error  == /\ Running /\ CurAct(Tab, W, c).k = "error"
          /\ c' = ErrorStep(c) /\ UNCHANGED <<chunk, i, lang, k, d>>
OutOfFuel == /\ k > 0 /\ c.status = "run" /\ Len(c.trace) >= MaxSteps
             /\ c' = Diverge(c) /\ UNCHANGED <<chunk, i, lang, k, d>>
Next == PickChunk \/ PickRec \/ PickRun \/ JudgeEarley
        \/ Shift \/ Reduce \/ Accept \/ Error \/ OutOfFuel

\* the oracle agrees with the definition (sampled: one run in eight)
LangAgrees == (AtRunStart /\ Len(W) <= R.maxlen /\ (i + k) % 8 = 0) => (d = "yes" <=> Derives(G, W))
WordsInRange == k > 0 => Len(W) <= R.maxlen

\* ---- grammar level -----------------------------------------------------------
\* calculate_first_sets: for every non-terminal exactly the terminals that can
\* begin a derived string ("EPS" may mark a nullable symbol, nothing else)
FirstSetsOk == (i > 0 /\ k = 0) =>
    /\ R.first.ok
    /\ LET F == First(G)
           nul == Nullable(G)
       IN \A X \in NonTerms(G) :
            /\ X \in DOMAIN R.first.sets
            /\ RangeOf(R.first.sets[X]) \ {"EPS"} = F[X]
            /\ "EPS" \in RangeOf(R.first.sets[X]) => X \in nul

\* ---- E: the property on the real parser's runs ----------------------------------
LrRan == AtRunStart /\ HasTables
Accepted == Run.lr.ok /\ Run.lr.acc
\* parse either returns or raises ParserException (claimed for grammars without
\* shift/reduce conflict only: with silently resolved conflicts the property
\* promises nothing but LrSound, e.g. not termination)
LrClean == (LrRan /\ ~Run.lr.ok) => HasSRConflict(G)
\* never accepts a word outside the language (also with resolved conflicts)
LrSound == (LrRan /\ Accepted) => d = "yes"
\* the returned value is the one the semantic actions compute along a
\* derivation of the input: a derivation tree of w whose productions are
\* exactly the semantic actions that were called, in bottom-up order
LrTree == (LrRan /\ Accepted) =>
    /\ IsDerivationTree(G, Run.lr.tree, W)
    /\ PostOrder(Run.lr.tree) = SelectSeq(Run.lr.events, LAMBDA x : x > 0)
\* accepts every word of the language, unless the grammar has shift/reduce
\* conflicts (which the builder resolves silently; then only LrSound is claimed)
LrComplete == (LrRan /\ d = "yes" /\ ~Accepted) => HasSRConflict(G)
\* the Earley recogniser decides the same language (any grammar)
EarleyOk == (k > 0 /\ c.status = "earley") =>
    /\ Run.earley.ok
    /\ Run.earley.acc <=> d = "yes"

\* ---- T: ppci's tables in the machine ------------------------------------------
Live == k > 0 /\ c.status \in {"run", "accept", "reject"}
TablesWellFormed == c.status \in {"broken", "diverge"} => HasSRConflict(G)
MachineStackShape == Live => StackShape(c)
MachineViable == Live => ViablePrefix(G, c.syms)
MachineAcceptAtEnd == Live => AcceptAtEnd(G, W, c)
TablesSound == (k > 0 /\ c.status = "accept") => d = "yes"
TablesExact == (k > 0 /\ c.status = "reject" /\ d = "yes") => HasSRConflict(G)
\* the real driver did what the machine does with the same tables
DriverAgrees == (k > 0 /\ c.status \in {"accept", "reject"}) =>
    /\ Run.lr.ok
    /\ Run.lr.acc = (c.status = "accept")
    /\ Run.lr.events = c.trace
    /\ Run.lr.acc => Run.lr.tree = c.result
=============================================================================
