---------------------------- MODULE Reloop_Trace ----------------------------
(* Idiom T for X05: every recorded outcome of ppci's find_structure /        *)
(* StructureDetector.detect -- the CFG projected from the ir function (or    *)
(* the hand-built graph) and the shape tree it returned, or the exception it *)
(* raised -- is run through the two machines of Reloop.tla.  TLC explores    *)
(* every product state of every case, so each recorded tree is judged for    *)
(* all sequences of branch decisions.                                        *)
EXTENDS Reloop, Json, IOUtils
Recs == JsonDeserialize(IOEnv.TRACE_FILE)
PickCase == PickGuard /\ (\E k \in InChunk(Len(Recs)) : i' = k /\ cs' = Recs[k]) /\ Picked
Next == PickChunk \/ PickCase \/ Step
=============================================================================
