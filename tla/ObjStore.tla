------------------------------ MODULE ObjStore ------------------------------
(* Property C14: Load(Save(o)) = o, judged per component on the projected    *)
(* object state (the state of Linker.tla extended with entry symbol,         *)
(* architecture and debug information).  TRACE_FILE = JSON array of          *)
(*   {key, kind: "object" | "archive",                                       *)
(*    saved: {ok, exc}, loaded: {ok, exc},                                   *)
(*    before: [object], after: [object]}        (one object unless archive)  *)
(* object = harness/project_obj.py projection with unbounded integers        *)
(* written as decimal strings:                                               *)
(*   {arch, sections: [{name, address, alignment, data: [u8]}],              *)
(*    symbols: [{id, name, binding, def, value, sec, hassec, typ, size}],    *)
(*    relocations: [{type, sym, sec, off, add}],                             *)
(*    images: [{name, address, secs: [name]}], entry, debug}                 *)
(* Save followed by Load must be a stutter on this state; each clause of     *)
(* the property is an invariant of its own, so the failing one names what    *)
(* was lost.  (That linking the reloaded objects gives the same result is    *)
(* judged by Linker_Trace: the reloaded objects are linked under the         *)
(* recorder and the trace must be a behaviour of Linker.tla started from     *)
(* the *original* objects.)                                                  *)
EXTENDS Integers, Sequences, Json, IOUtils
Recs == JsonDeserialize(IOEnv.TRACE_FILE)
NChunks == 8
VARIABLES chunk, i
Init == chunk = 0 /\ i = 0
PickChunk == chunk = 0 /\ chunk' \in 1..NChunks /\ UNCHANGED i
PickRec == chunk > 0 /\ i = 0 /\ i' \in {k \in 1..Len(Recs) : k % NChunks = chunk - 1} /\ UNCHANGED chunk
Next == PickChunk \/ PickRec

R == Recs[i]
Done == i > 0 /\ R.saved.ok /\ R.loaded.ok
\* the abstract action: saving and loading does not change the object state
SaveLoad(o) == o
Each(P(_, _)) == Done => /\ Len(R.after) = Len(R.before)
                         /\ \A k \in 1..Len(R.before) : k <= Len(R.after) => P(SaveLoad(R.before[k]), R.after[k])

SaveSucceeds == i > 0 => R.saved.ok
LoadSucceeds == i > 0 /\ R.saved.ok => R.loaded.ok
MembersSurvive == Done => Len(R.after) = Len(R.before)          \* an archive keeps its members, in order

SecNames(o) == [k \in 1..Len(o.sections) |-> o.sections[k].name]
SameSectionNames(a, b)      == SecNames(a) = SecNames(b)
SameSectionAddresses(a, b)  == [k \in 1..Len(a.sections) |-> a.sections[k].address] = [k \in 1..Len(b.sections) |-> b.sections[k].address]
SameSectionAlignments(a, b) == [k \in 1..Len(a.sections) |-> a.sections[k].alignment] = [k \in 1..Len(b.sections) |-> b.sections[k].alignment]
SameSectionData(a, b)       == [k \in 1..Len(a.sections) |-> a.sections[k].data] = [k \in 1..Len(b.sections) |-> b.sections[k].data]
SymField(o, f(_)) == [k \in 1..Len(o.symbols) |-> f(o.symbols[k])]
SameSymbolNames(a, b)   == SymField(a, LAMBDA y : <<y.id, y.name>>) = SymField(b, LAMBDA y : <<y.id, y.name>>)
SameSymbolBinding(a, b) == SymField(a, LAMBDA y : <<y.binding, y.typ, y.size>>) = SymField(b, LAMBDA y : <<y.binding, y.typ, y.size>>)
SameSymbolValues(a, b)  == SymField(a, LAMBDA y : <<y.def, y.value, y.hassec, y.sec>>) = SymField(b, LAMBDA y : <<y.def, y.value, y.hassec, y.sec>>)
SameRelocations(a, b) == a.relocations = b.relocations
SameImages(a, b)      == a.images = b.images
SameEntry(a, b)       == a.entry = b.entry
SameArch(a, b)        == a.arch = b.arch
SameDebug(a, b)       == a.debug = b.debug

SectionNamesSurvive      == Each(SameSectionNames)
SectionAddressesSurvive  == Each(SameSectionAddresses)
SectionAlignmentsSurvive == Each(SameSectionAlignments)
SectionDataSurvive       == Each(SameSectionData)
SymbolNamesSurvive       == Each(SameSymbolNames)
SymbolBindingSurvive     == Each(SameSymbolBinding)
SymbolValuesSurvive      == Each(SameSymbolValues)
RelocationsSurvive       == Each(SameRelocations)
ImagesSurvive            == Each(SameImages)
EntrySurvives            == Each(SameEntry)
ArchSurvives             == Each(SameArch)
DebugInfoSurvives        == Each(SameDebug)
=============================================================================
