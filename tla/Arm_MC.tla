------------------------------- MODULE Arm_MC -------------------------------
(* Idiom M for ArmExec.tla: laws of the execution model itself.              *)
(*  "flg"  ADDS / SUBS / CMP / ADCS / SBCS on boundary operand pairs: result *)
(*         and N Z C V against integer arithmetic on 16-bit halves           *)
(*  "sh"   Shift_C against its bit-level definition (every type x amount     *)
(*         0..33, 64, 255 x boundary words x carry in)                        *)
(*  "cnd"  the condition table after CMP x, y against the unsigned / signed   *)
(*         order of Words.tla                                                 *)
(*  "blk"  STM<mode> Rn!, list followed by the inverse LDM restores list and *)
(*         Rn (all four modes, push / pop, ARM and Thumb)                     *)
(*  "rw"   for decoded instructions (every high byte x sampled low bytes of  *)
(*         the 16-bit space, sampled A32 words) x seeded states: Step changes *)
(*         no register outside ArmCommon.Writes(d), and two states that      *)
(*         differ only in registers outside Reads(d) produce the same        *)
(*         written registers, memory and next pc.  This ties the static sets *)
(*         that decide C07 to the dynamic semantics.                         *)
EXTENDS ArmExec
CONSTANT Deep

VARIABLES fam, pick
vars == <<fam, pick>>
None == [k |-> "none"]

BW == << <<0, 0, 0, 0>>, <<1, 0, 0, 0>>, <<255, 255, 255, 127>>, <<0, 0, 0, 128>>, <<255, 255, 255, 255>>, <<254, 255, 255, 255>>,
         <<1, 0, 0, 128>>, <<0, 0, 1, 0>>, <<255, 255, 0, 0>>, <<120, 86, 52, 18>>, <<0, 0, 0, 64>>, <<255, 255, 255, 191>> >>
NBW == Len(BW)
State(seed, f) == SeedState(seed, f)
SetX(s, k, w) == [s EXCEPT !.x = Mk([s.x EXCEPT ![k + 1] = w])]
Flags == {<<0, 0, 0, 0>>, <<1, 0, 1, 0>>, <<0, 1, 1, 1>>, <<1, 0, 0, 1>>}

\* ---- integer arithmetic on halves
Lo16(w) == w[1] + 256 * w[2]
Hi16(w) == w[3] + 256 * w[4]
SHi(w) == IF Hi16(w) >= 32768 THEN Hi16(w) - 65536 ELSE Hi16(w)
FromHalves(hi, lo) == <<lo % 256, lo \div 256, hi % 256, hi \div 256>>
\* x + y + c (sub = FALSE) or x - y - (1 - c) (sub = TRUE): [r, n, z, c, v]
IntAdd(x, y, c, sub) ==
    LET yl == IF sub THEN 65535 - Lo16(y) ELSE Lo16(y)  yh == IF sub THEN 65535 - Hi16(y) ELSE Hi16(y)
        lo == Lo16(x) + yl + c  hi == Hi16(x) + yh + lo \div 65536
        r == FromHalves(hi % 65536, lo % 65536)
        \* signed value of the exact result, in units of 2^16 (floor)
        syh == IF sub THEN -SHi(y) - 1 ELSE SHi(y)
        t == SHi(x) + syh + lo \div 65536 IN
    [r |-> r, n |-> r[4] \div 128, z |-> IF r = <<0, 0, 0, 0>> THEN 1 ELSE 0, c |-> hi \div 65536,
     v |-> IF t < -32768 \/ t > 32767 THEN 1 ELSE 0]

Thumb3(mn) == AsmT(mn, <<<<"r", 0, "">>, <<"r", 1, "">>, <<"r", 2, "">>>>, 0, 0)
Thumb2(mn, a, b) == AsmT(mn, <<<<"r", a, "">>, <<"r", b, "">>>>, 0, 0)

Init == fam = "none" /\ pick = None
PickFam == fam = "none" /\ fam' \in {"flg", "sh", "cnd", "blk", "rw"} /\ pick' = None
PickFlg == fam = "flg" /\ pick = None /\ UNCHANGED fam
           /\ \E a \in 1..NBW, b \in 1..NBW, c \in {0, 1} : pick' = [k |-> "flg", x |-> BW[a], y |-> BW[b], c |-> c]
PickSh == fam = "sh" /\ pick = None /\ UNCHANGED fam
          /\ \E a \in 1..NBW, ty \in {"lsl", "lsr", "asr", "ror", "rrx"}, n \in (0..33) \cup {64, 255}, c \in {0, 1} :
                pick' = [k |-> "sh", v |-> BW[a], ty |-> ty, n |-> n, c |-> c]
PickCnd == fam = "cnd" /\ pick = None /\ UNCHANGED fam
           /\ \E a \in 1..NBW, b \in 1..NBW : pick' = [k |-> "cnd", x |-> BW[a], y |-> BW[b]]
Lists == {{0}, {1, 2}, {0, 3, 7}, {4, 5, 6, 11, 12}, {0, 1, 2, 3, 4, 5, 6, 7}, {2, 14}}
PickBlk == fam = "blk" /\ pick = None /\ UNCHANGED fam
           /\ \E l \in Lists, md \in {"ia", "ib", "da", "db", "pp"}, isa \in {"arm", "thumb"}, rn \in {8, 13} :
                 (isa = "thumb" => (md \in {"ia", "pp"} /\ l \subseteq 0..7)) /\ (md = "pp" => rn = 13) /\ (isa = "thumb" /\ md = "ia" => rn = 8)
                 /\ pick' = [k |-> "blk", l |-> l, md |-> md, isa |-> isa, rn |-> IF isa = "thumb" /\ md = "ia" THEN 3 ELSE rn]
RwLo == IF Deep THEN {10, 83, 177, 255, 0, 64, 201, 38} ELSE {10, 83, 177, 255}
RwAHi == {cnd * 4096 + op * 16 + rn : cnd \in {14}, op \in 0..255, rn \in {1, 13}} \cup {op * 16 + 2 : op \in {9, 41, 80, 89, 139}}
RwALo == {1, 144, 4660, 177, 61713, 3857, 65297, 32771} \cup (IF Deep THEN {16, 96, 241, 4021, 7956, 40960, 57343, 33825, 2} ELSE {})
PickRwT == fam = "rw" /\ pick = None /\ UNCHANGED fam /\ \E hi \in 0..255 : pick' = [k |-> "rw-", isa |-> "thumb", hi |-> hi]
PickRwA == fam = "rw" /\ pick = None /\ UNCHANGED fam /\ \E hi \in RwAHi : pick' = [k |-> "rw-", isa |-> "arm", hi |-> hi]
PickRw == fam = "rw" /\ pick.k = "rw-" /\ UNCHANGED fam
          /\ \E lo \in (IF pick.isa = "thumb" THEN RwLo ELSE RwALo), seed \in (IF Deep THEN {1, 2} ELSE {1}),
                f \in (IF Deep THEN Flags ELSE {<<0, 1, 1, 1>>, <<1, 0, 0, 1>>}) :
                LET d == IF pick.isa = "thumb" THEN Decode16(256 * pick.hi + lo) ELSE DecodeW(lo, pick.hi) IN
                Valid(d) /\ pick' = [k |-> "rw", isa |-> pick.isa, d |-> d, seed |-> seed, f |-> f]
Next == PickFam \/ PickFlg \/ PickSh \/ PickCnd \/ PickBlk \/ PickRwT \/ PickRwA \/ PickRw

-----------------------------------------------------------------------------
\* Thumb ADDS / SUBS / ADCS / SBCS / CMP r0|r1, r1, r2 on state r1 = x, r2 = y, C = c
LawFlags == pick.k = "flg" =>
    LET s == SetX(SetX(State(3, <<0, 0, pick.c, 0>>), 1, pick.x), 2, pick.y)
        add == Step(s, Thumb3("add"), "thumb")  sub == Step(s, Thumb3("sub"), "thumb")
        adc == Step(s, Thumb2("adc", 1, 2), "thumb")  sbc == Step(s, Thumb2("sbc", 1, 2), "thumb")
        cmp == Step(s, Thumb2("cmp", 1, 2), "thumb")
        ia == IntAdd(pick.x, pick.y, 0, FALSE)  is == IntAdd(pick.x, pick.y, 1, TRUE)
        iac == IntAdd(pick.x, pick.y, pick.c, FALSE)  isc == IntAdd(pick.x, pick.y, pick.c, TRUE)
        Same(t, rd, e) == t.st = "ok" /\ t.x[rd + 1] = e.r /\ t.f = <<e.n, e.z, e.c, e.v>> IN
    /\ Same(add, 0, ia) /\ Same(sub, 0, is) /\ Same(adc, 1, iac) /\ Same(sbc, 1, isc)
    /\ cmp.st = "ok" /\ cmp.f = <<is.n, is.z, is.c, is.v>> /\ cmp.x = s.x
    \* the A32 forms with and without S agree with the Thumb ones / leave the flags
    /\ LET a1 == Step(s, Complete(AsmA("adds", <<<<"r", 0, "">>, <<"r", 1, "">>, <<"r", 2, "">>>>, 0, 0)), "arm")
           a2 == Step(s, Complete(AsmA("rsb", <<<<"r", 0, "">>, <<"r", 2, "">>, <<"r", 1, "">>>>, 0, 0)), "arm") IN
       Same(a1, 0, ia) /\ a2.st = "ok" /\ a2.x[1] = is.r /\ a2.f = s.f
LawShifter == pick.k = "sh" =>
    LET v == pick.v  n == pick.n  r == ShiftC(v, pick.ty, n, pick.c)  w == r[1]  co == r[2]
        B(k) == IF k < 0 \/ k > 31 THEN 0 ELSE Bit(v, k) IN
    CASE pick.ty = "rrx" -> (\A k \in 0..30 : Bit(w, k) = B(k + 1)) /\ Bit(w, 31) = pick.c /\ co = B(0)
      [] n = 0 -> w = v /\ co = pick.c
      [] pick.ty = "lsl" -> (\A k \in 0..31 : Bit(w, k) = B(k - n)) /\ co = (IF n <= 32 THEN B(32 - n) ELSE 0)
      [] pick.ty = "lsr" -> (\A k \in 0..31 : Bit(w, k) = B(k + n)) /\ co = B(n - 1)
      [] pick.ty = "asr" -> (\A k \in 0..31 : Bit(w, k) = (IF k + n > 31 THEN B(31) ELSE B(k + n))) /\ co = (IF n > 32 THEN B(31) ELSE B(n - 1))
      [] pick.ty = "ror" -> (\A k \in 0..31 : Bit(w, k) = B((k + n) % 32)) /\ co = Bit(w, 31)
LawCond == pick.k = "cnd" =>
    LET s == SetX(SetX(State(5, <<0, 0, 0, 0>>), 1, pick.x), 2, pick.y)
        f == Step(s, Thumb2("cmp", 1, 2), "thumb").f  x == pick.x  y == pick.y IN
    /\ CondHolds(0, f) = (x = y) /\ CondHolds(1, f) = (x # y)
    /\ CondHolds(2, f) = ~WLtU(x, y) /\ CondHolds(3, f) = WLtU(x, y)
    /\ CondHolds(8, f) = WLtU(y, x) /\ CondHolds(9, f) = ~WLtU(y, x)
    /\ CondHolds(10, f) = ~WLtS(x, y) /\ CondHolds(11, f) = WLtS(x, y)
    /\ CondHolds(12, f) = WLtS(y, x) /\ CondHolds(13, f) = ~WLtS(y, x)
    /\ CondHolds(4, f) = IsNegW(WSub(x, y)) /\ CondHolds(5, f) = ~IsNegW(WSub(x, y))
    /\ CondHolds(14, f)
    /\ \A c \in {0, 2, 4, 6, 8, 10, 12} : CondHolds(c, f) # CondHolds(c + 1, f)
LawBlock == pick.k = "blk" =>
    LET isa == pick.isa  rn == pick.rn  l == pick.l
        Blk(mn, am) == IF isa = "thumb" THEN [I0 EXCEPT !.mn = mn, !.rn = rn, !.list = l, !.am = am, !.len = 2]
                     ELSE [I0 EXCEPT !.mn = mn, !.rn = rn, !.list = l, !.am = am, !.len = 4]
        st == IF pick.md = "pp" THEN Blk("push", "") ELSE Blk("stm", pick.md \o "!")
        inv == CASE pick.md = "ia" -> "db" [] pick.md = "db" -> "ia" [] pick.md = "ib" -> "da" [] pick.md = "da" -> "ib" [] OTHER -> ""
        ld == IF pick.md = "pp" THEN Blk("pop", "") ELSE Blk("ldm", inv \o "!")
        s == SetX(State(7, <<0, 0, 0, 0>>), rn, <<0, 64, 0, 0>>)
        t1 == Step(s, st, isa)
        s2 == [pc |-> t1.pc, x |-> Mk([k \in 1..15 |-> IF (k - 1) \in l THEN <<9, 9, 9, 9>> ELSE t1.x[k]]), f |-> t1.f, mem |-> t1.mem]
        t2 == Step(s2, ld, isa) IN
    (rn \notin l) => /\ t1.st = "ok" /\ t2.st = "ok"
                     /\ t2.x = s.x
                     /\ Len(t1.mem.ov) = 4 * Cardinality(l)
                     /\ t1.x[rn + 1] # s.x[rn + 1]
RwPair == LET s1 == State(pick.seed, pick.f)
              s2 == [s1 EXCEPT !.x = Mk([k \in 1..15 |-> IF (k - 1) \in Reads(pick.d) THEN s1.x[k] ELSE WNot(s1.x[k])])] IN <<s1, s2>>
LawWritesOnly == pick.k = "rw" =>
    \E s \in {RwPair[1]} : \E t \in {Step(s, pick.d, pick.isa)} :
        t.st = "ok" => \A r \in 0..14 : r \notin Writes(pick.d) => t.x[r + 1] = s.x[r + 1]
LawReadsOnly == pick.k = "rw" =>
    \E p \in {RwPair} : \E t1 \in {Step(p[1], pick.d, pick.isa)} : \E t2 \in {Step(p[2], pick.d, pick.isa)} :
        /\ t1.st = t2.st
        \* (a conditional instruction that is not executed leaves the old value of its destination: judged when executed)
        /\ (t1.st = "ok" /\ CondHolds(pick.d.cond, pick.f)) =>
                           /\ \A r \in Writes(pick.d) \ {PC} : t1.x[r + 1] = t2.x[r + 1]
                           /\ t1.mem = t2.mem /\ t1.pc = t2.pc /\ t1.f = t2.f
=============================================================================
