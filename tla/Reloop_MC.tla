----------------------------- MODULE Reloop_MC -----------------------------
(* Idiom M for X05: the interpreter of Reloop.tla model-checked on hand      *)
(* written (CFG, shape tree) pairs of every small CFG class -- straight      *)
(* line, diamond, if without else, while loop, loop left by falling off its  *)
(* body, nested loops with two-level break / continue, a multi-entry         *)
(* (irreducible) loop structured by node splitting, an n-way switch, an      *)
(* endless loop, a refusal -- so that every action is taken and every clause *)
(* holds (GoodCases), and on wrong trees for which a named clause must fail  *)
(* (BadCases; the engine compares the clauses TLC reports with `expect`).    *)
EXTENDS Reloop

B(b)        == [k |-> "basic", b |-> b, kids |-> <<>>]
S(kids)     == [k |-> "seq", b |-> 0, kids |-> kids]
If(b, y, n) == [k |-> "if", b |-> b, kids |-> <<y, n>>]
M(b, kids)  == [k |-> "multi", b |-> b, kids |-> kids]
L(body)     == [k |-> "loop", b |-> 0, kids |-> <<body>>]
Br(l)       == [k |-> "break", b |-> l, kids |-> <<>>]
Co(l)       == [k |-> "cont", b |-> l, kids |-> <<>>]
Gr(succ)    == [n |-> Len(succ), entry |-> 1, succ |-> succ]
Tr(nodes)   == [root |-> IF nodes = <<>> THEN 0 ELSE 1, nodes |-> nodes]
Ok          == [ok |-> TRUE, exc |-> ""]
No(exc)     == [ok |-> FALSE, exc |-> exc]
Case(key, succ, out, nodes, expect) ==
    [key |-> key, g |-> Gr(succ), out |-> out, t |-> Tr(nodes), expect |-> expect]

Straight == << <<2>>, <<3>>, <<>> >>
Diamond  == << <<2, 3>>, <<4>>, <<4>>, <<>> >>
IfThen   == << <<2, 3>>, <<3>>, <<>> >>
While    == << <<2>>, <<3, 4>>, <<2>>, <<>> >>
DoWhile  == << <<2>>, <<2, 3>>, <<>> >>
\* 2 = outer header, 3 = inner header, 4 = inner body with a three-way end
\* (again inner / again outer / leave both), 5 = after the inner loop
Nested   == << <<2>>, <<3, 6>>, <<4, 5>>, <<3, 2, 6>>, <<2, 6>>, <<>> >>
Irred    == << <<2, 3>>, <<3>>, <<2, 4>>, <<>> >>
Switch   == << <<2, 3, 4>>, <<5>>, <<5>>, <<>>, <<>> >>
Endless  == << <<2>>, <<2>> >>
TwoRet   == << <<2, 3>>, <<>>, <<>> >>

GoodCases == <<
  Case("straight", Straight, Ok, <<S(<<2, 3, 4>>), B(1), B(2), B(3)>>, {}),
  Case("single", << <<>> >>, Ok, <<B(1)>>, {}),
  Case("diamond", Diamond, Ok, <<S(<<2, 6>>), If(1, 3, 5), S(<<4>>), B(2), B(3), B(4)>>, {}),
  Case("ifthen", IfThen, Ok, <<S(<<2, 0, 4>>), If(1, 3, 0), B(2), B(3)>>, {}),
  Case("tworet", TwoRet, Ok, <<If(1, 2, 3), B(2), B(3)>>, {}),
  Case("while", While, Ok,
       <<S(<<2, 3, 9>>), B(1), L(4), If(2, 5, 8), S(<<6, 7>>), B(3), Co(0), Br(0), B(4)>>, {}),
  \* the loop is left by falling off the end of its body
  Case("dowhile", DoWhile, Ok, <<S(<<2, 3, 6>>), B(1), L(4), If(2, 5, 0), Co(0), B(3)>>, {}),
  Case("nested", Nested, Ok,
       <<S(<<2, 3, 15>>), B(1), L(4),
         If(2, 5, 14),                         \* 4
         S(<<6, 11>>),                         \* 5
         L(7),                                 \* 6 inner loop
         If(3, 8, 10),                         \* 7
         M(4, <<9, 16, 17>>),                  \* 8
         Co(0),                                \* 9
         Br(0),                                \* 10 leave the inner loop
         If(5, 12, 13),                        \* 11
         Co(0), Br(0),                         \* 12 13 (outer loop is innermost here)
         Br(0),                                \* 14
         B(6),                                 \* 15
         Co(1), Br(1)>>, {}),                  \* 16 17 two levels
  \* the multi-entry loop 2 <-> 3 becomes a loop on 3 with a second copy of 2
  Case("irreducible", Irred, Ok,
       <<S(<<2, 4, 10>>), If(1, 3, 0), B(2), L(5), If(3, 6, 9), S(<<7, 8>>), B(2), Co(0), Br(0), B(4)>>, {}),
  Case("switch", Switch, Ok, <<S(<<2, 6>>), M(1, <<3, 4, 5>>), B(2), B(3), B(4), B(5)>>, {}),
  Case("endless", Endless, Ok, <<S(<<2, 3>>), B(1), L(4), S(<<5, 6>>), B(2), Co(0)>>, {}),
  Case("refused", Irred, No("ValueError"), <<>>, {}),
  Case("refused-switch", Switch, No("NotImplementedError"), <<>>, {})
>>

BadCases == <<
  Case("arms-swapped", Diamond, Ok, <<S(<<2, 5>>), If(1, 4, 3), B(2), B(3), B(4)>>, {"TraceAgree"}),
  \* a tree that is only right if a loop body that runs off its end starts again
  Case("loop-needs-repeat", DoWhile, Ok, <<S(<<2, 3, 6>>), B(1), L(4), If(2, 0, 5), Br(0), B(3)>>, {"TraceAgree"}),
  Case("break-outside", Straight, Ok, <<S(<<2, 3>>), B(1), Br(0)>>, {"Targets", "Structured", "Covers"}),
  Case("continue-too-far", While, Ok,
       <<S(<<2, 3, 9>>), B(1), L(4), If(2, 5, 8), S(<<6, 7>>), B(3), Co(1), Br(0), B(4)>>, {"Targets", "Structured"}),
  Case("block-missing", Diamond, Ok, <<S(<<2, 4>>), If(1, 3, 0), B(2), B(4)>>, {"Covers", "TraceAgree"}),
  Case("falls-off-end", Straight, Ok, <<S(<<2, 3>>), B(1), B(2)>>, {"Covers", "EndsAgree"}),
  Case("no-shape", Straight, Ok, <<>>, {"Covers", "EndsAgree"}),
  Case("spins", Straight, Ok, <<S(<<2, 3>>), B(1), L(4), Co(0)>>, {"Covers", "Progress"}),
  Case("shared-node", Straight, Ok, <<S(<<2, 2, 3>>), B(1), B(2), B(3)>>, {"WellFormed"}),
  Case("back-pointer", Straight, Ok, <<S(<<2, 1>>), B(1)>>, {"WellFormed"}),
  Case("unknown-kind", Straight, Ok, <<S(<<2>>), [k |-> "MultipleShape", b |-> 0, kids |-> <<>>]>>, {"WellFormed"}),
  Case("foreign-block", << <<>>, <<>> >>, Ok, <<S(<<2, 3>>), B(1), B(2)>>, {"NoForeignBlock"}),
  Case("arm-missing", Switch, Ok, <<S(<<2, 5>>), M(1, <<3, 4>>), B(2), B(3), B(5)>>, {"Covers", "Structured"}),
  Case("basic-on-branch", Diamond, Ok, <<S(<<2, 3, 4>>), B(1), B(2), B(4)>>, {"Covers", "TraceAgree"}),
  Case("chain-refused", Straight, No("ValueError"), <<>>, {"Outcome"}),
  Case("diamond-refused", Diamond, No("ValueError"), <<>>, {"Outcome"}),
  Case("while-refused", While, No("NotImplementedError"), <<>>, {"Outcome"}),
  Case("crash", Irred, No("KeyError"), <<>>, {"Outcome"})
>>
AllCases == GoodCases \o BadCases
PickCase == PickGuard /\ (\E k \in InChunk(Len(AllCases)) : i' = k /\ cs' = AllCases[k]) /\ Picked
Next == PickChunk \/ PickCase \/ Step
\* what an error trace of the M run shows: the case and the clauses that are to fail on it
Shown == [i |-> i, st |-> st, cur |-> cur, blk |-> blk, quiet |-> quiet,
          key |-> IF i > 0 THEN C.key ELSE "", expect |-> IF i > 0 THEN C.expect ELSE {}]
=============================================================================
