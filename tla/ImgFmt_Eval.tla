----------------------------- MODULE ImgFmt_Eval -----------------------------
(* Idiom E for X06: one state per artefact written by ppci.  A record of      *)
(* TRACE_FILE is [key, fmt, out = [ok, exc, file = <<bytes>>], c = content,   *)
(* rb = read back through ppci's own reader] with fmt \in {"uboot", "hunk",   *)
(* "exe"}, or [key, fmt = "layout", text, want, got], or [key, fmt = "ar", ...].*)
(* PickRec decodes the artefact with the format's specification once and      *)
(* stores the names of the failing clauses in vBad; one invariant per clause. *)
(* (State variables carry a `v' prefix: a variable that shares its name with  *)
(* an operator parameter makes TLC re-evaluate constant tables such as the    *)
(* CRC table on every use.)                                                   *)
EXTENDS UBoot, Hunk, MzExe, LayoutTxt, ArTxt, Json, IOUtils, TLC

Recs == JsonDeserialize(IOEnv.TRACE_FILE)
NChunks == 16
VARIABLES vChunk, vIdx, vBad
vars == <<vChunk, vIdx, vBad>>

Failures(r) ==
    IF r.fmt = "layout" THEN Fails("Domain", r.dom => LtDomain(r)) \cup LtFailures(r)
    ELSE IF r.fmt = "ar" THEN ArFailures(r)
    ELSE IF ~r.out.ok THEN {"Written"}
    ELSE IF r.fmt = "uboot" THEN UbFailures(r.out.file, r.c)
    ELSE IF r.fmt = "hunk" THEN HkFailures(r.out.file, r.c.data, r.rb)
    ELSE IF r.fmt = "exe" THEN MzFailures(r.out.file, r.c) \cup Fails("MzReadBack", MzReadBackOk(r.out.file, r.rb))
    ELSE {"Domain"}

Init == vChunk = 0 /\ vIdx = 0 /\ vBad = {}
PickChunk == vChunk = 0 /\ vChunk' \in 1..NChunks /\ UNCHANGED <<vIdx, vBad>>
PickRec == /\ vChunk > 0 /\ vIdx = 0 /\ vChunk' = vChunk
           /\ vIdx' \in {k \in 1..Len(Recs) : k % NChunks = vChunk - 1}
           /\ vBad' = Failures(Recs[vIdx'])
Next == PickChunk \/ PickRec

Domain == "Domain" \notin vBad                \* harness fault, not a violation
Written == "Written" \notin vBad              \* the writer produced a file
\* U-Boot legacy image
UbLength == "UbLength" \notin vBad          UbMagicOk == "UbMagic" \notin vBad
UbSize == "UbSize" \notin vBad              UbLoad == "UbLoad" \notin vBad
UbEntry == "UbEntry" \notin vBad            UbTime == "UbTime" \notin vBad
UbPayloadOk == "UbPayload" \notin vBad      UbDataCrc == "UbDataCrc" \notin vBad
UbHeaderCrc == "UbHeaderCrc" \notin vBad    UbOs == "UbOs" \notin vBad
UbArch == "UbArch" \notin vBad              UbType == "UbType" \notin vBad
UbComp == "UbComp" \notin vBad              UbName == "UbName" \notin vBad
\* Amiga hunk
HkAligned == "HkAligned" \notin vBad        HkHeader == "HkHeader" \notin vBad
HkTable == "HkTable" \notin vBad            HkBlocksOk == "HkBlocks" \notin vBad
HkSizes == "HkSizes" \notin vBad            HkEnd == "HkEnd" \notin vBad
HkContent == "HkContent" \notin vBad        HkReadBack == "HkReadBack" \notin vBad
\* MZ / PE
MzMagic == "MzMagic" \notin vBad            MzHeaderSize == "MzHeaderSize" \notin vBad
MzNewHeader == "MzNewHeader" \notin vBad    PeSignature == "PeSignature" \notin vBad
PeMachine == "PeMachine" \notin vBad        PeOptionalHeader == "PeOptionalHeader" \notin vBad
PeCharacteristics == "PeCharacteristics" \notin vBad   PeAlignment == "PeAlignment" \notin vBad
PeSectionTable == "PeSectionTable" \notin vBad         PeSizeOfHeaders == "PeSizeOfHeaders" \notin vBad
PeSectionRaw == "PeSectionRaw" \notin vBad  PeSectionVirtual == "PeSectionVirtual" \notin vBad
PeSizeOfImage == "PeSizeOfImage" \notin vBad           PeText == "PeText" \notin vBad
PeData == "PeData" \notin vBad              PeEntry == "PeEntry" \notin vBad
PeSizeOfCode == "PeSizeOfCode" \notin vBad  PeDirectories == "PeDirectories" \notin vBad
PeImportsOk == "PeImports" \notin vBad      MzReadBack == "MzReadBack" \notin vBad
\* layout text
LtAccepts == "LtAccepts" \notin vBad        LtParsed == "LtParsed" \notin vBad
LtPrinted == "LtPrinted" \notin vBad        LtRoundTrip == "LtRoundTrip" \notin vBad
LtDistinguishes == "LtDistinguishes" \notin vBad
\* archive
ArSaved == "ArSaved" \notin vBad            ArDocument == "ArDocument" \notin vBad
ArLoaded == "ArLoaded" \notin vBad          ArCount == "ArCount" \notin vBad
ArMembers == "ArMembers" \notin vBad        ArEqual == "ArEqual" \notin vBad
ArStable == "ArStable" \notin vBad
=============================================================================
