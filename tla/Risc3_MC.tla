------------------------------ MODULE Risc3_MC ------------------------------
(* One TLC run for the laws of Mips.tla, Or1k.tla and MicroBlaze.tla (idiom  *)
(* M: Mips_MC, Or1k_MC, MicroBlaze_MC share the variables fam / pick; Fams   *)
(* selects the families) and for the three boundary tables of idiom G,       *)
(* written to IOEnv.OUT_FILE.                                                *)
EXTENDS Integers, Sequences, TLC, Json, IOUtils
CONSTANTS Deep, Fams
VARIABLES fam, pick
Mi == INSTANCE Mips_MC
Or == INSTANCE Or1k_MC
Mb == INSTANCE MicroBlaze_MC
ASSUME JsonSerialize(IOEnv.OUT_FILE, [mips |-> Mi!Table, or1k |-> Or!Table, microblaze |-> Mb!Table])

Init == fam = "none" /\ pick = [k |-> "none"]
MipsNext == Mi!Next
Or1kNext == Or!Next
MicroBlazeNext == Mb!Next
Next == MipsNext \/ Or1kNext \/ MicroBlazeNext

MipsOneFormat == Mi!LawOneFormat
MipsReencode == Mi!LawReencode
MipsFields == Mi!LawFields
MipsLine == Mi!LawLine
MipsSignExt == Mi!LawSignExt
Or1kOneFormat == Or!LawOneFormat
Or1kReencode == Or!LawReencode
Or1kFields == Or!LawFields
Or1kLine == Or!LawLine
Or1kHiLo == Or!LawHiLo
MbOneFormat == Mb!LawOneFormat
MbReencode == Mb!LawReencode
MbFields == Mb!LawFields
MbLine == Mb!LawLine
MbPrefix == Mb!LawPrefix
=============================================================================
