-------------------------------- MODULE IRWF --------------------------------
(* Well-formedness of a ppci IR function exactly as property C03 states it: *)
(*   - every block ends in exactly one terminator (and only the last         *)
(*     instruction is a terminator),                                         *)
(*   - every block is reachable from the entry,                              *)
(*   - every use is dominated by its definition (path-based dominance),      *)
(*   - every phi has exactly one incoming value per predecessor,             *)
(*   - operand types agree,                                                  *)
(* plus: applying a pass never ends in an internal error.                    *)
(* Records: [id, outcome, fn : projected function (wf = TRUE), rets : ...]   *)
EXTENDS Naturals, Integers, Sequences, FiniteSets, TLC, Json, IOUtils

Recs == JsonDeserialize(IOEnv.TRACE_FILE)
NChunks == 64
VARIABLES chunk, i
vars == <<chunk, i>>
Init == chunk = 0 /\ i = 0
PickChunk == chunk = 0 /\ chunk' \in 1..NChunks /\ i' = 0
PickRec == chunk > 0 /\ i = 0 /\ chunk' = chunk
           /\ i' \in {k \in 1..Len(Recs) : k % NChunks = chunk - 1}
Next == PickChunk \/ PickRec

R == Recs[i]
Fn == R.fn
NB == Len(Fn.blocks)
BlockIds == 1..NB
Ins(b) == Fn.blocks[b].ins
IsTerm(x) == x.k \in {"jmp", "cjmp", "ret", "exit"}

Succ(b) == LET n == Len(Ins(b)) IN
           IF n = 0 THEN {}
           ELSE LET t == Ins(b)[n] IN
                CASE t.k = "jmp" -> {t.t} \cap BlockIds
                  [] t.k = "cjmp" -> {t.yes, t.no} \cap BlockIds
                  [] OTHER -> {}
Pred(b) == {p \in BlockIds : b \in Succ(p)}

\* blocks reachable from `from` without passing through `avoid` (0 = avoid nothing)
RECURSIVE ReachR(_, _, _)
ReachR(frontier, seen, avoid) ==
    IF frontier = {} THEN seen
    ELSE LET nxt == (UNION {Succ(b) : b \in frontier}) \ (seen \cup {avoid})
         IN ReachR(nxt, seen \cup nxt, avoid)
ReachFrom(from, avoid) == IF from = avoid THEN {} ELSE ReachR({from}, {from}, avoid)
Reachable == ReachFrom(Fn.entry, 0)
\* d dominates b  <=>  b is not reachable from the entry once d is removed
Dominates(d, b) == d = b \/ b \notin ReachFrom(Fn.entry, d)

\* position of the definition of local v: <<block, index>>; parameters: <<0, 0>>; missing: <<-1, -1>>
IsParam(v) == \E p \in 1..Len(Fn.params) : Fn.params[p].id = v
DefPos(v) ==
    IF IsParam(v) THEN <<0, 0>>
    ELSE LET S == {<<b, k>> \in UNION {{<<bb, kk>> : kk \in 1..Len(Ins(bb))} : bb \in BlockIds} : Ins(b)[k].d = v}
         IN IF S = {} THEN <<-1, -1>> ELSE CHOOSE x \in S : TRUE
NDefs(v) == Cardinality({<<b, k>> \in UNION {{<<bb, kk>> : kk \in 1..Len(Ins(bb))} : bb \in BlockIds} : Ins(b)[k].d = v})

\* local operands (ids > 0) of a non-phi instruction
OperandIds(x) ==
    LET f(o) == IF o > 0 THEN {o} ELSE {} IN
    CASE x.k \in {"binop", "cjmp", "store", "copyblob"} -> f(x.a) \cup f(x.b)
      [] x.k \in {"unop", "cast", "addrof", "load", "ret"} -> f(x.a)
      [] x.k \in {"call", "pcall"} -> f(x.c) \cup UNION {f(x.args[j]) : j \in 1..Len(x.args)}
      [] OTHER -> {}

\* ---------------------------------------------------------------- clauses ----
Checked == i > 0 /\ R.outcome = "ok"

NoInternalError == i > 0 => R.outcome \in {"ok", "skip"}

Terminators == Checked =>
    \A b \in BlockIds :
        /\ Len(Ins(b)) >= 1
        /\ IsTerm(Ins(b)[Len(Ins(b))])
        /\ \A k \in 1..(Len(Ins(b)) - 1) : ~IsTerm(Ins(b)[k])
        /\ Succ(b) = (LET t == Ins(b)[Len(Ins(b))] IN
                      CASE t.k = "jmp" -> {t.t} [] t.k = "cjmp" -> {t.yes, t.no} [] OTHER -> {})

EntryOK == Checked => Fn.entry \in BlockIds

AllReachable == Checked => (Fn.entry \in BlockIds => Reachable = BlockIds)

UniqueDefs == Checked => \A v \in 1..Fn.nvals : IsParam(v) \/ NDefs(v) <= 1

DefDominatesUse == Checked =>
    \A b \in BlockIds : \A k \in 1..Len(Ins(b)) :
        LET x == Ins(b)[k] IN
        IF x.k = "phi"
        THEN \A j \in 1..Len(x.inc) :
                LET v == x.inc[j].v  p == x.inc[j].p IN
                (v > 0 /\ p \in BlockIds /\ p \in Reachable) =>
                    LET dp == DefPos(v) IN
                    dp[1] = 0 \/ (dp[1] > 0 /\ Dominates(dp[1], p))
        ELSE \A v \in OperandIds(x) :
                LET dp == DefPos(v) IN
                \/ dp[1] = 0
                \/ (dp[1] = b /\ dp[2] < k)
                \/ (dp[1] > 0 /\ dp[1] # b /\ Dominates(dp[1], b))

PhiComplete == Checked =>
    \A b \in BlockIds : \A k \in 1..Len(Ins(b)) :
        LET x == Ins(b)[k] IN
        x.k = "phi" =>
            /\ {x.inc[j].p : j \in 1..Len(x.inc)} = Pred(b)
            /\ Len(x.inc) = Cardinality(Pred(b))
            /\ \A j \in 1..Len(x.inc) : x.inc[j].v # 0
            /\ \A kk \in 1..(k - 1) : Ins(b)[kk].k = "phi"       \* phis lead the block

TypesAgree == Checked =>
    \A b \in BlockIds : \A k \in 1..Len(Ins(b)) :
        LET x == Ins(b)[k] IN
        CASE x.k = "binop" -> x.aty = x.ty /\ x.bty = x.ty
          [] x.k = "unop"  -> x.aty = x.ty
          [] x.k = "phi"   -> \A j \in 1..Len(x.inc) : x.inc[j].vty = x.ty
          [] x.k = "cjmp"  -> x.aty = x.bty
          [] x.k = "load"  -> x.aty = "ptr"
          [] x.k = "store" -> x.aty = "ptr"
          [] x.k = "ret"   -> x.aty = Fn.ret
          [] x.k = "exit"  -> Fn.ret = ""
          [] x.k \in {"call", "pcall"} ->
                \* argument types match the callee's signature when the callee is known
                LET S == {s \in 1..Len(R.sigs) : R.sigs[s].g = -x.c} IN
                (x.c < 0 /\ S # {}) =>
                    LET sg == R.sigs[CHOOSE s \in S : TRUE] IN
                    /\ x.atys = sg.args
                    /\ (x.k = "call" => x.ty = sg.ret)
          [] OTHER -> TRUE

ConstInRange == Checked =>
    \A b \in BlockIds : \A k \in 1..Len(Ins(b)) :
        LET x == Ins(b)[k] IN (x.k = "const" /\ "inrange" \in DOMAIN x) => x.inrange
=============================================================================
