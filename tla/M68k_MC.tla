------------------------------ MODULE M68k_MC ------------------------------
(* Idiom M for M68k.tla: laws of the ISA model, checked exhaustively on small *)
(* domains before the model judges ppci.                                      *)
(*  family "map"  every operation word lies in exactly one line of the        *)
(*                operation code map; every effective address field (mode,   *)
(*                register) is exactly one addressing mode or none; the       *)
(*                MOVEM mask reversal is an involution                         *)
(*  family "op"   operation words (every value of bits 15-6 x effective        *)
(*                address field samples; all 65 536 when Deep) x extension    *)
(*                word vectors: a defined instruction is well-formed, in      *)
(*                canonical form, re-encoded to the same words by the          *)
(*                reference encoder, and neither a truncated nor an overlong  *)
(*                byte string decodes                                          *)
(*  family "ln"   printed lines of the reference syntax (mnemonic x size x     *)
(*                source kind x destination kind x registers x boundary        *)
(*                values, labels): a well-formed line is encoded to bytes      *)
(*                that decode to what the line means                           *)
(*  family "mn"   every mnemonic spelling parses in exactly one way            *)
(* The same run writes the operand range table of idiom G to OUT_FILE.        *)
EXTENDS M68k, Json, IOUtils, SequencesExt
CONSTANTS Deep, Fams

Table == SetToSeq({[what |-> r[1], lo |-> r[2], hi |-> r[3], step |-> r[4]] : r \in MRanges})
WriteTable == JsonSerialize(IOEnv.OUT_FILE, Table)
ASSUME WriteTable

VARIABLES fam, pick
vars == <<fam, pick>>
None == [k |-> "none"]

\* extension word vectors: brief extension words (D1.W + 4, A1.L - 2), displacements / immediates of both signs
ExtVecs == IF Deep THEN {<<4100, 2, 65535, 32768>>, <<39422, 65534, 1, 0>>, <<255, 32767, 4660, 22136>>}
           ELSE {<<4100, 2, 65535, 32768>>, <<39422, 65534, 1, 0>>}
EaSamples == {0, 7, 9, 18, 25, 39, 41, 50, 56, 57, 58, 59, 60, 61}
Tops == 0..1023

\* tokens of an operand of kind k in the printed syntax: register r, value v
Toks(k, r, v) ==
    CASE k = "dn" -> <<<<"d", r, "">>>>
      [] k = "an" -> <<<<"a", r, "">>>>
      [] k = "ind" -> <<<<"(", 0, "">>, <<"a", r, "">>, <<")", 0, "">>>>
      [] k = "post" -> <<<<"(", 0, "">>, <<"a", r, "">>, <<")", 0, "">>, <<"+", 0, "">>>>
      [] k = "pre" -> <<<<"-", 0, "">>, <<"(", 0, "">>, <<"a", r, "">>, <<")", 0, "">>>>
      [] k = "d16" -> <<<<"(", 0, "">>, <<"i", v, "">>, <<",", 0, "">>, <<"a", r, "">>, <<")", 0, "">>>>
      [] k = "idx" -> <<<<"(", 0, "">>, <<"i", v % 100, "">>, <<",", 0, "">>, <<"a", r, "">>, <<",", 0, "">>, <<"d", 7 - r, "l">>, <<")", 0, "">>>>
      [] k = "absw" -> <<<<"(", 0, "">>, <<"i", v, "">>, <<")", 0, "">>, <<"s", 0, "w">>>>
      [] k = "absl" -> <<<<"(", 0, "">>, <<"i", v, "">>, <<")", 0, "">>, <<"s", 0, "l">>>>
      [] k = "imm" -> <<<<"#", 0, "">>, <<"i", v, "">>>>
      [] k = "lab" -> <<<<"l", 0, "L_t">>>>
      [] k = "none" -> <<>>
Kinds == {"dn", "an", "ind", "post", "pre", "d16", "idx", "absw", "absl", "imm", "lab", "none"}
LineVals(k) == IF k \in {"d16", "idx", "absw", "absl", "imm"} THEN (IF Deep THEN {0, -1, 127, -32768, 65535, 70000} ELSE {1, -128, 32767, 65535, 70000})
               ELSE {0}
LineRegs == IF Deep THEN {5} ELSE {2}
QuickMn == {"addb", "add.l", "subw", "cmpl", "andb", "orw", "eorl", "movel", "moveb", "moveaw", "moveal", "lea", "jsr", "negl", "notb",
            "addql", "cmpiw", "moveq", "pea", "aslw", "lsr", "swap", "st", "bra", "bne", "bsr", "dbf", "mulu.w", "addxl", "exg", "btst",
            "nop", "rts", "addal"}
\* thorough: every mnemonic, in the spelling without a dot (the dotted spellings are covered by family "mn" and QuickMn)
LineMns == IF Deep THEN {x[2] \o x[3] : x \in Spellings} \cup QuickMn ELSE QuickMn
Pcs == {33554432}
Syms == {33554432 + 2 + 126, 33554432 + 2 - 128, 33554432 + 2 + 128, 33554432 + 2 + 32767, 33554432 + 2 - 32768, 33554432 + 2 + 32768,
         33554432 + 2, 33554432 + 1, 16, 1073741824}
LinesOf(mn, ks, kd) ==
    {<<mn, Toks(ks, r, v) \o (IF ks # "none" /\ kd # "none" THEN <<<<",", 0, "">>>> ELSE <<>>) \o Toks(kd, (r + 3) % 8, w), sym, 33554432>> :
        r \in LineRegs, v \in LineVals(ks), w \in LineVals(kd), sym \in (IF "lab" \in {ks, kd} THEN Syms ELSE {0})}

Init == fam = "none" /\ pick = None
PickFam == fam = "none" /\ fam' \in Fams /\ pick' = None
PickMapHi == fam = "map" /\ pick = None /\ UNCHANGED fam
             /\ \E hi \in (IF Deep THEN 0..255 ELSE {h \in 0..255 : h % 4 = 1}) : pick' = [k |-> "map-", hi |-> hi]
PickMap == fam = "map" /\ pick.k = "map-" /\ UNCHANGED fam /\ \E lo \in 0..255 : pick' = [k |-> "map", op |-> 256 * pick.hi + lo]
PickOpTop == fam = "op" /\ pick = None /\ UNCHANGED fam /\ \E top \in Tops : pick' = [k |-> "op-", top |-> top]
PickOp == fam = "op" /\ pick.k = "op-" /\ UNCHANGED fam
          /\ \E ea \in (IF Deep THEN 0..63 ELSE EaSamples), ext \in ExtVecs : pick' = [k |-> "op", ws |-> <<64 * pick.top + ea>> \o ext]
PickLnMn == fam = "ln" /\ pick = None /\ UNCHANGED fam /\ \E mn \in LineMns, ks \in Kinds : pick' = [k |-> "ln-", mn |-> mn, ks |-> ks]
PickLn == fam = "ln" /\ pick.k = "ln-" /\ UNCHANGED fam
          /\ \E kd \in Kinds : \E ln \in LinesOf(pick.mn, pick.ks, kd) : pick' = [k |-> "ln", ln |-> ln]
PickMn == fam = "mn" /\ pick = None /\ UNCHANGED fam /\ \E sp \in Spellings : pick' = [k |-> "mn", nm |-> sp[1]]
Next == PickFam \/ PickMapHi \/ PickMap \/ PickOpTop \/ PickOp \/ PickLnMn \/ PickLn \/ PickMn

BytesOf(ws, n) == WordBytes(SubSeq(ws, 1, n), 1)
RegsOK(d) == Reads(d) \subseteq 0..15 /\ Writes(d) \subseteq 0..15
-----------------------------------------------------------------------------
LawOneLine == pick.k = "map" => Cardinality(LineOf(pick.op)) = 1
\* the 6-bit effective address field: one addressing mode, or none for 111 101 .. 111 111
LawEAField == pick.k = "map" =>
    LET e == EA(Md(pick.op), Rn(pick.op), "w", <<0, 4100, 4100>>, 2) IN
    /\ (e.op.k = "bad") = (Md(pick.op) = 7 /\ Rn(pick.op) > 4)
    /\ e.op.k # "bad" => (e.op.k \in AllK /\ LET c == EncEA(e.op, "w") IN c.m = Md(pick.op) /\ c.r = Rn(pick.op) /\ Len(c.ext) = e.n)
LawMaskReversal == pick.k = "map" => Rev16(Rev16(pick.op)) = pick.op /\ Bit(Rev16(pick.op), 15) = Bit(pick.op, 0)
LawReencode == pick.k = "op" =>
    LET d0 == DecWords(pick.ws)  n == d0.len \div 2  b == BytesOf(pick.ws, n)  d == Decode(b) IN
    /\ n \in 1..5
    /\ Valid(d) => /\ WF(d) /\ Norm(d) = d /\ EncWF(d)
                   /\ (Encode(d) = b \/ ("imm" \in {d.src.k, d.dst.k} /\ ImmSize(d) = "b"))      \* the upper byte of a byte immediate's word is ignored
                   /\ Decode(Encode(d)) = d
                   /\ RegsOK(d)
                   /\ ~Valid(Decode(BytesOf(pick.ws, n - 1)))
                   /\ ~Valid(Decode(BytesOf(pick.ws \o <<0>>, n + 1)))
LawLine == pick.k = "ln" =>
    LET a0 == Asm(pick.ln[1], pick.ln[2], pick.ln[3], pick.ln[4]) IN
    (a0 # NoAsm /\ WF(a0)) =>
        LET a == Complete(Norm(a0))  d == Decode(Encode(a)) IN
        /\ EncWF(a)
        /\ Valid(d)
        /\ Core(d) = Core(a)
        /\ d.enc = a.enc
LawMnemonic == pick.k = "mn" => Cardinality(MnParses(pick.nm)) = 1
=============================================================================
