------------------------------- MODULE DwarfLine -------------------------------
(* The DWARF 2 line-number state machine (DWARF 2.0.0 section 6.2), written from   *)
(* the standard: one action per opcode.  A line-number program is a sequence of    *)
(* bytes; the machine reads it from position pc and appends rows to the matrix.    *)
(*   hp   the statement-program prologue values:                                   *)
(*        [min_inst, default_is_stmt, line_base, line_range, opcode_base, std_len] *)
(*   regs [addr, file, line, col, is_stmt, bb, end_seq]  (6.2.2)                   *)
(*   row  <<addr, file, line, col, is_stmt, bb, end_seq>>                          *)
(* Standard opcodes 1..9 are those of DWARF 2; an opcode below opcode_base that    *)
(* the machine does not know is skipped over its std_len LEB128 arguments, as the  *)
(* standard prescribes (this is how a DWARF 2 reader passes the DWARF 3 opcodes    *)
(* 10..12).  Also here: the prologue reader (6.2.4) and a reference encoder used   *)
(* by DwarfLine_MC for the round-trip law.                                         *)
EXTENDS Integers, Sequences

VARIABLES prog, hp, pc, regs, rows, status      \* status: "run" | "done" | "bad:<why>"
dvars == <<prog, hp, pc, regs, rows, status>>

InitRegs(h) == [addr |-> 0, file |-> 1, line |-> 1, col |-> 0, is_stmt |-> h.default_is_stmt, bb |-> FALSE, end_seq |-> FALSE]
Row(r) == <<r.addr, r.file, r.line, r.col, r.is_stmt, r.bb, r.end_seq>>

DInit(p, h, start) == /\ prog = p /\ hp = h /\ pc = start /\ regs = InitRegs(h) /\ rows = <<>> /\ status = "run"

-----------------------------------------------------------------------------
(* LEB128 (7.6) and fixed-size little-endian fields *)
Pow2(n) == IF n = 0 THEN 1 ELSE IF n = 7 THEN 128 ELSE IF n = 14 THEN 16384 ELSE IF n = 21 THEN 2097152 ELSE 268435456

RECURSIVE ULebAt(_, _, _)
\* <<value, position after, ok>>; shift counts the groups already read (at most 4 groups: values below 2^28)
ULebAt(p, at, shift) ==
    IF at > Len(p) \/ shift > 3 THEN <<0, at, FALSE>>
    ELSE LET b == p[at] IN
         IF b < 128 THEN <<b * Pow2(7 * shift), at + 1, TRUE>>
         ELSE LET r == ULebAt(p, at + 1, shift + 1) IN <<(b - 128) * Pow2(7 * shift) + r[1], r[2], r[3]>>
ULeb(p, at) == ULebAt(p, at, 0)

RECURSIVE LebLen(_, _)
LebLen(p, at) == IF at > Len(p) THEN 1 ELSE IF p[at] < 128 THEN 1 ELSE 1 + LebLen(p, at + 1)
\* signed: the unsigned value of n groups minus 2^(7n) when the sign bit (bit 6 of the last group) is set
SLeb(p, at) ==
    LET u == ULeb(p, at)  n == LebLen(p, at)
    IN IF ~u[3] THEN u
       ELSE IF p[at + n - 1] >= 64 THEN <<u[1] - Pow2(7 * n), u[2], TRUE>> ELSE u

U16(p, at) == p[at] + 256 * p[at + 1]
U32(p, at) == p[at] + 256 * p[at + 1] + 65536 * p[at + 2] + 16777216 * (p[at + 3] % 128)   \* below 2^31
S8(b) == IF b >= 128 THEN b - 256 ELSE b

-----------------------------------------------------------------------------
(* the opcodes (6.2.5) *)
Running == status = "run" /\ pc <= Len(prog)
Op == prog[pc]
Emit(r) == rows' = Append(rows, Row(r))
AfterRow(r) == [r EXCEPT !.bb = FALSE]
Keep == UNCHANGED <<prog, hp>>
Bad(why) == status' = "bad:" \o why /\ UNCHANGED <<pc, regs, rows>> /\ Keep

\* 6.2.5.1 special opcodes
OpSpecial ==
    /\ Running /\ Op >= hp.opcode_base
    /\ LET adj == Op - hp.opcode_base
           r1  == [regs EXCEPT !.addr = @ + (adj \div hp.line_range) * hp.min_inst,
                               !.line = @ + hp.line_base + (adj % hp.line_range)]
       IN Emit(r1) /\ regs' = AfterRow(r1)
    /\ pc' = pc + 1 /\ UNCHANGED status /\ Keep

\* 6.2.5.2 standard opcodes
OpCopy == /\ Running /\ Op = 1 /\ Op < hp.opcode_base
          /\ Emit(regs) /\ regs' = AfterRow(regs) /\ pc' = pc + 1 /\ UNCHANGED status /\ Keep
OpAdvancePc ==
    /\ Running /\ Op = 2 /\ Op < hp.opcode_base
    /\ LET a == ULeb(prog, pc + 1)
       IN IF a[3] THEN regs' = [regs EXCEPT !.addr = @ + a[1] * hp.min_inst] /\ pc' = a[2] /\ UNCHANGED <<rows, status>> /\ Keep
          ELSE Bad("leb")
OpAdvanceLine ==
    /\ Running /\ Op = 3 /\ Op < hp.opcode_base
    /\ LET a == SLeb(prog, pc + 1)
       IN IF a[3] THEN regs' = [regs EXCEPT !.line = @ + a[1]] /\ pc' = a[2] /\ UNCHANGED <<rows, status>> /\ Keep
          ELSE Bad("leb")
OpSetFile ==
    /\ Running /\ Op = 4 /\ Op < hp.opcode_base
    /\ LET a == ULeb(prog, pc + 1)
       IN IF a[3] THEN regs' = [regs EXCEPT !.file = a[1]] /\ pc' = a[2] /\ UNCHANGED <<rows, status>> /\ Keep
          ELSE Bad("leb")
OpSetColumn ==
    /\ Running /\ Op = 5 /\ Op < hp.opcode_base
    /\ LET a == ULeb(prog, pc + 1)
       IN IF a[3] THEN regs' = [regs EXCEPT !.col = a[1]] /\ pc' = a[2] /\ UNCHANGED <<rows, status>> /\ Keep
          ELSE Bad("leb")
OpNegateStmt == /\ Running /\ Op = 6 /\ Op < hp.opcode_base
                /\ regs' = [regs EXCEPT !.is_stmt = ~@] /\ pc' = pc + 1 /\ UNCHANGED <<rows, status>> /\ Keep
OpSetBasicBlock == /\ Running /\ Op = 7 /\ Op < hp.opcode_base
                   /\ regs' = [regs EXCEPT !.bb = TRUE] /\ pc' = pc + 1 /\ UNCHANGED <<rows, status>> /\ Keep
\* the address increment of special opcode 255, no row
OpConstAddPc == /\ Running /\ Op = 8 /\ Op < hp.opcode_base
                /\ regs' = [regs EXCEPT !.addr = @ + ((255 - hp.opcode_base) \div hp.line_range) * hp.min_inst]
                /\ pc' = pc + 1 /\ UNCHANGED <<rows, status>> /\ Keep
\* one unencoded uhalf, not multiplied by min_inst
OpFixedAdvancePc ==
    /\ Running /\ Op = 9 /\ Op < hp.opcode_base
    /\ IF pc + 2 <= Len(prog)
       THEN regs' = [regs EXCEPT !.addr = @ + U16(prog, pc + 1)] /\ pc' = pc + 3 /\ UNCHANGED <<rows, status>> /\ Keep
       ELSE Bad("short")

RECURSIVE SkipLebs(_, _, _)
SkipLebs(p, at, n) == IF n = 0 THEN at ELSE SkipLebs(p, at + LebLen(p, at), n - 1)
\* a standard opcode this machine does not know: skip its arguments (6.2.4 item 9)
OpUnknownStandard ==
    /\ Running /\ Op >= 10 /\ Op < hp.opcode_base
    /\ IF Op <= Len(hp.std_len)
       THEN pc' = SkipLebs(prog, pc + 1, hp.std_len[Op]) /\ UNCHANGED <<regs, rows, status>> /\ Keep
       ELSE Bad("opcode without length")

\* 6.2.5.3 extended opcodes: 0, ULEB length, sub-opcode, arguments
ExtLen == ULeb(prog, pc + 1)
ExtSub == prog[ExtLen[2]]
ExtOK  == Running /\ Op = 0 /\ ExtLen[3] /\ ExtLen[1] >= 1 /\ ExtLen[2] + ExtLen[1] - 1 <= Len(prog)
ExtNext == ExtLen[2] + ExtLen[1]
OpEndSequence ==
    /\ ExtOK /\ ExtSub = 1
    /\ LET r1 == [regs EXCEPT !.end_seq = TRUE] IN Emit(r1)
    /\ regs' = InitRegs(hp) /\ pc' = ExtNext /\ UNCHANGED status /\ Keep
OpSetAddress ==
    /\ ExtOK /\ ExtSub = 2 /\ ExtLen[1] \in {3, 5, 9}       \* 2, 4, 8 address bytes (of 8, the low 4: below 2^31)
    /\ regs' = [regs EXCEPT !.addr = IF ExtLen[1] = 3 THEN U16(prog, ExtLen[2] + 1) ELSE U32(prog, ExtLen[2] + 1)]
    /\ pc' = ExtNext /\ UNCHANGED <<rows, status>> /\ Keep
OpDefineFile == /\ ExtOK /\ ExtSub = 3 /\ pc' = ExtNext /\ UNCHANGED <<regs, rows, status>> /\ Keep
OpUnknownExtended == /\ ExtOK /\ ExtSub \notin {1, 2, 3} /\ pc' = ExtNext /\ UNCHANGED <<regs, rows, status>> /\ Keep
OpMalformedExtended == /\ Running /\ Op = 0 /\ ~(ExtLen[3] /\ ExtLen[1] >= 1 /\ ExtLen[2] + ExtLen[1] - 1 <= Len(prog))
                       /\ Bad("extended")
OpBadSetAddress == /\ ExtOK /\ ExtSub = 2 /\ ExtLen[1] \notin {3, 5, 9} /\ Bad("address size")

Halt == /\ status = "run" /\ pc > Len(prog) /\ status' = "done" /\ UNCHANGED <<pc, regs, rows>> /\ Keep

DStep == \/ OpSpecial \/ OpCopy \/ OpAdvancePc \/ OpAdvanceLine \/ OpSetFile \/ OpSetColumn \/ OpNegateStmt
         \/ OpSetBasicBlock \/ OpConstAddPc \/ OpFixedAdvancePc \/ OpUnknownStandard \/ OpEndSequence
         \/ OpSetAddress \/ OpDefineFile \/ OpUnknownExtended \/ OpMalformedExtended \/ OpBadSetAddress \/ Halt

-----------------------------------------------------------------------------
(* the statement program prologue (6.2.4): -> [ok, hp, start, end] for a unit that starts at byte `at` *)
RECURSIVE AfterString(_, _)
AfterString(p, q) == IF q > Len(p) THEN q ELSE IF p[q] = 0 THEN q + 1 ELSE AfterString(p, q + 1)
RECURSIVE SkipStrings(_, _)
\* position after a sequence of null-terminated strings that ends with an empty string
SkipStrings(p, at) ==
    IF at > Len(p) THEN at
    ELSE IF p[at] = 0 THEN at + 1
    ELSE SkipStrings(p, AfterString(p, at))
RECURSIVE SkipFiles(_, _)
\* file entries: name, then directory index, modification time, length as ULEB128
SkipFiles(p, at) ==
    IF at > Len(p) THEN at
    ELSE IF p[at] = 0 THEN at + 1
    ELSE SkipFiles(p, SkipLebs(p, AfterString(p, at), 3))

Prologue(p, at) ==
    IF at + 14 > Len(p) THEN [ok |-> FALSE, why |-> "short"]
    ELSE LET total == U32(p, at)
             ver   == U16(p, at + 4)
             plen  == U32(p, at + 6)
             base  == p[at + 14]
             h == [min_inst |-> p[at + 10], default_is_stmt |-> p[at + 11] # 0, line_base |-> S8(p[at + 12]),
                   line_range |-> p[at + 13], opcode_base |-> base,
                   std_len |-> [n \in 1..(base - 1) |-> IF at + 14 + n <= Len(p) THEN p[at + 14 + n] ELSE 0]]
         IN IF ver # 2 THEN [ok |-> FALSE, why |-> "version"]
            ELSE IF h.line_range = 0 \/ base = 0 THEN [ok |-> FALSE, why |-> "range"]
            ELSE IF at + 3 + total > Len(p) \/ at + 9 + plen > at + 3 + total THEN [ok |-> FALSE, why |-> "length"]
            ELSE [ok |-> TRUE, why |-> "", hp |-> h, start |-> at + 10 + plen, end |-> at + 3 + total,
                  \* where the file table really ends: must be the start the header length announces
                  tables_end |-> SkipFiles(p, SkipStrings(p, at + 14 + base))]

-----------------------------------------------------------------------------
(* invariants of the machine *)
DTypeOK == /\ pc \in 1..(Len(prog) + 1) \/ status # "run"
           /\ \A n \in 1..Len(rows) : Len(rows[n]) = 7
\* the machine is deterministic and never stuck while running: exactly one opcode action is enabled
Progress == status = "run" => ENABLED DStep
=============================================================================
