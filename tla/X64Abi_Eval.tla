----------------------------- MODULE X64Abi_Eval -----------------------------
(* Idiom E / T for property C40: one state per record written down by            *)
(* engines/c40.py; TLC judges each record against X64Abi.tla.                      *)
(*                                                                                 *)
(* kind "locs"   a call of X86_64Arch.determine_arg_locations(types)               *)
(*               out = [ok, locs : Seq([k : "reg"|"mem"|"other", name, bits, off, size])] *)
(* kind "rv"     a call of X86_64Arch.determine_rv_location(type)                   *)
(* kind "callee" a native call  gcc-compiled caller -> ppci-compiled callee:        *)
(*               passed / seen : argument words given and observed inside the callee, *)
(*               retv / got : value the callee returned and value the caller received, *)
(*               before / after : %rbx %rbp %r12 %r13 %r14 %r15 %rsp around the call  *)
(* kind "caller" a native call  ppci-compiled caller -> assembly spy callee:         *)
(*               (directly, or through a pointer table in initialised data with copies *)
(*               of the arguments kept live across the call: field kept)              *)
(*               passed : argument words, snap : registers and stack on entry to the *)
(*               callee (X64Abi.ArgIsAt), retv : eightbyte the spy left in %rax and   *)
(*               %xmm0, got : value the ppci caller stored, before / after as above   *)
EXTENDS X64Abi, Json, IOUtils
Recs == JsonDeserialize(IOEnv.TRACE_FILE)
NChunks == 64
VARIABLES chunk, i
vars == <<chunk, i>>
\* (the variables of the assignment machine are not used here: the closed form LocOf judges)
Init == chunk = 0 /\ i = 0 /\ AInit
PickChunk == chunk = 0 /\ chunk' \in 1..NChunks /\ i' = 0 /\ UNCHANGED avars
PickRec == chunk > 0 /\ i = 0 /\ chunk' = chunk /\ UNCHANGED avars
           /\ i' \in {k \in 1..Len(Recs) : k % NChunks = chunk - 1}
Next == PickChunk \/ PickRec

R == Recs[i]
Is(kind) == i > 0 /\ R.kind = kind

\* sub-registers: the architectural register a name designates part of
Family(n) ==
    CASE n \in {"rdi", "edi", "di", "dil"} -> "rdi" [] n \in {"rsi", "esi", "si", "sil"} -> "rsi"
      [] n \in {"rdx", "edx", "dx", "dl"} -> "rdx"  [] n \in {"rcx", "ecx", "cx", "cl"} -> "rcx"
      [] n \in {"r8", "r8d", "r8w", "r8b"} -> "r8"  [] n \in {"r9", "r9d", "r9w", "r9b"} -> "r9"
      [] n \in {"rax", "eax", "ax", "al"} -> "rax"
      [] OTHER -> n
CSig(tys) == [k \in 1..Len(tys) |-> ClassOf(tys[k])]

\* an implementation location designates the psABI location and is wide enough for the type
LocMatches(l, spec, ty) ==
    IF spec.k = "reg"
    THEN l.k = "reg" /\ Family(l.name) = spec.r /\ l.bits >= 8 * SizeOf(ty)
    ELSE l.k = "mem" /\ l.off = FrameRbpOffset(spec.slot) /\ l.size = 8

LocationsConform ==
    Is("locs") => /\ R.out.ok
                  /\ Len(R.out.locs) = Len(R.tys)
                  /\ \A k \in 1..Len(R.tys) : LocMatches(R.out.locs[k], LocOf(CSig(R.tys), k), R.tys[k])
ReturnLocationConforms ==
    Is("rv") => R.out.ok /\ LocMatches(R.out.loc, RetLoc(ClassOf(R.ty)), R.ty)

IsCall == Is("callee") \/ Is("caller")
Completed == IsCall /\ R.outcome = "ok"
CallCompletes == IsCall => R.outcome = "ok"
\* the callee receives the values passed
ArgsArrive == (Is("callee") /\ Completed) =>
                 Len(R.seen) = Len(R.passed) /\ \A k \in 1..Len(R.passed) : R.seen[k] = R.passed[k]
\* the caller puts every value where the psABI says
ArgsPlaced == (Is("caller") /\ Completed) => \A k \in 1..Len(R.passed) : ArgIsAt(R.snap, R.tys, k, R.passed[k])
StackAligned == (Is("caller") /\ Completed) => R.snap.rsp16 = 0
\* the caller receives the value returned (an eightbyte in %rax / %xmm0, used at the width of the return type)
ReturnArrives == Completed => (IF R.rty = "" THEN TRUE ELSE R.got = Low(R.retv, SizeOf(R.rty)))
CalleeSavedPreserved == Completed => Len(R.before) = Len(CalleeSaved) /\ R.after = R.before
\* the callee may destroy every caller-saved register (the spy does): values the caller keeps across the call
\* (copies of the arguments, stored after the call returned) are unchanged
LiveValuesSurvive == (Is("caller") /\ Completed /\ "kept" \in DOMAIN R) => R.kept = R.passed

Conforms == LocationsConform /\ ReturnLocationConforms /\ CallCompletes /\ ArgsArrive /\ ArgsPlaced
            /\ StackAligned /\ ReturnArrives /\ CalleeSavedPreserved /\ LiveValuesSurvive
=============================================================================
