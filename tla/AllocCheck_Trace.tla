-------------------------- MODULE AllocCheck_Trace --------------------------
(* Conformance binding of C06 (idiom T): every register allocation that the *)
(* real GraphColoringRegisterAllocator performed (recorded by               *)
(* harness/regalloc_trace.py, encoded by engines/c06.py) is a case          *)
(*   [key, mode, arch, nn, W, S, colour, blocks, pre, post]                 *)
(* of AllocCheck; TLC explores ALL paths of every case and evaluates the    *)
(* clauses of the property in every reachable state.                        *)
(* TRACE_FILE = {"archs": [[np, sub]...], "cases": [case...]}.              *)
(* Two-level fan-out (chunk, then case) so that the workers share the work. *)
EXTENDS AllocCheck, Json, IOUtils

Input == JsonDeserialize(IOEnv.TRACE_FILE)
NCases == Len(Input.cases)
Ovs  == Mk([a \in 1..Len(Input.archs) |-> OvOf(Input.archs[a])])
NChunks == 16

(* `tab' holds the tables of the case under exploration (AllocCheck!Build): built once, by the worker  *)
(* that enters the case, constant afterwards.  It is a function of f, so the cfg hides it from the     *)
(* fingerprint (VIEW View) and from error traces (ALIAS Shown).                                        *)
VARIABLES chunk, f, pc, cur, holds, tab
vars == <<chunk, f, pc, cur, holds, tab>>
View == <<chunk, f, pc, cur, holds>>
Shown == [chunk |-> chunk, f |-> f, pc |-> pc, cur |-> cur, holds |-> holds]
Empty == [r \in {} |-> 0]
NoTab == [n |-> 0]

Init == chunk = 0 /\ f = 0 /\ pc = 0 /\ cur = Empty /\ holds = Empty /\ tab = NoTab
PickChunk == /\ chunk = 0 /\ chunk' \in 1..NChunks /\ UNCHANGED <<f, pc, cur, holds, tab>>
PickCase  == /\ chunk > 0 /\ f = 0
             /\ f' \in {k \in 1..NCases : k % NChunks = chunk - 1}
             /\ tab' = Build(Input.cases[f'], Ovs[Input.cases[f'].arch])
             /\ pc' = 1 /\ UNCHANGED <<chunk, cur, holds>>

P == tab
At == P.T[pc]
Running == f > 0 /\ pc >= 1 /\ pc <= P.n
\* a path is followed only as long as the property holds on it: one report per failing path prefix
Healthy == /\ ReadsOK(P, pc, cur, holds) /\ NoShare(P, cur) /\ RemovedOK(P, pc) /\ InsertedOK(P, pc)

\* an instruction of both programs: reads are checked (invariant), definitions take effect
Exec == /\ Running /\ Healthy /\ At.kind = "both"
        /\ \E j \in At.succ : \E s \in {ExecTo(P, pc, j, cur, holds)} :
              pc' = j /\ cur' = s.cur /\ holds' = s.holds
        /\ UNCHANGED <<chunk, f, tab>>
\* a coalesced move deleted by remove_redundant_moves: only the ground truth moves on
RemovedMove == /\ Running /\ Healthy /\ At.kind = "spec"
               /\ \E j \in At.succ : \E s \in {RemovedTo(P, pc, j, cur, holds)} :
                     pc' = j /\ cur' = s.cur /\ holds' = s.holds
               /\ UNCHANGED <<chunk, f, tab>>
\* spill code inserted by rewrite_program: one load / store block, atomically
SpillBlock == /\ Running /\ Healthy /\ At.kind = "impl" /\ At.blk # 0
              /\ \E s \in {BlockTo(P, pc, cur, holds)} :
                    pc' = pc + At.blkLen /\ cur' = s.cur /\ holds' = s.holds
              /\ UNCHANGED <<chunk, f, tab>>
Next == PickChunk \/ PickCase \/ Exec \/ RemovedMove \/ SpillBlock

\* ---- the property ----
ReadsSeeLatestDef == Running => ReadsOK(P, pc, cur, holds)
NoSharing         == Running => NoShare(P, cur)
CoalescedSameLoc  == Running => RemovedOK(P, pc)
SpillCodeInBlocks == Running => InsertedOK(P, pc)
\* ---- structural clauses (per case, evaluated when the case is entered) ----
AtStart == f > 0 /\ pc = 1
ImplIsSubList     == AtStart => P.subList      \* emitted = L minus removed / before = after minus inserted
OperandsUnchanged == AtStart => P.sameOps
JumpTargetsInList == AtStart => P.jumpsOK
EveryNameLocated  == AtStart => P.located
BlocksWellFormed  == AtStart => P.blocksOK
RemovedExactly    == AtStart => P.removedOK
=============================================================================
