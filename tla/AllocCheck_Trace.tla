-------------------------- MODULE AllocCheck_Trace --------------------------
(* Conformance binding of C06 (idiom T): every register allocation that the *)
(* real GraphColoringRegisterAllocator performed (recorded by               *)
(* harness/regalloc_trace.py, encoded by engines/c06.py) is a case          *)
(*   [key, mode, arch, nn, W, S, colour, blocks, pre, post]                 *)
(* of AllocCheck; TLC explores ALL paths of every case and evaluates the    *)
(* clauses of the property in every reachable state.                        *)
(* TRACE_FILE = {"archs": [[np, sub]...], "cases": [case...]}.              *)
(* Two-level fan-out (chunk, then case) so that the workers share the work. *)
EXTENDS AllocCheck, Json, IOUtils

Input == JsonDeserialize(IOEnv.TRACE_FILE)
NCases == Len(Input.cases)
Ovs  == Mk([a \in 1..Len(Input.archs) |-> OvOf(Input.archs[a])])
NChunks == 16

(* `tab' holds the tables of the case under exploration (AllocCheck!Build): built once, by the worker  *)
(* that enters the case, constant afterwards.  It is a function of f, so the cfg hides it from the     *)
(* fingerprint (VIEW View) and from error traces (ALIAS Shown).                                        *)
\* `last' = the position executed by the step that led here (0 = none): the instruction whose
\* definitions NoSharing has to look at (AllocCheck!NoShareStep)
VARIABLES chunk, f, pc, last, cur, holds, tab
vars == <<chunk, f, pc, last, cur, holds, tab>>
View == <<chunk, f, pc, last, cur, holds>>
Shown == [chunk |-> chunk, f |-> f, pc |-> pc, last |-> last, cur |-> cur, holds |-> holds]
Empty == [r \in {} |-> 0]
NoTab == [n |-> 0]

Init == chunk = 0 /\ f = 0 /\ pc = 0 /\ last = 0 /\ cur = Empty /\ holds = Empty /\ tab = NoTab
PickChunk == /\ chunk = 0 /\ chunk' \in 1..NChunks /\ UNCHANGED <<f, pc, last, cur, holds, tab>>
PickCase  == /\ chunk > 0 /\ f = 0
             /\ f' \in {k \in 1..NCases : k % NChunks = chunk - 1}
             /\ tab' = Build(Input.cases[f'], Ovs[Input.cases[f'].arch])
             /\ pc' = 1 /\ UNCHANGED <<chunk, last, cur, holds>>

P == tab
At == P.T[pc]
Running == f > 0 /\ pc >= 1 /\ pc <= P.n
\* a path is followed only as long as the property holds on it: one report per failing path prefix
Healthy == /\ ReadsOK(P, pc, cur, holds) /\ NoShareStep(P, last, cur) /\ RemovedOK(P, pc) /\ InsertedOK(P, pc)

\* one step of the machine at an entry of the given kind; a path is followed only while the
\* property holds on it (Healthy), so every failing path prefix is reported once
At_(kind) == /\ Running /\ At.kind = kind /\ Healthy /\ last' = pc /\ UNCHANGED <<chunk, f, tab>>
\* an instruction of both programs: reads are checked (Healthy / invariants), definitions take effect
Exec == /\ At_("both")
        /\ \E j \in At.succ : \E s \in {ExecTo(P, pc, j, cur, holds)} :
              pc' = j /\ cur' = s.cur /\ holds' = s.holds
\* a coalesced move deleted by remove_redundant_moves: only the ground truth moves on
RemovedMove == /\ At_("spec")
               /\ \E j \in At.succ : \E s \in {RemovedTo(P, pc, j, cur, holds)} :
                     pc' = j /\ cur' = s.cur /\ holds' = s.holds
\* spill code inserted by rewrite_program: one load / store block, atomically
SpillBlock == /\ At_("impl") /\ At.blk # 0
              /\ \E s \in {BlockTo(P, pc, cur, holds)} :
                    pc' = pc + At.blkLen /\ cur' = s.cur /\ holds' = s.holds
Next == PickChunk \/ PickCase \/ Exec \/ RemovedMove \/ SpillBlock

\* safety net against a case whose exploration explodes: the run stops generating states at the
\* cap, the engine sees the cap was hit, splits the batch and finally counts the case as inconclusive
CONSTANT MaxStates
Budget == TLCGet("distinct") < MaxStates

\* ---- the property ----
ReadsSeeLatestDef == Running => ReadsOK(P, pc, cur, holds)
NoSharing         == Running => NoShareStep(P, last, cur)
CoalescedSameLoc  == Running => RemovedOK(P, pc)
SpillCodeInBlocks == Running => InsertedOK(P, pc)
\* ---- structural clauses (per case, evaluated when the case is entered) ----
AtStart == f > 0 /\ pc = 1
ImplIsSubList     == AtStart => P.subList      \* emitted = L minus removed / before = after minus inserted
OperandsUnchanged == AtStart => P.sameOps
JumpTargetsInList == AtStart => P.jumpsOK
EveryNameLocated  == AtStart => P.located
BlocksWellFormed  == AtStart => P.blocksOK
RemovedExactly    == AtStart => P.removedOK
RoundsChain       == AtStart => P.chainOK      \* the list changes only inside rewrite_program
=============================================================================
