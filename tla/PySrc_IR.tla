------------------------------- MODULE PySrc_IR -------------------------------
(* The judgement of property C36:  PySrc (what CPython computes)  is refined by  *)
(* the IR that ppci.lang.python.python_to_ir emits.                              *)
(* A case is an IR.tla case (mods = <<projection of python_to_ir(source)>>)      *)
(* whose field  obs  is the sequence, indexed by argument vector, of the         *)
(* observations [status, ret] that TLC computed with PySrc.tla (module           *)
(* PySrc_Run) for the abstract program the source text was rendered from.        *)
(* TLC executes the IR under IR.tla and checks, for every execution in which     *)
(* CPython returns an integer and all values stay within 64 bits (PySrc status   *)
(* "ok"), that the IR execution is itself defined, terminates, and returns the   *)
(* same 64-bit word.                                                             *)
EXTENDS IR

HasObs == Finished /\ ph = 1 /\ "obs" \in DOMAIN C
PyObs == C.obs[av]
\* No verdict where the IR model cannot follow the execution: floats, or the memory bound of IR.tla
\* (python2ir emits an `alloc` at the first binding of a local; inside a loop IR.tla allocates on every iteration).
\* The step budget of the case is a generous multiple of the steps PySrc needed (set by the driver), so
\* running out of it means the compiled code loops where CPython terminates.
Judged == /\ HasObs /\ PyObs.status = "ok"
          /\ status # "outofmodel"
          /\ ~(status = "fuel" /\ why = "memory")

\* a call that CPython completes with an integer result must not become IR that traps, uses an undefined
\* value, is malformed (e.g. a phi without an incoming value for the edge taken) or does not terminate
PyDefinedStaysDefined == Judged => status = "ok"
\* "the code ppci compiles returns what CPython returns for the same arguments"
PySameReturn == (Judged /\ status = "ok") => ret = PyObs.ret
=============================================================================
