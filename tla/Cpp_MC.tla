------------------------------ MODULE Cpp_MC ------------------------------
(* Idiom M for Cpp.tla: the specification itself is model-checked.           *)
(*                                                                           *)
(* part = "laws": one state per (macro set, input).  Macro sets: at most    *)
(*   two definitions, of the names a and b, each object-like or function-   *)
(*   like with the one parameter c, replacement lists of at most MaxBody    *)
(*   tokens over {a, b, c, "(", ")"} (WithOps = TRUE adds "#" and "##");     *)
(*   inputs: every sequence of at most MaxIn tokens over the same alphabet  *)
(*   plus seven (MaxIn >= 1: eleven) fixed ones with nested and repeated    *)
(*   invocations.                                                           *)
(*   Laws of Exp (Prosser's expand): termination, idempotence, no macro     *)
(*   invocation left, hide sets only name defined macros, the results       *)
(*   contain only source spellings, ...                                     *)
(* part = "machine": the translation-unit machine explored over every       *)
(*   sequence of at most MaxLines lines from a small alphabet of text and   *)
(*   directive lines; invariants of the conditional stack; one named        *)
(*   action per rule, all of which must be covered.                         *)
EXTENDS Cpp, TLC
CONSTANTS MaxBody, MaxIn, MaxLines, WithOps

na == <<97>>   nb == <<98>>   nc == <<99>>
T(k, t) == Tok(k, t, TRUE)
Ta == T("id", na)   Tb == T("id", nb)   Tc == T("id", nc)
Tl == T("punct", LP)   Tr == T("punct", RP)
Th == T("punct", HASH)   Thh == T("punct", HASHHASH)
Alpha == {Ta, Tb, Tc, Tl, Tr}
BodyAlpha == IF WithOps THEN Alpha \cup {Th, Thh} ELSE Alpha
SeqsUpTo(S, n) == UNION {[1..k -> S] : k \in 0..n}
Bodies == SeqsUpTo(BodyAlpha, MaxBody)
DefsOf(n) == {d \in {[name |-> n, fl |-> fl, params |-> IF fl THEN <<nc>> ELSE <<>>, body |-> Mk(bd)] :
                        fl \in BOOLEAN, bd \in Bodies} : BodyStatus(d) = "ok"}
MacroSets == {<<>>} \cup {<<d>> : d \in DefsOf(na) \cup DefsOf(nb)}
                    \cup {<<d1, d2>> : d1 \in DefsOf(na), d2 \in DefsOf(nb)}
\* every input of at most MaxIn tokens, plus longer ones with nested and repeated invocations
Inputs == {Mk(x) : x \in SeqsUpTo(Alpha, MaxIn)}
          \cup {<<Ta>>, <<Tb>>, <<Ta, Tb>>, <<Ta, Tl, Tb, Tr>>, <<Ta, Tl, Tc, Tr, Tl, Tc, Tr>>,
                <<Ta, Tl, Tb, Tl, Tc, Tr, Tr>>, <<Tb, Ta, Tl, Tb, Tr, Tl, Ta, Tr>>}
          \cup (IF MaxIn >= 1 THEN {<<Ta, Tl, Ta, Tr>>, <<Tb, Tl, Tc, Tr>>, <<Ta, Tl, Tr>>, <<Ta, Tl, Ta, Tl, Tc, Tr, Tr, Tb>>}
                ELSE {})

\* ---- the line alphabet of the machine part --------------------------------
Hash == Tok("punct", HASH, FALSE)
Num(c) == T("num", <<c>>)
D(n) == T("id", n)
MachLines ==
  { <<Ta>>, <<Tb, Tl, Tc, Tr>>, <<Tc>>, <<>>,                                  \* text
    <<Hash>>,                                                                   \* null directive
    <<Hash, D(N_define), Ta, Tc, Ta>>,                                          \* #define a c a
    <<Hash, D(N_define), Tb, Tok("punct", LP, FALSE), Tc, Tr, Tc, Tc>>,         \* #define b(c) c c
    <<Hash, D(N_undef), Ta>>,
    <<Hash, D(N_if), Num(48)>>, <<Hash, D(N_if), Num(49)>>,
    <<Hash, D(N_if), D(N_defined), Ta>>,
    <<Hash, D(N_ifdef), Ta>>, <<Hash, D(N_ifndef), Ta>>,
    <<Hash, D(N_elif), Num(48)>>, <<Hash, D(N_elif), Num(49)>>,
    <<Hash, D(N_else)>>, <<Hash, D(N_endif)>>,
    <<Hash, T("id", <<112, 114, 97, 103, 109, 97>>)>> }                        \* #pragma: not modelled

\* r1, r2: Exp of inp under the two readings of the hide-set rule, r3: Exp of r1's result again
VARIABLES part, ms, inp, S, n, r1, r2, r3
vars == <<part, ms, inp, S, n, r1, r2, r3>>
None == Bad("none", {})

Init == /\ \/ part = "laws" /\ ms \in MacroSets /\ inp \in Inputs
           \/ part = "machine" /\ ms = <<>> /\ inp = <<>>
        /\ S = S0 /\ n = 0 /\ r1 = None /\ r2 = None /\ r3 = None
ExpandInput == /\ part = "laws" /\ n = 0 /\ n' = 1
               /\ r1' = Exp(ms, "inter", inp, <<>>, {}, Fuel, "text")
               /\ r2' = Exp(ms, "nested", inp, <<>>, {}, Fuel, "text")
               /\ r3' = IF r1'.st = "ok" THEN Exp(ms, "inter", r1'.toks, <<>>, {}, Fuel, "text") ELSE None
               /\ UNCHANGED <<part, ms, inp, S>>

Mach(kind) == /\ part = "machine" /\ n < MaxLines /\ S.status = "ok"
              /\ \E line \in MachLines : LineKind(S, line) = kind /\ S' = StepKind(S, line, kind)
              /\ n' = n + 1 /\ UNCHANGED <<part, ms, inp, r1, r2, r3>>
Text   == Mach("text")
Skip   == Mach("skip")
Null   == Mach("null")
Define == Mach("define")
Undef  == Mach("undef")
Other  == Mach("other")
If     == Mach("if")
Ifdef  == Mach("ifdef")
Ifndef == Mach("ifndef")
Elif   == Mach("elif")
Else   == Mach("else")
Endif  == Mach("endif")
Next == ExpandInput \/ Text \/ Skip \/ Null \/ Define \/ Undef \/ Other \/ If \/ Ifdef \/ Ifndef \/ Elif \/ Else \/ Endif

\* ---- laws of Exp -------------------------------------------------------------
Done == part = "laws" /\ n = 1
Names == {ms[j].name : j \in 1..Len(ms)}
NoRedex(ts) == \A j \in 1..Len(ts) :
    (ts[j].k = "id" /\ Defined(ms, ts[j].t) /\ ts[j].t \notin ts[j].hs)
        => (Def(ms, ts[j].t).fl /\ (j = Len(ts) \/ ~IsP(ts[j + 1], LP)))
\* A function-like macro name that is not followed by "(" is not an invocation (6.10.3p10) and is
\* final; what follows it may still be replaced by nothing or by something that starts with "(".
\* Only then is something that looks like an invocation left in the result (found by this model:
\* a = <empty>, b(c) = <empty>:  b a ( b ) ( a )  gives  b ( b ) ( );   a = b, b(c) = "(" likewise).
Vanishing == "fn-name-without-paren" \in r1.tags
\* expansion terminates (the fuel of Exp is never used up) with a defined status
LawTerminates == Done => r1.st \in {"ok", "invalid", "undef", "unspec"} /\ r2.st \in {"ok", "invalid", "undef", "unspec"}
\* rescanning a completely replaced sequence (hide sets kept) changes nothing
LawIdempotent == (Done /\ r1.st = "ok" /\ ~Vanishing) => r3.st = "ok" /\ r3.toks = r1.toks
\* nothing replaceable is left: a remaining macro name is hidden, or function-like and not followed by "("
LawNoRedex == (Done /\ r1.st = "ok" /\ ~Vanishing) => NoRedex(r1.toks)
\* hide sets only name defined macros; place markers and ## operators never reach the result
LawHideSets == (Done /\ r1.st = "ok") =>
                   \A j \in 1..Len(r1.toks) : /\ r1.toks[j].hs \subseteq Names
                                              /\ r1.toks[j].k \in {"id", "num", "punct", "str"}
\* a token in the result whose hide set is empty was never part of a replacement: it is an input token
LawUntouched == (Done /\ r1.st = "ok") =>
                   \A j \in 1..Len(r1.toks) : r1.toks[j].hs = {} => \E x \in 1..Len(inp) : inp[x].t = r1.toks[j].t
\* without # and ## no new spelling appears
LawSpellings == (Done /\ r1.st = "ok" /\ ~WithOps) =>
                   \A j \in 1..Len(r1.toks) : \E x \in Alpha : x.t = r1.toks[j].t
LawNoMacros == (Done /\ ms = <<>>) => r1.st = "ok" /\ r1.toks = inp
\* only function-like invocations can make the two readings of the hide-set rule differ,
\* and where they agree on the tokens the nested reading hides at least as much
LawObjectOnly == (Done /\ \A j \in 1..Len(ms) : ~ms[j].fl) => r2 = r1
LawNestedHidesMore == (Done /\ r1.st = "ok" /\ r2.st = "ok" /\ Proj(r1.toks) = Proj(r2.toks)) =>
                        \A j \in 1..Len(r1.toks) : r1.toks[j].hs \subseteq r2.toks[j].hs

\* ---- invariants of the machine ------------------------------------------------
Statuses == {"ok", "invalid", "undef", "impldef", "unspec", "outofmodel"}
TypeOK == /\ S.status \in Statuses
          /\ \A j \in 1..Len(S.cs) : S.cs[j].s \in {"active", "waiting", "done", "dead"} /\ S.cs[j].els \in BOOLEAN
\* below a group that is not being processed everything is dead; a dead section sits in such a group
StackShape == \A j \in 1..Len(S.cs) :
                 /\ S.cs[j].s # "active" => \A k \in (j + 1)..Len(S.cs) : S.cs[k].s = "dead"
                 /\ S.cs[j].s = "dead" => j > 1 /\ S.cs[j - 1].s # "active"
\* at most one group of an if-section is processed
OneGroup == \A j \in 1..Len(S.cs) :
               /\ S.cs[j].n <= 1
               /\ S.cs[j].s = "active" => S.cs[j].n = 1
               /\ S.cs[j].s = "waiting" => S.cs[j].n = 0
               /\ S.cs[j].s = "done" => S.cs[j].n = 1
               /\ S.cs[j].s = "dead" => S.cs[j].n = 0
NoTextWhileSkipping == ~Live(S.cs) => S.pend = <<>>
Balanced == LET F == Finish(S) IN F.status = "ok" => S.cs = <<>> /\ F.pend = <<>>
\* tokens reach the output only from groups that are being processed; #undef and skipped lines never add output
OutputOnlyWhenLive == [][S'.out # S.out => Live(S.cs)]_vars
MacrosOnlyWhenLive == [][S'.ms # S.ms => Live(S.cs) /\ Live(S'.cs)]_vars
=============================================================================
