------------------------------- MODULE Dis_MC -------------------------------
(* Idiom M for X18: the table machinery of Dis.tla model-checked on small    *)
(* tables (2-bit bytes): an assembler appends encodings of arbitrary         *)
(* instruction instances to a stream (Emit), possibly one trailing byte that *)
(* is no instruction (EmitJunk), then a table-derived disassembler walks the *)
(* stream (DecodeOne: any best matching row -- overlapping rows are a        *)
(* legitimate choice; EmitData: nothing matches) until the end (Finish).     *)
(* Laws: encode / decode invert each other on every row (DecEnc), a decoded  *)
(* instruction re-encodes to the bytes it was read from (Resync), on a       *)
(* prefix-free table the stream is split where the assembler put the         *)
(* boundaries and every piece is the instruction that was emitted or an      *)
(* alias with the same encoding (SplitsRight), instruction bytes never come  *)
(* out as data (NeverData) and bytes that are no instruction come out as     *)
(* data (JunkIsData).  The table "bad" is not prefix-free: SplitsRight must  *)
(* fail on it (the engine checks that it does).                              *)
EXTENDS Dis, TLC

CONSTANTS Tabs, MaxIns

P(fix, pos, val, op) == [fix |-> fix, pos |-> pos, val |-> val, op |-> op, tr |-> "none"]
Row(len, pats, nops) == [len |-> len, pats |-> pats, ops |-> [o \in 1..nops |-> [kind |-> "int", nums |-> <<>>]],
                         custom |-> FALSE, opaque |-> FALSE, flat |-> TRUE]
\* byte 1 = bits 1,2; byte 2 = bits 3,4 (BB = 2)
Short  == Row(1, <<P(TRUE, <<2>>, <<0>>, 0), P(FALSE, <<1>>, <<>>, 1)>>, 1)
Long   == Row(2, <<P(TRUE, <<2>>, <<1>>, 0), P(FALSE, <<1, 3>>, <<>>, 1), P(FALSE, <<4>>, <<>>, 2)>>, 2)
LongHi == Row(2, <<P(TRUE, <<2, 4>>, <<1, 1>>, 0), P(FALSE, <<3, 1>>, <<>>, 1)>>, 1)   \* alias of Long with operand 2 = 1, field scattered the other way
Data   == Row(1, <<P(FALSE, <<1, 2>>, <<>>, 1)>>, 1)
Greedy == Row(1, <<P(TRUE, <<1>>, <<0>>, 0), P(FALSE, <<2>>, <<>>, 1)>>, 1)          \* matches the first byte of some Long words
TableOf(t) == CASE t = "good" -> <<Short, Long, LongHi, Data>>
                [] t = "nodata" -> <<Short, Long, LongHi>>
                [] t = "bad" -> <<Greedy, Long, Data>>

VARIABLES tab, pf, phase, parts, stream, pos, out
vars == <<tab, pf, phase, parts, stream, pos, out>>
T == TableOf(tab)

FVs(row) == {f \in AllFV(row) : \A k \in 1..Len(row.pats) : row.pats[k].fix => f[k] = Low(<<>>, Len(row.pats[k].pos))}

Init == tab \in Tabs /\ pf = PrefixFree(TableOf(tab)) /\ phase = "asm" /\ parts = <<>> /\ stream = <<>> /\ pos = 0 /\ out = <<>>

Emit == /\ phase = "asm" /\ Len(parts) < MaxIns
        /\ \E c \in 1..Len(T) : ~CatchAll(T[c]) /\ \E fv \in FVs(T[c]) :
               /\ parts' = Append(parts, [c |-> c, w |-> EncodeT(T[c], fv), at |-> Len(stream)])
               /\ stream' = stream \o EncodeT(T[c], fv)
        /\ UNCHANGED <<tab, pf, phase, pos, out>>
\* one trailing byte that no instruction row of one byte matches
EmitJunk == /\ phase = "asm" /\ Len(parts) < MaxIns
            /\ \E b \in Values(BB) :
                  /\ \A c \in 1..Len(T) : (~CatchAll(T[c]) /\ T[c].len = 1) => ~FixedMatch(T[c], b)
                  /\ parts' = Append(parts, [c |-> 0, w |-> b, at |-> Len(stream)])
                  /\ stream' = stream \o b
            /\ phase' = "dis"
            /\ UNCHANGED <<tab, pf, pos, out>>
Seal == phase = "asm" /\ Len(parts) > 0 /\ phase' = "dis" /\ UNCHANGED <<tab, pf, parts, stream, pos, out>>
DecodeOne == /\ phase = "dis" /\ pos < Len(stream)
             /\ \E c \in Best(T, stream, pos) :
                   /\ out' = Append(out, [c |-> c, fv |-> DecodeT(T[c], Slice(stream, pos + 1, BB * T[c].len)), at |-> pos])
                   /\ pos' = pos + BB * T[c].len
             /\ UNCHANGED <<tab, pf, phase, parts, stream>>
EmitData == /\ phase = "dis" /\ pos < Len(stream) /\ Best(T, stream, pos) = {}
            /\ out' = Append(out, [c |-> 0, fv |-> <<Slice(stream, pos + 1, BB)>>, at |-> pos])
            /\ pos' = pos + BB
            /\ UNCHANGED <<tab, pf, phase, parts, stream>>
Finish == phase = "dis" /\ pos = Len(stream) /\ phase' = "done" /\ UNCHANGED <<tab, pf, parts, stream, pos, out>>
Next == Emit \/ EmitJunk \/ Seal \/ DecodeOne \/ EmitData \/ Finish

\* ---- laws
TypeOK == /\ phase \in {"asm", "dis", "done"} /\ pos \in 0..Len(stream) /\ Len(stream) % BB = 0
          /\ \A k \in 1..Len(out) : out[k].c \in 0..Len(T)
\* static law of every row (judged in the initial state): decoding an encoding gives back the fields
DecEnc == (phase = "asm" /\ parts = <<>>) =>
    \A c \in 1..Len(T) : \A fv \in FVs(T[c]) :
        /\ FixedMatch(T[c], EncodeT(T[c], fv))
        /\ \A k \in 1..Len(T[c].pats) : ~T[c].pats[k].fix => DecodeT(T[c], EncodeT(T[c], fv))[k] = fv[k]
        /\ EncodeT(T[c], DecodeT(T[c], EncodeT(T[c], fv))) = EncodeT(T[c], fv)
        /\ Complete(T[c]) /\ RegFieldsOK(T[c], EncodeT(T[c], fv))
\* whatever a row matches re-encodes, through that row, to the word it matched (rows are complete)
MatchReencodes == (phase = "asm" /\ parts = <<>>) =>
    \A c \in 1..Len(T) : \A w \in Values(BB * T[c].len) : FixedMatch(T[c], w) => EncodeT(T[c], DecodeT(T[c], w)) = w
PieceWord(o) == IF o.c = 0 THEN o.fv[1] ELSE EncodeT(T[o.c], o.fv)
RECURSIVE Concat(_, _)
Concat(q, k) == IF k > Len(q) THEN <<>> ELSE PieceWord(q[k]) \o Concat(q, k + 1)
Resync == phase = "done" => Concat(out, 1) = stream
SplitsHere ==
    \A k \in 1..Len(out) : /\ k <= Len(parts) /\ out[k].at = parts[k].at
                           /\ parts[k].c > 0 => (out[k].c > 0 /\ ~CatchAll(T[out[k].c]) /\ PieceWord(out[k]) = parts[k].w)
SplitsRight == pf => SplitsHere
\* must FAIL on the table "bad" (the engine checks that it does): the clause is not vacuous
SplitsRightOnAnyTable == SplitsHere
NeverData == pf => \A k \in 1..Len(out) : (k <= Len(parts) /\ parts[k].c > 0) => out[k].c > 0
JunkIsData == pf => \A k \in 1..Len(out) : (k <= Len(parts) /\ parts[k].c = 0) => (out[k].c = 0 \/ CatchAll(T[out[k].c]))
PrefixFreeAsExpected == pf = (tab # "bad")
=============================================================================
