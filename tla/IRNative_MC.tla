---------------------------- MODULE IRNative_MC ----------------------------
(* Idiom M for the judgement of IRNative.tla: micro programs whose outcome is  *)
(* derived by hand, each with one correct observation and observations in which *)
(* exactly one field is corrupted.  expect[av][k] lists the clauses that must   *)
(* reject observation k of vector av; every other clause must accept it, and    *)
(* an undefined execution (division by zero) must not be judged at all.         *)
EXTENDS IRNative

MInit == NInit
MNext == NNext

Clauses == <<"NativeCompletes", "NativeReturn", "NativeExit", "NativeGlobals", "NativeCalls">>
Holds(c) == CASE c = "NativeCompletes" -> NativeCompletes
              [] c = "NativeReturn" -> NativeReturn
              [] c = "NativeExit" -> NativeExit
              [] c = "NativeGlobals" -> NativeGlobals
              [] c = "NativeCalls" -> NativeCalls
Expected == C.expect[av][vr]
InSeq(x, s) == \E j \in 1..Len(s) : s[j] = x

VerdictAsExpected ==
    /\ (i > 0 /\ vr > 0) => \A k \in 1..Len(Clauses) : Holds(Clauses[k]) <=> ~InSeq(Clauses[k], Expected)
    \* vector 1 of every micro case is defined (judged), vector 2 is undefined (classified, never judged)
    /\ (i > 0 /\ vr # 0) => (vr > 0 <=> av = 1)
    /\ (i > 0 /\ vr = -1) => status = "undefined"
=============================================================================
