--------------------------------- MODULE BF ---------------------------------
(* The abstract machine of the Brainfuck language (extension property X02).      *)
(*                                                                               *)
(* A program is a sequence of character codes.  Eight characters are commands,   *)
(* every other character is a comment.  The machine has                          *)
(*   - a tape of `tlen` byte cells (0..255), all 0 at the start,                 *)
(*   - a data pointer `ptr` (0-based index into the tape), 0 at the start,       *)
(*   - a program counter `pc` (1-based index into the program),                  *)
(*   - the output written so far (`out`, bytes) and the number of input bytes    *)
(*     consumed so far (`nin`, inputs are read in order from `inp`).             *)
(*   +  -   increment / decrement the current cell, wrapping modulo 256          *)
(*          (ppci: the cells are IR type i8 and + / - are i8 add / sub)          *)
(*   >  <   move the data pointer; ppci documents a tape of 30000 cells and no   *)
(*          wrap-around of the pointer: leaving the tape is *undefined*          *)
(*   .      output the current cell     ,  store the next input byte             *)
(*   [      continue after the matching ] iff the current cell is 0              *)
(*   ]      continue after the matching [ iff the current cell is not 0          *)
(* A program whose brackets do not match is not a Brainfuck program              *)
(* (status "rejected").  One named action per command.                           *)
(*                                                                               *)
(* The whole machine is one record-valued variable `m`, so that the batch        *)
(* drivers (BF_MC, BF_Run) can load a program with  m' = Fresh(...).             *)
(* Non-termination is *decided* where possible: the machine is deterministic,    *)
(* so when a configuration <<pc, ptr, tape, nin>> recurs at a loop back edge     *)
(* the execution is periodic (status "diverges"; the output is                   *)
(* out[1..cyc0] followed by out[cyc0+1..] repeated for ever).                    *)
EXTENDS Integers, Sequences, FiniteSets

Plus == 43   Minus == 45   Left == 60   Right == 62
Dot == 46    Comma == 44   Open == 91   Close == 93
Commands == {Plus, Minus, Left, Right, Dot, Comma, Open, Close}

(* ---- bracket structure ------------------------------------------------------ *)
\* one left-to-right scan with a stack of the open positions;  <<partner function (0 = none), balanced?>>
RECURSIVE Scan(_, _, _, _)
Scan(p, k, st, mt) ==
    IF k > Len(p) THEN <<mt, st = <<>>>>
    ELSE IF p[k] = Open THEN Scan(p, k + 1, Append(st, k), mt)
    ELSE IF p[k] = Close
         THEN IF st = <<>> THEN <<mt, FALSE>>
              ELSE LET o == st[Len(st)]
                   IN Scan(p, k + 1, SubSeq(st, 1, Len(st) - 1), [mt EXCEPT ![o] = k, ![k] = o])
    ELSE Scan(p, k + 1, st, mt)
Matching(p) == Scan(p, 1, <<>>, [k \in 1..Len(p) |-> 0])
Balanced(p) == Matching(p)[2]
Match(p) == Matching(p)[1]

\* the same notions by counting nesting depth (used by BF_MC to cross-check the scan)
Depth(p, k) == Cardinality({j \in 1..k : p[j] = Open}) - Cardinality({j \in 1..k : p[j] = Close})
BalancedByDepth(p) == (\A k \in 1..Len(p) : Depth(p, k) >= 0) /\ Depth(p, Len(p)) = 0
\* partner of the [ at position k: the first later ] that returns to the depth in front of k
CloseByDepth(p, k) == LET S == {j \in (k + 1)..Len(p) : p[j] = Close /\ Depth(p, j) = Depth(p, k) - 1}
                      IN IF S = {} THEN 0 ELSE CHOOSE j \in S : \A x \in S : j <= x

(* ---- the machine --------------------------------------------------------------- *)
VARIABLE m

Fresh(p, in, n, fuel) ==
    LET M == Matching(p) IN
    [prog |-> p, inp |-> in, tlen |-> n, fuel |-> fuel, mt |-> M[1],
     pc |-> 1, ptr |-> 0, tape |-> [k \in 1..n |-> 0], out |-> <<>>, nin |-> 0,
     status |-> IF M[2] THEN "run" ELSE "rejected", why |-> IF M[2] THEN "" ELSE "brackets do not match",
     steps |-> 0, seen |-> {}, cyc0 |-> 0, last |-> "load"]
Idle == [status |-> "idle"]

Running == m.status = "run"
Budget  == Running /\ m.steps < m.fuel
AtEnd   == m.pc > Len(m.prog)
Cur     == m.prog[m.pc]
Cell    == m.tape[m.ptr + 1]
At(c)   == Budget /\ ~AtEnd /\ Cur = c

Adv(name, r) == m' = [r EXCEPT !.pc = m.pc + 1, !.steps = m.steps + 1, !.last = name]
Stop(name, st, reason) == m' = [m EXCEPT !.status = st, !.why = reason, !.last = name]

IncCell   == At(Plus)  /\ Adv("IncCell", [m EXCEPT !.tape[m.ptr + 1] = (Cell + 1) % 256])
DecCell   == At(Minus) /\ Adv("DecCell", [m EXCEPT !.tape[m.ptr + 1] = (Cell + 255) % 256])
MoveRight == At(Right) /\ IF m.ptr + 1 >= m.tlen THEN Stop("MoveRight", "undefined", "pointer leaves the tape on the right")
                          ELSE Adv("MoveRight", [m EXCEPT !.ptr = m.ptr + 1])
MoveLeft  == At(Left)  /\ IF m.ptr = 0 THEN Stop("MoveLeft", "undefined", "pointer leaves the tape on the left")
                          ELSE Adv("MoveLeft", [m EXCEPT !.ptr = m.ptr - 1])
Output    == At(Dot)   /\ Adv("Output", [m EXCEPT !.out = Append(m.out, Cell)])
Input     == At(Comma) /\ IF m.nin >= Len(m.inp) THEN Stop("Input", "undefined", "input exhausted (no convention for end of input)")
                          ELSE Adv("Input", [m EXCEPT !.tape[m.ptr + 1] = m.inp[m.nin + 1], !.nin = m.nin + 1])
LoopOpen  == At(Open)  /\ IF Cell = 0 THEN m' = [m EXCEPT !.pc = m.mt[m.pc] + 1, !.steps = m.steps + 1, !.last = "LoopOpen"]
                          ELSE Adv("LoopOpen", m)
\* the back edge: remember the configuration; seeing it again means the execution is periodic
Cfg == <<m.pc, m.ptr, m.tape, m.nin>>
LoopClose == At(Close) /\ IF Cell = 0 THEN Adv("LoopClose", m)
                          ELSE LET S == {s \in m.seen : s.cfg = Cfg} IN
                               IF S # {} THEN m' = [m EXCEPT !.status = "diverges", !.why = "configuration repeats",
                                                             !.cyc0 = (CHOOSE s \in S : TRUE).outlen, !.last = "LoopClose"]
                               ELSE m' = [m EXCEPT !.pc = m.mt[m.pc] + 1, !.steps = m.steps + 1, !.last = "LoopClose",
                                                   !.seen = m.seen \cup {[cfg |-> Cfg, outlen |-> Len(m.out)]}]
Comment   == Budget /\ ~AtEnd /\ Cur \notin Commands /\ Adv("Comment", m)
Halt      == Budget /\ AtEnd /\ Stop("Halt", "ok", "")
OutOfFuel == Running /\ m.steps >= m.fuel /\ Stop("OutOfFuel", "fuel", "step budget")

Step == IncCell \/ DecCell \/ MoveRight \/ MoveLeft \/ Output \/ Input \/ LoopOpen \/ LoopClose
        \/ Comment \/ Halt \/ OutOfFuel

Finished == m.status \in {"ok", "undefined", "fuel", "diverges", "rejected"}
\* what an observer of the machine sees
Obs == [status |-> m.status, why |-> m.why, out |-> m.out, cyc0 |-> m.cyc0, nin |-> m.nin, steps |-> m.steps]

\* j-th output byte of a periodic execution (j >= 1); defined when the cycle writes something or j is in the prefix
OutAt(o, j) == IF j <= Len(o.out) THEN o.out[j]
               ELSE LET n == Len(o.out) - o.cyc0 IN o.out[o.cyc0 + 1 + ((j - o.cyc0 - 1) % n)]

TypeOK == \/ m = Idle
          \/ /\ m.status \in {"run", "ok", "undefined", "fuel", "diverges", "rejected"}
             /\ m.ptr \in 0..(m.tlen - 1)
             /\ m.pc \in 1..(Len(m.prog) + 1)
             /\ \A k \in 1..m.tlen : m.tape[k] \in 0..255
             /\ \A k \in 1..Len(m.out) : m.out[k] \in 0..255
             /\ m.nin \in 0..Len(m.inp)
             /\ m.cyc0 \in 0..Len(m.out)
=============================================================================
