----------------------------- MODULE DebugInfo_MC -----------------------------
(* Idiom M: the specification itself, model-checked.                              *)
(* Two objects, each with one or two functions whose instruction sizes come from  *)
(* Shapes (CONSTANT MaxShape picks how many of them), a global variable, an       *)
(* undefined reference to the other object's first function, local labels with    *)
(* the same names in both objects, a debug location on every instruction; three   *)
(* layouts (none, one memory with ALIGN and DEFINESYMBOL, two memories); every     *)
(* subset of the 4-byte instructions shrunk to 2 bytes (hole = its second half).   *)
(* With rule "right" every clause must hold in every state.  Each wrong rule is    *)
(* run on one fixed configuration (all subsets of holes) and must break a clause:  *)
(* the engine reads the violations back and checks that exactly the wrong rules     *)
(* are reported.                                                                    *)
EXTENDS DebugInfo, TLC

CONSTANT MaxShape
VARIABLES cfg            \* [f1, f2: sequences of shapes, lay: layout number]
vars == <<ph, k, syms, secs, images, dbg, ins, vext, err, rule, cfg>>

AllShapes == << <<4>>, <<2, 4>>, <<4, 2, 4>> >>
Shapes == {AllShapes[n] : n \in 1..MaxShape}
FuncLists == {<<a>> : a \in Shapes} \cup {<<a, b>> : a \in Shapes, b \in Shapes}

FName == << <<"f1_1", "f1_2">>, <<"f2_1", "f2_2">> >>
VName == <<"v1", "v2">>

RECURSIVE Sum(_, _)
Sum(s, n) == IF n = 0 THEN 0 ELSE s[n] + Sum(s, n - 1)      \* s[1] + ... + s[n]
RECURSIVE Flat(_, _)
Flat(ss, n) == IF n > Len(ss) THEN <<>> ELSE ss[n] \o Flat(ss, n + 1)

Base(fs, g) == IF g = 1 THEN 0 ELSE Sum(fs[1], Len(fs[1]))
FnId(fs, g) == IF g = 1 THEN 2 ELSE 2 + Len(fs[1]) + 2

Obj(o, fs) ==
    LET total == Base(fs, Len(fs)) + Sum(fs[Len(fs)], Len(fs[Len(fs)]))
        fsyms(g) == << <<FName[o][g], "global", "code", Base(fs, g), TRUE>> >>
                    \o [n \in 1..Len(fs[g]) |-> <<".LDBG", "local", "code", Base(fs, g) + Sum(fs[g], n - 1), TRUE>>]
                    \o << <<".LEND", "local", "code", Base(fs, g) + Sum(fs[g], Len(fs[g])), TRUE>> >>
        fins(g) == [n \in 1..Len(fs[g]) |-> <<"code", Base(fs, g) + Sum(fs[g], n - 1), fs[g][n], g, 1>>]
        flocs(g) == [n \in 1..Len(fs[g]) |-> << <<"fixed", FnId(fs, g) + n, 0>>, 10 * g + n, g, 1, n>>]
        ffun(g) == <<"f", FName[o][g], <<"fixed", FnId(fs, g), 0>>, <<"fixed", FnId(fs, g) + Len(fs[g]) + 1, 0>>,
                     8, TRUE, << <<"a", <<"fprel", -4, 4>>>>, <<"b", <<"fprel", -8, 4>>>> >> >>
    IN [secs  |-> << <<"data", 4, 4>>, <<"code", total, 4>> >>,
        syms  |-> << <<VName[o], "global", "data", 0, TRUE>>, <<FName[3 - o][1], "global", "", -1, FALSE>> >>
                  \o Flat([g \in 1..Len(fs) |-> fsyms(g)], 1),
        ins   |-> Flat([g \in 1..Len(fs) |-> fins(g)], 1),
        locs  |-> Flat([g \in 1..Len(fs) |-> flocs(g)], 1),
        funcs |-> [g \in 1..Len(fs) |-> ffun(g)],
        vars  |-> << <<"v", VName[o], <<"fixed", 0, 0>>, <<"data", 0, 4>>>> >>]

Layouts == << [has |-> FALSE, mems |-> <<>>],
              [has |-> TRUE, mems |-> << <<256, << <<"sec", "code", 0>>, <<"align", "", 8>>, <<"sym", "edata", 0>>,
                                                   <<"sec", "data", 0>> >> >> >>],
              [has |-> TRUE, mems |-> << <<64, << <<"sec", "code", 0>> >> >>,
                                         <<512, << <<"sym", "sdata", 0>>, <<"sec", "data", 0>> >> >> >>] >>

WrongCfg == [f1 |-> << <<2, 4>>, <<4>> >>, f2 |-> << <<4>>, <<2, 4>> >>, lay |-> 2]

Init == /\ \E r \in Rules : LInit(r)
        /\ IF rule = "right" THEN cfg \in [f1 : FuncLists, f2 : FuncLists, lay : 1..3]
           ELSE cfg = WrongCfg

MMerge1 == k = 0 /\ Merge(Obj(1, cfg.f1)) /\ UNCHANGED cfg
MMerge2 == k = 1 /\ Merge(Obj(2, cfg.f2)) /\ UNCHANGED cfg
MLayout == k = 2 /\ Layout(Layouts[cfg.lay]) /\ UNCHANGED cfg

\* the 4-byte instructions that may shrink, as holes in ascending order
Shrinkable == {n \in 1..Len(ins) : ins[n][3] = 4 /\ ins[n][5] = 1}
HoleSeq(S) == [r \in 1..Cardinality(S) |->
                  LET n == CHOOSE x \in S : Cardinality({y \in S : ins[y][2] < ins[x][2]}) = r - 1
                  IN <<ins[n][2] + 2, 2>>]
MRelax == /\ k = 2 /\ (Layouts[cfg.lay].has => ph = "placed")
          /\ \E S \in (SUBSET Shrinkable) \ {{}} : Relax(<< <<"code", HoleSeq(S)>> >>)
          /\ UNCHANGED cfg
MFinish == /\ k = 2 /\ (Layouts[cfg.lay].has => ph \in {"placed", "relaxed"})
           /\ Finish /\ UNCHANGED cfg

Next == MMerge1 \/ MMerge2 \/ MLayout \/ MRelax \/ MFinish

\* the generator's own sanity: the final instruction table is what shrinking means
ShrunkOK == ph = "relaxed" => \A n \in 1..Len(ins) : ins[n][3] \in {2, 4} /\ ins[n][2] % 2 = 0
Shown == [rule |-> rule, ph |-> ph, cfg |-> cfg, syms |-> syms, secs |-> secs, err |-> err]
=============================================================================
