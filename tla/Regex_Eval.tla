---------------------------- MODULE Regex_Eval ----------------------------
(* Idiom E for C31: one state per recorded use of ppci.lang.tools.regex; the *)
(* invariant Conforms is the property.  Record kinds (r.kind):               *)
(*  "text"  r.re = expression text (character codes), compiled by            *)
(*          regex.compile; r.out = [ok |-> TRUE, acc |-> the strings over    *)
(*          r.sigma of length <= r.n accepted by walking the returned        *)
(*          transition table] or [ok |-> FALSE, exc |-> what went wrong].    *)
(*          The specification parses r.re itself (ParseRegex).               *)
(*  "ast"   same, but the expression was built through the combinator API    *)
(*          (Symbol, SymbolSet, +, |, Kleene, optional) from the tree r.ast. *)
(*  "scan"  regex.scan(compile(r.re), r.text): r.out = [fin, toks]           *)
(*          fin = "done" | "exc=<class>" | "overrun" | "compile:exc=<class>" *)
(*          toks = the texts yielded before that                             *)
(*  "lexer" make_scanner(r.rules).scan(r.text): toks = [n |-> name, t |-> text] *)
EXTENDS Regex, SequencesExt, Json, IOUtils, TLC
Recs == JsonDeserialize(IOEnv.TRACE_FILE)
NChunks == 64
VARIABLES chunk, i
vars == <<chunk, i>>
Init == chunk = 0 /\ i = 0
PickChunk == chunk = 0 /\ chunk' \in 1..NChunks /\ i' = 0
PickRec == chunk > 0 /\ i = 0 /\ chunk' = chunk
           /\ i' \in {k \in 1..Len(Recs) : k % NChunks = chunk - 1}
Next == PickChunk \/ PickRec

RECURSIVE FromJson(_)
FromJson(j) ==
    CASE j.op = "sym"   -> Sym(j.c)
      [] j.op = "any"   -> AnyChar
      [] j.op = "eps"   -> Eps
      [] j.op = "class" -> Cls(ToSet(j.cs))
      [] j.op = "cat"   -> Cat(FromJson(j.l), FromJson(j.r))
      [] j.op = "alt"   -> Alt(FromJson(j.l), FromJson(j.r))
      [] j.op = "star"  -> Star(FromJson(j.x))
      [] j.op = "plus"  -> Plus(FromJson(j.x))
      [] j.op = "opt"   -> Opt(FromJson(j.x))

\* ---- acceptance ----
AcceptOk(ast, r) == /\ r.out.ok
                    /\ ToSet(r.out.acc) = Language(ast, ToSet(r.sigma), r.n)

\* ---- scanning ----
RuleOf(j) == [n |-> j.n, r |-> ParseRegex(j.re).ast]
RulesOf(r) == IF r.kind = "scan" THEN OneRule(ParseRegex(r.re).ast)
              ELSE [k \in 1..Len(r.rules) |-> RuleOf(r.rules[k])]
ObservedText(r, k) == IF r.kind = "scan" THEN r.out.toks[k] ELSE r.out.toks[k].t
\* the k-th yielded token is the k-th longest-match token (and, for a lexer,
\* carries the name of a rule that matches it)
TokenOk(rules, r, T, k) ==
    /\ ObservedText(r, k) = TokText(r.text, T.toks[k])
    /\ r.kind = "lexer" =>
         \E j \in RulesMatching(rules, r.text, T.toks[k].at, T.toks[k].len) : rules[j].n = r.out.toks[k].n
ScanOk(rules, r) ==
    LET T == Tokens(rules, r.text, 0) IN
    /\ Len(r.out.toks) <= Len(T.toks)
    /\ \A k \in 1..Len(r.out.toks) : TokenOk(rules, r, T, k)
    /\ IF T.ok THEN r.out.fin = "done" /\ Len(r.out.toks) = Len(T.toks)
               ELSE r.out.fin # "done"          \* untokenisable input must not be reported as split

\* every expression text of the record is in the supported syntax, and token
\* rules do not match the empty string: otherwise the property demands nothing
TextsOf(r) == IF r.kind = "lexer" THEN {r.rules[k].re : k \in 1..Len(r.rules)} ELSE {r.re}
Defined(r) ==
    CASE r.kind = "ast"  -> TRUE
      [] r.kind = "text" -> ParseRegex(r.re).ok
      [] OTHER -> (\A t \in TextsOf(r) : ParseRegex(t).ok) /\ ScanDefined(RulesOf(r))

Allowed(r) ==
    ~Defined(r) \/
    CASE r.kind = "text" -> AcceptOk(ParseRegex(r.re).ast, r)
      [] r.kind = "ast"  -> AcceptOk(FromJson(r.ast), r)
      [] OTHER -> ScanOk(RulesOf(r), r)

Conforms == i > 0 => Allowed(Recs[i])
\* anti-vacuity: the driver only emits records it believes the property speaks
\* about (r.must = TRUE); the specification has to agree
NotVacuous == i > 0 => (Recs[i].must => Defined(Recs[i]))
=============================================================================
