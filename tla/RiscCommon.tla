----------------------------- MODULE RiscCommon -----------------------------
(* Shared vocabulary of Mips.tla, Or1k.tla and MicroBlaze.tla: three 32-bit  *)
(* fixed-width instruction sets whose formats all start with a 6-bit major   *)
(* opcode in bits 31:26 followed by 5-bit register fields in 25:21, 20:16,   *)
(* 15:11 and a 16-bit (or 26-bit / 11-bit) low part.                         *)
(*                                                                           *)
(* TLC integers are 32-bit signed, so an instruction word is kept as the     *)
(* pair <<high halfword, low halfword>>; immediates are kept in their signed *)
(* reading where the architecture sign-extends them.                         *)
EXTENDS Integers, Sequences, FiniteSets, TLC

P2(n) == 2 ^ n                                        \* n <= 30
Bits(x, lo, n) == (x \div P2(lo)) % P2(n)             \* field x<lo+n-1:lo> of a non-negative x
Bit(x, k) == (x \div P2(k)) % 2
SignExt(v, n) == IF v >= P2(n - 1) THEN v - P2(n) ELSE v     \* n-bit pattern -> signed value (n <= 30)
Pattern(v, n) == IF v < 0 THEN v + P2(n) ELSE v              \* signed value -> n-bit pattern (|v| < 2^n)
Half == 0..65535

(* ---- words and bytes ---------------------------------------------------- *)
WordBE(b) == <<256 * b[1] + b[2], 256 * b[3] + b[4]>>         \* big-endian byte string -> <<hi, lo>>
WordLE(b) == <<256 * b[4] + b[3], 256 * b[2] + b[1]>>         \* little-endian byte string -> <<hi, lo>>
BytesBE(w) == <<w[1] \div 256, w[1] % 256, w[2] \div 256, w[2] % 256>>
BytesLE(w) == <<w[2] % 256, w[2] \div 256, w[1] % 256, w[1] \div 256>>
SubBytes(b, from, n) == [k \in 1..n |-> b[from + k - 1]]

(* ---- fields of a word w = <<hi, lo>> (bit numbers: 31 = most significant) - *)
Op6(w) == Bits(w[1], 10, 6)                           \* 31:26
F25(w) == Bits(w[1], 5, 5)                            \* 25:21
F20(w) == Bits(w[1], 0, 5)                            \* 20:16
F15(w) == Bits(w[2], 11, 5)                           \* 15:11
F10(w) == Bits(w[2], 6, 5)                            \* 10:6
F5(w) == Bits(w[2], 0, 6)                             \* 5:0
Lo11(w) == Bits(w[2], 0, 11)                          \* 10:0
Lo16(w) == w[2]                                       \* 15:0
Hi10(w) == Bits(w[1], 0, 10)                          \* 25:16
\* the 26-bit field 25:0 as <<bits 25:16, bits 15:0>> joined: fits (2^26 < 2^31)
Lo26(w) == Hi10(w) * 65536 + w[2]
\* join: the inverse of the splits above
MkW(op, a, b, lo16) == <<op * 1024 + a * 32 + b, lo16>>
MkLo(c, d, f) == c * 2048 + d * 64 + f                \* 15:11, 10:6, 5:0 -> low halfword
MkJ(op, v26) == <<op * 1024 + v26 \div 65536, v26 % 65536>>

(* ---- operand tokens of a printed line: <<kind, number, text>>, kind in     *)
(*  r register   i integer   l label   ( ) parentheses   h "hi" l-word "lo"   *)
(*  x unknown glyph                                                           *)
RECURSIVE PatR(_, _)
PatR(ops, k) == IF k > Len(ops) THEN "" ELSE ops[k][1] \o PatR(ops, k + 1)
Pat(ops) == PatR(ops, 1)
Num(ops, k) == ops[k][2]
Txt(ops, k) == ops[k][3]

(* ---- operand ranges (boundary generation, idiom G) ---------------------- *)
Labelled(lo, hi, a) ==
    {lo - a, lo - 1, lo, lo + 1, lo + a, -a, -1, 0, 1, a, 2 * a, 3 * a, hi - a, hi - 1, hi, hi + 1, hi + a, 2 * hi + 2 * a,
     ((lo + hi) \div (2 * a)) * a, ((lo + hi) \div (2 * a)) * a + a, -(hi + a), -(2 * hi + 2 * a),
     (hi \div (2 * a)) * a, (hi \div (2 * a)) * a + a, (lo \div (2 * a)) * a, (lo \div (2 * a)) * a - a,
     (hi \div (4 * a)) * a, (lo \div (4 * a)) * a, (hi \div (4 * a)) * 3 * a, (lo \div (4 * a)) * 3 * a,
     85 * a, 170 * a, (hi \div (3 * a)) * a, (hi \div (3 * a)) * 2 * a,
     32764, 32767, 32768, 32772, 65532, 65535, 65536, -32768, -32769, -32772, -65536}   \* where a 16-bit half carries
Inside(lo, hi, a, v) == lo <= v /\ v <= hi /\ v % a = 0
=============================================================================
