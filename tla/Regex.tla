------------------------------- MODULE Regex -------------------------------
(* Regular expressions (property C31): ppci/lang/tools/regex.                *)
(*                                                                           *)
(*  1. abstract syntax and the denotational semantics  Matches(r, s)         *)
(*     (whole-string matching, by enumeration of the splits of s);           *)
(*  2. the concrete syntax  text -> AST  with the conventional precedence    *)
(*     (postfix * + ?  >  concatenation  >  '|'), escapes, '.', classes,     *)
(*     written as a recursive-descent parser over Seq(character code);       *)
(*     ParseRegex(t).ok = FALSE means "outside the supported syntax": the    *)
(*     property then demands nothing;                                        *)
(*  3. a printer with minimal parentheses (Show) -- used only by the         *)
(*     M-configuration to check the parser against (Parse o Show = id);      *)
(*  4. Brzozowski derivatives (Nullable, Deriv) with the smart constructors  *)
(*     of regex.py (concatenate / logical_or; the alternation is kept as a   *)
(*     *set* of alternatives, i.e. modulo associativity, commutativity and   *)
(*     idempotence, which is what makes the set of derivatives finite);      *)
(*  5. longest-match ("maximal munch") tokenisation, denotationally.         *)
(*                                                                           *)
(* Characters are codes 0..255; texts and strings are sequences of codes.    *)
EXTENDS Naturals, Sequences, FiniteSets

(* ---------------------------- abstract syntax --------------------------- *)
Null      == [op |-> "null"]                       \* the empty language
Eps       == [op |-> "eps"]                        \* { <<>> }
AnyChar   == [op |-> "any"]                        \* '.'
Sym(c)    == [op |-> "sym", c |-> c]
Cls(S)    == [op |-> "class", cs |-> S]            \* [abc], [a-c]
Cat(l, r) == [op |-> "cat", l |-> l, r |-> r]
Alt(l, r) == [op |-> "alt", l |-> l, r |-> r]
Star(x)   == [op |-> "star", x |-> x]
Plus(x)   == [op |-> "plus", x |-> x]
Opt(x)    == [op |-> "opt", x |-> x]
Or(S)     == [op |-> "or", xs |-> S]               \* n-ary alternation (derivatives only)

Seg(s, i, j) == SubSeq(s, i, j)                    \* s[i..j], empty when j < i

(* ------------------------ denotational semantics ------------------------ *)
RECURSIVE Matches(_, _)
Matches(r, s) ==
    LET n == Len(s) IN
    CASE r.op = "null"  -> FALSE
      [] r.op = "eps"   -> n = 0
      [] r.op = "any"   -> n = 1
      [] r.op = "sym"   -> n = 1 /\ s[1] = r.c
      [] r.op = "class" -> n = 1 /\ s[1] \in r.cs
      [] r.op = "cat"   -> \E k \in 0..n : Matches(r.l, Seg(s, 1, k)) /\ Matches(r.r, Seg(s, k + 1, n))
      [] r.op = "alt"   -> Matches(r.l, s) \/ Matches(r.r, s)
      [] r.op = "or"    -> \E x \in r.xs : Matches(x, s)
      [] r.op = "opt"   -> n = 0 \/ Matches(r.x, s)
      \* star: a non-empty first factor keeps the recursion well-founded
      [] r.op = "star"  -> n = 0 \/ \E k \in 1..n : Matches(r.x, Seg(s, 1, k)) /\ Matches(r, Seg(s, k + 1, n))
      [] r.op = "plus"  -> \E k \in 0..n : Matches(r.x, Seg(s, 1, k)) /\ Matches(Star(r.x), Seg(s, k + 1, n))

\* all strings over the alphabet S of length <= n
Strs(S, n) == UNION {[1..k -> S] : k \in 0..n}
Language(r, S, n) == {s \in Strs(S, n) : Matches(r, s)}

(* ---------------------------- concrete syntax --------------------------- *)
cBar == 124  cLPar == 40  cRPar == 41  cLBr == 91  cRBr == 93  cDot == 46
cStar == 42  cPlus == 43  cQuest == 63  cBsl == 92  cCaret == 94  cDash == 45
cDollar == 36  cLBrace == 123  cRBrace == 125
EOT == 256                                          \* "no character": end of text

Printable == 32..126
AlNum == (48..57) \cup (65..90) \cup (97..122)
\* characters with a meaning of their own in the reference syntax
Special == {cBar, cLPar, cRPar, cLBr, cRBr, cDot, cStar, cPlus, cQuest, cBsl, cCaret, cDollar, cLBrace, cRBrace}
Postfix == {cStar, cPlus, cQuest}
Literal(c) == c \in Printable \ Special
\* '\' + punctuation is that character; '\' + letter/digit has other meanings
\* in reference engines (\d, \n, \1 ...) and is outside the supported syntax
Escapable(c) == c \in Printable \ AlNum
\* inside [...]: these need an escape; a leading '^' (negation) is not supported
ClassSpecial == {cRBr, cLBr, cBsl, cCaret, cDash}

At(t, p) == IF p >= 1 /\ p <= Len(t) THEN t[p] ELSE EOT
Fail == [ok |-> FALSE]
Ok(a, p) == [ok |-> TRUE, ast |-> a, pos |-> p]     \* p: index of the next unread character

\* Escapes, position by position (a '\' always takes the next character with it;
\* the pair denotes that character, whatever its position):
\*   outside a class   '\' c, c printable and not a letter/digit  -> Sym(c)        (PAtom)
\*   class, single item        [ \c ]      -> the member c
\*   class, start of a range   [ \c - d ]  -> the range c..d
\*   class, end of a range     [ c - \d ]  -> the range c..d  (NOT c..'\' followed by d)
\*   class, both ends          [ \c - \d ] -> the range c..d
\* An unescaped ']' '[' '\' '^' '-' is never a class member: ']' closes, '-' after an item makes
\* a range, a leading '^' (negation) and the others are outside the supported syntax.
\* one character of a class (single item or either end of a range): [ok, c, pos]
ClassChar(t, p) ==
    LET c == At(t, p) IN
    IF c = cBsl THEN (IF Escapable(At(t, p + 1)) THEN [ok |-> TRUE, c |-> At(t, p + 1), pos |-> p + 2] ELSE Fail)
    ELSE IF c \in Printable \ ClassSpecial THEN [ok |-> TRUE, c |-> c, pos |-> p + 1]
    ELSE Fail

\* items of a class up to the closing ']'; S = characters so far, n = number of items
RECURSIVE PClass(_, _, _, _)
PClass(t, p, S, n) ==
    IF At(t, p) = cRBr THEN (IF n > 0 THEN Ok(Cls(S), p + 1) ELSE Fail)
    ELSE LET lo == ClassChar(t, p) IN
         IF ~lo.ok THEN Fail
         ELSE IF At(t, lo.pos) = cDash
              THEN LET hi == ClassChar(t, lo.pos + 1) IN
                   IF hi.ok /\ lo.c < hi.c THEN PClass(t, hi.pos, S \cup (lo.c..hi.c), n + 1) ELSE Fail
              ELSE PClass(t, lo.pos, S \cup {lo.c}, n + 1)

ApplyPostfix(m, a) == IF m = cStar THEN Star(a) ELSE IF m = cPlus THEN Plus(a) ELSE Opt(a)

RECURSIVE PAlt(_, _), PAltRest(_, _, _), PCat(_, _), PCatRest(_, _, _), PPost(_, _), PAtom(_, _)
\* atom ::= '(' alt ')' | '[' items ']' | '.' | '\' c | c
PAtom(t, p) ==
    LET c == At(t, p) IN
    IF c = cLPar THEN LET a == PAlt(t, p + 1) IN
                      IF a.ok /\ At(t, a.pos) = cRPar THEN Ok(a.ast, a.pos + 1) ELSE Fail
    ELSE IF c = cLBr THEN PClass(t, p + 1, {}, 0)
    ELSE IF c = cDot THEN Ok(AnyChar, p + 1)
    ELSE IF c = cBsl THEN (IF Escapable(At(t, p + 1)) THEN Ok(Sym(At(t, p + 1)), p + 2) ELSE Fail)
    ELSE IF Literal(c) THEN Ok(Sym(c), p + 1)
    ELSE Fail
\* post ::= atom ('*' | '+' | '?')?      (a second postfix operator -- lazy /
\* possessive / "multiple repeat" in reference engines -- is not supported)
PPost(t, p) ==
    LET a == PAtom(t, p) IN
    IF ~a.ok THEN Fail
    ELSE IF At(t, a.pos) \in Postfix
         THEN (IF At(t, a.pos + 1) \in Postfix THEN Fail
               ELSE Ok(ApplyPostfix(At(t, a.pos), a.ast), a.pos + 1))
         ELSE a
\* cat ::= post+      (left associative; ends at '|', ')' or the end of the text)
PCatRest(t, acc, p) ==
    IF At(t, p) \in {EOT, cBar, cRPar} THEN Ok(acc, p)
    ELSE LET n == PPost(t, p) IN IF n.ok THEN PCatRest(t, Cat(acc, n.ast), n.pos) ELSE Fail
PCat(t, p) == LET f == PPost(t, p) IN IF f.ok THEN PCatRest(t, f.ast, f.pos) ELSE Fail
\* alt ::= cat ('|' cat)*      (left associative, lowest precedence)
PAltRest(t, acc, p) ==
    IF At(t, p) = cBar
    THEN LET n == PCat(t, p + 1) IN IF n.ok THEN PAltRest(t, Alt(acc, n.ast), n.pos) ELSE Fail
    ELSE Ok(acc, p)
PAlt(t, p) == LET f == PCat(t, p) IN IF f.ok THEN PAltRest(t, f.ast, f.pos) ELSE Fail

\* the whole text must be consumed; the empty text denotes the empty string
ParseRegex(t) ==
    IF Len(t) = 0 THEN Ok(Eps, 1)
    ELSE LET a == PAlt(t, 1) IN IF a.ok /\ a.pos = Len(t) + 1 THEN a ELSE Fail

(* ------------------- printer with minimal parentheses ------------------- *)
\* binding strength: alt 0 < cat 1 < postfix 2 < atom 3
Prec(r) == CASE r.op \in {"alt", "or"} -> 0 [] r.op = "cat" -> 1
             [] r.op \in {"star", "plus", "opt"} -> 2 [] OTHER -> 3
PostfixChar(r) == CASE r.op = "star" -> cStar [] r.op = "plus" -> cPlus [] r.op = "opt" -> cQuest
\* Show(r, ctx): text of r where an operator of strength >= ctx is required.
\* Defined for ASTs without eps / null / or (which have no concrete syntax)
\* whose classes are non-empty sets of literal characters.
RECURSIVE Show(_, _), ShowSet(_)
ShowSet(S) == IF S = {} THEN <<>>
              ELSE LET c == CHOOSE x \in S : \A y \in S : x <= y
                   IN (IF c \in ClassSpecial THEN <<cBsl, c>> ELSE <<c>>) \o ShowSet(S \ {c})
Show(r, ctx) ==
    LET body == CASE r.op = "sym"   -> (IF Literal(r.c) THEN <<r.c>> ELSE <<cBsl, r.c>>)
                  [] r.op = "any"   -> <<cDot>>
                  [] r.op = "class" -> <<cLBr>> \o ShowSet(r.cs) \o <<cRBr>>
                  [] r.op = "cat"   -> Show(r.l, 1) \o Show(r.r, 2)
                  [] r.op = "alt"   -> Show(r.l, 0) \o <<cBar>> \o Show(r.r, 1)
                  [] OTHER          -> Show(r.x, 3) \o <<PostfixChar(r)>>
    IN IF Prec(r) < ctx THEN <<cLPar>> \o body \o <<cRPar>> ELSE body

(* ------------------------- Brzozowski derivatives ------------------------ *)
RECURSIVE Nullable(_)
Nullable(r) ==                                      \* regex.py: Regex.nullable / nu
    CASE r.op \in {"null", "any", "sym", "class"} -> FALSE
      [] r.op \in {"eps", "star", "opt"} -> TRUE
      [] r.op = "plus" -> Nullable(r.x)
      [] r.op = "cat"  -> Nullable(r.l) /\ Nullable(r.r)
      [] r.op = "alt"  -> Nullable(r.l) \/ Nullable(r.r)
      [] r.op = "or"   -> \E x \in r.xs : Nullable(x)

\* regex.py: concatenate
MkCat(l, r) == IF l = Null \/ r = Null THEN Null
               ELSE IF l = Eps THEN r ELSE IF r = Eps THEN l ELSE Cat(l, r)
\* regex.py: logical_or -- here modulo ACI: the alternatives form a set;
\* single-character alternatives are merged into one class
Alts(r) == IF r.op = "or" THEN r.xs ELSE IF r = Null THEN {} ELSE {r}
IsChars(r) == r.op \in {"sym", "class"}
CharsOf(r) == IF r.op = "sym" THEN {r.c} ELSE r.cs
MkChars(S) == IF Cardinality(S) = 1 THEN Sym(CHOOSE c \in S : TRUE) ELSE Cls(S)
MkOrSet(S) ==
    LET flat  == UNION {Alts(x) : x \in S}
        chars == {x \in flat : IsChars(x)}
        merged == IF AnyChar \in flat THEN (flat \ chars)
                  ELSE IF Cardinality(chars) > 1
                       THEN (flat \ chars) \cup {MkChars(UNION {CharsOf(x) : x \in chars})}
                       ELSE flat
    IN IF merged = {} THEN Null
       ELSE IF Cardinality(merged) = 1 THEN CHOOSE x \in merged : TRUE
       ELSE Or(merged)
MkOr(l, r) == MkOrSet({l, r})

RECURSIVE Deriv(_, _)
Deriv(r, c) ==                                      \* regex.py: <class>.derivative
    CASE r.op \in {"null", "eps"} -> Null
      [] r.op = "any"   -> Eps
      [] r.op = "sym"   -> IF c = r.c THEN Eps ELSE Null
      [] r.op = "class" -> IF c \in r.cs THEN Eps ELSE Null
      [] r.op = "cat"   -> MkOr(MkCat(Deriv(r.l, c), r.r),
                                IF Nullable(r.l) THEN Deriv(r.r, c) ELSE Null)
      [] r.op = "alt"   -> MkOr(Deriv(r.l, c), Deriv(r.r, c))
      [] r.op = "or"    -> MkOrSet({Deriv(x, c) : x \in r.xs})
      [] r.op = "star"  -> MkCat(Deriv(r.x, c), r)
      [] r.op = "plus"  -> MkCat(Deriv(r.x, c), Star(r.x))
      [] r.op = "opt"   -> Deriv(r.x, c)

RECURSIVE DerivW(_, _)
DerivW(r, s) == IF Len(s) = 0 THEN r ELSE DerivW(Deriv(r, s[1]), Tail(s))
\* acceptance by the derivative automaton: state = derivative, accepting = nullable
Accepts(r, s) == Nullable(DerivW(r, s))

(* ------------------------ longest-match tokenisation --------------------- *)
\* rules: a sequence of [n |-> name, r |-> AST]; p = number of characters consumed.
\* The token at p is the longest non-empty prefix of the rest matched by some
\* rule; if there is none the input cannot be tokenised (ok = FALSE, toks =
\* the tokens before that point).  Rules matching the empty string are
\* outside the definition (ScanDefined).
MatchLens(r, s, p) == {k \in 1..(Len(s) - p) : Matches(r, Seg(s, p + 1, p + k))}
MaxOf(S) == CHOOSE x \in S : \A y \in S : y <= x
RulesMatching(rules, s, p, k) == {j \in 1..Len(rules) : k \in MatchLens(rules[j].r, s, p)}
RECURSIVE Tokens(_, _, _)
Tokens(rules, s, p) ==
    IF p = Len(s) THEN [ok |-> TRUE, toks |-> <<>>]
    ELSE LET L == UNION {MatchLens(rules[j].r, s, p) : j \in 1..Len(rules)} IN
         IF L = {} THEN [ok |-> FALSE, toks |-> <<>>]
         ELSE LET k == MaxOf(L)
                  rest == Tokens(rules, s, p + k)
              IN [ok |-> rest.ok, toks |-> <<[at |-> p, len |-> k]>> \o rest.toks]
ScanDefined(rules) == \A j \in 1..Len(rules) : ~Nullable(rules[j].r)
OneRule(r) == <<[n |-> "tok", r |-> r]>>
TokText(s, tk) == Seg(s, tk.at + 1, tk.at + tk.len)
=============================================================================
