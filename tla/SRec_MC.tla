------------------------------ MODULE SRec_MC ------------------------------
(* Idiom M: the S-record specification model-checked on a scaled-down       *)
(* address space (S1 reaches LoMod bytes, S2 H2*LoMod, S3 H3*LoMod).  A     *)
(* behaviour picks an object (code of some length at some base address),    *)
(* writes it with the reference encoder in one of its styles (Save) and     *)
(* reads the file back record by record with the streaming reader (the Read *)
(* actions, the same the conformance check SRec_Trace takes over files      *)
(* written by ppci).  The laws are invariants of the final state.  A second *)
(* configuration (InitKat) runs the reader with the real constants over     *)
(* known-answer files.                                                      *)
EXTENDS SRec
CONSTANTS MaxLen, Chunk
VARIABLES exp, phase, lines, l, cur, rd          \* exp: expected code (0 or 1 region; more in the known-answer files)
vars == <<exp, phase, lines, l, cur, rd>>

AddrSpace == {<<h, o>> : h \in 0..(H3 - 1), o \in 0..(LoMod - 1)}
DataAt(a, n) == [k \in 1..n |-> (37 * (a[1] * LoMod + a[2] + k - 1) + 201) % 256]
Opts == {[ch |-> Chunk, hdr |-> h, cnt |-> c, wide |-> w, upper |-> ~w] :
            h \in {<<>>, <<72, 68, 82>>}, c \in BOOLEAN, w \in BOOLEAN}

Init == /\ \E a \in AddrSpace, n \in 0..MaxLen :
              /\ AddrLe(AddrPlus(a, n, LoMod), Top)
              /\ exp = ExpOf(a, DataAt(a, n))
        /\ phase = "build" /\ lines = <<>> /\ l = 0 /\ cur = NoParse /\ rd = RdInit
\* base address and code of the object (base 0 for an empty object: no address is observable)
Base == IF exp = <<>> THEN <<0, 0>> ELSE A(exp[1])
Code == IF exp = <<>> THEN <<>> ELSE exp[1].data
Save == /\ phase = "build"
        /\ \E o \in Opts : lines' = Encode(Base, Code, o)
        /\ phase' = "read" /\ cur' = Parse(lines'[1])
        /\ UNCHANGED <<exp, l, rd>>

Reading == phase = "read" /\ l < Len(lines)
Adv(nrd) == /\ rd' = nrd /\ l' = l + 1
            /\ cur' = (IF l + 2 <= Len(lines) THEN Parse(lines[l + 2]) ELSE NoParse)
            /\ UNCHANGED <<exp, phase, lines>>
ReadAfterTerm == Reading /\ rd.term /\ Adv(RdAfterTerm(rd))
ReadBad       == Reading /\ ~rd.term /\ ~WellFormed(cur) /\ Adv(RdBad(rd))
Good(T)       == Reading /\ ~rd.term /\ WellFormed(cur) /\ cur.typ \in T
ReadHeader    == Good({0}) /\ Adv(RdHeader(rd, cur))
ReadData      == Good(DataTypes) /\ Adv(RdData(rd, cur, exp))
ReadCount     == Good(CountTypes) /\ Adv(RdCount(rd, cur))
ReadTerm      == Good(TermTypes) /\ Adv(RdTerm(rd, cur))
Finish == phase = "read" /\ l = Len(lines) /\ phase' = "done" /\ UNCHANGED <<exp, lines, l, cur, rd>>
Next == Save \/ Finish \/ ReadAfterTerm \/ ReadBad \/ ReadHeader \/ ReadData \/ ReadCount \/ ReadTerm

Done == phase = "done"
P == Parsed(lines)
LawCover == IsCover(rd.cov)
LawWellFormed == Done => AllWellFormed(P) /\ TermAt(P) = Len(P)
LawAccept == Done => Accepts(rd, exp) /\ rd = RunP(P, exp)
LawRoundTrip == Done => /\ DecodedRegions(P) = exp
                        /\ DecodesExactly(P, exp)
                        /\ CountsOK(P)
\* header text never becomes memory contents, and is found in the S0 record
LawHeader == Done => /\ HeaderTexts(P) \subseteq {<<72, 68, 82>>} /\ rd.nhdr = Cardinality(HeaderTexts(P))
                     /\ rd.hdr = (IF rd.nhdr = 0 THEN <<>> ELSE <<72, 68, 82>>)
\* every address a data record denotes fits the record's address field, the
\* narrowest possible type is used unless the wide style was asked for, and
\* the termination record matches the data records
LawWidth == Done => /\ \A k \in DataLines(P) :
                          AddrLe(AddrPlus(P[k].addr, Len(P[k].data), LoMod), <<HiLimit(P[k].typ), 0>>)
                    /\ (rd.widest # 0 => rd.ttyp = TermFor(rd.widest))
                    /\ (rd.widest \in {1, 2} => ~AddrLe(AddrPlus(Base, Len(Code), LoMod), <<HiLimit(rd.widest - 1), 0>>)
                                                  \/ rd.widest = 1)
\* a changed digit (or type digit) is always detected
LawCorrupt == Done => \A k \in 1..Len(lines) : \A c \in 3..Len(lines[k]) :
                 LET d == HexDigit(lines[k][c])
                     ln == [lines[k] EXCEPT ![c] = UDigit((d + 1) % 16)]
                 IN ~WellFormed(Parse(ln))
\* the two formulations (streaming reader, declarative decoder) agree on the
\* file and on every file obtained from it by deleting or duplicating one
\* record; and deleting or duplicating a data record is never accepted
Drop(s, k) == SubSeq(s, 1, k - 1) \o SubSeq(s, k + 1, Len(s))
Dup(s, k) == SubSeq(s, 1, k) \o SubSeq(s, k, Len(s))
AgreeOn(v, must_reject) == LET acc == Accepts(RunP(v, exp), exp)
                           IN (acc <=> DeclAccepts(v, exp)) /\ (must_reject => ~acc)
LawAgree == Done => /\ AgreeOn(P, FALSE)
                    /\ \A k \in 1..Len(P) :
                          /\ AgreeOn(Drop(P, k), P[k].typ \in DataTypes)
                          /\ AgreeOn(Dup(P, k), P[k].typ \in DataTypes)

\* ---- known-answer files with the real constants (LoMod = 65536, H2 = 256,
\* H3 = 65536): the example of the format's Wikipedia article; a file using
\* S2 / S3 / S6 / S7 records, a data record across a 64 KiB boundary, one
\* ending at 2^32 and lower-case digits; a file of malformed records, a wrong
\* record count and records after the termination record.
KatWiki == <<
    \* S00F000068656C6C6F202020202000003C
    <<83,48,48,70,48,48,48,48,54,56,54,53,54,67,54,67,54,70,50,48,50,48,50,48,50,48,50,48,48,48,48,48,51,67>>,
    \* S11F00007C0802A6900100049421FFF07C6C1B787C8C23783C6000003863000026
    <<83,49,49,70,48,48,48,48,55,67,48,56,48,50,65,54,57,48,48,49,48,48,48,52,57,52,50,49,70,70,70,48,55,67,54,67,49,66,55,56,55,67,56,67,50,51,55,56,51,67,54,48,48,48,48,48,51,56,54,51,48,48,48,48,50,54>>,
    \* S11F001C4BFFFFE5398000007D83637880010014382100107C0803A64E800020E9
    <<83,49,49,70,48,48,49,67,52,66,70,70,70,70,69,53,51,57,56,48,48,48,48,48,55,68,56,51,54,51,55,56,56,48,48,49,48,48,49,52,51,56,50,49,48,48,49,48,55,67,48,56,48,51,65,54,52,69,56,48,48,48,50,48,69,57>>,
    \* S111003848656C6C6F20776F726C642E0A0042
    <<83,49,49,49,48,48,51,56,52,56,54,53,54,67,54,67,54,70,50,48,55,55,54,70,55,50,54,67,54,52,50,69,48,65,48,48,52,50>>,
    \* S5030003F9
    <<83,53,48,51,48,48,48,51,70,57>>,
    \* S9030000FC
    <<83,57,48,51,48,48,48,48,70,67>>
  >>
KatWide == <<
    \* S0050000686929
    <<83,48,48,53,48,48,48,48,54,56,54,57,50,57>>,
    \* S20800FFFE01020304F0
    <<83,50,48,56,48,48,70,70,70,69,48,49,48,50,48,51,48,52,70,48>>,
    \* S309fffffffc05060708e3
    <<83,51,48,57,102,102,102,102,102,102,102,99,48,53,48,54,48,55,48,56,101,51>>,
    \* S104001009E2
    <<83,49,48,52,48,48,49,48,48,57,69,50>>,
    \* S604000003F8
    <<83,54,48,52,48,48,48,48,48,51,70,56>>,
    \* S70512345678E6
    <<83,55,48,53,49,50,51,52,53,54,55,56,69,54>>
  >>
KatBad == <<
    \* S1060000010203F0
    <<83,49,48,54,48,48,48,48,48,49,48,50,48,51,70,48>>,
    \* S4030000FC
    <<83,52,48,51,48,48,48,48,70,67>>,
    \* S104000001
    <<83,49,48,52,48,48,48,48,48,49>>,
    \* X1030000FC
    <<88,49,48,51,48,48,48,48,70,67>>,
    \* S308FFFFFFFE010203F6
    <<83,51,48,56,70,70,70,70,70,70,70,69,48,49,48,50,48,51,70,54>>,
    \* S904000001FA
    <<83,57,48,52,48,48,48,48,48,49,70,65>>,
    \* S104000407F0
    <<83,49,48,52,48,48,48,52,48,55,70,48>>,
    \* S5030002FA
    <<83,53,48,51,48,48,48,50,70,65>>,
    \* S804000000FB
    <<83,56,48,52,48,48,48,48,48,48,70,66>>,
    \* S104000807EC
    <<83,49,48,52,48,48,48,56,48,55,69,67>>,
    \* S9030000FC
    <<83,57,48,51,48,48,48,48,70,67>>
  >>
WikiData == <<124, 8, 2, 166, 144, 1, 0, 4, 148, 33, 255, 240, 124, 108, 27, 120, 124, 140, 35, 120, 60, 96, 0, 0, 56, 99,
              0, 0, 75, 255, 255, 229, 57, 128, 0, 0, 125, 131, 99, 120, 128, 1, 0, 20, 56, 33, 0, 16, 124, 8, 3, 166,
              78, 128, 0, 32, 72, 101, 108, 108, 111, 32, 119, 111, 114, 108, 100, 46, 10, 0>>
WideRegs == <<Reg(<<0, 16>>, <<9>>), Reg(<<0, 65534>>, <<1, 2, 3, 4>>), Reg(<<65535, 65532>>, <<5, 6, 7, 8>>)>>
Kats == {[lines |-> KatWiki, exp |-> <<Reg(<<0, 0>>, WikiData)>>, accept |-> TRUE, nbad |-> 0, nafter |-> 0, ncount |-> 0],
         [lines |-> KatWiki, exp |-> <<Reg(<<0, 0>>, [WikiData EXCEPT ![70] = 1])>>, accept |-> FALSE, nbad |-> 0, nafter |-> 0, ncount |-> 0],
         [lines |-> KatWiki, exp |-> <<Reg(<<0, 0>>, WikiData \o <<0>>)>>, accept |-> FALSE, nbad |-> 0, nafter |-> 0, ncount |-> 0],
         [lines |-> KatWide, exp |-> WideRegs, accept |-> TRUE, nbad |-> 0, nafter |-> 0, ncount |-> 0],
         [lines |-> KatBad, exp |-> <<Reg(<<0, 4>>, <<7>>)>>, accept |-> FALSE, nbad |-> 6, nafter |-> 2, ncount |-> 1]}
InitKat == \E K \in Kats : /\ exp = K.exp /\ phase = "read" /\ lines = K.lines
                            /\ l = 0 /\ cur = Parse(K.lines[1]) /\ rd = RdInit
LawKat == Done => \A K \in Kats : (K.lines = lines /\ K.exp = exp) =>
              /\ Accepts(rd, exp) = K.accept /\ DeclAccepts(P, exp) = K.accept
              /\ rd.nbad = K.nbad /\ rd.nafter = K.nafter /\ rd.ncount = K.ncount /\ rd = RunP(P, exp)
LawKatWide == Done /\ lines = KatWide => rd.entry = <<4660, 22136>> /\ rd.ttyp = 7 /\ rd.nhdr = 1 /\ rd.hdr = <<104, 105>>
                                          /\ HeaderTexts(P) = {<<104, 105>>}
=============================================================================
