-------------------------- MODULE IRRoundTrip_Eval --------------------------
(* Idiom E for C15 / C16: one state per (recorded round trip, clause).  The  *)
(* records are what the real writer / reader pair did (harness/irrt.py);     *)
(* every clause of IRRoundTrip is its own invariant, evaluated in the state  *)
(* whose `cl` names it, so one TLC run (-continue) reports every clause that *)
(* fails for every module, together with `diag` = where the first difference *)
(* is.  Three-level fan-out (chunk, record, clause) so workers share.        *)
EXTENDS IRRoundTrip, Json, IOUtils
Recs == JsonDeserialize(IOEnv.TRACE_FILE)
NChunks == 64
VARIABLES chunk, i, cl, diag
vars == <<chunk, i, cl, diag>>
NoDiag == [pos |-> <<0, 0, 0>>]
Init == chunk = 0 /\ i = 0 /\ cl = 0 /\ diag = NoDiag
PickChunk == chunk = 0 /\ chunk' \in 1..NChunks /\ UNCHANGED <<i, cl, diag>>
PickRec == /\ chunk > 0 /\ i = 0
           /\ i' \in {k \in 1..Len(Recs) : k % NChunks = chunk - 1}
           /\ UNCHANGED <<chunk, cl, diag>>
PickClause == /\ i > 0 /\ cl = 0
              /\ cl' \in 1..NClauses
              /\ diag' = Diag(Clauses[cl'], Recs[i])
              /\ UNCHANGED <<chunk, i>>
Next == PickChunk \/ PickRec \/ PickClause

Judged(c) == (cl > 0 /\ Clauses[cl] = c) => Holds(c, Recs[i])

ReadBack          == Judged("ReadBack")
SameModuleName    == Judged("SameModuleName")
SameExternals     == Judged("SameExternals")
SameVariables     == Judged("SameVariables")
SameInitialValues == Judged("SameInitialValues")
SameSignatures    == Judged("SameSignatures")
SameBlocks        == Judged("SameBlocks")
SameInstructions  == Judged("SameInstructions")
SameVolatility    == Judged("SameVolatility")
SameNames         == Judged("SameNames")
NoDanglingValues  == Judged("NoDanglingValues")
SameText          == Judged("SameText")
=============================================================================
