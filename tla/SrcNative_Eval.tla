--------------------------- MODULE SrcNative_Eval ---------------------------
(* Property C04, thorough tier (idiom E): the trace of a native execution of    *)
(* ppci's x86-64 code for a C program against the observation that TLC computed  *)
(* for the same program and arguments under Src.tla, the C abstract machine       *)
(* (module Src_Run, driven by engines/c01.py).  One record per (program,          *)
(* argument vector, optimisation level x link path):                              *)
(*   src : [status, ret : word, calls : Seq([name, args]),                         *)
(*          globals : Seq([name, off, bytes])]      (scalar / element / member)    *)
(*   nat : [outcome, ret, exit, calls, globals : Seq([name, bytes])]  (whole object)*)
(* Only executions the C standard fully defines (status "ok") are judged.          *)
EXTENDS Integers, Sequences, Json, IOUtils, TLC
Recs == JsonDeserialize(IOEnv.TRACE_FILE)
NChunks == 64
VARIABLES chunk, i
vars == <<chunk, i>>
Init == chunk = 0 /\ i = 0
PickChunk == chunk = 0 /\ chunk' \in 1..NChunks /\ i' = 0
PickRec == chunk > 0 /\ i = 0 /\ chunk' = chunk
           /\ i' \in {k \in 1..Len(Recs) : k % NChunks = chunk - 1}
Next == PickChunk \/ PickRec

R == Recs[i]
Judged == i > 0 /\ R.src.status = "ok"
Ran == Judged /\ R.nat.outcome = "ok"

NatObject(n) == LET S == {j \in 1..Len(R.nat.globals) : R.nat.globals[j].name = n} IN
                IF S = {} THEN <<>> ELSE R.nat.globals[CHOOSE j \in S : TRUE].bytes
Member(n, off, len) == LET b == NatObject(n) IN
                       IF off + len <= Len(b) THEN SubSeq(b, off + 1, off + len) ELSE <<-1>>

SrcCompletes == Judged => R.nat.outcome = "ok"
SrcReturn    == Ran => R.nat.ret = R.src.ret /\ R.nat.exit = (IF R.src.ret = <<>> THEN 0 ELSE R.src.ret[1])
SrcGlobals   == Ran => \A j \in 1..Len(R.src.globals) :
                          LET g == R.src.globals[j] IN Member(g.name, g.off, Len(g.bytes)) = g.bytes
SrcCalls     == Ran => R.nat.calls = R.src.calls
=============================================================================
