---------------------------- MODULE Msp430_Eval ----------------------------
(* Idiom E for the msp430 part of C08: one state per record observed on the  *)
(* real ppci code (harness/msp430gen.py); one invariant per clause.          *)
(*                                                                           *)
(* t = "enc": one instruction instance of ppci.arch.msp430: mn, ops = the    *)
(*     text ppci printed, tokenised (label tokens carry the address the      *)
(*     harness resolved the label to); pc = address of the instruction;      *)
(*     out = [ok, exc, bytes]: what encode() (+ the instruction's own        *)
(*     relocations) / render() + encode() / the assembler and linker         *)
(*     produced                                                              *)
EXTENDS Msp430, Json, IOUtils
Recs == JsonDeserialize(IOEnv.TRACE_FILE)
ChunkLen == 16
NChunks == (Len(Recs) + ChunkLen - 1) \div ChunkLen
VARIABLES chunk, idx
vars == <<chunk, idx>>
Init == chunk = 0 /\ idx = 0
PickChunk == chunk = 0 /\ chunk' \in 1..NChunks /\ idx' = 0
PickRec == chunk > 0 /\ idx = 0 /\ chunk' = chunk
           /\ idx' \in ((chunk - 1) * ChunkLen + 1)..(IF chunk * ChunkLen < Len(Recs) THEN chunk * ChunkLen ELSE Len(Recs))
Next == PickChunk \/ PickRec

AsmOf(r) == Asm(r.mn, r.ops, r.pc)
IsEnc == idx > 0 /\ Recs[idx].t = "enc"
\* not a verdict (reported as a note): the printed line is outside the modelled assembly syntax
SyntaxKnown == (IsEnc /\ Recs[idx].mn # "invalid") => AsmOf(Recs[idx]) # NoAsm
\* not a verdict (note): the printed operand names an addressing mode the architecture does not have
\* (R2 / R3 as base or pointer select the constant generators; @PC+ is the immediate mode)
ModeExists == IsEnc => AsmOf(Recs[idx]) # NoMode
\* C08: whatever ppci accepts and emits decodes to the operation and operands it prints
\* (bytes that are no instruction, too short or too long for the printed operands are violations)
EncodingAgrees == (IsEnc /\ Recs[idx].out.ok) =>
    \E a \in {AsmOf(Recs[idx])} :
        (a # NoAsm /\ a # NoMode) => Core(Decode(Recs[idx].out.bytes)) = Core(a)
\* spec validation only (text = the reference disassembler's output; "invalid" = it rejects the bytes)
RefInvalid == (IsEnc /\ Recs[idx].mn = "invalid") => ~Valid(Decode(Recs[idx].out.bytes))
RefAgrees == (IsEnc /\ Recs[idx].mn # "invalid") =>
    \E a \in {AsmOf(Recs[idx])} : a \notin {NoAsm, NoMode} => Core(Decode(Recs[idx].out.bytes)) = Core(a)
=============================================================================
