--------------------------- MODULE C10Reloc_Eval ---------------------------
(* Idiom E for the relocation half of C10 on the targets whose field layouts  *)
(* are stated in Reloc.tla (module of C11; used read-only): x86_64, arm,      *)
(* thumb (and riscv b_imm12 / b_imm20 once more through this second model).   *)
(* One record per relocation the real linker (or Relocation.apply directly)   *)
(* was asked to resolve:                                                      *)
(*   arch, rt      target and relocation type name                            *)
(*   S, A, P       symbol address, addend, address of the patched field       *)
(*                 (8-limb words)                                             *)
(*   before, after bytes of the field before / after (after = before when     *)
(*                 the link failed)                                           *)
(*   ok            the link / apply succeeded                                 *)
(* Clauses: succeeds iff the value is representable in the field; then the    *)
(* field designates exactly S + A and no other bit of the site changed.       *)
EXTENDS Reloc, Json, IOUtils, TLC
Recs == JsonDeserialize(IOEnv.TRACE_FILE)
ChunkLen == 16
NChunks == (Len(Recs) + ChunkLen - 1) \div ChunkLen
VARIABLES chunk, i
vars == <<chunk, i>>
Init == chunk = 0 /\ i = 0
PickChunk == chunk = 0 /\ chunk' \in 1..NChunks /\ i' = 0
PickRec == chunk > 0 /\ i = 0 /\ chunk' = chunk
           /\ i' \in ((chunk - 1) * ChunkLen + 1)..(IF chunk * ChunkLen < Len(Recs) THEN chunk * ChunkLen ELSE Len(Recs))
Next == PickChunk \/ PickRec

R == Recs[i]
Known == i > 0 /\ Modelled(R.arch, R.rt)
Fits == Representable(R.arch, R.rt, R.S, R.A, R.P)
\* not a verdict: relocation type without a field model
TypeModelled == i > 0 => Modelled(Recs[i].arch, Recs[i].rt)
RelocAcceptsRepresentable == (Known /\ Fits) => R.ok
RelocRejectsUnrepresentable == (Known /\ ~Fits) => ~R.ok
RelocFieldExact == (Known /\ Fits /\ R.ok) =>
    /\ Preserved(R.arch, R.rt, R.before, R.after)
    /\ FieldOK(R.arch, R.rt, R.after, R.S, R.A, R.P)
=============================================================================
