------------------------- MODULE Determinism_Trace -------------------------
(* Idiom T for C30: TRACE_FILE = the recorded history, produced by            *)
(* engines/c30.py from fresh ppci processes, projected per key:               *)
(*   [{"key": str, "events": [[env, digest]...]}...]                          *)
(* (events of one key in the order they were observed; the property relates   *)
(* only events of the same key, so the projections are independent and the    *)
(* workers share them through a two-level fan-out).  One state per event;      *)
(* `seen' is Determinism!Record's map restricted to the key under replay.      *)
EXTENDS Determinism, Json, IOUtils

H == JsonDeserialize(IOEnv.TRACE_FILE)
NChunks == 16
VARIABLES chunk, g, l, seen
Init == chunk = 0 /\ g = 0 /\ l = 0 /\ seen = [k \in {} |-> ""]
PickChunk == chunk = 0 /\ chunk' \in 1..NChunks /\ UNCHANGED <<g, l, seen>>
PickKey == /\ chunk > 0 /\ g = 0 /\ g' \in {k \in 1..Len(H) : k % NChunks = chunk - 1}
           /\ UNCHANGED <<chunk, l, seen>>
Event(k) == [key |-> H[g].key, env |-> H[g].events[k][1], digest |-> H[g].events[k][2]]
Compile == /\ g > 0 /\ l < Len(H[g].events) /\ l' = l + 1 /\ seen' = Record(seen, Event(l + 1))
           /\ UNCHANGED <<chunk, g>>
Next == PickChunk \/ PickKey \/ Compile
\* the event just consumed agrees with the first digest seen for its key
AtMostOneDigestPerKey == (g > 0 /\ l > 0) => First(seen, H[g].key) = Event(l).digest
=============================================================================
