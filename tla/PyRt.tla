-------------------------------- MODULE PyRt --------------------------------
(* Integer-level model of the code ir2py emits for one IR instruction:        *)
(* Python's unbounded integers (TLC integers here, so only small widths),      *)
(* floor `//` and `%`, arithmetic `>>`, followed by the wrap helper            *)
(* `rt.correct(value, bits, signed)`.  This is the *design* of the lowering    *)
(* (ppci/lang/python/ir2py.py: generate_builtins, gen_binop, gen_cast,         *)
(* gen_cjump).  PyRt_MC.tla model-checks that it refines the word-level IR     *)
(* semantics of IROps.tla; the generated code itself is bound to IR.tla by     *)
(* trace validation (IRPy.tla).                                                *)
EXTENDS Integers, Rat

Pow2(k) == IF k = 0 THEN 1 ELSE 2 ^ k
\* rt.correct: reduce modulo 2^bits, re-interpret the top bit for signed types
Correct(v, bits, signed) ==
    LET base == Pow2(bits)  m == v % base IN
    IF signed /\ m >= base \div 2 THEN m - base ELSE m
ToU(v, bits) == v % Pow2(bits)

\* rt.idiv / rt.irem: C-like division built from Python's floor operators on magnitudes
IDiv(x, y) == LET v == Abs(x) \div Abs(y) IN IF (x < 0) # (y < 0) THEN -v ELSE v
IRem(x, y) == LET v == Abs(x) % Abs(y) IN IF x < 0 THEN -v ELSE v
\* what plain Python `//` and `%` would give (floor semantics) - for contrast only
FloorDiv(x, y) == IF y > 0 THEN x \div y ELSE (-x) \div (-y)
FloorMod(x, y) == x - y * FloorDiv(x, y)

IShl(x, n, bits) == x * Pow2(n % bits)
IShr(x, n, bits) == x \div Pow2(n % bits)             \* floor: arithmetic shift of a negative value
\* bitwise operators act on the infinite two's-complement expansion; modulo 2^bits that is the
\* operator on the unsigned patterns
RECURSIVE BitOp(_, _, _, _)
BitOp(op, a, b, k) ==
    IF k = 0 THEN 0
    ELSE LET x == a % 2  y == b % 2
             z == CASE op = "&" -> IF x = 1 /\ y = 1 THEN 1 ELSE 0
                    [] op = "|" -> IF x = 1 \/ y = 1 THEN 1 ELSE 0
                    [] op = "^" -> IF x # y THEN 1 ELSE 0
         IN z + 2 * BitOp(op, a \div 2, b \div 2, k - 1)
Rol(x, n, bits) == LET u == ToU(x, bits)  m == n % bits IN
                   ((u * Pow2(m)) % Pow2(bits)) + (u \div Pow2(bits - m))
Ror(x, n, bits) == Rol(x, (bits - (n % bits)) % bits, bits)

PyBinopRaw(op, a, b, bits) ==
    CASE op = "+" -> a + b
      [] op = "-" -> a - b
      [] op = "*" -> a * b
      [] op = "/" -> IDiv(a, b)
      [] op = "%" -> IRem(a, b)
      [] op \in {"&", "|", "^"} -> BitOp(op, ToU(a, bits), ToU(b, bits), bits)
      [] op = "<<" -> IShl(a, b, bits)
      [] op = ">>" -> IShr(a, b, bits)
      [] op = "rol" -> Rol(a, b, bits)
      [] op = "ror" -> Ror(a, b, bits)
\* gen_binop: the operator, then rt.correct
PyBinop(op, a, b, bits, signed) == Correct(PyBinopRaw(op, a, b, bits), bits, signed)
PyUnop(op, a, bits, signed) == Correct(IF op = "-" THEN -a ELSE -a - 1, bits, signed)
\* gen_cast between integer types: the value itself, wrapped into the target type
PyCastInt(a, bits, signed) == Correct(a, bits, signed)
\* gen_cast from a float: the fractional part is discarded, then the value is wrapped
PyCastFloat(q, bits, signed) == Correct(TruncZ(q), bits, signed)
\* gen_cjump: Python comparison of the two (canonical) integers
PyCond(c, a, b) ==
    CASE c = "==" -> a = b [] c = "!=" -> a # b [] c = "<" -> a < b
      [] c = ">" -> a > b [] c = "<=" -> a <= b [] c = ">=" -> a >= b
=============================================================================
