-------------------------------- MODULE Elf --------------------------------
(* An ELF reader written from the ELF specification (System V gABI, chapters  *)
(* 4 "Object files" and 5 "Program loading"; x86-64 psABI for the relocation  *)
(* numbers), independent of ppci's writer.                                    *)
(*                                                                            *)
(* A file is a sequence F of bytes (0..255); offsets are 0-based, so the byte *)
(* at offset p is F[p + 1].  Both classes (ELFCLASS32 / ELFCLASS64) and both  *)
(* data encodings (ELFDATA2LSB / ELFDATA2MSB) are read.                       *)
(*                                                                            *)
(* Numbers.  TLC integers are 32-bit, so a field is first read as a word of   *)
(* byte limbs, least significant first (tla/Words.tla).  Fields that denote   *)
(* positions, sizes, counts and indices are then converted with Num: values   *)
(* below 2^24 exactly, everything else becomes Cap (= 2^24), which is larger  *)
(* than every file handled here, so every "lies inside the file / the table"  *)
(* test fails for it.  Addresses, symbol values and addends stay words,       *)
(* extended to 8 limbs (W8 zero-extends, S8 sign-extends).                    *)
(*                                                                            *)
(* The reader is total: whatever the bytes are, Read(F) is defined.  A part   *)
(* that cannot be located (table outside the file, wrong entry size, ...)     *)
(* reads as empty and the corresponding well-formedness clause fails.         *)
EXTENDS Naturals, Integers, Sequences, FiniteSets, Words

Cap == 16777216                                  \* 2^24

\* ---------------------------------------------------------------- fields --
InFile(F, off, n) == off >= 0 /\ n >= 0 /\ off < Cap /\ n < Cap /\ off + n <= Len(F)
\* n bytes at offset off as little-endian limbs, whatever the file's data encoding
Raw(F, off, n, be) == Mk([k \in 1..n |-> IF be THEN F[off + n + 1 - k] ELSE F[off + k]])
Limb(w, k) == IF k <= Len(w) THEN w[k] ELSE 0
W8(w) == Mk([k \in 1..8 |-> Limb(w, k)])
S8(w) == LET f == IF w[Len(w)] >= 128 THEN 255 ELSE 0
         IN Mk([k \in 1..8 |-> IF k <= Len(w) THEN w[k] ELSE f])
Num(w) == IF \A k \in 1..Len(w) : k > 3 => w[k] = 0
          THEN Limb(w, 1) + 256 * Limb(w, 2) + 65536 * Limb(w, 3) ELSE Cap
N8(n) == WFromNat(n, 8)                          \* small natural as an 8-limb word
IsPow2(n) == n \in {1, 2, 4, 8, 16, 32, 64, 128, 256, 512, 1024, 2048, 4096, 8192, 16384, 32768,
                    65536, 131072, 262144, 524288, 1048576, 2097152, 4194304, 8388608}
\* w mod n for a word w and a power of two n <= 2^23
ModPow2(w, n) == (Limb(w, 1) + 256 * Limb(w, 2) + 65536 * Limb(w, 3)) % n

\* ------------------------------------------------------------- constants --
ELFCLASS32 == 1   ELFCLASS64 == 2
ELFDATA2LSB == 1  ELFDATA2MSB == 2
ET_REL == 1  ET_EXEC == 2  ET_DYN == 3
SHT_NULL == 0  SHT_PROGBITS == 1  SHT_SYMTAB == 2  SHT_STRTAB == 3  SHT_RELA == 4
SHT_NOBITS == 8  SHT_REL == 9
SHN_UNDEF == 0  SHN_LORESERVE == 65280  SHN_ABS == 65521  SHN_COMMON == 65522
STB_LOCAL == 0  STB_GLOBAL == 1  STB_WEAK == 2
STT_NOTYPE == 0  STT_OBJECT == 1  STT_FUNC == 2  STT_SECTION == 3  STT_FILE == 4
PT_LOAD == 1
EM_ARM == 40  EM_X86_64 == 62  EM_XTENSA == 94  EM_MICROBLAZE == 189  EM_RISCV == 243

EhdrSize(c64) == IF c64 THEN 64 ELSE 52
ShdrSize(c64) == IF c64 THEN 64 ELSE 40
PhdrSize(c64) == IF c64 THEN 56 ELSE 32
SymSize(c64)  == IF c64 THEN 24 ELSE 16
RelaSize(c64) == IF c64 THEN 24 ELSE 12

\* ---------------------------------------------------------------- header --
\* e_ident: magic 0..3, EI_CLASS 4, EI_DATA 5, EI_VERSION 6, EI_OSABI 7, EI_ABIVERSION 8, pad 9..15
NoHeader == [ok |-> FALSE, c64 |-> FALSE, be |-> FALSE, magic |-> <<>>, eiversion |-> 0, osabi |-> 0,
             abiversion |-> 0,
             type |-> 0, machine |-> 0, version |-> 0, entry |-> WZero(8), phoff |-> 0, shoff |-> 0,
             flags |-> WZero(4), ehsize |-> 0, phentsize |-> 0, phnum |-> 0, shentsize |-> 0,
             shnum |-> 0, shstrndx |-> 0]

Header(F) ==
    IF Len(F) < 16 \/ Len(F) >= Cap THEN NoHeader
    ELSE LET c64 == F[5] = ELFCLASS64
             be  == F[6] = ELFDATA2MSB
             \* field at offset o32 (class 32) / o64 (class 64), n32 / n64 bytes
             f(o32, n32, o64, n64) == IF c64 THEN Raw(F, o64, n64, be) ELSE Raw(F, o32, n32, be)
         IN IF F[5] \notin {ELFCLASS32, ELFCLASS64} \/ F[6] \notin {ELFDATA2LSB, ELFDATA2MSB}
               \/ Len(F) < EhdrSize(c64)
            THEN [NoHeader EXCEPT !.magic = SubSeq(F, 1, 4)]
            ELSE [ok |-> TRUE, c64 |-> c64, be |-> be, magic |-> SubSeq(F, 1, 4), eiversion |-> F[7],
                  osabi |-> F[8], abiversion |-> F[9],
                  type      |-> Num(f(16, 2, 16, 2)),
                  machine   |-> Num(f(18, 2, 18, 2)),
                  version   |-> Num(f(20, 4, 20, 4)),
                  entry     |-> W8(f(24, 4, 24, 8)),
                  phoff     |-> Num(f(28, 4, 32, 8)),
                  shoff     |-> Num(f(32, 4, 40, 8)),
                  flags     |-> f(36, 4, 48, 4),
                  ehsize    |-> Num(f(40, 2, 52, 2)),
                  phentsize |-> Num(f(42, 2, 54, 2)),
                  phnum     |-> Num(f(44, 2, 56, 2)),
                  shentsize |-> Num(f(46, 2, 58, 2)),
                  shnum     |-> Num(f(48, 2, 60, 2)),
                  shstrndx  |-> Num(f(50, 2, 62, 2))]

\* ------------------------------------------------------- section headers --
\* Elf32_Shdr: name 0, type 4, flags 8, addr 12, offset 16, size 20, link 24, info 28, addralign 32,
\*             entsize 36 (4 bytes each).  Elf64_Shdr: name 0/4, type 4/4, flags 8/8, addr 16/8,
\*             offset 24/8, size 32/8, link 40/4, info 44/4, addralign 48/8, entsize 56/8.
ShdrAt(F, p, H) ==
    LET f(o32, n32, o64, n64) == IF H.c64 THEN Raw(F, p + o64, n64, H.be) ELSE Raw(F, p + o32, n32, H.be)
        type == Num(f(4, 4, 4, 4))
        off  == Num(f(16, 4, 24, 8))
        size == Num(f(20, 4, 32, 8))
    IN [name |-> Num(f(0, 4, 0, 4)), type |-> type, flags |-> W8(f(8, 4, 8, 8)),
        addr |-> W8(f(12, 4, 16, 8)), off |-> off, size |-> size,
        link |-> Num(f(24, 4, 40, 4)), info |-> Num(f(28, 4, 44, 4)),
        align |-> Num(f(32, 4, 48, 8)), entsize |-> Num(f(36, 4, 56, 8)),
        \* the bytes the section holds in the file (none for SHT_NOBITS / SHT_NULL)
        infile |-> type \notin {SHT_NULL, SHT_NOBITS} /\ InFile(F, off, size),
        data |-> IF type \notin {SHT_NULL, SHT_NOBITS} /\ InFile(F, off, size)
                 THEN SubSeq(F, off + 1, off + size) ELSE <<>>]

ShTableOk(F, H) == H.ok /\ H.shnum > 0 /\ H.shentsize = ShdrSize(H.c64)
                   /\ InFile(F, H.shoff, H.shnum * ShdrSize(H.c64))
\* S[k + 1] is section k
Shdrs(F, H) == IF ShTableOk(F, H)
               THEN Mk([k \in 1..H.shnum |-> ShdrAt(F, H.shoff + (k - 1) * ShdrSize(H.c64), H)])
               ELSE <<>>
IsSecIdx(S, n) == n >= 0 /\ n < Len(S)
Sec(S, n) == S[n + 1]

\* --------------------------------------------------------------- strings --
\* the NUL-terminated string at offset off of a string table held by section header t
RECURSIVE ScanNul(_, _, _)
ScanNul(D, p, end) == IF p > end THEN 0 ELSE IF D[p] = 0 THEN p ELSE ScanNul(D, p + 1, end)
NoStr == [ok |-> FALSE, s |-> <<>>]
StrAt(t, off) ==
    IF ~t.infile \/ t.type # SHT_STRTAB \/ off >= Len(t.data) THEN NoStr
    ELSE LET e == ScanNul(t.data, off + 1, Len(t.data))
         IN IF e = 0 THEN NoStr ELSE [ok |-> TRUE, s |-> SubSeq(t.data, off + 1, e - 1)]
StrFrom(S, tab, off) == IF IsSecIdx(S, tab) THEN StrAt(Sec(S, tab), off) ELSE NoStr

\* --------------------------------------------------------------- symbols --
\* Elf32_Sym: name 0/4, value 4/4, size 8/4, info 12/1, other 13/1, shndx 14/2
\* Elf64_Sym: name 0/4, info 4/1, other 5/1, shndx 6/2, value 8/8, size 16/8
SymAt(D, p, H, S, strtab) ==
    LET f(o32, n32, o64, n64) == IF H.c64 THEN Raw(D, p + o64, n64, H.be) ELSE Raw(D, p + o32, n32, H.be)
        info == Num(f(12, 1, 4, 1))
        nm == Num(f(0, 4, 0, 4))
    IN [nameoff |-> nm, name |-> StrFrom(S, strtab, nm),
        value |-> W8(f(4, 4, 8, 8)), size |-> W8(f(8, 4, 16, 8)),
        bind |-> info \div 16, typ |-> info % 16, other |-> Num(f(13, 1, 5, 1)),
        shndx |-> Num(f(14, 2, 6, 2))]

SymTabOk(t, H) == t.type = SHT_SYMTAB /\ t.infile /\ t.entsize = SymSize(H.c64)
                  /\ t.size % SymSize(H.c64) = 0
SymsOf(t, H, S) == IF SymTabOk(t, H)
                   THEN Mk([k \in 1..(t.size \div SymSize(H.c64)) |->
                              SymAt(t.data, (k - 1) * SymSize(H.c64), H, S, t.link)])
                   ELSE <<>>
SymTabs(S) == {n \in 0..(Len(S) - 1) : Sec(S, n).type = SHT_SYMTAB}
TheSymTab(S) == IF SymTabs(S) = {} THEN 0 ELSE CHOOSE n \in SymTabs(S) : \A m \in SymTabs(S) : n <= m

\* ----------------------------------------------------------- relocations --
\* Elf32_Rela: offset 0/4, info 4/4 (sym = info >> 8, type = info & 0xff), addend 8/4 signed
\* Elf64_Rela: offset 0/8, info 8/8 (sym = info >> 32, type = info & 0xffffffff), addend 16/8 signed
RelaAt(D, p, H, tab, target) ==
    LET f(o32, n32, o64, n64) == IF H.c64 THEN Raw(D, p + o64, n64, H.be) ELSE Raw(D, p + o32, n32, H.be)
        info == f(4, 4, 8, 8)
    IN [tab |-> tab, target |-> target, off |-> W8(f(0, 4, 0, 8)),
        rtype |-> IF H.c64 THEN Num(SubSeq(info, 1, 4)) ELSE info[1],
        sym   |-> IF H.c64 THEN Num(SubSeq(info, 5, 8)) ELSE Num(SubSeq(info, 2, 4)),
        add   |-> S8(f(8, 4, 16, 8))]
RelaTabOk(t, H) == t.type = SHT_RELA /\ t.infile /\ t.entsize = RelaSize(H.c64)
                   /\ t.size % RelaSize(H.c64) = 0
RelasOf(n, t, H) == IF RelaTabOk(t, H)
                    THEN Mk([k \in 1..(t.size \div RelaSize(H.c64)) |->
                               RelaAt(t.data, (k - 1) * RelaSize(H.c64), H, n, t.info)])
                    ELSE <<>>
RECURSIVE AllRelas(_, _, _)
AllRelas(S, H, n) == IF n >= Len(S) THEN <<>>
                     ELSE (IF Sec(S, n).type = SHT_RELA THEN RelasOf(n, Sec(S, n), H) ELSE <<>>)
                          \o AllRelas(S, H, n + 1)

\* ------------------------------------------------------- program headers --
\* Elf32_Phdr: type 0, offset 4, vaddr 8, paddr 12, filesz 16, memsz 20, flags 24, align 28
\* Elf64_Phdr: type 0/4, flags 4/4, offset 8/8, vaddr 16/8, paddr 24/8, filesz 32/8, memsz 40/8, align 48/8
PhdrAt(F, p, H) ==
    LET f(o32, n32, o64, n64) == IF H.c64 THEN Raw(F, p + o64, n64, H.be) ELSE Raw(F, p + o32, n32, H.be)
    IN [type |-> Num(f(0, 4, 0, 4)), off |-> Num(f(4, 4, 8, 8)), offw |-> W8(f(4, 4, 8, 8)),
        vaddr |-> W8(f(8, 4, 16, 8)), paddr |-> W8(f(12, 4, 24, 8)),
        filesz |-> Num(f(16, 4, 32, 8)), memsz |-> W8(f(20, 4, 40, 8)),
        flags |-> Num(f(24, 4, 4, 4)), align |-> Num(f(28, 4, 48, 8))]
PhTableOk(F, H) == H.ok /\ (H.phnum = 0 \/ (H.phentsize = PhdrSize(H.c64)
                                           /\ InFile(F, H.phoff, H.phnum * PhdrSize(H.c64))))
Phdrs(F, H) == IF PhTableOk(F, H) /\ H.phnum > 0
               THEN Mk([k \in 1..H.phnum |-> PhdrAt(F, H.phoff + (k - 1) * PhdrSize(H.c64), H)])
               ELSE <<>>

\* ------------------------------------------------------------------ view --
\* everything an ELF consumer sees
Read(F) ==
    LET H == Header(F)
        S0 == Shdrs(F, H)
        st == TheSymTab(S0)
    IN [h |-> H,
        secs |-> Mk([k \in 1..Len(S0) |->
                      [name |-> StrFrom(S0, H.shstrndx, S0[k].name), nameoff |-> S0[k].name, type |-> S0[k].type,
                       flags |-> S0[k].flags, addr |-> S0[k].addr, off |-> S0[k].off, size |-> S0[k].size,
                       link |-> S0[k].link, info |-> S0[k].info, align |-> S0[k].align,
                       entsize |-> S0[k].entsize, infile |-> S0[k].infile, data |-> S0[k].data]]),
        symtab |-> st,
        syms |-> IF st = 0 THEN <<>> ELSE SymsOf(Sec(S0, st), H, S0),
        relas |-> AllRelas(S0, H, 0),
        segs |-> Phdrs(F, H)]

\* ------------------------------------------------------- well-formedness --
\* Each clause is one requirement of the specification on a file that a reader may rely on.
\* WF(F, V) is the set of names of the clauses that FAIL for the file F with view V = Read(F).
AllZero(D) == \A k \in 1..Len(D) : D[k] = 0
SecInFile(s) == s.type \in {SHT_NULL, SHT_NOBITS} \/ s.infile
\* file extent [a, b) of a section that occupies bytes
Occupies(s) == s.type \notin {SHT_NULL, SHT_NOBITS} /\ s.infile /\ s.size > 0
Disjoint(a1, n1, a2, n2) == a1 + n1 <= a2 \/ a2 + n2 <= a1

WFClauses(F, V) ==
    LET H == V.h
        S == V.secs
        nsec == Len(S)
        nsym == Len(V.syms)
        c64 == H.c64
        secset == 0..(nsec - 1)
        sec(n) == S[n + 1]
        stab == IF V.symtab > 0 THEN sec(V.symtab) ELSE sec(0)
    IN
    [ Magic        |-> H.magic = <<127, 69, 76, 70>>,
      Ident        |-> H.ok,                                 \* class, data encoding, header present
      IdentVersion |-> H.ok => H.eiversion = 1,
      Version      |-> H.ok => H.version = 1,
      EhSize       |-> H.ok => H.ehsize = EhdrSize(c64),
      PhTable      |-> H.ok => PhTableOk(F, H),
      PhOutsideHdr |-> (H.ok /\ H.phnum > 0) => H.phoff >= EhdrSize(c64),
      ShTable      |-> H.ok => (H.shnum = 0 /\ H.shoff = 0) \/ (ShTableOk(F, H) /\ H.shoff >= EhdrSize(c64)),
      ShNull       |-> nsec > 0 => (sec(0).type = SHT_NULL /\ sec(0).nameoff = 0 /\ WIsZero(sec(0).addr)
                                    /\ sec(0).off = 0 /\ sec(0).size = 0 /\ sec(0).link = 0
                                    /\ sec(0).info = 0 /\ sec(0).align = 0 /\ sec(0).entsize = 0
                                    /\ WIsZero(sec(0).flags)),
      ShStrNdx     |-> nsec > 0 => (H.shstrndx = SHN_UNDEF /\ \A n \in secset : sec(n).nameoff = 0)
                                   \/ (H.shstrndx > 0 /\ H.shstrndx < nsec
                                       /\ sec(H.shstrndx).type = SHT_STRTAB),
      SecInFile    |-> \A n \in secset : SecInFile(sec(n)),
      SecNames     |-> \A n \in secset : H.shstrndx # SHN_UNDEF => sec(n).name.ok,
      StrTabs      |-> \A n \in secset : (sec(n).type = SHT_STRTAB /\ sec(n).infile /\ sec(n).size > 0)
                           => sec(n).data[1] = 0 /\ sec(n).data[sec(n).size] = 0,
      SecAlign     |-> \A n \in secset : sec(n).align \in {0, 1}
                           \/ (IsPow2(sec(n).align) /\ ModPow2(sec(n).addr, sec(n).align) = 0),
      NoOverlap    |-> \A n, m \in secset : (n < m /\ Occupies(sec(n)) /\ Occupies(sec(m)))
                           => Disjoint(sec(n).off, sec(n).size, sec(m).off, sec(m).size),
      SecVsTables  |-> \A n \in secset : Occupies(sec(n)) =>
                           /\ sec(n).off >= EhdrSize(c64)
                           /\ Disjoint(sec(n).off, sec(n).size, H.shoff, H.shnum * ShdrSize(c64))
                           /\ (H.phnum > 0 => Disjoint(sec(n).off, sec(n).size, H.phoff, H.phnum * PhdrSize(c64))),
      OneSymTab    |-> Cardinality(SymTabs(S)) <= 1,
      SymTab       |-> V.symtab > 0 =>
                           /\ SymTabOk(stab, H)
                           /\ IsSecIdx(S, stab.link) /\ sec(stab.link).type = SHT_STRTAB
                           /\ nsym >= 1,
      SymNull      |-> nsym >= 1 => (V.syms[1].nameoff = 0 /\ WIsZero(V.syms[1].value) /\ WIsZero(V.syms[1].size)
                                     /\ V.syms[1].bind = 0 /\ V.syms[1].typ = 0 /\ V.syms[1].other = 0
                                     /\ V.syms[1].shndx = SHN_UNDEF),
      \* sh_info of a symbol table = one greater than the index of the last local symbol;
      \* all local symbols precede the others
      SymLocals    |-> V.symtab > 0 => /\ stab.info <= nsym
                                       /\ \A k \in 1..nsym : (k <= stab.info) <=> (V.syms[k].bind = STB_LOCAL),
      SymNames     |-> \A k \in 1..nsym : V.syms[k].name.ok,
      SymShndx     |-> \A k \in 1..nsym : V.syms[k].shndx < nsec \/ V.syms[k].shndx >= SHN_LORESERVE,
      SymBindType  |-> \A k \in 1..nsym : V.syms[k].bind \in {STB_LOCAL, STB_GLOBAL, STB_WEAK}
                                          /\ V.syms[k].typ \in 0..6,
      RelaTabs     |-> \A n \in secset : sec(n).type = SHT_RELA =>
                           /\ RelaTabOk(sec(n), H)
                           /\ V.symtab > 0 /\ sec(n).link = V.symtab
                           /\ (H.type = ET_REL => (sec(n).info > 0 /\ sec(n).info < nsec
                                                   /\ sec(sec(n).info).type \in {SHT_PROGBITS, SHT_NOBITS})),
      RelaSyms     |-> \A k \in 1..Len(V.relas) : V.relas[k].sym < nsym,
      \* in a relocatable file r_offset is a byte offset inside the section the table applies to
      RelaOffsets  |-> H.type = ET_REL => \A k \in 1..Len(V.relas) :
                           LET r == V.relas[k] IN
                           (r.target > 0 /\ r.target < nsec) => Num(r.off) < sec(r.target).size,
      SegInFile    |-> \A k \in 1..Len(V.segs) : InFile(F, V.segs[k].off, V.segs[k].filesz),
      SegSizes     |-> \A k \in 1..Len(V.segs) : ~WLtU(V.segs[k].memsz, N8(V.segs[k].filesz)),
      \* p_align: 0 and 1 mean no alignment, otherwise a power of two with p_vaddr = p_offset mod p_align
      SegCongruent |-> \A k \in 1..Len(V.segs) : V.segs[k].type = PT_LOAD =>
                           (V.segs[k].align \in {0, 1}
                            \/ (IsPow2(V.segs[k].align)
                                /\ ModPow2(V.segs[k].vaddr, V.segs[k].align) = ModPow2(V.segs[k].offw, V.segs[k].align))),
      SegVsTables  |-> \A k \in 1..Len(V.segs) : (V.segs[k].type = PT_LOAD /\ V.segs[k].filesz > 0 /\ nsec > 0) =>
                           Disjoint(V.segs[k].off, V.segs[k].filesz, H.shoff, H.shnum * ShdrSize(c64))
    ]
WFNames == {"Magic", "Ident", "IdentVersion", "Version", "EhSize", "PhTable", "PhOutsideHdr", "ShTable",
            "ShNull", "ShStrNdx", "SecInFile", "SecNames", "StrTabs", "SecAlign", "NoOverlap", "SecVsTables",
            "OneSymTab", "SymTab", "SymNull", "SymLocals", "SymNames", "SymShndx", "SymBindType", "RelaTabs",
            "RelaSyms", "RelaOffsets", "SegInFile", "SegSizes", "SegCongruent", "SegVsTables"}
WF(F, V) == LET c == WFClauses(F, V) IN {n \in WFNames : ~c[n]}

\* --------------------------------------------- what the readers must see --
\* The object is given by data attributes (harness/project_obj.py, wide integers = 8 limbs):
\*   O.sections[k] = [name, address.b, data], O.symbols[k] = [id, name, binding, def, value.b, sec, hassec,
\*   typ, size], O.relocations[k] = [type, sym, sec, off, add.b], O.images[k] = [address.b, secs],
\*   O.entry (symbol id or -1).  Names are sequences of character codes.

ContentSecs(V) == {n \in 0..(Len(V.secs) - 1) : V.secs[n + 1].type \in {SHT_PROGBITS, SHT_NOBITS}}
OSecIdx(O, nm) == {k \in 1..Len(O.sections) : O.sections[k].name = nm}
OSec(O, nm) == O.sections[CHOOSE k \in OSecIdx(O, nm) : TRUE]
OSymIdx(O, id) == {k \in 1..Len(O.symbols) : O.symbols[k].id = id}
OSym(O, id) == O.symbols[CHOOSE k \in OSymIdx(O, id) : TRUE]

\* every section of the object is seen once with its name, address, size and bytes; nothing else is
SectionsSeen(V, O) ==
    /\ Cardinality(ContentSecs(V)) = Len(O.sections)
    /\ \A k \in 1..Len(O.sections) : \E n \in ContentSecs(V) :
          LET s == V.secs[n + 1]  o == O.sections[k] IN
          /\ s.name.ok /\ s.name.s = o.name
          /\ s.type = SHT_PROGBITS
          /\ s.addr = o.address.b
          /\ s.size = Len(o.data) /\ s.data = o.data

\* symbol descriptors: <<name, binding, type, kind of section index, section name, value, size>>
BindCode(b) == IF b = "global" THEN STB_GLOBAL ELSE IF b = "local" THEN STB_LOCAL ELSE 99
TypeCode(t) == IF t = "func" THEN STT_FUNC ELSE IF t = "object" THEN STT_OBJECT ELSE STT_NOTYPE
\* st_value: relocatable file = offset from the beginning of the section; executable = virtual address
ODesc(O, y, etype) ==
    IF ~y.def THEN <<y.name, BindCode(y.binding), TypeCode(y.typ), "und", <<>>, WZero(8), N8(y.size)>>
    ELSE IF ~y.hassec THEN <<y.name, BindCode(y.binding), TypeCode(y.typ), "abs", <<>>, y.value.b, N8(y.size)>>
    ELSE IF OSecIdx(O, y.sec) = {} THEN <<y.name, 99, 99, "nosuchsection", <<>>, WZero(8), WZero(8)>>
    ELSE <<y.name, BindCode(y.binding), TypeCode(y.typ), "sec", y.sec,
           IF etype = ET_REL THEN y.value.b ELSE WAdd(y.value.b, OSec(O, y.sec).address.b), N8(y.size)>>
VDesc(V, y) ==
    LET kind == IF y.shndx = SHN_UNDEF THEN "und" ELSE IF y.shndx = SHN_ABS THEN "abs"
                ELSE IF y.shndx < Len(V.secs) THEN "sec" ELSE "other"
    IN <<y.name.s, y.bind, y.typ, kind,
         IF kind = "sec" THEN V.secs[y.shndx + 1].name.s ELSE <<>>, y.value, y.size>>
Count(A, x) == Cardinality({k \in 1..Len(A) : A[k] = x})
SameBag(A, B) == Len(A) = Len(B) /\ \A k \in 1..Len(A) : Count(A, A[k]) = Count(B, A[k])

SymbolsSeen(V, O, etype) ==
    LET A == Mk([k \in 1..Len(O.symbols) |-> ODesc(O, O.symbols[k], etype)])
        B == Mk([k \in 1..(Len(V.syms) - 1) |-> VDesc(V, V.syms[k + 1])])
    IN Len(V.syms) >= 1 /\ SameBag(A, B)

\* ELF relocation numbers that express a ppci relocation (x86-64 psABI table 4.9):
\*   R_X86_64_64 = 1 (S + A, 64 bit), R_X86_64_PC32 = 2 (S + A - P, 32 bit), R_X86_64_PLT32 = 4 (L + A - P,
\*   equal to PC32 for a function resolved at static link time), R_X86_64_32 = 10 (S + A zero-extended),
\*   R_X86_64_32S = 11 (S + A sign-extended), R_X86_64_PC8 = 15.
RelTypes(arch, t, isfunc) ==
    IF arch = "x86_64" THEN
        IF t = "rel32" THEN (IF isfunc THEN {2, 4} ELSE {2})
        ELSE IF t \in {"abs64", "absaddr64"} THEN {1}
        ELSE IF t = "abs32" THEN {10, 11}
        ELSE IF t = "rel8" THEN {15}
        ELSE {}
    ELSE {}

RelocationsSeen(V, O, arch) ==
    LET orel(k) == O.relocations[k]
        osym(k) == OSym(O, orel(k).sym)
        okey(k) == <<orel(k).sec, N8(orel(k).off), ODesc(O, osym(k), ET_REL), orel(k).add.b,
                     RelTypes(arch, orel(k).type, osym(k).typ = "func")>>
        vmatch(j, k) ==
            LET r == V.relas[j] IN
            /\ r.target > 0 /\ r.target < Len(V.secs) /\ V.secs[r.target + 1].name.s = orel(k).sec
            /\ r.off = N8(orel(k).off)
            /\ r.sym > 0 /\ r.sym < Len(V.syms) /\ VDesc(V, V.syms[r.sym + 1]) = ODesc(O, osym(k), ET_REL)
            /\ r.add = orel(k).add.b
            /\ r.rtype \in RelTypes(arch, orel(k).type, osym(k).typ = "func")
    IN /\ Len(V.relas) = Len(O.relocations)
       /\ \A k \in 1..Len(O.relocations) :
            /\ OSymIdx(O, orel(k).sym) # {}
            /\ Cardinality({j \in 1..Len(V.relas) : vmatch(j, k)})
                 = Cardinality({k2 \in 1..Len(O.relocations) : OSymIdx(O, orel(k2).sym) # {} /\ okey(k2) = okey(k)})

\* the entry point of an executable is the address of the object's entry symbol
EntrySeen(V, O) ==
    O.entry # -1 =>
        /\ OSymIdx(O, O.entry) # {}
        /\ LET y == OSym(O, O.entry) IN
           y.def /\ V.h.entry = (IF y.hassec /\ OSecIdx(O, y.sec) # {}
                                 THEN WAdd(y.value.b, OSec(O, y.sec).address.b) ELSE y.value.b)

\* one PT_LOAD segment per image, at the image's address; at the address of every byte of every section
\* of the image the segment holds that byte
LoadSegs(V) == {k \in 1..Len(V.segs) : V.segs[k].type = PT_LOAD}
SegmentsHold(F, V, O) ==
    /\ Cardinality(LoadSegs(V)) = Len(O.images)
    /\ \A m \in 1..Len(O.images) :
         LET img == O.images[m]
             cands == {k \in LoadSegs(V) : V.segs[k].vaddr = img.address.b}
         IN /\ Cardinality(cands) = 1
            /\ LET g == V.segs[CHOOSE k \in cands : TRUE] IN
               /\ InFile(F, g.off, g.filesz)
               /\ \A q \in 1..Len(img.secs) :
                    /\ OSecIdx(O, img.secs[q]) # {}
                    /\ LET s == OSec(O, img.secs[q])
                           d == Num(WSub(s.address.b, img.address.b))       \* offset inside the image
                       IN /\ d + Len(s.data) <= g.filesz
                          /\ SubSeq(F, g.off + d + 1, g.off + d + Len(s.data)) = s.data

\* class, data encoding and machine number of each architecture (EM_* of the gABI registry)
MachineOf(arch) ==
    IF arch = "x86_64" THEN [c64 |-> TRUE, be |-> FALSE, em |-> EM_X86_64]
    ELSE IF arch = "arm" THEN [c64 |-> FALSE, be |-> FALSE, em |-> EM_ARM]
    ELSE IF arch = "riscv" THEN [c64 |-> FALSE, be |-> FALSE, em |-> EM_RISCV]
    ELSE IF arch = "xtensa" THEN [c64 |-> FALSE, be |-> FALSE, em |-> EM_XTENSA]
    ELSE IF arch = "microblaze" THEN [c64 |-> FALSE, be |-> TRUE, em |-> EM_MICROBLAZE]
    ELSE [c64 |-> FALSE, be |-> FALSE, em |-> 0]
KindSeen(V, arch, etype) ==
    LET m == MachineOf(arch) IN
    V.h.ok /\ V.h.c64 = m.c64 /\ V.h.be = m.be /\ V.h.machine = m.em /\ V.h.type = etype
=============================================================================
