------------------------------- MODULE WS_MC -------------------------------
(* Idiom M for extension property X02 (Whitespace half): WS.tla model-checked *)
(* by itself.  TLC enumerates *every* token sequence of length <= MaxTok over *)
(* {S, T, L}, parses it, and runs every well-formed one; in addition the      *)
(* micro programs of TRACE_FILE ([toks, inp, fuel, status, text]) are run.    *)
(*   PrefixFree / FloorLaws / NumLaws (ASSUME)  the instruction table is      *)
(*               prefix-free; floor division laws; NumVal against a least-    *)
(*               significant-digit-first evaluation                           *)
(*   ParseLaws   a parsed program unparses to exactly the token sequence; a   *)
(*               malformed one fails at a position whose prefix unparses to   *)
(*               the tokens before it, and no instruction can be read there   *)
(*   Deterministic   exactly one action enabled in every running state       *)
(*   StackLaw / FlowLaw / IoLaw  (action properties) effect of the actions    *)
(*   ExpectMet   hand-derived outcomes of the micro programs                  *)
EXTENDS WS, TLC, Json, IOUtils
CONSTANTS MaxTok, Fuel
Micro == JsonDeserialize(IOEnv.TRACE_FILE)
VARIABLES t, k, first,
          acts, emitted      \* names of the actions the behaviour took; written to <OBS_DIR>/acts_<k>.json at the end of micro program k
TokSeq(n) == [1..n -> Tokens]
Tails == UNION {TokSeq(n) : n \in 0..(MaxTok - 1)}
Loaded == w # Idle

IsPrefix(a, b) == Len(a) <= Len(b) /\ \A j \in 1..Len(a) : a[j] = b[j]
RECURSIVE Lsf(_, _, _)
Lsf(b, n, p) == IF n <= 1 THEN 0 ELSE b[n] * p + Lsf(b, n - 1, 2 * p)      \* least significant digit first
ASSUME PrefixFree ==
    /\ \A a, b \in 1..Len(Table) : a # b => ~IsPrefix(Table[a].pre, Table[b].pre)
    /\ Cardinality(Ops) = Len(Table)
ASSUME FloorLaws ==
    /\ \A x \in -20..20 : \A y \in (-7..7) \ {0} :
          /\ x = y * FDiv(x, y) + FMod(x, y)
          /\ (y > 0 => FMod(x, y) \in 0..(y - 1)) /\ (y < 0 => FMod(x, y) \in (y + 1)..0)
ASSUME NumLaws ==
    /\ \A n \in 0..6 : \A b \in [1..n -> {S, T}] :
          LET bits == [j \in 1..n |-> IF b[j] = T THEN 1 ELSE 0] IN
          /\ NumVal(bits) = (IF n = 0 THEN 0 ELSE IF bits[1] = 1 THEN 0 - Lsf(bits, n, 1) ELSE Lsf(bits, n, 1))
          /\ BitTok(bits) = b

MInit == w = Idle /\ t = <<>> /\ k = 0 /\ first = -1 /\ acts = {} /\ emitted = FALSE
PickFirst == first = -1 /\ first' \in Tokens \cup {0} /\ UNCHANGED <<w, t, k, acts, emitted>>
\* a token sequence: loaded into the machine when it is a program, otherwise only judged by ParseLaws
Load(x, in, fuel) == LET P == Parse(x) IN w' = IF P.ok THEN Fresh(P.ins, in, fuel) ELSE [status |-> "malformed"]
LoadTokens == /\ first > 0 /\ ~Loaded /\ t = <<>> /\ UNCHANGED <<first, k, acts, emitted>>
              /\ \E q \in Tails : t' = <<first>> \o q /\ Load(t', <<65, 7>>, Fuel)
LoadMicro == /\ first = 0 /\ ~Loaded /\ k' \in 1..Len(Micro) /\ UNCHANGED <<first, acts, emitted>>
             /\ t' = Micro[k'].toks /\ Load(t', Micro[k'].inp, Micro[k'].fuel)
Runs == Loaded /\ w.status # "malformed"
APush      == Runs /\ Push      /\ acts' = acts \cup {"Push"} /\ UNCHANGED <<t, k, first, emitted>>
ADup       == Runs /\ Dup       /\ acts' = acts \cup {"Dup"} /\ UNCHANGED <<t, k, first, emitted>>
ACopy      == Runs /\ Copy      /\ acts' = acts \cup {"Copy"} /\ UNCHANGED <<t, k, first, emitted>>
ASwap      == Runs /\ Swap      /\ acts' = acts \cup {"Swap"} /\ UNCHANGED <<t, k, first, emitted>>
ADrop      == Runs /\ Drop      /\ acts' = acts \cup {"Drop"} /\ UNCHANGED <<t, k, first, emitted>>
ASlide     == Runs /\ Slide     /\ acts' = acts \cup {"Slide"} /\ UNCHANGED <<t, k, first, emitted>>
AAdd       == Runs /\ Add       /\ acts' = acts \cup {"Add"} /\ UNCHANGED <<t, k, first, emitted>>
ASub       == Runs /\ Sub       /\ acts' = acts \cup {"Sub"} /\ UNCHANGED <<t, k, first, emitted>>
AMul       == Runs /\ Mul       /\ acts' = acts \cup {"Mul"} /\ UNCHANGED <<t, k, first, emitted>>
ADiv       == Runs /\ Div       /\ acts' = acts \cup {"Div"} /\ UNCHANGED <<t, k, first, emitted>>
AMod       == Runs /\ Mod       /\ acts' = acts \cup {"Mod"} /\ UNCHANGED <<t, k, first, emitted>>
AStore     == Runs /\ Store     /\ acts' = acts \cup {"Store"} /\ UNCHANGED <<t, k, first, emitted>>
ARetrieve  == Runs /\ Retrieve  /\ acts' = acts \cup {"Retrieve"} /\ UNCHANGED <<t, k, first, emitted>>
AMark      == Runs /\ Mark      /\ acts' = acts \cup {"Mark"} /\ UNCHANGED <<t, k, first, emitted>>
ACall      == Runs /\ Call      /\ acts' = acts \cup {"Call"} /\ UNCHANGED <<t, k, first, emitted>>
AJump      == Runs /\ Jump      /\ acts' = acts \cup {"Jump"} /\ UNCHANGED <<t, k, first, emitted>>
AJumpZero  == Runs /\ JumpZero  /\ acts' = acts \cup {"JumpZero"} /\ UNCHANGED <<t, k, first, emitted>>
AJumpNeg   == Runs /\ JumpNeg   /\ acts' = acts \cup {"JumpNeg"} /\ UNCHANGED <<t, k, first, emitted>>
AReturn    == Runs /\ Return    /\ acts' = acts \cup {"Return"} /\ UNCHANGED <<t, k, first, emitted>>
AEnd       == Runs /\ End       /\ acts' = acts \cup {"End"} /\ UNCHANGED <<t, k, first, emitted>>
AOutChar   == Runs /\ OutChar   /\ acts' = acts \cup {"OutChar"} /\ UNCHANGED <<t, k, first, emitted>>
AOutNum    == Runs /\ OutNum    /\ acts' = acts \cup {"OutNum"} /\ UNCHANGED <<t, k, first, emitted>>
AReadChar  == Runs /\ ReadChar  /\ acts' = acts \cup {"ReadChar"} /\ UNCHANGED <<t, k, first, emitted>>
AReadNum   == Runs /\ ReadNum   /\ acts' = acts \cup {"ReadNum"} /\ UNCHANGED <<t, k, first, emitted>>
AFallOff   == Runs /\ FallOff   /\ acts' = acts \cup {"FallOff"} /\ UNCHANGED <<t, k, first, emitted>>
AOutOfFuel == Runs /\ OutOfFuel /\ acts' = acts \cup {"OutOfFuel"} /\ UNCHANGED <<t, k, first, emitted>>
EmitActs == /\ Runs /\ k > 0 /\ Finished /\ ~emitted /\ emitted' = TRUE /\ UNCHANGED <<w, t, k, first, acts>>
            /\ JsonSerialize(IOEnv.OBS_DIR \o "/acts_" \o ToString(k) \o ".json", [acts |-> acts])
MNext == PickFirst \/ LoadTokens \/ LoadMicro \/ EmitActs \/ APush \/ ADup \/ ACopy \/ ASwap \/ ADrop \/ ASlide \/ AAdd \/ ASub \/ AMul \/ ADiv \/ AMod \/ AStore \/ ARetrieve \/ AMark \/ ACall \/ AJump \/ AJumpZero \/ AJumpNeg \/ AReturn \/ AEnd \/ AOutChar \/ AOutNum \/ AReadChar \/ AReadNum \/ AFallOff \/ AOutOfFuel

ParseLaws ==
    Loaded =>
    LET P == Syntax(t) IN
    /\ P.ok => Unparse(P.ins, Len(P.ins)) = t
    /\ ~P.ok => /\ P.at \in 1..Len(t)
                /\ Unparse(P.ins, Len(P.ins)) = SubSeq(t, 1, P.at - 1)
                /\ ~ParseAt(t, P.at).ok
    /\ (w.status = "malformed") = ~Parse(t).ok
    /\ Parse(t).ok => P.ok
NEnabled == LET b(x) == IF x THEN 1 ELSE 0 IN b(ENABLED Push) + b(ENABLED Dup) + b(ENABLED Copy) + b(ENABLED Swap) + b(ENABLED Drop) + b(ENABLED Slide) + b(ENABLED Add) + b(ENABLED Sub) + b(ENABLED Mul) + b(ENABLED Div) + b(ENABLED Mod) + b(ENABLED Store) + b(ENABLED Retrieve) + b(ENABLED Mark) + b(ENABLED Call) + b(ENABLED Jump) + b(ENABLED JumpZero) + b(ENABLED JumpNeg) + b(ENABLED Return) + b(ENABLED End) + b(ENABLED OutChar) + b(ENABLED OutNum) + b(ENABLED ReadChar) + b(ENABLED ReadNum) + b(ENABLED FallOff) + b(ENABLED OutOfFuel)
Deterministic == Runs => IF Running THEN NEnabled = 1 ELSE NEnabled = 0
MTypeOK == Runs => TypeOK
ExpectMet == (Runs /\ k > 0 /\ Finished) =>
                /\ w.status = Micro[k].status
                /\ w.status = "ok" => Printable(w.out) /\ Text(w.out, Len(w.out)) = Micro[k].text
MicroParsed == (Loaded /\ k > 0) => w.status # "malformed"

Stepped(name) == Runs /\ w.status = "run" /\ w'.last = name /\ w'.status = "run"
StackLaw ==
    /\ Stepped("Add") => w'.stack = PopN(2) \o <<Sec + Top>>
    /\ Stepped("Sub") => w'.stack = PopN(2) \o <<Sec - Top>>
    /\ Stepped("Mul") => w'.stack = PopN(2) \o <<Sec * Top>>
    /\ Stepped("Div") => w'.stack = PopN(2) \o <<FDiv(Sec, Top)>> /\ Top # 0
    /\ Stepped("Mod") => w'.stack = PopN(2) \o <<Sec - Top * FDiv(Sec, Top)>> /\ Top # 0
    /\ Stepped("Swap") => w'.stack[N] = Sec /\ w'.stack[N - 1] = Top /\ Len(w'.stack) = N
    /\ Stepped("Dup") => w'.stack = w.stack \o <<Top>>
    /\ Stepped("Drop") => w'.stack = PopN(1)
    /\ Stepped("Push") => Len(w'.stack) = N + 1 /\ SubSeq(w'.stack, 1, N) = w.stack
    /\ Stepped("Store") => w'.heap[Sec] = Top /\ Len(w'.stack) = N - 2
    /\ Stepped("Retrieve") => w'.stack = PopN(1) \o <<w.heap[Top]>> /\ w'.heap = w.heap
FlowLaw ==
    /\ Stepped("JumpZero") => /\ w'.stack = PopN(1)
                              /\ (Top # 0 => w'.pc = w.pc + 1)
                              /\ (Top = 0 => w.ins[w'.pc - 1] = [op |-> "mark", bits |-> I.bits])
    /\ Stepped("JumpNeg") => /\ w'.stack = PopN(1)
                             /\ (Top >= 0 => w'.pc = w.pc + 1)
                             /\ (Top < 0 => w.ins[w'.pc - 1] = [op |-> "mark", bits |-> I.bits])
    /\ Stepped("Jump") => w.ins[w'.pc - 1] = [op |-> "mark", bits |-> I.bits] /\ w'.stack = w.stack
    /\ Stepped("Call") => w'.cs = Append(w.cs, w.pc + 1) /\ w.ins[w'.pc - 1] = [op |-> "mark", bits |-> I.bits]
    /\ Stepped("Return") => w'.pc = w.cs[Len(w.cs)] /\ Len(w'.cs) = Len(w.cs) - 1
    /\ Stepped("Mark") => w'.pc = w.pc + 1 /\ w'.stack = w.stack
IoLaw ==
    /\ Stepped("OutChar") => w'.out = Append(w.out, [k |-> "c", v |-> Top]) /\ w'.stack = PopN(1)
    /\ Stepped("OutNum") => w'.out = Append(w.out, [k |-> "n", v |-> Top]) /\ w'.stack = PopN(1)
    /\ (Stepped("ReadChar") \/ Stepped("ReadNum")) => w'.nin = w.nin + 1 /\ w'.heap[Top] = w.inp[w'.nin] /\ w'.stack = PopN(1)
    /\ (Runs /\ w.status = "run") => \E j \in 0..Len(w'.out) : SubSeq(w'.out, 1, j) = w.out
PStack == [][StackLaw]_w
PFlow  == [][FlowLaw]_w
PIo    == [][IoLaw]_w
=============================================================================
