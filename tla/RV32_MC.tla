------------------------------ MODULE RV32_MC ------------------------------
(* Idiom M for RV32.tla: laws of the ISA model itself, checked exhaustively  *)
(* on small domains before the model is used to judge ppci.                  *)
(*  family "h16": every 16-bit pattern (65 536; a third of them when ~Deep) *)
(*  family "w32": opcode x funct3 x funct7-class x two operand patterns      *)
(*  family "ins": every mnemonic x register triples x labelled boundary imms *)
(*  family "exe": executable mnemonics x register triples x imms x states    *)
(*  family "hilo": boundary words for the %hi/%lo split                      *)
(*  family "mul": small operand pairs for the multiply-high instructions    *)
(* The same run writes the boundary table of idiom G (RV32_Gen.WriteTable).  *)
EXTENDS RV32_Gen
CONSTANTS Deep, Fams
ASSUME WriteTable

VARIABLES fam, c
vars == <<fam, c>>
None == [k |-> "none"]

RB == IF Deep THEN {0, 1, 2, 5, 8, 9, 15, 16, 31} ELSE {0, 1, 2, 8, 15, 31}
Triples == {<<r, r, r>> : r \in RB} \cup {<<10, 11, 12>>, <<8, 9, 9>>, <<9, 8, 8>>, <<1, 2, 0>>, <<0, 1, 2>>, <<31, 0, 15>>,
                                         <<2, 2, 9>>, <<12, 12, 13>>, <<5, 0, 0>>}
ExeTriples == IF Deep THEN Triples ELSE {<<10, 11, 12>>, <<9, 9, 9>>, <<8, 9, 8>>, <<1, 2, 0>>}
ExePlans == IF Deep THEN 1..Len(PairPlan) ELSE {1, 3, 5, 7}
ImmsOf(m) == LET fr == FieldRange(m) IN
             IF fr.kind = "n" THEN {0} ELSE {Labelled(fr)[k][2] : k \in 1..Len(Labelled(fr))}
AllMn == Mn32 \cup Mn16
ExeMn == {m \in AllMn : Modelled(Ins(m, 0, 0, 0, 0, 0))}
ExeImms(m) == LET fr == FieldRange(m) IN
              IF fr.kind = "n" THEN {0}
              ELSE {v \in (IF Deep THEN {FMin(fr), -fr.align, 0, fr.align, 3 * fr.align, FMax(fr)}
                                    ELSE {FMin(fr), fr.align, FMax(fr)}) : Representable(fr, v)}
F7s == {0, 1, 32, 64, 127}

Init == fam = "none" /\ c = None
PickFam == fam = "none" /\ fam' \in Fams /\ c' = None
\* quick configuration: every third high byte (all low bytes), so every opcode / funct3 / field value occurs
H16Hi == IF Deep THEN 0..255 ELSE {h \in 0..255 : h % 3 = 0}
PickH16 == fam = "h16" /\ c = None /\ UNCHANGED fam
           /\ \E hi \in H16Hi : c' = [k |-> "h16-", hi |-> hi]          \* second fan-out level
PickH16b == fam = "h16" /\ c.k = "h16-" /\ UNCHANGED fam
           /\ \E lo \in 0..255 : c' = [k |-> "h16", b |-> <<lo, c.hi>>]
PickW32 == fam = "w32" /\ c = None /\ UNCHANGED fam
           /\ \E opc \in 0..127, f3 \in 0..7, f7 \in F7s, pat \in {0, 1} :
                 c' = [k |-> "w32", b |-> Assemble(<< <<opc, F(6, 0)>>, <<f3, F(14, 12)>>, <<f7, F(31, 25)>>,
                                                      <<IF pat = 0 THEN 0 ELSE 21, F(11, 7)>>,
                                                      <<IF pat = 0 THEN 0 ELSE 10, F(19, 15)>>,
                                                      <<IF pat = 0 THEN 0 ELSE 31, F(24, 20)>> >>, 4)]
\* an instruction record with the register slots the mnemonic does not have forced to the values WF expects
Shape(m, t, v) ==
    LET len == IF m \in Mn32 THEN 4 ELSE 2 IN
    IF m \in Mn32 THEN Ins(m, IF HasRd(m) THEN t[1] ELSE 0, IF HasRs1(m) THEN t[2] ELSE 0, IF HasRs2(m) THEN t[3] ELSE 0, v, len)
    ELSE Ins(m, t[1], t[2], t[3], v, len)
PickInsMn == fam = "ins" /\ c = None /\ UNCHANGED fam /\ \E m \in AllMn : c' = [k |-> "ins-", mn |-> m]
PickIns == fam = "ins" /\ c.k = "ins-" /\ UNCHANGED fam
           /\ \E t \in Triples, v \in ImmsOf(c.mn) : c' = [k |-> "ins", i |-> Shape(c.mn, t, v)]
\* executable instances: made well-formed by construction through Decode(Encode) of a repaired record
Repair(m, t, v) ==
    LET p(r) == 8 + (r % 8)  nz(r) == IF r = 0 THEN 3 ELSE r IN
    CASE m \in Mn32 -> Shape(m, t, v)
      [] m = "c.addi4spn" -> Ins(m, p(t[1]), 2, 0, v, 2)
      [] m = "c.lw" -> Ins(m, p(t[1]), p(t[2]), 0, v, 2)
      [] m = "c.sw" -> Ins(m, 0, p(t[2]), p(t[3]), v, 2)
      [] m = "c.nop" -> Ins(m, 0, 0, 0, v, 2)
      [] m = "c.addi" -> Ins(m, nz(t[1]), nz(t[1]), 0, v, 2)
      [] m = "c.li" -> Ins(m, t[1], 0, 0, v, 2)
      [] m = "c.lui" -> Ins(m, IF t[1] = 2 THEN 3 ELSE t[1], 0, 0, v, 2)
      [] m = "c.jal" -> Ins(m, 1, 0, 0, v, 2)
      [] m = "c.j" -> Ins(m, 0, 0, 0, v, 2)
      [] m = "c.addi16sp" -> Ins(m, 2, 2, 0, v, 2)
      [] m \in {"c.srli", "c.srai", "c.andi"} -> Ins(m, p(t[1]), p(t[1]), 0, v, 2)
      [] InTab(CAluMn, m) -> Ins(m, p(t[1]), p(t[1]), p(t[3]), 0, 2)
      [] m \in {"c.beqz", "c.bnez"} -> Ins(m, 0, p(t[2]), 0, v, 2)
      [] m = "c.slli" -> Ins(m, t[1], t[1], 0, v, 2)
      [] m = "c.lwsp" -> Ins(m, nz(t[1]), 2, 0, v, 2)
      [] m = "c.jr" -> Ins(m, 0, nz(t[2]), 0, 0, 2)
      [] m = "c.jalr" -> Ins(m, 1, nz(t[2]), 0, 0, 2)
      [] m = "c.mv" -> Ins(m, t[1], 0, nz(t[3]), 0, 2)
      [] m = "c.add" -> Ins(m, t[1], t[1], nz(t[3]), 0, 2)
      [] m = "c.swsp" -> Ins(m, 0, 2, t[3], v, 2)
      [] OTHER -> Ins(m, 0, 0, 0, 0, 2)
PickExeMn == fam = "exe" /\ c = None /\ UNCHANGED fam /\ \E m \in ExeMn : c' = [k |-> "exe-", mn |-> m]
PickExe == fam = "exe" /\ c.k = "exe-" /\ UNCHANGED fam
           /\ \E t \in ExeTriples, v \in ExeImms(c.mn), p \in ExePlans :
                 c' = [k |-> "exe", i |-> Repair(c.mn, t, v), plan |-> PairPlan[p]]
HiLoWords == {<<a, b, d, e>> : a \in {0, 1, 254, 255}, b \in {0, 7, 8, 15, 16, 247, 248, 255}, d \in {0, 255, 127}, e \in {0, 127, 128, 255}}
PickHiLo == fam = "hilo" /\ c = None /\ UNCHANGED fam /\ \E w \in HiLoWords : c' = [k |-> "hilo", w |-> w]
PickMul == fam = "mul" /\ c = None /\ UNCHANGED fam
           /\ \E x \in {-46340, -3, -1, 0, 1, 2, 46340}, y \in {-46340, -2, -1, 0, 1, 3, 46340} : c' = [k |-> "mul", x |-> x, y |-> y]
Next == PickFam \/ PickMul \/ PickH16 \/ PickH16b \/ PickW32 \/ PickInsMn \/ PickIns \/ PickExeMn \/ PickExe \/ PickHiLo

Legal(d) == d.mn \notin {"illegal", "unsupported"}
-----------------------------------------------------------------------------
\* Every legal encoding re-encodes to itself and is a well-formed record (h16: exhaustive).
LawEncodeDecode == c.k \in {"h16", "w32"} =>
    LET d == Decode(c.b) IN Legal(d) => (WF(d) /\ Encode(d) = c.b /\ d.len = Len(c.b))
\* Every well-formed record encodes to bytes that decode back to it; records that are not
\* well-formed are exactly those an encoder must refuse (their fields do not fit).
LawDecodeEncode == c.k \in {"ins", "exe"} => (WF(c.i) => Decode(Encode(c.i)) = c.i)
\* FieldRange: representable <=> well-formed, and the field reads back as the value
LawFieldRange == c.k = "ins" =>
    LET fr == FieldRange(c.i.mn)  a == c.i
        regsOK == WF([a EXCEPT !.imm = IF fr.kind = "n" THEN 0 ELSE IF fr.nz THEN fr.align ELSE 0]) IN
    (fr.kind # "n" /\ regsOK) =>
        /\ Encodable(a) <=> Representable(fr, a.imm)
        /\ Representable(fr, a.imm) => Decode(Encode(Canon(a))).imm = FieldValue(fr, a.imm)
        /\ Representable(fr, a.imm) => (FMin(fr) <= a.imm /\ a.imm <= FMax(fr))
\* a compressed instruction expands to a well-formed base instruction with the same register sets
LawExpand == (c.k = "h16" /\ Legal(Decode(c.b))) =>
    LET d == Decode(c.b)  e == Expand(d) IN
    /\ e.mn \in Mn32 /\ e.len = 2
    /\ WF([e EXCEPT !.len = 4])
    /\ Reads(d) = Reads([e EXCEPT !.len = 4]) /\ Writes(d) = Writes([e EXCEPT !.len = 4])
\* %hi / %lo recombine to the word
LawHiLo == c.k = "hilo" =>
    /\ WAdd(WShl(W4(Hi20(c.w)), 12), W4(Lo12(c.w))) = c.w
    /\ Hi20(c.w) \in 0..1048575 /\ Lo12(c.w) \in -2048..2047

\* ---- execution ----
S1 == BaseState(c.plan[1], c.plan[2])
S2 == Perturb(S1, Reads(c.i) \cup ImplicitSP(c.i), c.plan[3])
T1 == Exec(S1, c.i)
IsExe == c.k = "exe" /\ WF(c.i)
\* the manual's register sets are sound for Exec: the two clauses of C07 hold of the model itself
LawWrites == IsExe => (T1.st = "ok" /\ NoUndeclaredWrite(S1, <<c.i>>, Writes(c.i)) /\ T1.x[1] = WZero(4))
LawReads == IsExe => SameOutputs(S1, S2, <<c.i>>, Writes(c.i))
\* ... and they are tight on these states: some state pair distinguishes every declared read
\* (checked per instruction over the whole plan, not per state)
LawPc == IsExe =>
    LET e == Expand(c.i) IN
    \/ e.mn \in {"jal", "jalr"} \/ InTab(BranchMn, e.mn)
    \/ T1.pc = WAdd(S1.pc, W4(c.i.len))
LawLink == (IsExe /\ Expand(c.i).mn \in {"jal", "jalr"} /\ Expand(c.i).rd # 0) =>
    T1.x[Expand(c.i).rd + 1] = WAdd(S1.pc, W4(c.i.len))
LawBranch == (IsExe /\ InTab(BranchMn, Expand(c.i).mn)) =>
    (T1.pc = WAdd(S1.pc, W4(c.i.len)) \/ T1.pc = WAdd(S1.pc, W4(c.i.imm)))
\* division: the table of the "M" chapter and the Euclidean identity a = q*b + r
LawDiv == (IsExe /\ c.i.mn \in {"div", "divu"}) =>
    LET a == Reg(S1, c.i.rs1)  b == Reg(S1, c.i.rs2)
        q == Alu(c.i.mn, a, b)  r == Alu(IF c.i.mn = "div" THEN "rem" ELSE "remu", a, b) IN
    /\ WAdd(WMul(q, b), r) = a
    /\ WIsZero(b) => (q = WOnes(4) /\ r = a)
    /\ (c.i.mn = "div" /\ WIsMin(a) /\ WIsMinusOne(b)) => (q = a /\ WIsZero(r))
    /\ (~WIsZero(b) /\ c.i.mn = "divu") => WLtU(r, b)
\* multiplication (family "mul"): 64-bit product = (mulh : mul), cross-checked against integer
\* arithmetic on operands whose product is small
LawMul == c.k = "mul" =>
    LET x == c.x  y == c.y IN
        /\ Alu("mul", W4(x), W4(y)) = W4(x * y)
        /\ Alu("mulh", W4(x), W4(y)) = (IF x * y < 0 THEN WOnes(4) ELSE WZero(4))
        /\ (x >= 0 /\ y >= 0) => (Alu("mulhu", W4(x), W4(y)) = WZero(4) /\ Alu("mulhsu", W4(x), W4(y)) = WZero(4))
        /\ (x < 0 /\ y > 0) => Alu("mulhsu", W4(x), W4(y)) = WOnes(4)
        /\ (x = -1 /\ y = -1) => Alu("mulhu", W4(x), W4(y)) = <<254, 255, 255, 255>>
        /\ Alu("mulhu", W4(x), W4(y)) = Alu("mulhu", W4(y), W4(x))
\* a store followed by a load of the same width at the same address returns the stored value
LawMem == (IsExe /\ c.i.mn \in {"sw", "sh", "sb"} /\ c.i.rs1 # 0) =>
    LET ld == CASE c.i.mn = "sw" -> "lw" [] c.i.mn = "sh" -> "lhu" [] OTHER -> "lbu"
        t2 == Exec([pc |-> T1.pc, x |-> T1.x, mem |-> T1.mem], Ins(ld, 5, c.i.rs1, 0, c.i.imm, 4))
        v == Reg(S1, c.i.rs2)
        n == CASE c.i.mn = "sw" -> 4 [] c.i.mn = "sh" -> 2 [] OTHER -> 1 IN
    c.i.rs1 # 5 => t2.x[6] = WResize(Mk([k \in 1..n |-> v[k]]), 4, FALSE)
=============================================================================
