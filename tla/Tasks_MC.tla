----------------------------- MODULE Tasks_MC ------------------------------
(* Idiom M for Tasks.tla: TLC enumerates EVERY dependency graph on the      *)
(* constant Target (deps \in [Target -> SUBSET Target]) and every non-empty *)
(* request set, explores every history the declarative specification        *)
(* allows and checks                                                        *)
(*   - the clauses of C34 (cfg: TypeOK ExactlyOnce OnlyNeeded DepsFirst     *)
(*     LoopIff Completed) in every state,                                   *)
(*   - that the specification is implementable: no deadlock (some allowed   *)
(*     continuation always exists until done/loop) and, with fairness,      *)
(*     termination,                                                         *)
(*   - the laws below, which tie the fix-point definitions of Tasks.tla to  *)
(*     path-based ones.                                                     *)
(* Two ways to enumerate the (graph, request) pairs:                        *)
(*   SPECIFICATION MCSpec      - Tasks!Init itself (all pairs are initial   *)
(*                               states; TLC computes them in one thread);  *)
(*   INIT SInit / NEXT SNext   - staged: one initial state (empty graph,    *)
(*                               everything requested), PickGraph chooses   *)
(*                               deps, PickRequest chooses requested, then  *)
(*                               Tasks!Next runs.  The states with          *)
(*                               stage = "run" are exactly the states of    *)
(*                               Tasks!Spec; the workers share them.        *)
EXTENDS Tasks, TLC

CONSTANT SelfDeps          \* TRUE: graphs may contain t -> t;  FALSE: they may not

VARIABLE stage             \* "graph" | "request" | "run"   (staged enumeration only)

N == Cardinality(Target)

\* final states stutter, so that CHECK_DEADLOCK means "never stuck before the end"
Terminated == result # "running" /\ UNCHANGED vars

Running == stage = "run" /\ UNCHANGED stage
RunStart  == Running /\ \E t \in Target : Start(t)
RunLoop   == Running /\ Loop
RunFinish == Running /\ Finish
RunEnded  == Running /\ Terminated
MCNext == RunStart \/ RunLoop \/ RunFinish \/ RunEnded        \* = (Next \/ Terminated), stage unchanged
MCSpec == Init /\ stage = "run" /\ [][MCNext]_<<vars, stage>> /\ WF_vars(Next)

Graphs == {d \in [Target -> SUBSET Target] : SelfDeps \/ \A t \in Target : t \notin d[t]}

SInit == /\ stage = "graph"
         /\ deps = [t \in Target |-> {}]
         /\ requested = Target
         /\ executed = <<>>
         /\ result = "running"
PickGraph == /\ stage = "graph"
             /\ stage' = "request"
             /\ deps' \in Graphs
             /\ UNCHANGED <<requested, executed, result>>
PickRequest == /\ stage = "request"
               /\ stage' = "run"
               /\ requested' \in (SUBSET Target) \ {{}}
               /\ UNCHANGED <<deps, executed, result>>
SNext == PickGraph \/ PickRequest \/ RunStart \/ RunLoop \/ RunFinish \/ RunEnded

\* the clauses do not mention target names: graphs equal up to renaming are
\* explored once when Target is a set of model values (safety configs only)
Sym == Permutations(Target)

----------------------------------------------------------------------------
(* Laws, evaluated once per (graph, request): in the states where the run   *)
(* begins                                                                   *)
Fresh == stage = "run" /\ executed = <<>> /\ result = "running"

WalksUpTo(n) == UNION {[1..k -> Target] : k \in 1..n}    \* non-empty node sequences
Walks == WalksUpTo(N)             \* enough for simple paths and simple cycles
IsWalk(p) == \A k \in 1..(Len(p) - 1) : p[k + 1] \in deps[p[k]]
Orders(S) == {s \in [1..Cardinality(S) -> S] : \A j, k \in DOMAIN s : s[j] = s[k] => j = k}

\* Needed = the targets at the end of a dependency path starting at a requested one
LawReach == Fresh =>
    Needed = {t \in Target : \E p \in Walks : IsWalk(p) /\ p[1] \in requested /\ p[Len(p)] = t}
\* Cyclic = some needed target reaches itself along a non-empty dependency path
LawCycle == Fresh =>
    (Cyclic <=> \E t \in Needed : \E p \in Walks : IsWalk(p) /\ p[1] \in deps[t] /\ p[Len(p)] = t)
\* no cycle  <=>  the needed targets can be put in an order with dependencies first
\* (so exactly in the acyclic case the "done" outcome is attainable)
LawTopo == Fresh =>
    (~Cyclic <=> \E s \in Orders(Needed) :
                    \A k \in DOMAIN s : deps[s[k]] \subseteq {s[j] : j \in 1..(k - 1)})
\* MultiPath is about paths: exactly in a tree every target has one single path
\* from the root (N+1 nodes: a path through all targets that returns to one)
WalksFrom(r) == {p \in WalksUpTo(N + 1) : p[1] = r /\ IsWalk(p)}
LawMultiPath == Fresh =>
    \A r \in requested :
        MultiPath(deps, r) <=>
            \E p, q \in WalksFrom(r) : p # q /\ p[Len(p)] = q[Len(q)]
=============================================================================
