------------------------------- MODULE W2I_MC -------------------------------
(* Idiom M for X03: the address map of W2IMap.tla (linear memory at a base    *)
(* address that moves with every grow, offset = address - base, address       *)
(* computed as wasm2ppci emits it) is model-checked against the memory        *)
(* instructions of Wasm.tla, exhaustively for all sequences of at most MaxOps *)
(* loads / stores / grows over boundary operands, for pointer sizes 4 and 8.  *)
(*   Refines     as long as the wasm execution has not trapped, both memories *)
(*               have the same size and the same content;                     *)
(*   InBoundsMap an access that is in bounds for Wasm.tla lands inside the    *)
(*               window of the IR side, at the same offset, and a load yields *)
(*               the same bytes;                                              *)
(*   BaseMoves   the base pointer is the one of the number of grows so far.   *)
EXTENDS W2IMap, TLC

CONSTANTS MaxOps, MaxPg

W == INSTANCE Wasm WITH chunk <- 0, i <- 0, ph <- 0, ci <- 0, stack <- <<>>, mem <- <<>>, pages <- 0, glob <- <<>>,
                        tab <- <<>>, calls <- <<>>, status <- "", why <- "", ret <- <<>>, steps <- 0, olog <- <<>>

VARIABLES wm, wpg,          \* Wasm.tla side: memory, pages
          l, lb, lp, ng,    \* IR side: linear memory, base, pages, grows
          n, trapped, last, \* operations so far; the wasm side has trapped; outcome of the last operation
          PB                \* pointer size of the IR side (chosen initially, then constant)

mcvars == <<wm, wpg, l, lb, lp, ng, n, trapped, last, PB>>

U32(v) == IF v = -1 THEN WOnes(4) ELSE IF v = -2 THEN <<0, 0, 0, 128>> ELSE WFromNat(v, 4)
Bases == {U32(0), U32(65532), U32(65536), U32(-2), U32(-1)}
Offs == {U32(0), U32(4), U32(-1)}
Widths == {1, 4, 8}
Val == <<17, 34, 51, 68, 85, 102, 119, 136>>

Init == /\ wm = <<>> /\ wpg = 1 /\ l = <<>> /\ lb = LinBase0 /\ lp = 1 /\ ng = 0
        /\ n = 0 /\ trapped = FALSE /\ last = <<"init">> /\ PB \in {4, 8}

Go == n < MaxOps /\ ~trapped

IrAddr(b, o) == XlatAddr(PB, WFromNat(lb, PB), b, o)
IrOK(b, o, nb) == WFitsNat(IrAddr(b, o)) /\ InLin(WToNat(IrAddr(b, o)), nb, lb, lp)

McStore ==
    /\ Go
    /\ \E b \in Bases, o \in Offs, nb \in Widths :
         LET ea == W!EffAddr(b, o)
             inb == W!InBounds(ea, nb, wpg)
             ok == IrOK(b, o, nb)
         IN /\ wm' = IF inb THEN W!WriteMem(wm, WToNat(ea), SubSeq(Val, 1, nb)) ELSE wm
            /\ l' = IF ok THEN W!WriteMem(l, LinOff(WToNat(IrAddr(b, o)), lb), SubSeq(Val, 1, nb)) ELSE l
            /\ trapped' = ~inb
            /\ last' = <<"store", inb, ok, IF inb THEN WToNat(ea) ELSE -1, IF ok THEN LinOff(WToNat(IrAddr(b, o)), lb) ELSE -1>>
    /\ n' = n + 1
    /\ UNCHANGED <<wpg, lb, lp, ng, PB>>

McLoad ==
    /\ Go
    /\ \E b \in Bases, o \in Offs, nb \in Widths :
         LET ea == W!EffAddr(b, o)
             inb == W!InBounds(ea, nb, wpg)
             ok == IrOK(b, o, nb)
         IN /\ trapped' = ~inb
            /\ last' = <<"load", inb, ok, IF inb THEN W!ReadMem(wm, WToNat(ea), nb) ELSE <<>>,
                         IF ok THEN W!ReadMem(l, LinOff(WToNat(IrAddr(b, o)), lb), nb) ELSE <<>>>>
    /\ n' = n + 1
    /\ UNCHANGED <<wm, wpg, l, lb, lp, ng, PB>>

\* memory.grow as Wasm.tla's MemoryGrow (maximum MaxPg) / as the runtime contract of W2I.tla (relocation)
McGrow ==
    /\ Go
    /\ \E d \in {0, 1, 2, -1} :
         LET dw == U32(d)
             fail == ~WFitsNat(dw) \/ WToNat(dw) > W!HardMaxPages \/ wpg + WToNat(dw) > MaxPg
         IN IF fail THEN /\ last' = <<"grow", -1, -1>> /\ UNCHANGED <<wpg, lp, lb, ng>>
            ELSE /\ wpg' = wpg + WToNat(dw)
                 /\ lp' = lp + WToNat(dw) /\ ng' = ng + 1 /\ lb' = BaseAfterGrow(ng + 1)
                 /\ last' = <<"grow", wpg, lp>>
    /\ n' = n + 1
    /\ UNCHANGED <<wm, l, trapped, PB>>

Next == McStore \/ McLoad \/ McGrow

Refines == ~trapped => (wpg = lp /\ W!NonZero(wm) = W!NonZero(l))
InBoundsMap == (last[1] \in {"store", "load"} /\ last[2]) => (last[3] /\ last[4] = last[5])
GrowSame == last[1] = "grow" => last[2] = last[3]
BaseMoves == lb = BaseAfterGrow(ng) /\ lb + lp * PageSize < LinBase0 + RelocStep * (ng + 1)
MCTypeOK == /\ \A a \in DOMAIN l : a >= 0 /\ a < lp * PageSize /\ l[a] \in Byte
            /\ wpg \in 0..MaxPg /\ lp \in 0..MaxPg
=============================================================================
