----------------------------- MODULE Words_MC -----------------------------
(* Idiom M for Words/IROps: on 1-byte words every operator agrees with       *)
(* ordinary integer arithmetic for ALL operand pairs (65 536 states), and   *)
(* multi-byte operators agree with the 1-byte ones limb-wise / via the      *)
(* algebraic laws checked on a boundary set of 2- and 4-byte words.         *)
EXTENDS IROps, TLC
CONSTANT BVals
BQuick == {0, 1, 2, 3, 7, 8, 9, 15, 16, 31, 63, 64, 127, 128, 129, 200, 254, 255}
BFull == 0..255
VARIABLES a, b
Init == a \in 0..255 /\ b \in BVals
Next == UNCHANGED <<a, b>>
A == <<a>>
B == <<b>>
S(x) == IF x >= 128 THEN x - 256 ELSE x          \* signed reading
Mod(x, m) == ((x % m) + m) % m
TDiv(x, y) == IF (x >= 0) = (y >= 0) THEN (IF x >= 0 THEN x \div y ELSE (-x) \div (-y))
              ELSE -(IF x >= 0 THEN x \div (-y) ELSE (-x) \div y)
TRem(x, y) == x - y * TDiv(x, y)
V(w) == w[1]

LawAddSubMul == /\ V(WAdd(A, B)) = (a + b) % 256
                /\ V(WSub(A, B)) = Mod(a - b, 256)
                /\ V(WMul(A, B)) = (a * b) % 256
                /\ V(WNeg(A)) = Mod(-a, 256) /\ V(WNot(A)) = 255 - a
LawDivU == b # 0 => /\ V(WDiv(A, B, FALSE)) = a \div b
                    /\ V(WRem(A, B, FALSE)) = a % b
LawDivS == (b # 0 /\ ~(a = 128 /\ b = 255)) =>
              /\ V(WDiv(A, B, TRUE)) = Mod(TDiv(S(a), S(b)), 256)
              /\ V(WRem(A, B, TRUE)) = Mod(TRem(S(a), S(b)), 256)
LawDefined == /\ BinopDefined("/", A, B, "u8") <=> b # 0
              /\ BinopDefined("%", A, B, "i8") <=> (b # 0 /\ ~(a = 128 /\ b = 255))
              /\ BinopDefined("<<", A, B, "u8") <=> b < 8
LawCmp == /\ WLtU(A, B) <=> a < b
          /\ WLtS(A, B) <=> S(a) < S(b)
          /\ CondVal("<=", A, B, "i8") <=> S(a) <= S(b)
          /\ CondVal(">=", A, B, "u8") <=> a >= b
          /\ CondVal(">", A, B, "i8") <=> S(a) > S(b)
          /\ CondVal("==", A, B, "u8") <=> a = b
LawShift == b < 8 =>
              /\ V(WShl(A, b)) = (a * P2(b)) % 256
              /\ V(WShrL(A, b)) = a \div P2(b)
              /\ V(WShrA(A, b)) = Mod((S(a) - Mod(S(a), P2(b))) \div P2(b), 256)
              /\ V(WRol(A, b)) = ((a * P2(b)) % 256) + (a \div P2(8 - b))
              /\ V(WRor(A, b)) = (a \div P2(b)) + ((a * P2(8 - b)) % 256)
LawBits == /\ V(WAnd(A, B)) + V(WOr(A, B)) = a + b
           /\ V(WXor(A, B)) = V(WOr(A, B)) - V(WAnd(A, B))
LawResize == /\ WResize(A, 2, FALSE) = <<a, 0>>
             /\ WResize(A, 2, TRUE) = <<a, IF a >= 128 THEN 255 ELSE 0>>
             /\ WResize(<<a, b>>, 1, TRUE) = A
             /\ WToNat(<<a, b>>) = a + 256 * b
             /\ WFromNat(a + 256 * b, 4) = <<a, b, 0, 0>>
             /\ WFromInt(-(a + 256 * b) - 1, 4) = WNot(<<a, b, 0, 0>>)
\* multi-byte: two-limb words built from (a, b) against integer arithmetic mod 65536
W2 == <<a, b>>
n2 == a + 256 * b
K == {<<0, 0>>, <<1, 0>>, <<255, 0>>, <<0, 1>>, <<255, 255>>, <<0, 128>>, <<255, 127>>, <<3, 0>>, <<7, 1>>}
Law2 == \A k \in K :
          LET m == k[1] + 256 * k[2] IN
          /\ WToNat(WAdd(W2, k)) = (n2 + m) % 65536
          /\ WToNat(WSub(W2, k)) = Mod(n2 - m, 65536)
          /\ (m < 256 => WToNat(WMul(W2, k)) = (n2 * m) % 65536)
          /\ (m # 0 => WToNat(WDiv(W2, k, FALSE)) = n2 \div m /\ WToNat(WRem(W2, k, FALSE)) = n2 % m)
          /\ (WLtU(W2, k) <=> n2 < m)
          /\ (m < 16 => WToNat(WShl(W2, m)) = (n2 * P2(m)) % 65536 /\ WToNat(WShrL(W2, m)) = n2 \div P2(m))
=============================================================================
