--------------------------- MODULE LinkerJobs_MC ---------------------------
(* The universes of link jobs explored by Linker_MC (idiom M).  A job =      *)
(* [inp, lay, opt].  Three families keep the product small while each        *)
(* dimension is explored exhaustively:                                       *)
(*   "place"  section sizes x alignments x merge order x layouts             *)
(*   "syms"   every combination of absent / local / global definition /      *)
(*            global reference of each name in each object, x entry x extra  *)
(*            symbols x partial x layout-defined symbols                     *)
(*   "reloc"  relocation sites (every in-bounds offset) x target symbols x   *)
(*            fitting / non-fitting values                                   *)
EXTENDS Integers, Sequences, FiniteSets, SequencesExt

CONSTANTS Families,      \* subset of {"place", "syms", "reloc"}
          Sizes, Aligns,  \* section sizes / alignments of family "place"
          Shape,          \* "2+1" | "2+2" | "2+1+1": sections per object in family "place"
          Statuses,       \* subset of {"absent", "local", "gdef", "gref"} for family "syms"
          SymObjs3,       \* TRUE: three objects in family "syms"
          RelSizes        \* section sizes of family "reloc"

S(n, sz, al) == [name |-> n, size |-> sz, align |-> al]
Y(id, n, b, def, sec, val) == [id |-> id, name |-> n, binding |-> b, def |-> def, sec |-> sec, value |-> val,
                               typ |-> "object", size |-> 0]
R(t, sym, sec, off, size) == [type |-> t, sym |-> sym, sec |-> sec, off |-> off, add |-> 0, size |-> size, ctl |-> FALSE]
O(secs, syms, rels, entry) == [secs |-> secs, syms |-> syms, rels |-> rels, entry |-> entry]
I(k, n, al) == [k |-> k, name |-> n, al |-> al]
M(n, loc, size, ins) == [name |-> n, loc |-> loc, size |-> size, ins |-> ins]
NoLayout == [on |-> FALSE, entry |-> "", mems |-> <<>>]
L(entry, mems) == [on |-> TRUE, entry |-> entry, mems |-> mems]
Opt(partial, entry, extra) == [partial |-> partial, entry |-> entry, extra |-> extra]

SecChoices(n) == {S(n, sz, al) : sz \in Sizes, al \in Aligns}
TwoSecs == {<<x, y>> : x \in SecChoices("a"), y \in SecChoices("b")}
           \cup {<<y, x>> : x \in SecChoices("a"), y \in SecChoices("b")}
OneSec  == {<<x>> : x \in SecChoices("a") \cup SecChoices("b")}

-----------------------------------------------------------------------------
(* family "place" *)
GName == <<"g1", "g2", "g3">>
\* object o: global g<o> at the end of its first section, a local at the start of its last one
PlaceObj(o, secs) == O(secs,
    <<Y(10, GName[o], "global", TRUE, secs[1].name, secs[1].size),
      Y(20, "l", "local", TRUE, secs[Len(secs)].name, 0)>>, <<>>, -1)
PlaceInputs ==
    CASE Shape = "2+1" -> {<<PlaceObj(1, s1), PlaceObj(2, s2)>> : s1 \in TwoSecs, s2 \in OneSec}
      [] Shape = "2+2" -> {<<PlaceObj(1, s1), PlaceObj(2, s2)>> : s1 \in TwoSecs, s2 \in OneSec \cup TwoSecs}
      [] Shape = "2+1+1" -> {<<PlaceObj(1, s1), PlaceObj(2, s2), PlaceObj(3, s3)>> :
                                s1 \in TwoSecs, s2 \in OneSec, s3 \in OneSec}
PlaceLayouts == {
    NoLayout,
    L("", <<M("m1", 2, 12, <<I("section", "a", 0), I("align", "", 4), I("section", "b", 0), I("symbol", "e", 0)>>)>>),
    L("", <<M("m1", 0, 6, <<I("section", "b", 0), I("symbol", "s", 0)>>),
            M("m2", 17, 16, <<I("sectiondata", "a", 0), I("align", "", 2), I("section", "c", 0),
                              I("section", "a", 0)>>)>>)}
PlaceOpts == {Opt(FALSE, "", <<>>)}

-----------------------------------------------------------------------------
(* family "syms": names x, y; per object each name is absent, a local definition,   *)
(* a global definition or a global reference                                       *)
SymOf(id, n, st) == IF st = "local" THEN <<Y(id, n, "local", TRUE, "a", 0)>>
                    ELSE IF st = "gdef" THEN <<Y(id, n, "global", TRUE, "a", 1)>>
                    ELSE IF st = "gref" THEN <<Y(id, n, "global", FALSE, "", 0)>>
                    ELSE <<>>
SymObj(sx, sy, entry) == LET syms == SymOf(7, "x", sx) \o SymOf(3, "y", sy) IN
    O(<<S("a", 1, 1)>>, syms,
      IF Len(syms) > 0 THEN <<R("t1", syms[1].id, "a", 0, 1)>> ELSE <<>>,
      IF entry /\ sx = "gdef" THEN 7 ELSE -1)
SymObjs(entry) == {SymObj(sx, sy, entry) : sx \in Statuses, sy \in Statuses}
SymInputs == IF ~SymObjs3 THEN {<<p, q>> : p \in SymObjs(TRUE), q \in SymObjs(FALSE)}
             ELSE {<<p, q, r>> : p \in SymObjs(FALSE), q \in SymObjs(FALSE), r \in SymObjs(FALSE)}
SymLayouts == {NoLayout, L("", <<>>),
               L("", <<M("m", 8, 64, <<I("section", "a", 0), I("symbol", "y", 0)>>)>>),
               L("x", <<M("m", 8, 64, <<I("symbol", "z", 0), I("section", "a", 0), I("symbol", "z", 0)>>)>>)}
SymOpts == {Opt(FALSE, "", <<>>), Opt(TRUE, "", <<>>), Opt(FALSE, "y", <<>>),
            Opt(FALSE, "", <<[name |-> "x", value |-> 5]>>)}

-----------------------------------------------------------------------------
(* family "reloc": two objects with one section each (same output section);  *)
(* up to two relocations per object, every in-bounds site, types of 1 / 2    *)
(* bytes; type "nofit" stands for a value that does not fit its field        *)
RelChoices(sz) == {<<>>}
    \cup UNION {{<<R(t[1], 10, "a", off, t[2])>> : off \in {f \in 0..sz : f + t[2] <= sz}} :
                     t \in {<<"t1", 1>>, <<"t2", 2>>, <<"nofit", 1>>}}
    \cup {<<R("t1", 10, "a", o1, 1), R("t2", 20, "a", o2, 2)>> : o1 \in 0..(sz - 1), o2 \in {f \in 0..sz : f + 2 <= sz}}
RelObj(o, sz, al, rels) == O(<<S("a", sz, al)>>,
    <<Y(10, GName[o], "global", TRUE, "a", 0), Y(20, "l", "local", TRUE, "a", sz)>>, rels, -1)
RelInputs == {<<RelObj(1, s1, a1, r1), RelObj(2, s2, a2, r2)>> :
                 s1 \in RelSizes, s2 \in RelSizes, a1 \in {1, 2}, a2 \in {1, 2},
                 r1 \in UNION {RelChoices(s) : s \in RelSizes}, r2 \in UNION {RelChoices(s) : s \in RelSizes}}
RelInputsOK == {x \in RelInputs : \A o \in 1..2 : \A k \in 1..Len(x[o].rels) :
                    x[o].rels[k].off + x[o].rels[k].size <= x[o].secs[1].size}
RelLayouts == {NoLayout, L("", <<M("m", 6, 32, <<I("section", "a", 0), I("sectiondata", "a", 0)>>)>>)}

-----------------------------------------------------------------------------
Inputs(f)  == CASE f = "place" -> PlaceInputs [] f = "syms" -> SymInputs [] f = "reloc" -> RelInputsOK
Layouts(f) == CASE f = "place" -> PlaceLayouts [] f = "syms" -> SymLayouts [] f = "reloc" -> RelLayouts
Opts(f)    == CASE f = "place" -> PlaceOpts [] f = "syms" -> SymOpts [] f = "reloc" -> PlaceOpts

\* every combination, except partial links with a layout ("Can only apply layout in non-partial links")
JobsOf(f) == {j \in {[inp |-> x, lay |-> y, opt |-> z] : x \in Inputs(f), y \in Layouts(f), z \in Opts(f)} :
                ~(j.opt.partial /\ j.lay.on)}
MCJobs == SetToSeq(UNION {JobsOf(f) : f \in Families})
=============================================================================
