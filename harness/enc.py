"""Encodings shared by engines: Python ints -> JSON the TLA+ modules read."""


def bits(v, w):
    """w-bit two's-complement pattern of v, LSB first."""
    v &= (1 << w) - 1
    return [(v >> i) & 1 for i in range(w)]


def zint(v):
    """Unbounded integer as BitSeq.ZInt: sign + normalised magnitude bits."""
    m = abs(v)
    return {"neg": v < 0, "mag": [(m >> i) & 1 for i in range(m.bit_length())]}


def unzint(z):
    m = sum(b << i for i, b in enumerate(z["mag"]))
    return -m if z["neg"] else m


def limbs(v, nbytes):
    v &= (1 << (8 * nbytes)) - 1
    return [(v >> (8 * i)) & 255 for i in range(nbytes)]


def res_of(fn, *args, wrap=None):
    """Call fn; encode outcome as [ok, ...] / [ok=false, exc]."""
    try:
        out = fn(*args)
    except Exception as e:  # the outcome class is part of the observation
        return {"ok": False, "exc": type(e).__name__}
    return wrap(out) if wrap else out


def boundary_values(w):
    """Interesting w-bit patterns (unsigned)."""
    m = (1 << w) - 1
    s = {0, 1, 2, 3, m, m - 1, 1 << (w - 1), (1 << (w - 1)) - 1, (1 << (w - 1)) + 1,
         0x5555555555555555 & m, 0xAAAAAAAAAAAAAAAA & m, 0x0123456789ABCDEF & m,
         0xFEDCBA9876543210 & m, 0x80 & m, 0xFF & m, 0x100 & m, 0x7F & m, 0xFFFF & m, 0x8000 & m}
    for k in range(0, w, max(1, w // 8)):
        s.add(1 << k)
        s.add(((1 << k) - 1) & m)
    return sorted(s)
