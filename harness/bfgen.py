"""Generators of Brainfuck and Whitespace programs for extension property X02 (engines/x02.py).

Only *inputs* are produced here; what a program does is decided by TLC with tla/BF.tla / tla/WS.tla.
Brainfuck programs are built from loop idioms whose bodies return the data pointer to where they started
(`[-]`, `[->+<]`, `[->++<]`, counted loops with nested bodies), so that most of them terminate and stay on a
short tape; a few deliberately run for ever (`+[]`, `+[.]`, `+[>+<-]` ...) or wrap a cell around 0 / 255.
"""

COMMENT = "x \n#ab"


class BFGen:
    def __init__(self, rng, tape):
        self.rng = rng
        self.tape = tape

    def ink(self, lo=1, hi=5):
        r = self.rng
        return ("+" if r.random() < 0.7 else "-") * r.randint(lo, hi)

    def move_to(self, pos, to):
        return (">" * (to - pos)) if to >= pos else ("<" * (pos - to))

    def body(self, pos, depth, budget):
        """A pointer-neutral piece of code starting (and ending) at cell `pos`."""
        r = self.rng
        out = []
        for _ in range(r.randint(1, 3)):
            k = r.random()
            other = r.randrange(self.tape)
            if k < 0.25:
                out.append(self.ink(1, 3))
            elif k < 0.4:
                out.append(".")
            elif k < 0.6 and other != pos:
                out.append(self.move_to(pos, other) + self.ink(1, 3) + (r.choice(["", "."])) + self.move_to(other, pos))
            elif k < 0.75 and depth < 3 and budget > 1:
                out.append(self.loop(pos, depth + 1, budget // 2))
            elif k < 0.85 and other != pos:
                out.append(self.move_to(pos, other) + "[-]" + self.move_to(other, pos))
            else:
                out.append(r.choice(COMMENT))
        return "".join(out)

    def loop(self, pos, depth, budget):
        """A loop at cell `pos` (entered with whatever the cell holds)."""
        r = self.rng
        k = r.random()
        other = r.randrange(self.tape)
        if other == pos:
            other = (pos + 1) % self.tape
        if k < 0.2:
            return "[-]"
        if k < 0.45:  # move / multiply
            return "[-" + self.move_to(pos, other) + "+" * r.randint(1, 3) + self.move_to(other, pos) + "]"
        if k < 0.55:  # copy to two cells
            o2 = (other + 1) % self.tape
            if o2 == pos:
                o2 = (o2 + 1) % self.tape
            return "[-" + self.move_to(pos, other) + "+" + self.move_to(other, o2) + "+" + self.move_to(o2, pos) + "]"
        if k < 0.9:   # counted loop with a body
            return "[" + self.body(pos, depth, budget) + (self.move_to(pos, pos)) + "-]"
        return "[" + self.body(pos, depth, budget) + "]"  # may or may not terminate

    def program(self):
        r = self.rng
        pos = 0
        out = []
        for _ in range(r.randint(2, 7)):
            k = r.random()
            if k < 0.3:
                out.append(self.ink(1, 6))
            elif k < 0.45:
                out.append(".")
            elif k < 0.65:
                to = r.randrange(self.tape)
                out.append(self.move_to(pos, to))
                pos = to
            elif k < 0.95:
                out.append(self.ink(1, 4) + self.loop(pos, 1, 4))
            else:
                out.append(r.choice(COMMENT))
        # show what is on the tape around the pointer
        out.append(".")
        if pos + 1 < self.tape and r.random() < 0.7:
            out.append(">.")
        return "".join(out)


BF_FIXED = [
    # (program, note) -- hand-picked shapes; outcomes are computed by TLC
    ("", "empty program"),
    (".", "output of a fresh cell"),
    ("-.", "0 - 1 wraps to 255"),
    ("-+.", "255 + 1 wraps to 0"),
    ("++[->+++<]>.", "multiplication"),
    ("+++[->++[->++<]<]>>.", "nested loops"),
    ("[.]", "loop skipped on a zero cell"),
    ("[[[.]]]+.", "nested skipped loops"),
    ("+[-]+[-]+.", "loops in sequence"),
    ("+[>+[-]<-].>.", "loop inside loop"),
    ("++>+++<[->[->+>+<<]>>[-<<+>>]<<<]>.>.>.", "multiply with copy"),
    ("+[]", "silent endless loop"),
    ("+[.]", "endless loop with output"),
    ("+.[>+.<]", "endless loop, output prefix then period"),
    ("+[>+<-]>.", "move"),
    (">>>>>>>.", "walk to the last cell of an 8-cell tape"),
    ("-[-]", "255 iterations"),
    ("-[-.]", "255 iterations with output"),
    ("+[+]", "count up to the wrap"),
    ("+[>-[+]<-]", "nested wrap"),
    ("a+b.c[d-e]f.", "comments are skipped"),
    ("+[[-]].", "loop ended by the inner loop"),
    ("++[>++[>++<-]<-]>>.", "2*2*2"),
    ("+>++>+++<<[.>]", "scan right until a zero cell"),
]


# ------------------------------------------------------------------ Whitespace
S, T, L = 32, 9, 10
WS_PRE = {"push": [S, S], "dup": [S, L, S], "copy": [S, T, S], "swap": [S, L, T], "drop": [S, L, L], "slide": [S, T, L],
          "add": [T, S, S, S], "sub": [T, S, S, T], "mul": [T, S, S, L], "div": [T, S, T, S], "mod": [T, S, T, T],
          "store": [T, T, S], "retrieve": [T, T, T], "mark": [L, S, S], "call": [L, S, T], "jump": [L, S, L], "jz": [L, T, S],
          "jn": [L, T, T], "ret": [L, T, L], "end": [L, L, L], "outchar": [T, L, S, S], "outnum": [T, L, S, T],
          "readchar": [T, L, T, S], "readnum": [T, L, T, T]}
WS_NUM = ("push", "copy", "slide")
WS_LABEL = ("mark", "call", "jump", "jz", "jn")


def ws_number(v):
    return [T if v < 0 else S] + [T if c == "1" else S for c in (bin(abs(v))[2:] if v else "")] + [L]


def ws_label(name):
    """A label given as a string over 's' / 't'."""
    return [T if c == "t" else S for c in name] + [L]


def ws_tokens(ins):
    """[(op,) | (op, number) | (op, label string)] -> character codes (the concrete syntax of the tutorial)."""
    out = []
    for x in ins:
        out += WS_PRE[x[0]]
        if x[0] in WS_NUM:
            out += ws_number(x[1])
        elif x[0] in WS_LABEL:
            out += ws_label(x[1])
    return out


def ws_text(toks, rng=None):
    """Tokens as program text; with rng, comment characters are sprinkled in (everything but S / T / L is a comment)."""
    out = []
    for c in toks:
        if rng is not None and rng.random() < 0.15:
            out.append(rng.choice("abc.;x"))
        out.append(chr(c))
    return "".join(out)


# micro programs: (name, instructions, inputs, fuel, status, text) -- outcomes derived by hand from the tutorial
WS_MICRO = [
    ("hello", [("push", 72), ("outchar",), ("push", 105), ("outchar",), ("end",)], [], 50, "ok", "Hi"),
    ("sub-order", [("push", 7), ("push", 2), ("sub",), ("outnum",), ("end",)], [], 50, "ok", "5"),
    ("div-floor", [("push", 7), ("push", 2), ("div",), ("outnum",), ("push", -7), ("push", 2), ("div",), ("outnum",), ("end",)], [], 50, "ok", "3-4"),
    ("mod-floor", [("push", -7), ("push", 2), ("mod",), ("outnum",), ("push", 7), ("push", -2), ("mod",), ("outnum",), ("end",)], [], 50, "ok", "1-1"),
    ("dup-mul", [("push", 3), ("dup",), ("mul",), ("outnum",), ("end",)], [], 50, "ok", "9"),
    ("add-neg", [("push", -5), ("push", 3), ("add",), ("outnum",), ("end",)], [], 50, "ok", "-2"),
    ("swap", [("push", 1), ("push", 2), ("swap",), ("outnum",), ("outnum",), ("end",)], [], 50, "ok", "12"),
    ("drop", [("push", 1), ("push", 2), ("drop",), ("outnum",), ("end",)], [], 50, "ok", "1"),
    ("copy", [("push", 5), ("push", 6), ("copy", 1), ("outnum",), ("outnum",), ("outnum",), ("end",)], [], 50, "ok", "565"),
    ("slide", [("push", 1), ("push", 2), ("push", 3), ("slide", 2), ("outnum",), ("end",)], [], 50, "ok", "3"),
    ("heap", [("push", 10), ("push", 42), ("store",), ("push", 10), ("retrieve",), ("outnum",), ("end",)], [], 50, "ok", "42"),
    ("countdown", [("push", 3), ("mark", "s"), ("dup",), ("outnum",), ("push", 1), ("sub",), ("dup",), ("jz", "t"), ("jump", "s"),
                   ("mark", "t"), ("drop",), ("end",)], [], 200, "ok", "321"),
    ("call-ret", [("call", "st"), ("push", 2), ("outnum",), ("end",), ("mark", "st"), ("push", 1), ("outnum",), ("ret",)], [], 50, "ok", "12"),
    ("jn", [("push", -1), ("jn", ""), ("push", 0), ("outnum",), ("mark", ""), ("push", 5), ("outnum",), ("end",)], [], 50, "ok", "5"),
    ("jn-not", [("push", 0), ("jn", "s"), ("push", 4), ("outnum",), ("mark", "s"), ("push", 5), ("outnum",), ("end",)], [], 50, "ok", "45"),
    ("read", [("push", 0), ("readchar",), ("push", 0), ("retrieve",), ("outchar",), ("push", 1), ("readnum",), ("push", 1), ("retrieve",),
              ("outnum",), ("end",)], [65, 7], 50, "ok", "A7"),
    ("underflow", [("add",), ("end",)], [], 50, "error", ""),
    ("div-zero", [("push", 1), ("push", 0), ("div",), ("end",)], [], 50, "error", ""),
    ("mod-zero", [("push", 1), ("push", 0), ("mod",), ("end",)], [], 50, "error", ""),
    ("ret-empty", [("ret",)], [], 50, "error", ""),
    ("no-end", [("push", 1)], [], 50, "error", ""),
    ("retrieve-unset", [("push", 3), ("retrieve",), ("end",)], [], 50, "error", ""),
    ("read-eof", [("push", 0), ("readchar",), ("end",)], [], 50, "error", ""),
    ("copy-beyond", [("push", 1), ("copy", 1), ("end",)], [], 50, "error", ""),
    ("slide-beyond", [("push", 1), ("slide", 1), ("end",)], [], 50, "error", ""),
    ("forever", [("mark", "s"), ("jump", "s")], [], 40, "fuel", ""),
    ("too-big", [("push", 1 << 20), ("dup",), ("mul",), ("end",)], [], 50, "outofmodel", ""),
    ("sum-big", [("push", (1 << 24) - 1)] + [("dup",), ("add",)] * 7 + [("end",)], [], 80, "outofmodel", ""),
]


def ws_micro_cases():
    return [{"id": n, "toks": ws_tokens(ins), "inp": inp, "fuel": fuel, "status": st, "text": [ord(c) for c in text]}
            for n, ins, inp, fuel, st, text in WS_MICRO]


def ws_subset_program(rng):
    """A random program over the instructions that ppci.lang.ws implements today (push / add / outchar / end); every
    outchar is followed by a fresh push so that the printed value does not depend on whether outchar pops."""
    ins = []
    depth = 0
    for _ in range(rng.randint(1, 6)):
        ins.append(("push", rng.choice([rng.randint(32, 126), rng.randint(0, 60), rng.randint(0, 9)])))
        depth += 1
        while depth >= 2 and rng.random() < 0.5:
            ins.append(("add",))
            depth -= 1
        if rng.random() < 0.6:
            ins.append(("outchar",))
            depth -= 1
            if rng.random() < 0.5:
                break
    ins.append(("end",))
    return ins


# one probe per instruction: a small program in which the instruction decides the output
WS_PROBES = {
    "push": [("push", 65), ("outchar",), ("end",)],
    "push-neg": [("push", -3), ("push", 70), ("add",), ("outchar",), ("end",)],
    "add": [("push", 60), ("push", 6), ("add",), ("outchar",), ("end",)],
    "outchar-pops": [("push", 72), ("push", 73), ("outchar",), ("outchar",), ("end",)],
    "sub": [("push", 70), ("push", 2), ("sub",), ("outchar",), ("end",)],
    "mul": [("push", 8), ("push", 9), ("mul",), ("outchar",), ("end",)],
    "div": [("push", 200), ("push", 3), ("div",), ("outchar",), ("end",)],
    "mod": [("push", 200), ("push", 101), ("mod",), ("outchar",), ("end",)],
    "outnum": [("push", 42), ("outnum",), ("end",)],
    "dup": [("push", 66), ("dup",), ("outchar",), ("outchar",), ("end",)],
    "copy": [("push", 67), ("push", 1), ("copy", 1), ("outchar",), ("end",)],
    "swap": [("push", 68), ("push", 1), ("swap",), ("outchar",), ("end",)],
    "drop": [("push", 69), ("push", 1), ("drop",), ("outchar",), ("end",)],
    "slide": [("push", 1), ("push", 70), ("slide", 1), ("outchar",), ("end",)],
    "store-retrieve": [("push", 1), ("push", 71), ("store",), ("push", 1), ("retrieve",), ("outchar",), ("end",)],
    "mark-jump": [("jump", "s"), ("push", 72), ("outchar",), ("mark", "s"), ("push", 73), ("outchar",), ("end",)],
    "jz": [("push", 0), ("jz", "s"), ("push", 72), ("outchar",), ("mark", "s"), ("push", 74), ("outchar",), ("end",)],
    "jn": [("push", -1), ("jn", "s"), ("push", 72), ("outchar",), ("mark", "s"), ("push", 75), ("outchar",), ("end",)],
    "call-ret": [("call", "s"), ("end",), ("mark", "s"), ("push", 76), ("outchar",), ("ret",)],
    "readchar": [("push", 0), ("readchar",), ("push", 0), ("retrieve",), ("outchar",), ("end",)],
    "readnum": [("push", 0), ("readnum",), ("push", 0), ("retrieve",), ("outnum",), ("end",)],
}

# Brainfuck micro programs for BF_MC: (program, inputs, tape, fuel, status, output) -- outcomes derived by hand
BF_MICRO = [
    ("", [], 3, 100, "ok", []),
    (".", [], 3, 100, "ok", [0]),
    ("-.", [], 3, 100, "ok", [255]),
    ("-+.", [], 3, 100, "ok", [0]),
    ("++[->+++<]>.", [], 3, 200, "ok", [6]),
    ("+++[->++[->++<]<]>>.", [], 3, 400, "ok", [12]),
    ("[.]", [], 3, 100, "ok", []),
    (",.,.", [7, 9], 3, 100, "ok", [7, 9]),
    (",", [], 3, 100, "undefined", []),
    ("<", [], 3, 100, "undefined", []),
    (">>>", [], 3, 100, "undefined", []),
    (">>.", [], 3, 100, "ok", [0]),
    ("+[]", [], 3, 100, "diverges", []),
    ("+[.]", [], 3, 100, "diverges", [1, 1]),
    ("+]", [], 3, 100, "rejected", []),
    ("[", [], 3, 100, "rejected", []),
    ("][", [], 3, 100, "rejected", []),
    ("-[-]", [], 3, 2000, "ok", []),
    ("+[>+]", [], 3, 100, "undefined", []),
    ("+[>+<+]", [], 3, 100, "fuel", []),
    ("a+b.c", [], 3, 100, "ok", [1]),
    ("++>+++<[->[->+>+<<]>>[-<<+>>]<<<]>>.", [], 4, 2000, "ok", [6]),
]


def bf_micro_cases():
    return [{"id": s, "src": [ord(c) for c in s], "inp": inp, "tape": tape, "fuel": fuel, "status": st, "out": out}
            for s, inp, tape, fuel, st, out in BF_MICRO]
