"""C30 driver: compile a list of jobs in THIS process (run as a fresh subprocess per history
segment, with the PYTHONHASHSEED the parent chose) and print one JSON line with the digests.

job = {"key": str, "kind": "c"|"ir", "src": C text | [irgen seed, types], "march": str, "level": str}
result = {"key", "ok": bool, "exc": str,
          "ir": sha256 of the projected IR module handed to the back-end (harness/project_ir.py: values are
                numbered, so the process-global counters ppci puts into value NAMES do not matter),
          "isel": {function: sha256 of the instruction list handed to the allocator (instruction classes,
                   jump structure and operands as first-appearance numbers, not names)},
          "alloc": {function: [one short hash per allocator work-list step, ..., hash of the colouring]},
          "obj": sha256 of the saved object file text,
          "img": sha256 of the saved result of api.link([obj], partial_link=True)}
No verdict is computed here.
"""
import hashlib
import io
import json
import os
import random
import sys


def _h(b):
    return hashlib.sha256(b if isinstance(b, bytes) else b.encode()).hexdigest()[:24]


def compile_job(job, want_steps=True):
    import logging

    logging.disable(logging.CRITICAL)
    from ppci import api

    from harness import irgen, regalloc_trace

    out = {"key": job["key"], "ok": True, "exc": "", "ir": "", "isel": {}, "obj": "", "img": "", "alloc": {}}
    recs = []
    try:
        if job["kind"] == "c":
            m = api.c_to_ir(io.StringIO(job["src"]), job["march"])
        else:
            m, _ = irgen.gen_module(random.Random(job["src"][0]), types=job["src"][1])
        if job["level"] != "0":
            api.optimize(m, level=job["level"])
        try:
            from harness import project_ir

            pm = project_ir.project_module(m, 8)
            for fn in pm["funcs"]:
                for b in fn["blocks"]:
                    b["name"] = ""          # block names carry counters too; references are by index
            out["ir"] = _h(json.dumps(pm, sort_keys=True))
        except Exception as e:
            out["ir"] = "projection-exc:" + type(e).__name__
        if want_steps:
            with regalloc_trace.recording(recs.append, steps=True):
                obj = api.ir_to_object([m], job["march"])
        else:
            obj = api.ir_to_object([m], job["march"])
        f = io.StringIO()
        obj.save(f)
        out["obj"] = _h(f.getvalue())
        try:
            img = api.link([obj], partial_link=True)
            f = io.StringIO()
            img.save(f)
            out["img"] = _h(f.getvalue())
        except Exception as e:  # linking trouble is not C30's business
            out["img"] = "link-exc:" + type(e).__name__
    except Exception as e:  # code generation trouble is C29's business; the outcome must still be the same
        out["ok"] = False
        out["exc"] = type(e).__name__
    for r in recs:
        steps = []
        for rnd in r["steps"]:
            for ev in rnd:
                steps.append(_h(json.dumps([ev["ev"], ev["post"]], sort_keys=True))[:10])
        steps.append("colour:" + _h(json.dumps(r["colour"]))[:10])
        name = r["fn"]
        while name in out["alloc"]:
            name += "'"
        out["alloc"][name] = steps
        first = r["rounds"][0] if r["rounds"] else []
        out["isel"][name] = _h(json.dumps([[e.get("k", ""), e["u"], e["d"], e["c"], e["j"], e["m"]] for e in first]))
    return out


def main():
    jobs = json.load(open(sys.argv[1]))
    res = []
    for job in jobs["jobs"]:
        res.append(compile_job(job, jobs.get("steps", True)))
    json.dump({"hashseed": os.environ.get("PYTHONHASHSEED", ""), "results": res}, open(sys.argv[2], "w"))


if __name__ == "__main__":
    sys.path.insert(0, os.path.dirname(os.path.dirname(os.path.abspath(__file__))))
    main()
