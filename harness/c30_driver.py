"""C30 driver: compile a list of jobs in THIS process (run as a fresh subprocess per history
segment, with the PYTHONHASHSEED the parent chose) and print one JSON line with the digests.

job = {"key": str, "kind": "c"|"ir"|"asm", "src": C text | [irgen seed, types] | assembly text, "march": str,
       "level": str}
The job file also carries "churn": a seed for heap churn — before the first compile (and a little between
compiles) many objects of assorted sizes are allocated and freed in a seeded random order, so that the
ADDRESS order of later objects differs from process to process (PYTHONHASHSEED alone does not scramble
id()-based hashes, which is what sets of ppci objects iterate by).
result = {"key", "ok": bool, "exc": str,
          "ir": sha256 of the projected IR module handed to the back-end (harness/project_ir.py: values are
                numbered, so the process-global counters ppci puts into value NAMES do not matter),
          "isel": {function: sha256 of the instruction list handed to the allocator (instruction classes,
                   jump structure and operands as first-appearance numbers, not names)},
          "alloc": {function: [one short hash per allocator work-list step, ..., hash of the colouring]},
          "obj": sha256 of the saved object file text,
          "img": sha256 of the saved result of api.link([obj], partial_link=True)}
No verdict is computed here.
"""
import hashlib
import io
import json
import os
import random
import sys


def _h(b):
    return hashlib.sha256(b if isinstance(b, bytes) else b.encode()).hexdigest()[:24]


_keep = []


class _Plain:
    """Instances with a __dict__, like ppci's Register / Instruction / graph node objects."""

    def __init__(self, n):
        self.name = "x"
        self.num = n
        if n % 3:
            self.color = n


class _Slots2:
    __slots__ = ("a", "b")


class _Slots5:
    __slots__ = ("a", "b", "c", "d", "e")


def churn(seed, rounds=250000):
    """Scramble the allocator's free lists: allocate objects of assorted sizes, free a random subset."""
    rng = random.Random(seed)
    pool = []
    for _ in range(rounds):
        c = rng.random()
        if c < 0.4:      # the size classes ppci's own small objects live in
            k = rng.randrange(4)
            pool.append(_Plain(len(pool)) if k < 2 else _Slots2() if k == 2 else _Slots5())
            continue
        c = rng.random()
        if c < 0.35:
            pool.append([None] * rng.randrange(1, 40))
        elif c < 0.55:
            pool.append({k: object() for k in range(rng.randrange(1, 12))})
        elif c < 0.75:
            pool.append(bytearray(rng.randrange(8, 600)))
        elif c < 0.9:
            pool.append(tuple(object() for _ in range(rng.randrange(1, 9))))
        else:
            pool.append(set(range(rng.randrange(1, 30))))
        if pool and rng.random() < 0.45:
            del pool[rng.randrange(len(pool))]
    # free the rest in a random order, keeping a random subset alive: the free lists of every size class
    # now hand out addresses in an order that depends on the seed
    rng.shuffle(pool)
    keep = [o for o in pool if rng.random() < 0.3]
    while pool:
        pool.pop()
    _keep.append(keep)


def compile_job(job, want_steps=True):
    import logging

    logging.disable(logging.CRITICAL)
    from ppci import api

    from harness import irgen, regalloc_trace

    out = {"key": job["key"], "ok": True, "exc": "", "ir": "", "isel": {}, "obj": "", "img": "", "alloc": {}}
    recs = []
    if job["kind"] == "asm":
        try:
            obj = api.asm(io.StringIO(job["src"]), job["march"])
            f = io.StringIO()
            obj.save(f)
            out["obj"] = _h(f.getvalue())
            out["img"] = out["obj"]
        except Exception as e:
            out["ok"] = False
            out["exc"] = type(e).__name__
        return out
    try:
        if job["kind"] == "c":
            m = api.c_to_ir(io.StringIO(job["src"]), job["march"])
        else:
            m, _ = irgen.gen_module(random.Random(job["src"][0]), types=job["src"][1])
        if job["level"] != "0":
            api.optimize(m, level=job["level"])
        try:
            from harness import project_ir

            pm = project_ir.project_module(m, 8)
            for fn in pm["funcs"]:
                for b in fn["blocks"]:
                    b["name"] = ""          # block names carry counters too; references are by index
            out["ir"] = _h(json.dumps(pm, sort_keys=True))
        except Exception as e:
            out["ir"] = "projection-exc:" + type(e).__name__
        if want_steps:
            with regalloc_trace.recording(recs.append, steps=True):
                obj = api.ir_to_object([m], job["march"])
        else:
            obj = api.ir_to_object([m], job["march"])
        f = io.StringIO()
        obj.save(f)
        out["obj"] = _h(f.getvalue())
        try:
            img = api.link([obj], partial_link=True)
            f = io.StringIO()
            img.save(f)
            out["img"] = _h(f.getvalue())
        except Exception as e:  # linking trouble is not C30's business
            out["img"] = "link-exc:" + type(e).__name__
    except Exception as e:  # code generation trouble is C29's business; the outcome must still be the same
        out["ok"] = False
        out["exc"] = type(e).__name__
    for r in recs:
        steps = []
        for rnd in r["steps"]:
            for ev in rnd:
                steps.append(_h(json.dumps([ev["ev"], ev["post"]], sort_keys=True))[:10])
        steps.append("colour:" + _h(json.dumps(r["colour"]))[:10])
        name = r["fn"]
        while name in out["alloc"]:
            name += "'"
        out["alloc"][name] = steps
        first = r["rounds"][0] if r["rounds"] else []
        out["isel"][name] = _h(json.dumps([[e.get("k", ""), e["u"], e["d"], e["c"], e["j"], e["m"]] for e in first]))
    return out


def main():
    jobs = json.load(open(sys.argv[1]))
    res = []
    seed = jobs.get("churn")
    if seed is not None:
        import ppci.api  # noqa: F401  (first, so that the import does not use up the scrambled free lists)

        churn(seed)
    for n, job in enumerate(jobs["jobs"]):
        res.append(compile_job(job, jobs.get("steps", True)))
        if seed is not None:
            churn(seed * 1000 + n, rounds=20000)
    json.dump({"hashseed": os.environ.get("PYTHONHASHSEED", ""), "results": res}, open(sys.argv[2], "w"))


if __name__ == "__main__":
    sys.path.insert(0, os.path.dirname(os.path.dirname(os.path.abspath(__file__))))
    main()
