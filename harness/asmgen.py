"""Instruction-instance generator and observers for the RISC-V engines (C08, C10, C07).

Python here only (a) enumerates instances of ppci's instruction classes (registers x boundary
immediates x labels; the boundary values come from TLC, idiom G: tla/RV32_Gen.tla), (b) drives the
real code -- Instruction.encode(), str(instruction), Relocation.apply, the assembler, the linker --
and records what it did, (c) tokenises the printed text lexically (register name -> number is the
only interpretation).  The verdicts are TLC's (tla/RV32_Eval.tla)."""
import io
import json
import os
import re

from . import enc
from . import tlc as tlcmod

CFG = "INIT Init\nNEXT Next\nCHECK_DEADLOCK FALSE\n"
LABEL = "L_t"
# addresses used for the place of the instruction in direct relocation application
PLACE = 0x00400000


# ---------------------------------------------------------------- idioms M and G
LAWS = {
    "h16": ["LawEncodeDecode", "LawExpand"],
    "w32": ["LawEncodeDecode"],
    "ins": ["LawDecodeEncode", "LawFieldRange"],
    "hilo": ["LawHiLo"],
    "exe": ["LawDecodeEncode", "LawWrites", "LawReads", "LawPc", "LawLink", "LawBranch", "LawDiv", "LawMem"],
    "mul": ["LawMul"],
}


def _read_table(out):
    try:
        with open(out) as f:
            rows = json.load(f)
    except Exception as e:  # TLC did not write the table
        raise tlcmod.MachineryError("RV32_Gen wrote no table: %s" % e)
    os.unlink(out)
    return {r["mn"]: r for r in rows}


def gen_table(ctx):
    """Run tla/RV32_GenRun.tla; {surface mnemonic: row} with the labelled boundary values."""
    out = os.path.join(ctx.workdir, "rv32_gen.json")
    ctx.tlc("RV32_GenRun", CFG, label="G: boundary product from FieldRange", env={"OUT_FILE": out}, workers=2,
            coverage=False)
    return _read_table(out)


def laws_and_table(ctx, fams, deep, workers=8):
    """Idiom M (laws of RV32.tla on the families `fams`) + idiom G (boundary table) in one TLC run.
    A failing law is a defect of the specification itself: machinery failure, never a violation."""
    out = os.path.join(ctx.workdir, "rv32_gen.json")
    invs = []
    for f in fams:
        for inv in LAWS[f]:
            if inv not in invs:
                invs.append(inv)
    cfg = "CONSTANT Deep = %s\nCONSTANT Fams = {%s}\n" % ("TRUE" if deep else "FALSE", ", ".join('"%s"' % f for f in fams))
    cfg += CFG + "".join("INVARIANT %s\n" % x for x in invs)
    res = ctx.tlc("RV32_MC", cfg, label="M: laws of RV32.tla on %s (+ G: boundary table)" % "/".join(fams),
                  env={"OUT_FILE": out}, workers=workers)
    for e in res.errors:
        raise tlcmod.MachineryError("a law of RV32.tla fails in the specification itself: %s\n%s" % (e, e.text[:1500]))
    return _read_table(out)


# ---------------------------------------------------------------- lexer
_TOK = re.compile(r"\s*(?:(%[A-Za-z_][A-Za-z_0-9]*)|([A-Za-z_][A-Za-z_0-9.]*)|(-?\s*(?:0x[0-9a-fA-F]+|\d+))|(.))")
_REG = re.compile(r"^x(\d+)$")


def tokenize(text):
    """'sw x5, 12(x6)' -> ('sw', [['r',5,''], ['i',12,''], ['r',6,'']]).  Purely lexical."""
    text = text.strip()
    m = re.match(r"^([A-Za-z_.][A-Za-z_0-9.]*)", text)
    if not m:
        return None
    mn = m.group(1)
    rest = text[m.end():]
    ops = []
    pos = 0
    while pos < len(rest):
        t = _TOK.match(rest, pos)
        if not t:
            break
        pos = t.end()
        if t.group(1):
            ops.append(["m", 0, t.group(1)[1:]])
        elif t.group(2):
            w = t.group(2)
            r = _REG.match(w)
            if r and int(r.group(1)) < 32:
                ops.append(["r", int(r.group(1)), ""])
            elif w.startswith("L_"):
                ops.append(["l", 0, w])
            else:
                ops.append(["c", 0, w])
        elif t.group(3):
            v = int(t.group(3).replace(" ", ""), 0)
            if abs(v) >= 2 ** 30:
                return None  # not representable for TLC; such instances are not generated
            ops.append(["i", v, ""])
        else:
            ch = t.group(4)
            if ch in ",() \t":
                continue
            ops.append(["x", 0, ch])  # unknown glyph: outside the modelled syntax
    return mn, ops


# ---------------------------------------------------------------- classes
def _riscv():
    from ppci.arch.riscv import instructions as rv, rvc_instructions as rvc
    return rv, rvc


SKIP_MNEMONICS = {"dcd", ".align", ".section"}  # data / section directives, not instructions


def isa_classes(which):
    """[(name, cls)] concrete instruction classes of ppci.arch.riscv (which = 'riscv' | 'rvc')."""
    from ppci.arch.generic_instructions import ArtificialInstruction
    rv, rvc = _riscv()
    src = rv.isa if which == "riscv" else rvc.rvcisa
    out = []
    seen = set()
    count = {}
    for c in src.instructions:
        if getattr(c, "syntax", None) is None or id(c) in seen:
            continue
        seen.add(id(c))
        if issubclass(c, ArtificialInstruction):
            continue
        k = count.get(c.__name__, 0)
        count[c.__name__] = k + 1
        out.append((c.__name__ if k == 0 else "%s#%d" % (c.__name__, k + 1), c))
    return out


def pseudo_classes(which):
    """Macro instructions (ArtificialInstruction with a syntax): registered ones of the base isa and
    the unregistered rvc selection macros (Andv, Addiv, ...)."""
    from ppci.arch.generic_instructions import ArtificialInstruction
    rv, rvc = _riscv()
    mod = rv if which == "riscv" else rvc
    out = []
    for n, c in sorted(vars(mod).items()):
        if isinstance(c, type) and issubclass(c, ArtificialInstruction) and getattr(c, "syntax", None) is not None \
                and c.__module__ == mod.__name__ and n not in ("Align", "Section"):
            out.append((n, c))
    return out


def slots(cls):
    """Operand slots in constructor order: [(name, kind, cls)], kind in r c i l."""
    from ppci.arch.riscv.registers import RiscvRegister, RiscvCsrRegister
    res = []
    for a in cls.syntax.formal_arguments:
        c = a._cls
        if isinstance(c, type) and issubclass(c, RiscvRegister):
            k = "r"
        elif isinstance(c, type) and issubclass(c, RiscvCsrRegister):
            k = "c"
        elif c is int:
            k = "i"
        elif c is str:
            k = "l"
        else:
            k = "?"
        res.append((a._name, k, c))
    return res


def build(cls, values):
    """Instantiate cls with {slot name: value}."""
    args = [values[n] for n, _, _ in slots(cls)]
    return cls(*args)


def xreg(n):
    from ppci.arch.riscv.registers import RiscvRegister
    for r in RiscvRegister.registers:
        if r.num == n:
            return r
    raise KeyError(n)


def csr_regs():
    from ppci.arch.riscv.registers import RiscvCsrRegister
    return list(RiscvCsrRegister.registers)


def surface_mnemonic(cls):
    """First word of the printed form of a dummy instance."""
    vals = {}
    for n, k, c in slots(cls):
        vals[n] = xreg(10) if k == "r" else csr_regs()[0] if k == "c" else 0 if k == "i" else LABEL
    try:
        t = tokenize(str(build(cls, vals)))
        return t[0] if t else None
    except Exception:
        return None


# ---------------------------------------------------------------- observers
def _out_ok(b):
    return {"ok": True, "exc": "", "bytes": list(b)}


def _out_err(e):
    return {"ok": False, "exc": type(e).__name__, "bytes": []}


def observe_encode(ins, sym=None, place=None):
    """encode() (+ the instruction's own relocation applied for symbol value sym at address place)."""
    try:
        data = bytearray(ins.encode())
        rel = ins.relocations()
        if rel:
            if sym is None:
                return _out_ok(data)
            if len(rel) != 1:
                return {"ok": False, "exc": "relocations=%d" % len(rel), "bytes": []}
            r = rel[0]
            size = r.size()
            piece = bytearray(data[r.offset:r.offset + size])
            if len(piece) < size:  # 2-byte instruction patched through a 4-byte window
                piece = piece + bytearray(size - len(piece))
            new = r.apply(sym, piece, place + r.offset)
            data[r.offset:r.offset + size] = new
            data = data[:len(ins.encode())]
        return _out_ok(data)
    except Exception as e:  # the outcome class is the observation
        return _out_err(e)


class AsmRig:
    """One Architecture per isa, re-used; assembles single lines / links against a placed symbol."""

    def __init__(self):
        self.arch = {}

    def get(self, which):
        if which not in self.arch:
            from ppci.api import get_arch
            self.arch[which] = get_arch("riscv:rvc" if which == "rvc" else "riscv")
        return self.arch[which]

    def assemble(self, which, lines, section="code"):
        from ppci.binutils.objectfile import ObjectFile
        from ppci.binutils.outstream import BinaryOutputStream
        from ppci.common import DiagnosticsManager
        arch = self.get(which)
        obj = ObjectFile(arch)
        ostream = BinaryOutputStream(obj)
        ostream.select_section(section)
        diag = DiagnosticsManager()
        a = arch.assembler
        a.prepare()
        for ln in lines:
            a.assemble(ln, ostream, diag)
        a.flush()
        return obj

    def observe_asm(self, which, text):
        """Bytes the assembler emits for one printed line (no symbols)."""
        try:
            obj = self.assemble(which, [text])
            return _out_ok(bytes(obj.get_section("code").data))
        except Exception as e:
            return _out_err(e)

    def observe_link(self, which, text, place, sym):
        """Assemble `text` (refers to LABEL) at address `place`, LABEL at address `sym`, link with the
        real linker; returns the instruction's bytes."""
        from ppci.api import link
        from ppci.binutils.layout import Layout
        try:
            pad_p = place % 4
            pad_s = sym % 4
            o1 = self.assemble(which, ["global " + LABEL] + ["db 0"] * pad_p + [text])
            o2 = self.assemble(which, ["global " + LABEL] + ["db 0"] * pad_s + [LABEL + ":", "db 0", "db 0", "db 0", "db 0"],
                               section="tgt")
            n = len(o1.get_section("code").data) - pad_p
            lay = Layout.load(io.StringIO(
                "MEMORY code LOCATION=0x%x SIZE=0x100 { SECTION(code) }\nMEMORY tgt LOCATION=0x%x SIZE=0x100 { SECTION(tgt) }\n"
                % (place - pad_p, sym - pad_s)))
            o = link([o1, o2], lay)
            sec = o.get_section("code")
            if sec.address != place - pad_p or o.get_section("tgt").address != sym - pad_s:
                return {"ok": False, "exc": "placement", "bytes": []}
            return _out_ok(bytes(sec.data[pad_p:pad_p + n]))
        except Exception as e:
            return _out_err(e)


def record(prop, which, cname, path, text, out, sym=0, place=0, extra=None, suffix=""):
    """One 'enc' record for RV32_Eval (None when the text cannot be tokenised for TLC)."""
    t = tokenize(text)
    if t is None:
        return None
    mn, ops = t
    d = sym - place
    for o in ops:
        if o[0] == "l":
            o[1] = d if abs(d) < 2 ** 30 else 0
    tag = (extra or {}).get("tag", "")
    r = {"t": "enc", "key": "%s:%s:%s:%s:%s:%s%s" % (prop, which, cname, path, tag, text, suffix), "mn": mn, "ops": ops,
         "sym": enc.limbs(sym, 4), "pc": enc.limbs(place, 4), "out": out, "text": text, "cls": cname}
    if extra:
        r.update(extra)
    return r


# ---------------------------------------------------------------- instance enumeration
ADDRESSES = [0, 2, 0x7FE, 0x800, 0x802, 0xFFE, 0x1000, 0x12345678, 0x00400800, 0x7FFFF7FE, 0x7FFFF800, 0x7FFFFFFE,
             0x801, 0x12345679]


def _defaults(sl, same):
    vals = {}
    pool = [10, 11, 12, 13, 14]
    k = 0
    for n, kind, _ in sl:
        if n in vals:
            continue
        if kind == "r":
            vals[n] = xreg(10 if same else pool[k % len(pool)])
            k += 1
        elif kind == "c":
            vals[n] = csr_regs()[0]
        elif kind == "i":
            vals[n] = 0
        else:
            vals[n] = LABEL
    return vals


def enumerate_instances(cls, table, rng, mode, thorough=False):
    """[{values, sym, place, tag}] for one class.
    mode 'valid':    all registers per slot (+ diagonal), operand values TLC marked inside the range
    mode 'boundary': the whole labelled boundary product for immediates / displacements
    The `inside` flag is used only to choose inputs, never to judge."""
    sl = slots(cls)
    if any(k == "?" for _, k, _ in sl):
        return []
    mn = surface_mnemonic(cls)
    row = table.get(mn)
    names = []
    for n, k, _ in sl:
        if n not in [x for x, _ in names]:
            names.append((n, k))
    ints = [n for n, k in names if k == "i"]
    labs = [n for n, k in names if k == "l"]
    regs = [n for n, k in names if k == "r"]
    csrs = [n for n, k in names if k == "c"]
    vals_row = row["vals"] if row and row["kind"] != "n" else []
    inside = [v for v in vals_row if v["inside"]]
    if ints:
        good = next((v["v"] for v in inside if v["label"] == "a"), inside[0]["v"] if inside else 0)
        if row and row["kind"] != "n" and 4 % row["align"] == 0 and 4 < (1 << (row["bits"] - 1)):
            good = 4  # word-aligned default for the register sweeps
    else:
        good = 0
    # branches / jumps: the row describes the displacement (alignment 2); otherwise the symbol is an address
    pcrel = bool(labs) and not ints and row is not None and row["kind"] == "s" and row["align"] == 2
    out = []
    cur = {"same": False}

    def add(vals, tag, sym=None, swept=None):
        place = PLACE
        if labs:
            if sym is None:
                sym = PLACE + (next((v["v"] for v in inside if v["label"] == "a"), 0) if pcrel else 0x800)
        out.append({"values": dict(vals), "sym": sym if labs else 0, "place": place if labs else 0, "tag": tag,
                    "swept": swept, "same": cur["same"]})

    for same in (False, True):
        cur["same"] = same
        base = _defaults(sl, same)
        for n in ints:
            base[n] = good
        if not same or len(regs) > 1:
            # immediates
            for n in ints:
                for v in (vals_row if mode == "boundary" else inside):
                    x = dict(base)
                    x[n] = v["v"]
                    add(x, "%s:%s:%s:m4=%d" % (n, v["cat"], v["label"], v["v"] % 4))
                if thorough and row and row["kind"] != "n":
                    lo = -(1 << (row["bits"] - 1)) if row["kind"] in "sp" else 0
                    hi = (1 << (row["bits"] - 1)) if row["kind"] == "s" else (1 << row["bits"])
                    for _ in range(12):
                        x = dict(base)
                        x[n] = rng.randrange(lo, hi) // row["align"] * row["align"]
                        if x[n] == 0 and row["nz"]:
                            continue
                        add(x, "%s:in:random:m4=%d" % (n, x[n] % 4))
            # displacements / addresses
            for n in labs:
                if pcrel:
                    for v in (vals_row if mode == "boundary" else inside):
                        add(base, "%s:%s:%s" % (n, v["cat"], v["label"]), sym=PLACE + v["v"])
                else:
                    for a in ADDRESSES:
                        add(base, "%s:addr:%s" % (n, "odd" if a % 2 else "even"), sym=a)
            for n in csrs:
                for c in csr_regs():
                    x = dict(base)
                    x[n] = c
                    add(x, "%s:csr" % n)
    cur["same"] = False
    base = _defaults(sl, False)
    for n in ints:
        base[n] = good
    # every register in every register slot, the others at distinct defaults; then the diagonal
    for n in regs:
        for r in range(32):
            x = dict(base)
            x[n] = xreg(r)
            add(x, "%s:sweep" % n, swept=r)
    if len(regs) > 1:
        for r in range(32):
            x = dict(base)
            for n in regs:
                x[n] = xreg(r)
            add(x, "diag", swept=r)
    if not regs and not ints and not labs and not csrs:
        add(base, "plain")
    if thorough:
        for _ in range(24):
            x = dict(base)
            for n in regs:
                x[n] = xreg(rng.randrange(32))
            if ints and inside:
                x[ints[0]] = rng.choice(inside)["v"]
            nums = {x[n].num for n in regs}
            add(x, "random:%s%s" % ("eq" if len(nums) <= 1 else "ne", ":m4=%d" % (x[ints[0]] % 4) if ints else ""))
    return out


def enc_records(prop, which, table, rng, mode, rig, thorough=False, paths=("enc", "asm"), only_classes=None,
                sweep_paths=None):
    """Records (t = 'enc') for every instance of every class of an isa, per path:
    enc = Instruction.encode() (+ its relocation applied directly), asm = assembler (+ real linker)."""
    recs = []
    skipped = []
    for cname, cls in isa_classes(which):
        if only_classes and cname not in only_classes:
            continue
        mn = surface_mnemonic(cls)
        if mn is None or mn in SKIP_MNEMONICS:
            skipped.append(cname)
            continue
        seen = set()
        for inst in enumerate_instances(cls, table, rng, mode, thorough):
            try:
                ins = build(cls, inst["values"])
                text = str(ins)
            except Exception as e:
                # construction / printing failed: nothing is printed, nothing to compare
                skipped.append("%s:%s" % (cname, type(e).__name__))
                continue
            sym, place = inst["sym"], inst["place"]
            haslab = LABEL in text
            sig = (text, sym, place)
            if sig in seen:
                continue
            seen.add(sig)
            issweep = inst["tag"].endswith("sweep") or inst["tag"] == "diag" or inst["tag"].startswith("random") \
                or inst.get("same", False)
            for path in (sweep_paths if issweep and sweep_paths is not None else paths):
                if path == "enc":
                    out = observe_encode(ins, sym if haslab else None, place)
                elif haslab:
                    out = rig.observe_link(which, text, place, sym)
                else:
                    out = rig.observe_asm(which, text)
                suffix = "@%#x" % sym if haslab else ""
                r = record(prop, which, cname, path, text, out, sym, place, {"tag": inst["tag"]}, suffix)
                if r is not None:
                    recs.append(r)
    return recs, skipped


# ---------------------------------------------------------------- judgement (TLC)
def judge(ctx, recs, invariants, label, module="RV32_Eval", workers=6):
    """Evaluate the records in TLC; returns [(record, clause name, last state)] for every violated
    invariant.  Records carry only what TLC needs (key/text kept for reporting)."""
    if not recs:
        return []
    slim = [{k: v for k, v in r.items() if k not in ("key", "text", "cls", "tag")} for r in recs]
    path = ctx.trace_file(slim)
    cfg = CFG + "".join("INVARIANT %s\n" % inv for inv in invariants)
    res = ctx.tlc(module, cfg, label=label, env={"TRACE_FILE": path}, continue_=True, workers=workers)
    os.unlink(path)
    from . import tlcclean
    tlcclean.clean(res, module, expect_states=len(recs) + 1 + (len(recs) + 15) // 16)
    ctx.cov["traces_validated_against_impl"] += len(recs)
    out = []
    seen = set()
    for e in res.errors:
        idx = e.last.get("i")
        if not isinstance(idx, int) or not 1 <= idx <= len(recs):
            raise tlcmod.MachineryError("TLC error without record index in %s: %s\n%s" % (module, e, e.text[:2000]))
        if (idx, e.name) in seen:
            continue
        seen.add((idx, e.name))
        out.append((recs[idx - 1], e.name, e.last))
    return out


# ---------------------------------------------------------------- spec validation against llvm-mc
LLVM_MC = "/usr/bin/llvm-mc-14"
_CSR_NAMES = {0xC00: "cycle", 0xC01: "time", 0xC02: "instret", 0xC80: "cycleh", 0xC81: "timeh", 0xC82: "instreth",
              0x300: "mstatus", 0x304: "mie", 0x305: "mtvec", 0x341: "mepc", 0x342: "mcause", 0xF14: "mhartid",
              0x002: "frm", 0x001: "fflags", 0x003: "fcsr", 0x301: "misa", 0x340: "mscratch", 0x343: "mtval", 0x344: "mip"}


def llvm_text(d):
    """Render an RV32.Decode record the way llvm-mc -M no-aliases -M numeric prints it (None: no counterpart)."""
    m, rd, rs1, rs2, imm = d["mn"], d["rd"], d["rs1"], d["rs2"], d["imm"]
    x = lambda r: "x%d" % r
    if m in ("illegal", "unsupported"):
        return None
    if m in ("add", "sub", "sll", "slt", "sltu", "xor", "srl", "sra", "or", "and", "mul", "mulh", "mulhsu", "mulhu",
             "div", "divu", "rem", "remu"):
        return "%s %s, %s, %s" % (m, x(rd), x(rs1), x(rs2))
    if m in ("addi", "slti", "sltiu", "xori", "ori", "andi", "slli", "srli", "srai"):
        return "%s %s, %s, %d" % (m, x(rd), x(rs1), imm)
    if m in ("lb", "lh", "lw", "lbu", "lhu"):
        return "%s %s, %d(%s)" % (m, x(rd), imm, x(rs1))
    if m in ("sb", "sh", "sw"):
        return "%s %s, %d(%s)" % (m, x(rs2), imm, x(rs1))
    if m in ("beq", "bne", "blt", "bge", "bltu", "bgeu"):
        return "%s %s, %s, %d" % (m, x(rs1), x(rs2), imm)
    if m == "jal":
        return "jal %s, %d" % (x(rd), imm)
    if m == "jalr":
        return "jalr %s, %d(%s)" % (x(rd), imm, x(rs1))
    if m in ("lui", "auipc"):
        return "%s %s, %d" % (m, x(rd), imm)
    if m in ("ecall", "ebreak", "mret", "c.nop", "c.ebreak"):
        return m if not (m == "c.nop" and imm) else None
    if m in ("csrrw", "csrrs", "csrrc"):
        return "%s %s, %s, %s" % (m, x(rd), _CSR_NAMES.get(imm, str(imm)), x(rs1))
    if m in ("csrrwi", "csrrsi", "csrrci"):
        return "%s %s, %s, %d" % (m, x(rd), _CSR_NAMES.get(imm, str(imm)), rs1)
    if m in ("c.addi", "c.li", "c.andi", "c.slli", "c.srli", "c.srai"):
        return "%s %s, %d" % (m, x(rd), imm)
    if m == "c.lui":
        return "c.lui %s, %d" % (x(rd), imm if imm >= 0 else imm + (1 << 20))
    if m == "c.addi16sp":
        return "c.addi16sp x2, %d" % imm
    if m == "c.addi4spn":
        return "c.addi4spn %s, x2, %d" % (x(rd), imm)
    if m in ("c.lw", "c.lwsp"):
        return "%s %s, %d(%s)" % (m, x(rd), imm, x(rs1))
    if m in ("c.sw", "c.swsp"):
        return "%s %s, %d(%s)" % (m, x(rs2), imm, x(rs1))
    if m in ("c.sub", "c.xor", "c.or", "c.and", "c.mv", "c.add"):
        return "%s %s, %s" % (m, x(rd), x(rs2))
    if m in ("c.j", "c.jal"):
        return "%s %d" % (m, imm)
    if m in ("c.beqz", "c.bnez"):
        return "%s %s, %d" % (m, x(rs1), imm)
    if m in ("c.jr", "c.jalr"):
        return "%s %s" % (m, x(rs1))
    return None


def llvm_crosscheck(ctx, byte_lists, limit=20000):
    """Compare RV32.Decode with llvm-mc on the same bytes.  Reports NOTE / SPEC-SUSPECT lines only."""
    import subprocess
    if not os.path.exists(LLVM_MC):
        ctx.note("llvm-mc-14 not installed: specification not cross-checked")
        return None
    uniq = sorted({tuple(b) for b in byte_lists if len(b) in (2, 4)})[:limit]
    if not uniq:
        return None
    inp = ctx.trace_file([list(b) for b in uniq], "dis.json")
    outp = os.path.join(ctx.workdir, "dis_out.json")
    ctx.tlc("RV32_Dis", CFG, label="spec validation: RV32.Decode table for llvm-mc comparison",
            env={"TRACE_FILE": inp, "OUT_FILE": outp}, workers=2, coverage=False)
    with open(outp) as f:
        decs = json.load(f)
    os.unlink(inp)
    os.unlink(outp)
    text = "".join(" ".join("0x%02x" % v for v in b) + "\n" for b in uniq)
    p = subprocess.run([LLVM_MC, "--disassemble", "--triple=riscv32", "-mattr=+c,+m", "-M", "no-aliases", "-M", "numeric"],
                       input=text, capture_output=True, text=True, timeout=300)
    invalid = {int(m.group(1)) for m in re.finditer(r"<stdin>:(\d+):\d+: warning: invalid instruction encoding", p.stderr)}
    lines = [ln.strip() for ln in p.stdout.splitlines() if ln.strip() and not ln.strip().startswith(".text")]
    agree = differ = lenient = 0
    k = 0
    suspects = []
    for n, (b, d) in enumerate(zip(uniq, decs), start=1):
        if n in invalid:
            ref = None
        else:
            if k >= len(lines):
                break
            ref = " ".join(lines[k].replace("\t", " ").split())
            k += 1
        mine = llvm_text(d)
        if ref in ("c.unimp", "unimp"):
            ref = None
        if mine is None and d["mn"] not in ("illegal", "unsupported"):
            continue  # hint encodings etc.: llvm prints them differently
        if d["mn"] == "unsupported":
            continue
        if ref is not None:
            # normalise the reference's spelling of corner encodings
            rm = re.match(r"^(c\.s[lr][la]i)64 (x\d+)$", ref)
            if rm:
                ref = "%s %s, 0" % (rm.group(1), rm.group(2))
            rm = re.match(r"^c\.lui (x\d+), (-?\d+)$", ref)
            if rm:
                ref = "c.lui %s, %d" % (rm.group(1), int(rm.group(2)) % (1 << 20))
            rm = re.match(r"^(c\.s[lr][la]i|s[lr][la]i) .*, (\d+)$", ref)
            if mine is None and rm and int(rm.group(2)) >= 32:
                lenient += 1  # RV32: shamt[5] = 1 is reserved; the reference disassembler prints it anyway
                continue
            if mine is None and re.match(r"^c\.lui x\d+, 0$", ref):
                lenient += 1  # nzimm = 0 is reserved
                continue
            rm = re.match(r"^(csrr[wsc]i?) (x\d+), ([a-z][a-z0-9_]*), (.*)$", ref)
            if rm and mine is not None and rm.group(3) not in _CSR_NAMES.values():
                mm = re.match(r"^(csrr[wsc]i?) (x\d+), (\S+), (.*)$", mine)
                if mm and (mm.group(1), mm.group(2), mm.group(4)) == (rm.group(1), rm.group(2), rm.group(4)):
                    agree += 1  # CSR printed by a name outside the harness' table: operation and registers agree
                    continue
        if mine == ref:
            agree += 1
        else:
            differ += 1
            suspects.append((bytes(b).hex(), mine, ref))
    for h, mine, ref in suspects[:20]:
        print("SPEC-SUSPECT property=%s case=bytes:%s RV32.Decode=%r llvm-mc=%r" % (ctx.prop, h, mine, ref))
    ctx.note("spec validation: RV32.Decode agrees with llvm-mc-14 on %d of %d byte strings" % (agree, agree + differ))
    ctx.cov["spec_validation"] = {"reference": "llvm-mc-14 --triple=riscv32 -mattr=+c,+m -M no-aliases", "agree": agree,
                                  "differ": differ, "reference_lenient_on_reserved": lenient}
    return suspects


# ---------------------------------------------------------------- C07: declared register sets
NPLANS = 12  # = Len(RV32!PairPlan)
QUICK_REGS = (0, 1, 2, 8, 10, 15, 31)


def _xnums(regs):
    """Declared register list -> x-register numbers (by printed name x<n>); others are not x registers."""
    out = []
    other = 0
    for r in regs:
        m = _REG.match(str(r))
        if m and int(m.group(1)) < 32:
            out.append(int(m.group(1)))
        else:
            other += 1
    return out, other


def _declared(ins):
    uses, o1 = _xnums(ins.used_registers)
    defs, o2 = _xnums(ins.defined_registers)
    clob, o3 = _xnums(getattr(ins, "clobbers", []))
    return uses, defs, clob, o1 + o2 + o3


def rw_records(prop, which, table, rng, thorough=False, kind="rw"):
    """Records (t = 'rw') for every instance of every instruction class and macro class of an isa
    (kind = 'pseudo': macro classes only, t = 'pseudo')."""
    recs = []
    skipped = {}

    def skip(why):
        skipped[why] = skipped.get(why, 0) + 1

    todo = ([(n, c, False) for n, c in isa_classes(which)] if kind == "rw" else []) + \
           [(n, c, True) for n, c in pseudo_classes(which)]
    for cname, cls, macro in todo:
        mn = surface_mnemonic(cls)
        if mn is None or mn in SKIP_MNEMONICS:
            skip("directive:" + cname)
            continue
        seen = set()
        k = 0
        for inst in enumerate_instances(cls, table, rng, "valid", thorough):
            if not thorough and inst["swept"] is not None and inst["swept"] not in QUICK_REGS:
                continue
            try:
                ins = build(cls, inst["values"])
                text = str(ins)
                uses, defs, clob, other = _declared(ins)
                parts = list(ins.render()) if macro else [ins]
            except Exception as e:
                skip("%s:%s" % (cname, type(e).__name__))
                continue
            sym, place = inst["sym"], inst["place"]
            sig = (text, sym)
            if sig in seen:
                continue
            seen.add(sig)
            seq = []
            off = 0
            bad = None
            for part in parts:
                o = observe_encode(part, sym if LABEL in str(part) else None, place + off)
                if not o["ok"]:
                    bad = o["exc"]
                    break
                if o["bytes"]:
                    seq.append(o["bytes"])
                    off += len(o["bytes"])
            if bad is not None or not seq:
                skip("not encodable:%s" % cname)
                continue
            k += 1
            plans = list(range(1, NPLANS + 1)) if thorough else sorted({(k * 5 + j * 6) % NPLANS + 1 for j in range(2)})
            suffix = "@%#x" % sym if LABEL in text else ""
            tk = tokenize(text)
            if tk is None:
                skip("not tokenisable:%s" % cname)
                continue
            d = sym - place
            for o in tk[1]:
                if o[0] == "l":
                    o[1] = d if abs(d) < 2 ** 30 else 0
            base = {"key": "%s:%s:%s:%s:%s%s" % (prop, which, cname, inst["tag"], text, suffix),
                    "seq": seq, "mn": tk[0], "ops": tk[1], "sym": enc.limbs(sym, 4), "pc": enc.limbs(place, 4),
                    "text": text, "cls": cname, "tag": inst["tag"], "macro": macro}
            if kind == "rw":
                base.update({"t": "rw", "uses": uses, "defs": defs, "clob": clob, "plans": plans})
            else:
                base.update({"t": "pseudo"})
            recs.append(base)
    return recs, skipped


def pseudo_records(prop, which, table, rng, thorough=False):
    """Records (t = 'pseudo'): printed text of every macro-instruction instance + its rendering."""
    return rw_records(prop, which, table, rng, thorough, kind="pseudo")


# ---------------------------------------------------------------- C10: relocations of other targets (Reloc.tla)
# (march, Reloc.tla arch name, assembly line using LABEL, rough displacement width used only to pick inputs)
RELOC_SITES = [
    ("x86_64", "x86_64", "jmp " + LABEL, 32), ("x86_64", "x86_64", "call " + LABEL, 32), ("x86_64", "x86_64", "jz " + LABEL, 32),
    ("x86_64", "x86_64", "jmpshort " + LABEL, 8), ("x86_64", "x86_64", "mov rax, " + LABEL, 64),
    ("arm", "arm", "b " + LABEL, 26), ("arm", "arm", "bl " + LABEL, 26), ("arm", "arm", "beq " + LABEL, 26),
    ("arm", "arm", "ldr r0, " + LABEL, 12), ("arm", "arm", "adr r0, " + LABEL, 12),
    ("arm:thumb", "thumb", "b " + LABEL, 12), ("arm:thumb", "thumb", "bl " + LABEL, 25), ("arm:thumb", "thumb", "bw " + LABEL, 25),
    ("arm:thumb", "thumb", "beq " + LABEL, 9), ("arm:thumb", "thumb", "beqw " + LABEL, 21),
    ("arm:thumb", "thumb", "ldr r0, " + LABEL, 10),
]


def reloc_distances(width, thorough):
    js = (-8, -6, -5, -4, -3, -2, -1, 0, 1, 2, 3, 4, 5, 6, 8)
    ds = set(range(-8, 9)) | {12, 16, 100, -100, 1000, -1000}
    if width < 64:
        for base in (1 << (width - 1), 1 << width, (1 << (width - 1)) + (1 << (width - 2))):
            for s in (1, -1):
                for j in js:
                    ds.add(s * base + j)
    else:
        ds |= {1 << 31, (1 << 32) + 4, (1 << 40) + 8}
    if not thorough:
        ds = {d for d in ds if d % 2 == 0 or abs(d) < 4 or width <= 12}
    return sorted(ds)


class RelocRig:
    """Assembles one line referring to LABEL for any march, links it against a placed symbol."""

    def __init__(self):
        self.arch = {}

    def get(self, march):
        if march not in self.arch:
            from ppci.api import get_arch
            self.arch[march] = get_arch(march)
        return self.arch[march]

    def assemble(self, march, lines, section):
        from ppci.binutils.objectfile import ObjectFile
        from ppci.binutils.outstream import BinaryOutputStream
        from ppci.common import DiagnosticsManager
        arch = self.get(march)
        obj = ObjectFile(arch)
        ostream = BinaryOutputStream(obj)
        ostream.select_section(section)
        a = arch.assembler
        a.prepare()
        for ln in lines:
            a.assemble(ln, ostream, DiagnosticsManager())
        a.flush()
        return obj

    def site(self, march, text):
        """(object, relocation entry, relocation class, field bytes before)"""
        o1 = self.assemble(march, ["global " + LABEL, text], "code")
        rels = [r for r in o1.relocations if r.section == "code"]
        if len(rels) != 1:
            raise ValueError("relocations=%d" % len(rels))
        rel = rels[0]
        rcls = o1.arch.isa.relocation_map[rel.reloc_type]
        size = rcls.size()
        before = bytes(o1.get_section("code").data[rel.offset:rel.offset + size])
        return o1, rel, rcls, before

    def link(self, march, text, place, sym):
        """Real linker: code section at `place`, LABEL at `sym`.  Returns the record fields."""
        from ppci.api import link
        from ppci.binutils.layout import Layout
        o1, rel, rcls, before = self.site(march, text)
        size = len(before)
        out = {"rt": rel.reloc_type, "P": place + rel.offset, "before": list(before), "after": list(before), "ok": False, "exc": "",
               "addend": rel.addend}
        try:
            pad_s = sym % 4
            o2 = self.assemble(march, ["global " + LABEL] + ["db 0"] * pad_s + [LABEL + ":", "db 0", "db 0", "db 0", "db 0"], "tgt")
            lay = Layout.load(io.StringIO(
                "MEMORY code LOCATION=0x%x SIZE=0x100 { SECTION(code) }\nMEMORY tgt LOCATION=0x%x SIZE=0x100 { SECTION(tgt) }\n"
                % (place, sym - pad_s)))
            o = link([o1, o2], lay)
            sec = o.get_section("code")
            if sec.address != place or o.get_section("tgt").address != sym - pad_s:
                out["exc"] = "placement"
                return out
            out["after"] = list(bytes(sec.data[rel.offset:rel.offset + size]))
            out["ok"] = True
        except Exception as e:
            out["exc"] = type(e).__name__
        return out

    def apply(self, march, text, place, sym):
        """Relocation.apply of the instruction's own relocation, directly."""
        o1, rel, rcls, before = self.site(march, text)
        out = {"rt": rel.reloc_type, "P": place + rel.offset, "before": list(before), "after": list(before), "ok": False, "exc": "",
               "addend": rel.addend}
        try:
            r = rcls(None, offset=rel.offset, addend=rel.addend)
            after = r.apply(sym, bytearray(before), place + rel.offset)
            out["after"] = list(bytes(after))
            out["ok"] = True
        except Exception as e:
            out["exc"] = type(e).__name__
        return out


def reloc_records(prop, rng, thorough=False):
    rig = RelocRig()
    recs = []
    skipped = []
    for march, arch, text, width in RELOC_SITES:
        place = 0x200000000 if width >= 32 else 0x10000000
        try:
            rig.site(march, text)
        except Exception as e:
            skipped.append("%s:%s:%s" % (march, text, type(e).__name__))
            continue
        for d in reloc_distances(width, thorough):
            sym = place + d
            if sym < 0:
                continue
            for path in ("link", "apply"):
                if path == "link" and not thorough and abs(d) > 8 and d % 4 not in (0, 2):
                    continue
                try:
                    o = (rig.link if path == "link" else rig.apply)(march, text, place, sym)
                except Exception as e:
                    skipped.append("%s:%s:%s" % (march, text, type(e).__name__))
                    continue
                o.update({"t": "rel", "arch": arch, "S": enc.limbs(sym, 8), "A": enc.limbs(o.pop("addend"), 8), "P": enc.limbs(o["P"], 8),
                          "key": "%s:%s:reloc:%s:%s:%s:%s:m4=%d:d=%d" % (prop, arch, o["rt"], path, text,
                                                                         "fwd" if d > 0 else "bwd" if d < 0 else "zero", d % 4, d),
                          "text": text, "d": d})
                recs.append(o)
    return recs, skipped
