"""RISC-V images for tla/RV32_Run.tla (properties C05 riscv part and C13): object building, linking with /
without relaxation, projection of a linked object into an image, ppci's calling convention as data, the TLC run.

Nothing here judges: the image is the bytes of the linked sections at their addresses (project_obj-style copy of
attributes), the call record is what ppci's own RiscvArch.determine_arg_locations / determine_rv_location /
callee_save declare, observations come out of TLC (RV32_Run.NextEmit) and go back into TLC (IR.tla)."""
import contextlib
import io
import os

from . import tlaval
from .tlc import MachineryError

SP = 0xF000          # stack pointer at the call (16-byte aligned, above the data memory, below the sentinel)
RA = 0xFFF0          # return address: outside every segment
CODE_AT = 0x1000
DATA_AT = 0x8000
LAYOUT_SPLIT = ("MEMORY flash LOCATION=0x%x SIZE=0x6000 { SECTION(code) }\n"
                "MEMORY ram LOCATION=0x%x SIZE=0x4000 { SECTION(data) }\n" % (CODE_AT, DATA_AT))

_ARCH = {}


def arch_of(march):
    if march not in _ARCH:
        from ppci.api import get_arch

        _ARCH[march] = get_arch(march)
    return _ARCH[march]


def limbs(v, n=4):
    return [((v & ((1 << (8 * n)) - 1)) >> (8 * i)) & 255 for i in range(n)]


# ---------------------------------------------------------------------------------------------------
# objects from a script: text lines go through the assembler, instruction objects are emitted as they are
# (the assembler resolves `j` / `jal` to the base-ISA instructions; the relaxable CB / CBl forms that the
# code generator emits can only be produced as objects)
# ---------------------------------------------------------------------------------------------------
def build_object(march, script):
    from ppci.binutils.objectfile import ObjectFile
    from ppci.binutils.outstream import BinaryOutputStream
    from ppci.common import DiagnosticsManager

    arch = arch_of(march)
    obj = ObjectFile(arch)
    ostream = BinaryOutputStream(obj)
    ostream.select_section("code")
    a = arch.assembler
    a.prepare()
    diag = DiagnosticsManager()
    for it in script:
        if isinstance(it, str):
            a.assemble(it, ostream, diag)
        else:
            n0 = len(obj.relocations)
            ostream.emit(it())
            rtype = getattr(it, "rtype", None)
            if rtype:                      # the relocation type the site is to carry (see jal below)
                for r in obj.relocations[n0:]:
                    if r.reloc_type in ("cb_imm11", "cbl_imm11"):
                        r.reloc_type = rtype
    a.flush()
    return obj


def cb(target):
    """`j target` in its relaxable form (class CB, relocation cb_imm11)"""
    def mk():
        from ppci.arch.riscv.rvc_instructions import CB

        return CB(target)
    return mk


def cbl(rd, target):
    """`jal x<rd>, target` in its relaxable form (class CBl, relocation cbl_imm11)"""
    def mk():
        from ppci.arch.riscv import registers as R
        from ppci.arch.riscv.rvc_instructions import CBl

        return CBl(getattr(R, "LR" if rd == 1 else "R%d" % rd), target)
    return mk


def jal(rd, target, rtype):
    """32-bit `jal x<rd>, target` carrying the relaxable relocation rtype (cb_imm11 | cbl_imm11), every combination:
    the instruction classes only produce (x0, cb_imm11) and (rd, cbl_imm11) - RiscvArch.branch(reg, label) for any
    reg -; the other pairs are made by emitting CBl and re-typing its relocation entry in the object"""
    mk = cbl(rd, target)
    if rd == 0:
        def mk(target=target):
            from ppci.arch.riscv import registers as R
            from ppci.arch.riscv.rvc_instructions import CBl

            return CBl(R.R0, target)
    mk.rtype = rtype
    mk.__qualname__ = "jal x%d, %s [%s]" % (rd, target, rtype)
    return mk


@contextlib.contextmanager
def relaxation(on):
    """link with do_relaxations as it is, or switched off (the unrelaxed link of the same objects)"""
    from ppci.binutils import linker as L

    if on:
        yield
        return
    orig = L.Linker.do_relaxations
    L.Linker.do_relaxations = lambda self: None
    try:
        yield
    finally:
        L.Linker.do_relaxations = orig


def link_objects(objects, layout_text, relax=True):
    from ppci.api import link
    from ppci.binutils.layout import Layout

    with relaxation(relax):
        return link(objects, layout=Layout.load(io.StringIO(layout_text)))


def image_of(obj, entry, globals_):
    """linked ObjectFile -> image for RV32_Run: every non-empty section at its address; entry symbol; globals
    = [(name, size)].  None when a needed symbol is missing."""
    segs = [{"addr": s.address, "bytes": list(bytes(s.data))} for s in obj.sections if len(s.data)]
    val = {}
    for y in obj.symbols:
        if y.value is not None:
            val[y.name] = obj.get_symbol_id_value(y.id)
    if entry not in val or any(n not in val for n, _ in globals_):
        return None
    return {"segs": segs, "entry": val[entry], "globals": [{"name": n, "addr": val[n], "size": sz} for n, sz in globals_]}


def images_overlap(img):
    spans = sorted((s["addr"], s["addr"] + len(s["bytes"])) for s in img["segs"])
    return any(a[1] > b[0] for a, b in zip(spans, spans[1:])) or any(e > SP - 0x1000 for _, e in spans)


# ---------------------------------------------------------------------------------------------------
# ppci's calling convention for riscv, read from the architecture object
# ---------------------------------------------------------------------------------------------------
# (stated here as data, not read from the architecture object: a change of determine_arg_locations / callee_save is a
# change of the convention the property speaks about.  RiscvArch documents: "pass args in R12-R17, return values in
# R10"; further arguments go to memory at sp, sp + 4, ...; callee_save = x9, x18..x27, and the frame pointer x8.)
ARG_REGS = (12, 13, 14, 15, 16, 17)
RESULT_REG = 10
KEEP_REGS = (8, 9, 18, 19, 20, 21, 22, 23, 24, 25, 26, 27)


def call_record(march, ptys, values):
    """argument registers / stack words for a call f(values) with IR parameter types ptys; an integer narrower
    than the register travels as its own sign / zero extension"""
    regs, stk = [], []
    free = list(ARG_REGS)
    offset = 0
    for t, v in zip(ptys, values):
        bits = int(t[1:])
        v &= (1 << bits) - 1
        if t[0] == "i" and v >> (bits - 1):
            v -= 1 << bits
        if free:
            regs.append([free.pop(0), limbs(v, 4)])
        else:
            stk.append([offset, limbs(v, 4)])
            offset += bits // 8 if bits >= 32 else bits // 8
    return {"regs": regs, "stk": stk}


def keep_regs(march):
    return list(KEEP_REGS)


# ---------------------------------------------------------------------------------------------------
# TLC
# ---------------------------------------------------------------------------------------------------
def run_cfg(emit, invariants, nchunks=32, burst=24):
    out = ["CONSTANTS", " NChunks = %d" % nchunks, " Burst = %d" % burst, "ALIAS Shown", "INIT Init",
           "NEXT %s" % ("NextEmit" if emit else "Next"), "CHECK_DEADLOCK FALSE"]
    out += ["INVARIANT %s" % i for i in invariants]
    return "\n".join(out) + "\n"


def parse_obs(raw):
    """<< "OBS", case, call, image, Obs, steps >> printed by RV32_Run.EmitObs -> {(case, call, image): (obs, steps)}"""
    out = {}
    lines = raw.splitlines()
    k = 0
    while k < len(lines):
        if lines[k].startswith('<< "OBS"'):
            buf = [lines[k]]
            depth = lines[k].count("<<") - lines[k].count(">>")
            while depth > 0 and k + 1 < len(lines):
                k += 1
                buf.append(lines[k])
                depth += lines[k].count("<<") - lines[k].count(">>")
            try:
                v = tlaval.parse("\n".join(buf))
            except Exception as e:
                raise MachineryError("cannot parse observation: %s\n%s" % (e, "\n".join(buf)[:500]))
            out[(v[1], v[2], v[3])] = (v[4], v[5])
        k += 1
    return out


def run_images(ctx, cases, label, emit=True, invariants=("ConventionKept", "TypeOK"), workers=8):
    """RV32_Run over the cases -> (TLC result, observations)"""
    slim = [{k: c[k] for k in ("id", "imgs", "calls", "sp", "ra", "keep", "fuel", "expect") if k in c} for c in cases]
    path = ctx.trace_file(slim)
    res = ctx.tlc("RV32_Run", run_cfg(emit, invariants, nchunks=max(1, min(64, len(cases)))), label=label,
                  env={"TRACE_FILE": path}, continue_=True, workers=workers, heap="8g", coverage=False, timeout=3000)
    os.unlink(path)
    return res, (parse_obs(res.raw) if emit else {})
