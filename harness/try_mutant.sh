#!/bin/bash
# usage: try_mutant.sh <Cnn> <dir with patch.diff, demo.py> [tier]   -> applies to a scratch worktree, runs demo + check
P=$1; D=$2; TIER=${3:-quick}
WT=/tmp/wt_eval_$$
git -C /repo worktree add -q $WT HEAD || exit 2
cd $WT && git apply $D/patch.diff || { echo "PATCH DOES NOT APPLY"; git -C /repo worktree remove --force $WT; exit 2; }
echo "--- demo on mutant:"; PYTHONPATH=$WT timeout 300 /venv/bin/python $D/demo.py > /tmp/demo_$$.out 2>&1; echo "demo exit=$?"; tail -3 /tmp/demo_$$.out
echo "--- check $P ($TIER) on mutant:"
cd /verif && VERIF_REPO=$WT timeout 3000 ./check $P --tier $TIER > /tmp/check_$$.out 2>&1; RC=$?
echo "check exit=$RC"; grep -c "^VIOLATION" /tmp/check_$$.out; grep -A1 "^VIOLATION" /tmp/check_$$.out | head -6; tail -1 /tmp/check_$$.out
git -C /repo worktree remove --force $WT; rm -f /tmp/demo_$$.out /tmp/check_$$.out
exit $RC
