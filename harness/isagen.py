"""Machinery shared by the small-ISA parts of C08 (harness/msp430gen.py, harness/avrgen.py).

Python here only drives the real ppci code and records what it did (encode() + the instruction's own
relocations applied for the addresses the harness chose, render() of macro instructions, the assembler),
runs TLC on the ISA's modules and maps TLC's verdicts back to records.  It contains no oracle."""
import json
import os
import subprocess

from . import asmgen
from . import tlc as tlcmod
from . import tlcclean

CFG = "INIT Init\nNEXT Next\nCHECK_DEADLOCK FALSE\n"
LLVM_MC = "/usr/bin/llvm-mc-14"


# ---------------------------------------------------------------- idioms M and G
def laws_and_table(ctx, module, laws, fams, deep, what, workers=8):
    """Idiom M (laws of the ISA model on the families `fams`) + idiom G (boundary table) in one TLC run.
    A failing law is a defect of the specification itself: machinery failure.  With families, every
    action of the model must have been taken."""
    out = os.path.join(ctx.workdir, "%s_gen.json" % module)
    invs = [i for f in fams for i in laws[f]]
    cfg = "CONSTANT Deep = %s\nCONSTANT Fams = {%s}\n" % ("TRUE" if deep else "FALSE", ", ".join('"%s"' % f for f in fams))
    cfg += CFG + "".join("INVARIANT %s\n" % x for x in invs)
    res = ctx.tlc(module, cfg, label="M: laws of %s on %s (+ G: boundary table)" % (what, "/".join(fams) or "-"),
                  env={"OUT_FILE": out}, workers=workers, coverage=bool(fams))
    for e in res.errors:
        raise tlcmod.MachineryError("a law of %s fails in the specification itself: %s\n%s" % (what, e, e.text[:1500]))
    tlcclean.clean(res, module)
    if fams and set(fams) == set(laws):
        acts = tlcmod.action_coverage(res)
        idle = sorted(k for k, v in acts.items() if v == 0)
        if idle or len(acts) < 3:
            raise tlcmod.MachineryError("%s: actions never taken: %s (coverage %s)" % (module, idle, acts))
    try:
        with open(out) as f:
            t = json.load(f)
    except Exception as e:
        raise tlcmod.MachineryError("%s wrote no table: %s" % (module, e))
    os.unlink(out)
    return t


# ---------------------------------------------------------------- observers
def observe(ins, syms, place):
    """encode() + every relocation of the instruction applied for the symbol addresses `syms` (name -> address)
    with the instruction at address `place`.  Exceptions are the observation."""
    try:
        data = bytearray(ins.encode())
        n = len(data)
        for r in ins.relocations():
            size = r.size()
            piece = bytearray(data[r.offset:r.offset + size])
            if len(piece) < size:
                piece = piece + bytearray(size - len(piece))
            new = r.apply(syms[r.symbol_name], piece, place + r.offset)
            data[r.offset:r.offset + size] = new
        return asmgen._out_ok(data[:n])
    except Exception as e:
        return asmgen._out_err(e)


def observe_render(ins, syms, place):
    """A macro instruction: the bytes of the instructions it renders to, in order."""
    try:
        data = bytearray()
        for sub in ins.render():
            o = observe(sub, syms, place + len(data))
            if not o["ok"]:
                return o
            data += bytes(o["bytes"])
        return asmgen._out_ok(data)
    except Exception as e:
        return asmgen._out_err(e)


class Rig(asmgen.AsmRig):
    def get(self, which):
        if which not in self.arch:
            from ppci.api import get_arch
            self.arch[which] = get_arch(which)
        return self.arch[which]


# ---------------------------------------------------------------- judgement (TLC)
def judge(ctx, module, recs, invariants, label, workers=8, count=True):
    """Evaluate the records in tla/<module>.tla; [(record, clause name)] for every violated invariant."""
    if not recs:
        return []
    slim = [{k: v for k, v in r.items() if k not in ("key", "text", "cls", "tag")} for r in recs]
    path = ctx.trace_file(slim)
    cfg = CFG + "".join("INVARIANT %s\n" % inv for inv in invariants)
    res = ctx.tlc(module, cfg, label=label, env={"TRACE_FILE": path}, continue_=True, workers=workers, coverage=False)
    os.unlink(path)
    tlcclean.clean(res, module, expect_states=len(recs) + 1 + (len(recs) + 15) // 16)
    if count:
        ctx.cov["traces_validated_against_impl"] += len(recs)
    out, seen = [], set()
    for e in res.errors:
        idx = e.last.get("idx")
        if not isinstance(idx, int) or not 1 <= idx <= len(recs):
            raise tlcmod.MachineryError("TLC error without record index in %s: %s\n%s" % (module, e, e.text[:2000]))
        if (idx, e.name) in seen:
            continue
        seen.add((idx, e.name))
        out.append((recs[idx - 1], e.name))
    return out


def mine(ctx, prefix):
    """None: normal run; True: replay of one of this part's cases; False: replay of somebody else's case."""
    if ctx.only is None:
        return None
    return str(ctx.only.get("key", "")).startswith(prefix)


def restrict(ctx, recs):
    if ctx.only is None:
        return recs
    want = str(ctx.only.get("key", "")).split("::")[0]
    sel = [r for r in recs if r["key"] == want]
    if not sel:
        ctx.note("replay: the case %s was not regenerated (different tier / seed / tree?)" % ctx.only.get("key"))
    return sel


def own_rng(ctx, salt):
    import random
    return random.Random(ctx.seed * 7919 + salt)  # own stream: the other parts' draws stay what they were


# ---------------------------------------------------------------- reference disassembler (spec validation only)
def _mc(args, byte_lists):
    text = "".join("[" + " ".join("0x%02x" % v for v in b) + "]\n" for b in byte_lists)
    p = subprocess.run([LLVM_MC, "--disassemble"] + args, input=text, capture_output=True, text=True, timeout=600)
    return p


def disassemble(args, byte_lists, sentinel, _depth=0):
    """llvm-mc --disassemble, one atomic [..] block per byte string, each followed by a sentinel instruction
    (bytes, printed text) so that the output can be cut per input string: [text | None (invalid encoding) | False
    (read as no / several instructions, equal to the sentinel, or the disassembler crashed on it)].
    LLVM 14's AVR disassembler crashes on some encodings: a crashing batch is bisected."""
    import re
    if not byte_lists:
        return []
    sb, stext = sentinel
    inp = []
    for b in byte_lists:
        inp.append(list(b))
        inp.append(list(sb))
    p = _mc(args, inp)
    if p.returncode not in (0, 1):  # killed by a signal: the disassembler crashed
        if len(byte_lists) == 1 or _depth > 16:
            return [False] * len(byte_lists)
        h = len(byte_lists) // 2
        return disassemble(args, byte_lists[:h], sentinel, _depth + 1) + disassemble(args, byte_lists[h:], sentinel, _depth + 1)
    bad = {int(m.group(1)) for m in re.finditer(r"<stdin>:(\d+):\d+: warning: invalid instruction encoding", p.stderr)}
    lines = [" ".join(ln.replace("\t", " ").split()) for ln in p.stdout.splitlines() if ln.strip() and not ln.strip().startswith(".text")]
    groups, cur = [], []
    for ln in lines:
        if ln == stext:
            groups.append(cur)
            cur = []
        else:
            cur.append(ln)
    if len(groups) != len(byte_lists) or cur:   # a string printed the sentinel's text itself: isolate it
        if len(byte_lists) == 1 or _depth > 5:
            return [False] * len(byte_lists)
        h = len(byte_lists) // 2
        return disassemble(args, byte_lists[:h], sentinel, _depth + 1) + disassemble(args, byte_lists[h:], sentinel, _depth + 1)
    res = []
    for k, (b, g) in enumerate(zip(byte_lists, groups)):
        line_no = 2 * k + 1
        if list(b) == list(sb):
            res.append(False)
        elif len(g) == 1 and line_no not in bad:
            res.append(g[0])
        elif not g and line_no in bad:
            res.append(None)
        else:
            res.append(False)
    return res
