// Reference engine driver (node / V8): executes call traces on WebAssembly binaries and prints one JSON
// line per job with the observations in the format Wasm.tla reads (see harness/wasm_runner.py).
//   node wasm_node.js jobs.json  ->  stdout: {"id":..., "valid":bool, "traces":[[obs...]...]}
'use strict';
const fs = require('fs');
const jobs = JSON.parse(fs.readFileSync(process.argv[2], 'utf8'));

function limbs(v, n) {            // v: BigInt
  const out = [];
  let x = BigInt.asUintN(8 * n, v);
  for (let k = 0; k < n; k++) { out.push(Number(x & 0xffn)); x >>= 8n; }
  return out;
}
function width(t) { return (t === 'i32' || t === 'f32') ? 4 : 8; }

function snapshot(inst, job) {
  const glob = [], mem = [];
  let pages = -1;
  for (const e of job.exports) {
    if (e.kind === 'global') {
      const g = inst.exports[e.name];
      glob.push({ name: e.name, v: limbs(BigInt(g.value), width(e.ty)) });
    } else if (e.kind === 'memory') {
      const buf = new Uint8Array(inst.exports[e.name].buffer);
      pages = buf.length / 65536;
      for (let a = 0; a < buf.length; a++) if (buf[a] !== 0) mem.push([a, buf[a]]);
    }
  }
  return { glob, mem, pages };
}

function observe(outcome, msg, ret, inst, job, calls) {
  const o = { outcome, msg, ret, state: false, glob: [], mem: [], pages: -1, hascalls: true, calls };
  if (inst) { Object.assign(o, snapshot(inst, job)); o.state = true; }
  return o;
}

for (const job of jobs) {
  const bytes = Buffer.from(job.hex, 'hex');
  const res = { id: job.id, valid: WebAssembly.validate(bytes), traces: [] };
  if (!res.valid) {
    try { new WebAssembly.Module(bytes); } catch (e) { res.error = String(e.message).slice(0, 300); }
    console.log(JSON.stringify(res));
    continue;
  }
  const module = new WebAssembly.Module(bytes);
  for (const trace of job.traces) {
    const obs = [];
    let calls = [];
    let counters = {};           // the k-th call of an import *within one export call* returns rets[k]
    const imports = {};
    for (const x of job.ext || []) {
      imports[x.mod] = imports[x.mod] || {};
      imports[x.mod][x.name] = (...args) => {
        calls.push({ name: x.name, args: args.map((a, k) => limbs(BigInt(a), width(x.params[k]))) });
        const k = counters[x.name] = (counters[x.name] || 0) + 1;
        if (!x.ty) return undefined;
        const v = k <= x.rets.length ? BigInt(x.rets[k - 1]) : 0n;
        return x.ty === 'i64' ? BigInt.asIntN(64, v) : Number(BigInt.asIntN(32, v));
      };
    }
    let inst = null;
    try {
      inst = new WebAssembly.Instance(module, imports);
      obs.push(observe('value', '', [], inst, job, calls));
    } catch (e) {
      obs.push(observe((e instanceof WebAssembly.RuntimeError) ? 'trap' : 'error:' + e.constructor.name,
                       String(e.message), [], null, job, calls));
      res.traces.push(obs);
      continue;
    }
    for (const c of trace) {
      calls = [];
      counters = {};
      const args = c.args.map((a, k) => c.tys[k] === 'i64' ? BigInt(a) : Number(BigInt.asIntN(32, BigInt(a))));
      try {
        const r = inst.exports[c.fn](...args);
        const rs = r === undefined ? [] : (Array.isArray(r) ? r : [r]);
        obs.push(observe('value', '', rs.map((v, k) => limbs(BigInt(v), width(c.rtys[k]))), inst, job, calls));
      } catch (e) {
        obs.push(observe((e instanceof WebAssembly.RuntimeError) ? 'trap' : 'error:' + e.constructor.name,
                         String(e.message), [], inst, job, calls));
      }
    }
    res.traces.push(obs);
  }
  console.log(JSON.stringify(res));
}
