"""Stage events of one compile, recorded from the real code (Toolchain.tla traces).

No hook in /repo: the optimiser passes and CodeGenerator.generate_function are wrapped
from here while the real api functions run."""
import contextlib
import io

from . import optcorpus


def _outcome(exc):
    from ppci.common import CompilerError

    if exc is None:
        return "ok"
    if isinstance(exc, CompilerError) or type(exc).__name__ == "IrParseException":
        return "diag"
    return "error:" + type(exc).__name__


@contextlib.contextmanager
def codegen_recorder(events):
    from ppci.codegen import codegen as cg

    orig = cg.CodeGenerator.generate_function

    def wrapped(self, ir_function, *a, **kw):
        try:
            r = orig(self, ir_function, *a, **kw)
        except Exception as e:
            events.append({"st": "codegen", "out": _outcome(e), "arg": ir_function.name})
            raise
        events.append({"st": "codegen", "out": "ok", "arg": ir_function.name})
        return r

    cg.CodeGenerator.generate_function = wrapped
    try:
        yield
    finally:
        cg.CodeGenerator.generate_function = orig


def run_pipeline(make_module, march, level, events=None, frontend_label="frontend"):
    """make_module() -> ir.Module (may raise).  Returns (events, object or None, message)."""
    from ppci import api
    from ppci.irutils import verify_module

    ev = [] if events is None else events
    try:
        m = make_module()
    except Exception as e:
        ev.append({"st": frontend_label, "out": _outcome(e), "arg": str(e)[:120]})
        return ev, None, "%s: %s" % (type(e).__name__, str(e)[:200])
    ev.append({"st": frontend_label, "out": "ok", "arg": ""})
    try:
        verify_module(m)
        ev.append({"st": "verify", "out": "ok", "arg": ""})
    except Exception as e:
        ev.append({"st": "verify", "out": _outcome(e), "arg": str(e)[:120]})
        return ev, None, "%s: %s" % (type(e).__name__, str(e)[:200])
    if str(level) != "0":
        seen = [0]

        def cb(name, module, exc):
            seen[0] += 1
            ev.append({"st": "optimize", "out": _outcome(exc), "arg": name})

        try:
            with optcorpus.pass_recorder(cb):
                api.optimize(m, level=level)
        except Exception as e:
            if not ev or ev[-1]["out"] == "ok":
                ev.append({"st": "optimize", "out": _outcome(e), "arg": "optimize:" + str(e)[:100]})
            return ev, None, "%s: %s" % (type(e).__name__, str(e)[:200])
    if march is None:
        return ev, None, ""
    try:
        with codegen_recorder(ev):
            obj = api.ir_to_object([m], march)
    except Exception as e:
        if ev[-1]["out"] == "ok":
            ev.append({"st": "object", "out": _outcome(e), "arg": str(e)[:120]})
        return ev, None, "%s: %s" % (type(e).__name__, str(e)[:200])
    ev.append({"st": "object", "out": "ok", "arg": ""})
    return ev, obj, ""
