"""Instruction-instance generator and observers for the ARM part of C08 / C07 (thumb and arm ISAs).

Python here only (a) enumerates instances of ppci.arch.arm's instruction classes (every register in
every register slot, boundary immediates / displacements / shift amounts from TLC's table (idiom G,
tla/Thumb_MC.tla), register lists), (b) drives the real code -- Instruction.encode(), str(instruction),
the instruction's own relocation, the assembler and the linker -- and records what it did, (c) tokenises
printed text lexically (register / coprocessor-register name -> number is the only interpretation).
The verdicts are TLC's (tla/Thumb_Eval.tla over tla/Thumb.tla and tla/Arm32.tla)."""
import json
import os
import re
import subprocess

from . import asmgen
from . import tlc as tlcmod
from . import tlcclean

CFG = "INIT Init\nNEXT Next\nCHECK_DEADLOCK FALSE\n"
LABEL = "L_t"
PLACE = {"thumb": 0x02000000, "arm": 0x04000000}
PCOFF = {"thumb": 4, "arm": 8}
MARCH = {"thumb": "arm:thumb", "arm": "arm"}

LAWS = {"t16": ["LawOneFormat", "LawReencode16"], "t32": ["LawReencode32"], "tln": ["LawThumbLine"],
        "aw": ["LawReencodeA"], "aln": ["LawArmLine"], "amod": ["LawModImm"], "amn": ["LawMnemonic"]}


# ---------------------------------------------------------------- idioms M and G
def _read_table(out):
    try:
        with open(out) as f:
            t = json.load(f)
    except Exception as e:
        raise tlcmod.MachineryError("Thumb_MC wrote no table: %s" % e)
    os.unlink(out)
    return t


def laws_and_table(ctx, fams, deep, workers=8):
    """Idiom M (laws of Thumb.tla / Arm32.tla on the families `fams`) + idiom G (boundary table) in one
    TLC run.  A failing law is a defect of the specification itself: machinery failure."""
    out = os.path.join(ctx.workdir, "arm_gen.json")
    invs = [i for f in fams for i in LAWS[f]]
    cfg = "CONSTANT Deep = %s\nCONSTANT Fams = {%s}\n" % ("TRUE" if deep else "FALSE", ", ".join('"%s"' % f for f in fams))
    cfg += CFG + "".join("INVARIANT %s\n" % x for x in invs)
    res = ctx.tlc("Thumb_MC", cfg, label="M: laws of Thumb.tla / Arm32.tla on %s (+ G: boundary table)" % "/".join(fams),
                  env={"OUT_FILE": out}, workers=workers, coverage=False)
    for e in res.errors:
        raise tlcmod.MachineryError("a law of Thumb.tla / Arm32.tla fails in the specification itself: %s\n%s" % (e, e.text[:1500]))
    tlcclean.clean(res, "Thumb_MC")
    return _read_table(out)


def gen_table(ctx):
    """Table only (replay): the same module with an empty family set."""
    return laws_and_table(ctx, [], False, workers=2)


# ---------------------------------------------------------------- lexer
_REGN = {"sp": 13, "lr": 14, "pc": 15}
_WORDS = {"lsl", "lsr", "asr", "ror", "rrx"}
_TOK = re.compile(r"\s*(?:([A-Za-z_][A-Za-z_0-9.]*)|#?\s*([+-]?\s*(?:0x[0-9a-fA-F]+|\d+))|(.))")


def _signed32(v):
    if -(1 << 31) <= v < (1 << 31):
        return v
    if v < (1 << 32):
        return v - (1 << 32)
    return None


def tokenize(text):
    """'ldr R1, [sp, 4]' -> ('ldr', [['r',1,'R1'], ['[',0,''], ['r',13,'sp'], ['i',4,''], [']',0,'']]).
    Purely lexical; ',' '#' and blanks are dropped; integers are read as 32-bit two's complement."""
    text = text.strip()
    m = re.match(r"^([A-Za-z_.][A-Za-z_0-9.]*)", text)
    if not m:
        return None
    mn = m.group(1).lower()
    rest = text[m.end():]
    ops = []
    pos = 0
    while pos < len(rest):
        t = _TOK.match(rest, pos)
        if not t:
            break
        pos = t.end()
        if t.group(1):
            w = t.group(1)
            lw = w.lower()
            r = re.match(r"^r(\d+)$", lw)
            c = re.match(r"^c(\d+)$", lw)
            p = re.match(r"^p(\d+)$", lw)
            if r and int(r.group(1)) < 16:
                ops.append(["r", int(r.group(1)), w])
            elif lw in _REGN:
                ops.append(["r", _REGN[lw], w])
            elif c and int(c.group(1)) < 16:
                ops.append(["c", int(c.group(1)), w])
            elif p and int(p.group(1)) < 16:
                ops.append(["p", int(p.group(1)), w])
            elif lw in _WORDS:
                ops.append(["w", 0, lw])
            elif w.startswith("L_"):
                ops.append(["l", 0, w])
            else:
                ops.append(["x", 0, w])
        elif t.group(2):
            lit = t.group(2).replace(" ", "")
            v = _signed32(int(lit, 16) if "x" in lit.lower() else int(lit, 10))
            if v is None:
                return None
            if v == 0 and lit.startswith("-"):  # "#-0": subtract an offset of zero
                ops.append(["-", 0, ""])
            ops.append(["i", v, ""])
        else:
            ch = t.group(3)
            if ch in ", \t#":
                continue
            if ch in "[]{}!-":
                ops.append([ch, 0, ""])
            else:
                ops.append(["x", 0, ch])
    return mn, ops


def hpattern(ops):
    """Harness-side pattern of a printed form: like ArmCommon.Pat, with S for the literal lower-case sp."""
    return "".join("S" if (o[0] == "r" and o[2] == "sp") else o[0] for o in ops)


# ---------------------------------------------------------------- classes
def _mods():
    from ppci.arch.arm import arm_instructions as A, thumb_instructions as T
    return A, T


def isa_classes(which):
    """[(name, cls)] concrete instruction classes with a syntax of ppci.arch.arm (which = 'thumb' | 'arm')."""
    from ppci.arch.arm.isa import arm_isa, thumb_isa
    _mods()
    src = thumb_isa if which == "thumb" else arm_isa
    out, seen, count = [], set(), {}
    for c in src.instructions:
        if getattr(c, "syntax", None) is None or id(c) in seen:
            continue
        seen.add(id(c))
        k = count.get(c.__name__, 0)
        count[c.__name__] = k + 1
        out.append((c.__name__ if k == 0 else "%s#%d" % (c.__name__, k + 1), c))
    return out


def slots(cls):
    """Operand slots in constructor order: [(name, kind)], kind in
    q low register, r register, i int, l label, c coprocessor register, p coprocessor, L register list, s shift."""
    from ppci.arch.arm.registers import ArmRegister, LowArmRegister, Coreg, Coproc, RegisterSet
    res = []
    for a in cls.syntax.formal_arguments:
        c = a._cls
        if c is LowArmRegister:
            k = "q"
        elif c is ArmRegister:
            k = "r"
        elif c is int:
            k = "i"
        elif c is str:
            k = "l"
        elif c is Coreg:
            k = "c"
        elif c is Coproc:
            k = "p"
        elif c in (RegisterSet, set):
            k = "L"
        elif isinstance(c, tuple):
            k = "s"
        else:
            k = "?"
        res.append((a._name, k))
    return res


def areg(n):
    from ppci.arch.arm.registers import ArmRegister
    return ArmRegister.from_num(n)


def _shift(kind, n):
    A, _ = _mods()
    return {"": A.NoShift, "lsl": A.ShiftLsl, "lsr": A.ShiftLsr, "asr": A.ShiftAsr}[kind](*([] if kind == "" else [n]))


def _reglist(cls, nums):
    from ppci.arch.arm.registers import RegisterSet
    regs = {areg(n) for n in nums}
    for a in cls.syntax.formal_arguments:
        if a._cls is RegisterSet:
            return RegisterSet(regs)
    return regs


def build(cls, values):
    return cls(*[values[n] for n, _ in slots(cls)])


def _dummy(cls):
    from ppci.arch.arm.registers import Coreg, Coproc
    vals = {}
    k = 0
    for n, kind in slots(cls):
        if kind in "qr":
            vals[n] = areg(1 + k)
            k += 1
        elif kind == "i":
            vals[n] = 4
        elif kind == "l":
            vals[n] = LABEL
        elif kind == "c":
            vals[n] = Coreg.registers[7]
        elif kind == "p":
            vals[n] = Coproc.registers[-1]
        elif kind == "L":
            vals[n] = _reglist(cls, [4, 5])
        elif kind == "s":
            vals[n] = _shift("", 0)
    return vals


def surface(cls):
    """(mnemonic, harness pattern) of the printed form of a dummy instance."""
    try:
        t = tokenize(str(build(cls, _dummy(cls))))
        return (t[0], hpattern(t[1])) if t else None
    except Exception:
        return None


# ---------------------------------------------------------------- instance enumeration
def _row(table, which, mn, pat):
    for r in table[which]:
        if mn in r["mns"] and r["pat"] == pat:
            return r
    if which == "thumb":  # conditional branches are listed by their base spelling only
        for r in table[which]:
            if r["pat"] == pat and any(mn == x for x in r["mns"]):
                return r
    return None


THUMB_LISTS_PUSH = [[n] for n in range(16)] + [[0, 1], [4, 5, 14], [0, 1, 2, 3, 4, 5, 6, 7, 14], [7, 14], [3, 7]]
THUMB_LISTS_POP = [[n] for n in range(16)] + [[0, 1], [4, 5, 15], [0, 1, 2, 3, 4, 5, 6, 7, 15], [7, 15], [3, 7]]
ARM_LISTS = [[n] for n in range(16)] + [[0, 1], [4, 5, 14], [4, 11, 15], list(range(16)), [11, 14], [0, 15], [1, 2, 3, 12]]
SHIFT_AMOUNTS = [0, 1, 2, 15, 16, 30, 31, 32, 33]


def enumerate_instances(which, cname, cls, table, rng, thorough=False):
    """[{values, sym, place, tag, valid}] for one class.  `valid` (from TLC's `inside` flags) only selects
    which instances are also used for C07; it never judges."""
    from ppci.arch.arm.registers import Coreg, Coproc
    sl = slots(cls)
    if any(k == "?" for _, k in sl):
        return []
    sf = surface(cls)
    if sf is None:
        return []
    mn, pat = sf
    row = _row(table, which, mn, pat)
    regs = [n for n, k in sl if k in "qr"]
    ints = [n for n, k in sl if k == "i"]
    labs = [n for n, k in sl if k == "l"]
    lists = [n for n, k in sl if k == "L"]
    shifts = [n for n, k in sl if k == "s"]
    cregs = [n for n, k in sl if k == "c"]
    cprocs = [n for n, k in sl if k == "p"]
    place0 = PLACE[which]
    out = []

    def base():
        v = _dummy(cls)
        pool = [1, 2, 3, 4] if all(k != "r" for _, k in sl) else [9, 10, 11, 12]
        if which == "thumb" and any(k == "q" for _, k in sl):
            pool = [1, 2, 3, 4]
        k = 0
        for n, kind in sl:
            if kind in "qr":
                v[n] = areg(pool[k % 4])
                k += 1
        if row is not None and ints and not (which == "arm" and pat == "pircci"):
            good = [x["v"] for x in row["vals"] if x["inside"]]
            for n in ints:
                v[n] = 4 if (row["lo"] <= 4 <= row["hi"] and 4 % row["align"] == 0) else (good[0] if good else 0)
        return v

    def add(vals, tag, sym=None, place=None, valid=True):
        if labs and sym is None:
            place = place0
            sym = place0 + 0x40 + PCOFF[which]
        out.append({"values": dict(vals), "sym": sym or 0, "place": place or 0, "tag": tag, "valid": valid})

    b = base()
    # every register in every register slot (the others at distinct defaults), then the diagonal
    for n in regs:
        for r in range(16):
            x = dict(b)
            x[n] = areg(r)
            add(x, "%s:sweep" % n)
    if len(regs) > 1:
        for r in range(16):
            x = dict(b)
            for n in regs:
                x[n] = areg(r)
            add(x, "diag")
    # immediates
    if ints:
        if which == "arm" and mn in ("mcr", "mrc"):
            for n in ints:
                for v in (0, 1, 7, 8):
                    x = dict(b)
                    x[n] = v
                    add(x, "%s:%s" % (n, "in" if v < 8 else "out"), valid=v < 8)
        elif row is not None:
            for n in ints:
                for val in row["vals"]:
                    x = dict(b)
                    x[n] = val["v"]
                    add(x, "%s:%s" % (n, "in" if val["inside"] else "out"), valid=val["inside"])
                if thorough:
                    for _ in range(12):
                        x = dict(b)
                        x[n] = rng.randrange(row["lo"], row["hi"] + 1) // row["align"] * row["align"]
                        add(x, "%s:random" % n)
        elif which == "arm":  # modified immediate
            for n in ints:
                for val in table["aimm"]:
                    x = dict(b)
                    x[n] = val["v"] % (1 << 32)
                    add(x, "%s:%s" % (n, "in" if val["inside"] else "out"), valid=val["inside"])
                if thorough:
                    for _ in range(16):
                        x = dict(b)
                        rot = rng.randrange(16) * 2
                        v8 = rng.randrange(256)
                        x[n] = ((v8 >> rot) | (v8 << (32 - rot))) & 0xFFFFFFFF
                        add(x, "%s:random" % n)
        else:
            for n in ints:
                for v in (0, 1, 4, 255, 256, -1):
                    x = dict(b)
                    x[n] = v
                    add(x, "%s:probe" % n, valid=False)
    # displacements
    if labs:
        literal = which == "thumb" and pat == "rl"
        vals = row["vals"] if row is not None else [{"v": 0x40, "inside": True}]
        for place in ([place0, place0 + 2] if literal else [place0]):
            pcv = ((place + 4) & ~3) if literal else place + PCOFF[which]
            for val in vals:
                sym = pcv + val["v"]
                if sym < 0:
                    continue
                add(b, "%s:%s:%s" % (labs[0], "in" if val["inside"] else "out", "p%d" % (place % 4)), sym=sym, place=place,
                    valid=val["inside"])
        if which == "arm" and mn == "adr":
            for d in (0, 4, 1020, 4080, -4, -1020, -4080, 4092, -4092, 2, 1024, 65536):
                add(b, "%s:adr" % labs[0], sym=place0 + 8 + d, place=place0, valid=d % 4 == 0 and abs(d) <= 4080 and d != 4092)
    # register lists
    for n in lists:
        cand = (THUMB_LISTS_PUSH if mn == "push" else THUMB_LISTS_POP) if which == "thumb" else ARM_LISTS
        for lst in cand:
            x = dict(b)
            try:
                x[n] = _reglist(cls, lst)
            except Exception:
                continue
            add(x, "%s:list%d" % (n, len(lst)))
    # shift suffixes
    for n in shifts:
        for kind in ("lsl", "lsr", "asr"):
            for amt in SHIFT_AMOUNTS:
                x = dict(b)
                try:
                    x[n] = _shift(kind, amt)
                except Exception:
                    continue
                lo = 0 if kind == "lsl" else 1
                hi = 31 if kind == "lsl" else 32
                add(x, "%s:%s" % (n, kind), valid=lo <= amt <= hi)
    for n in cregs:
        for c in Coreg.registers:
            x = dict(b)
            x[n] = c
            add(x, "%s:sweep" % n)
    for n in cprocs:
        for c in Coproc.registers:
            x = dict(b)
            x[n] = c
            # p10 / p11 are the VFP / Advanced SIMD space in ARMv7, not generic coprocessor transfers
            add(x, "%s:sweep" % n, valid=c.num not in (10, 11))
    if not sl:
        add(b, "plain")
    if thorough and regs:
        import itertools
        doms = [range(8) if k == "q" else range(16) for _, k in sl if k in "qr"]
        if len(regs) <= 2:
            combos = list(itertools.product(*doms))       # every register pair
        else:
            combos = [tuple(rng.randrange(len(d)) for d in doms) for _ in range(160)]
        for combo in combos:
            x = dict(b)
            for n, r in zip(regs, combo):
                x[n] = areg(r)
            add(x, "regs")
    return out


# ---------------------------------------------------------------- observers / records
class AsmRig(asmgen.AsmRig):
    def get(self, which):
        if which not in self.arch:
            from ppci.api import get_arch
            self.arch[which] = get_arch(MARCH[which])
        return self.arch[which]


def record(prop, which, cname, path, text, out, sym, place, tag):
    t = tokenize(text)
    if t is None:
        return None
    mn, ops = t
    haslab = any(o[0] == "l" for o in ops)
    suffix = "@%+d" % (sym - place) if haslab else ""
    return {"t": "enc", "isa": which, "key": "%s:%s:%s:%s:%s:%s%s" % (prop, which, cname, path, tag, text, suffix), "mn": mn,
            "ops": ops, "sym": sym, "pc": place, "out": out, "text": text, "cls": cname, "tag": tag}


def instances(which, table, rng, thorough, skipped):
    """Yield (cname, instance dict, built instruction, printed text) for every enumerated instance."""
    for cname, cls in isa_classes(which):
        seen = set()
        for inst in enumerate_instances(which, cname, cls, table, rng, thorough):
            try:
                ins = build(cls, inst["values"])
                text = str(ins)
            except Exception as e:  # construction / printing failed: nothing is printed, nothing to compare
                k = "%s:%s" % (cname, type(e).__name__)
                skipped[k] = skipped.get(k, 0) + 1
                continue
            sig = (text, inst["sym"], inst["place"])
            if sig in seen:
                continue
            seen.add(sig)
            yield cname, inst, ins, text


def enc_records(prop, which, table, rng, thorough=False, paths=("enc",), rig=None):
    """Records (t = 'enc') for every instance of every class of an isa, per path:
    enc = Instruction.encode() (+ its own relocation applied directly), asm = assembler (+ real linker)."""
    recs = []
    skipped = {}
    for cname, inst, ins, text in instances(which, table, rng, thorough, skipped):
        haslab = LABEL in text
        if not inst["valid"]:
            # operand values outside the instruction's range are C10's question (rejected or not); here only
            # counted when ppci accepts them
            o = asmgen.observe_encode(ins, inst["sym"] if haslab else None, inst["place"])
            if o["ok"]:
                skipped["%s:out-of-range operand accepted" % cname] = skipped.get("%s:out-of-range operand accepted" % cname, 0) + 1
            continue
        for path in paths:
            if path == "enc":
                out = asmgen.observe_encode(ins, inst["sym"] if haslab else None, inst["place"])
            elif haslab:
                out = rig.observe_link(which, text, inst["place"], inst["sym"])
            else:
                out = rig.observe_asm(which, text)
            if out["ok"] and not out["bytes"]:
                skipped["%s:no bytes" % cname] = skipped.get("%s:no bytes" % cname, 0) + 1
                continue
            r = record(prop, which, cname, path, text, out, inst["sym"], inst["place"], inst["tag"])
            if r is None:
                skipped["%s:not tokenisable" % cname] = skipped.get("%s:not tokenisable" % cname, 0) + 1
                continue
            recs.append(r)
    return recs, skipped


_RNAME = re.compile(r"^(?:R(\d+)|SP|LR|PC)$")


def _nums(regs):
    """Declared register list -> core register numbers (by printed name R<n> / SP / LR / PC); other
    register files (coprocessor registers) are not core registers."""
    out, other = [], 0
    for r in regs:
        s = str(r)
        m = _RNAME.match(s)
        if m:
            out.append(int(m.group(1)) if m.group(1) is not None else {"SP": 13, "LR": 14, "PC": 15}[s])
        else:
            other += 1
    return out, other


def rw_records(prop, which, table, rng, thorough=False):
    """Records (t = 'rw'): bytes of every in-range instance + the register sets ppci declares."""
    recs = []
    skipped = {}
    for cname, inst, ins, text in instances(which, table, rng, thorough, skipped):
        if not inst["valid"]:
            continue
        try:
            uses, _ = _nums(ins.used_registers)
            defs, _ = _nums(ins.defined_registers)
            clob, _ = _nums(getattr(ins, "clobbers", []))
        except Exception as e:
            skipped["%s:%s" % (cname, type(e).__name__)] = skipped.get("%s:%s" % (cname, type(e).__name__), 0) + 1
            continue
        out = asmgen.observe_encode(ins, inst["sym"] if LABEL in text else None, inst["place"])
        if not out["ok"] or not out["bytes"]:
            k = "%s:%s" % (cname, "no bytes" if out["ok"] else "not encodable")
            skipped[k] = skipped.get(k, 0) + 1
            continue
        suffix = "@%+d" % (inst["sym"] - inst["place"]) if LABEL in text else ""
        recs.append({"t": "rw", "isa": which, "key": "%s:%s:%s:%s:%s%s" % (prop, which, cname, inst["tag"], text, suffix),
                     "bytes": out["bytes"], "uses": uses, "defs": defs, "clob": clob, "text": text, "cls": cname, "tag": inst["tag"],
                     "seeds": [1, 2, 3, 4, 5, 6] if thorough else [1 + len(recs) % 6, 1 + (len(recs) + 3) % 6]})
    return recs, skipped


# ---------------------------------------------------------------- judgement (TLC)
def judge(ctx, recs, invariants, label, workers=6):
    """Evaluate the records in tla/Thumb_Eval.tla; [(record, clause name)] for every violated invariant."""
    if not recs:
        return []
    slim = [{k: v for k, v in r.items() if k not in ("key", "text", "cls", "tag")} for r in recs]
    path = ctx.trace_file(slim)
    cfg = CFG + "".join("INVARIANT %s\n" % inv for inv in invariants)
    res = ctx.tlc("Thumb_Eval", cfg, label=label, env={"TRACE_FILE": path}, continue_=True, workers=workers, coverage=False)
    os.unlink(path)
    tlcclean.clean(res, "Thumb_Eval", expect_states=len(recs) + 1 + (len(recs) + 15) // 16)
    ctx.cov["traces_validated_against_impl"] += len(recs)
    out, seen = [], set()
    for e in res.errors:
        idx = e.last.get("idx")
        if not isinstance(idx, int) or not 1 <= idx <= len(recs):
            raise tlcmod.MachineryError("TLC error without record index in Thumb_Eval: %s\n%s" % (e, e.text[:2000]))
        if (idx, e.name) in seen:
            continue
        seen.add((idx, e.name))
        out.append((recs[idx - 1], e.name))
    return out


# ---------------------------------------------------------------- spec validation against llvm-mc
LLVM_MC = "/usr/bin/llvm-mc-14"
_TRIPLE = {"thumb": ["--triple=thumbv7", "-mattr=+hwdiv"], "arm": ["--triple=armv7", "-mattr=+hwdiv-arm,+hwdiv"]}
_BRANCHY = re.compile(r"^(b|bl|blx|cbz|cbnz)(eq|ne|cs|hs|cc|lo|mi|pl|vs|vc|hi|ls|ge|lt|gt|le|al)?(\.w)?$")


def disassemble(which, byte_lists):
    """llvm-mc --disassemble, one atomic [..] block per byte string: [text or None] (None: invalid encoding)."""
    text = "".join("[" + " ".join("0x%02x" % v for v in b) + "]\n" for b in byte_lists)
    p = subprocess.run([LLVM_MC, "--disassemble"] + _TRIPLE[which], input=text, capture_output=True, text=True, timeout=600)
    bad = {int(m.group(1)) for m in re.finditer(r"<stdin>:(\d+):\d+: warning: invalid instruction encoding", p.stderr)}
    lines = [ln.strip() for ln in p.stdout.splitlines() if ln.strip() and not ln.strip().startswith(".text")]
    res = []
    k = 0
    for n in range(1, len(byte_lists) + 1):
        if n in bad or k >= len(lines):
            res.append(None)
            continue
        res.append(" ".join(lines[k].replace("\t", " ").split()))
        k += 1
    if k != len(lines):
        return None  # could not align the output with the input lines
    return res


def ref_records(which, byte_lists):
    """Records (t = 'enc') whose printed text is llvm-mc's disassembly of the bytes: the same clause
    (Decode(bytes) = Asm(text)) then compares the specification with the reference disassembler."""
    dis = disassemble(which, byte_lists)
    if dis is None:
        return None, 0
    place = PLACE[which]
    recs = []
    invalid = 0
    for b, text in zip(byte_lists, dis):
        if text is None:
            invalid += 1
            recs.append({"t": "enc", "isa": which, "mn": "invalid", "ops": [], "sym": 0, "pc": place,
                         "out": {"ok": True, "exc": "", "bytes": list(b)}, "text": "<invalid>", "key": bytes(b).hex()})
            continue
        t = tokenize(text)
        if t is None:
            continue
        mn, ops = t
        sym = 0
        # the reference prints pc-relative operands as "#offset": make them the label operand of the model
        if _BRANCHY.match(mn) and ops and ops[-1][0] == "i":
            sym = place + PCOFF[which] + ops[-1][1]
            ops[-1] = ["l", 0, "L_ref"]
        elif mn.startswith("adr") and len(ops) == 2 and ops[1][0] == "i":
            sym = (((place + 4) & ~3) if which == "thumb" else place + 8) + ops[1][1]
            ops[1] = ["l", 0, "L_ref"]
        recs.append({"t": "enc", "isa": which, "mn": mn, "ops": ops, "sym": sym, "pc": place,
                     "out": {"ok": True, "exc": "", "bytes": list(b)}, "text": text, "key": bytes(b).hex()})
    return recs, invalid


def llvm_crosscheck(ctx, which, byte_lists, limit=70000):
    """Compare Thumb.Decode / Arm32.DecodeA with llvm-mc on the same bytes (NOTE / SPEC-SUSPECT lines only)."""
    if not os.path.exists(LLVM_MC):
        ctx.note("llvm-mc-14 not installed: specification not cross-checked")
        return None
    uniq = sorted({tuple(b) for b in byte_lists if len(b) in (2, 4)})[:limit]
    if not uniq:
        return None
    recs, invalid = ref_records(which, [list(b) for b in uniq])
    if recs is None:
        ctx.note("llvm-mc output could not be aligned with its input: specification not cross-checked (%s)" % which)
        return None
    slim = [{k: v for k, v in r.items() if k not in ("key", "text")} for r in recs]
    path = ctx.trace_file(slim, "ref.json")
    cfg = CFG + "INVARIANT RefInvalid\nINVARIANT SyntaxKnown\nINVARIANT RefAgrees\n"
    res = ctx.tlc("Thumb_Eval", cfg, label="spec validation: %s decoder against llvm-mc" % which, env={"TRACE_FILE": path},
                  continue_=True, workers=6, coverage=False)
    os.unlink(path)
    tlcclean.clean(res, "Thumb_Eval")
    unknown = differ = invdiff = 0
    unknown_mn = {}
    suspects = []
    seen = set()
    for e in res.errors:
        idx = e.last.get("idx")
        if not isinstance(idx, int) or idx in seen:
            continue
        seen.add(idx)
        r = recs[idx - 1]
        if e.name == "SyntaxKnown":
            unknown += 1
            unknown_mn[r["mn"]] = unknown_mn.get(r["mn"], 0) + 1
        elif e.name == "RefInvalid":
            invdiff += 1
            suspects.append((r["key"], "defined in the specification", "invalid for llvm-mc"))
        else:
            differ += 1
            suspects.append((r["key"], "differs", r["text"]))
    agree = len(recs) - unknown - differ - invdiff
    # how many of the agreeing byte strings are instructions of the model (not: invalid / unsupported on both sides)
    inp = ctx.trace_file([[which, r["out"]["bytes"]] for r in recs], "dis.json")
    outp = os.path.join(ctx.workdir, "dis_out.json")
    ctx.tlc("Thumb_Dis", CFG, label="spec validation: decoder table (%s)" % which, env={"TRACE_FILE": inp, "OUT_FILE": outp},
            workers=2, coverage=False)
    with open(outp) as f:
        decs = json.load(f)
    os.unlink(inp)
    os.unlink(outp)
    bad_idx = {i for i in seen}
    modelled = sum(1 for k, d in enumerate(decs, start=1)
                   if k not in bad_idx and d["mn"] not in ("undefined", "unpredictable", "unsupported", "prefix32", "none"))
    for h, mine, ref in suspects[:20]:
        print("SPEC-SUSPECT property=%s case=%s-bytes:%s specification %s llvm-mc=%r" % (ctx.prop, which, h, mine, ref))
    ctx.note("spec validation (%s): the decoder agrees with llvm-mc-14 on %d of %d byte strings (%d of them instructions of "
             "the model; %d outside the compared syntax, %d differ, %d defined here / invalid there)" % (
                 which, agree, len(recs), modelled, unknown, differ, invdiff))
    ctx.cov.setdefault("spec_validation_arm", {})[which] = {
        "reference": "llvm-mc-14 " + " ".join(_TRIPLE[which]), "agree": agree, "agree_modelled_instructions": modelled, "differ": differ, "not_compared": unknown,
        "invalid_for_reference_only": invdiff,
        "not_compared_mnemonics": dict(sorted(unknown_mn.items(), key=lambda kv: -kv[1])[:12])}
    return suspects


# ---------------------------------------------------------------- the ARM parts of the engines C08 / C07
def _mine(ctx, prop):
    """None: normal run; True: replay of one of this part's cases; False: replay of somebody else's case."""
    if ctx.only is None:
        return None
    return str(ctx.only.get("key", "")).startswith(("%s:thumb:" % prop, "%s:arm:" % prop))


def _restrict(ctx, recs, keyof=lambda r: r["key"]):
    if ctx.only is None:
        return recs
    want = str(ctx.only.get("key", "")).split("::")[0]
    sel = [r for r in recs if keyof(r) == want]
    if not sel:
        ctx.note("replay: the case %s was not regenerated (different tier / seed / tree?)" % ctx.only.get("key"))
    return sel


def _rng(ctx, salt):
    import random
    return random.Random(ctx.seed * 7919 + salt)  # own stream: the RISC-V part's draws stay what they were


def c08_part(ctx, thorough):
    """C08 for ppci.arch.arm (thumb and arm ISAs).  Returns True when a replay was this part's."""
    mine = _mine(ctx, "C08")
    if mine is False:
        return False
    ctx.assume("ARM: lexical tokenisation of the printed text (harness/armgen.py: tokenize), register names R<n> / SP / LR / "
               "PC / c<n> / p<n> -> numbers, integers read as 32-bit two's complement; ppci's pre-UAL Thumb spellings are "
               "read as the flag-setting 16-bit instructions (add R1, R2, R3 = ADDS); for label operands the harness "
               "resolves the label to an address it chose")
    ctx.cov["rule_arm"] = (
        "every concrete instruction class of ppci.arch.arm (thumb_isa, arm_isa) x {each register slot swept over r0..r15 "
        "(ppci refuses high registers in low-register slots), diagonal, every in-range boundary immediate / displacement / "
        "coprocessor operand enumerated by TLC (Thumb_MC.Table), the sample of A32 modified immediates TLC marks encodable, "
        "shift kinds x amounts, register lists (every single register, pairs, full lists), literal loads from an aligned and "
        "a halfword-aligned place}; bytes = encode() (+ own relocation applied; thorough: also assembler + linker on the "
        "printed text, seeded random registers / immediates); TLC: Core(Decode(bytes)) = Core(Asm(printed text)); "
        "distinct = distinct (class, path, printed text, displacement)")
    if mine is None:
        fams = ["t16", "t32", "tln", "aw", "aln", "amod", "amn"] if thorough else ["t16", "tln", "aln", "amn"]
        table = laws_and_table(ctx, fams, thorough)
    else:
        table = gen_table(ctx)
    rng = _rng(ctx, 8)
    rig = AsmRig() if thorough else None
    recs = []
    for which in ("thumb", "arm"):
        r, skipped = enc_records("C08", which, table, rng, thorough, paths=("enc", "asm") if thorough else ("enc",), rig=rig)
        recs += r
        acc = sum(n for k, n in skipped.items() if k.endswith("out-of-range operand accepted"))
        rej = sum(n for k, n in skipped.items() if not k.endswith("out-of-range operand accepted") and not k.endswith("no bytes"))
        ctx.note("%s: %d instance(s) rejected by ppci at construction (e.g. a high register in a low-register slot), %d "
                 "out-of-range operand value(s) accepted by ppci (C10's question, not judged here), %d class(es) that emit no "
                 "bytes (nop)" % (which, rej, acc, sum(1 for k in skipped if k.endswith("no bytes"))))
    recs = _restrict(ctx, recs)
    for r in recs:
        ctx.count(r["key"])
    for r in recs[:: max(1, len(recs) // 3)][:3]:
        ctx.sample({"key": r["key"], "bytes": r["out"]["bytes"]})
    verdicts = judge(ctx, recs, ["EncodingAgrees", "SyntaxKnown", "Predictable"], "E: C08 records (thumb, arm)")
    unknown = unpred = 0
    for rec, clause in verdicts:
        if clause == "SyntaxKnown":
            unknown += 1
        elif clause == "Predictable":
            unpred += 1
        else:
            ctx.violation(rec["key"], "%s: bytes %s do not decode to the printed '%s' [clause %s]" % (
                rec["isa"], bytes(rec["out"]["bytes"]).hex(), rec["text"], clause), {"record": dict(rec), "clause": clause})
    if unknown:
        ctx.note("%d ARM instance(s) printed in a syntax outside the modelled assembly: no verdict" % unknown)
    if unpred:
        ctx.note("%d ARM instance(s) whose emitted encoding the architecture calls UNPREDICTABLE (e.g. blx pc): no verdict" % unpred)
    if thorough and mine is None:
        for which in ("thumb", "arm"):
            bl = [r["out"]["bytes"] for r in recs if r["isa"] == which and r["out"]["ok"]]
            bl += reference_corpus(which, rng)
            llvm_crosscheck(ctx, which, bl)
    return mine is True


def reference_corpus(which, rng):
    """Byte strings beyond what ppci emitted, for the spec validation against llvm-mc."""
    bl = []
    if which == "thumb":
        for h in range(0, 65536, 3):
            if (h >> 11) in (29, 30, 31) or ((h >> 8) == 0xBF and h & 15):  # 32-bit prefixes; IT changes the decoder's state
                continue
            bl.append([h & 255, h >> 8])
        for _ in range(1500):
            h1 = rng.choice([0xF000 | rng.randrange(0x800), 0xFB90 | rng.randrange(16), 0xFBB0 | rng.randrange(16)])
            h2 = rng.choice([0x8000 | rng.randrange(0x8000), 0xF0F0 | rng.randrange(16) | (rng.randrange(16) << 8)])
            bl.append([h1 & 255, h1 >> 8, h2 & 255, h2 >> 8])
    else:
        for _ in range(12000):
            w = rng.randrange(1 << 32)
            if rng.random() < 0.8:
                w = (w & 0x0FFFFFFF) | (rng.choice([0xE, 0xE, 0, 1, 9, 3]) << 28)
            bl.append([w & 255, (w >> 8) & 255, (w >> 16) & 255, w >> 24])
    return bl


C07_WHAT = {
    "StaticWrites": "writes a register it does not declare as written or clobbered",
    "LinkWrite": "writes the link register without declaring it",
    "StaticReads": "reads a register it does not declare as read",
    "NoUndeclaredChange": "executed by ArmExec it changes a register it does not declare as written or clobbered",
    "OutputsDependOnDeclaredReads": "executed by ArmExec on two states that agree on the declared reads it produces different outputs",
}


def c07_part(ctx, thorough):
    """C07 for ppci.arch.arm: the register sets of the emitted instruction against the declared ones."""
    mine = _mine(ctx, "C07")
    if mine is False:
        return False
    ctx.assume("ARM: declared registers are read by their printed name R<n> / SP / LR / PC; the flags are not registers of "
               "ppci's ARM model; sp / pc are implicit for reads where the encoding itself fixes them (sp-relative loads and "
               "stores, push / pop, add sp, literal loads, adr); writes are never exempt, except the pc")
    ctx.cov["rule_arm"] = (
        "every concrete instruction class of ppci.arch.arm (thumb_isa, arm_isa) x {register sweeps r0..r15 per slot, "
        "diagonal, in-range boundary immediates / displacements from TLC, register lists, shifts}; ppci supplies the bytes "
        "and used_registers / defined_registers / clobbers; TLC decodes the bytes (Thumb.Decode / Arm32.DecodeA) and decides "
        "Writes \\ {pc} within declared writes + clobbers (link register of bl / blx as a clause of its own), Reads \\ "
        "encoding-implied sp / pc within declared reads; distinct = distinct (class, printed text, displacement)")
    if mine is None:
        table = laws_and_table(ctx, ["t16", "aw"], thorough)
    else:
        table = gen_table(ctx)
    rng = _rng(ctx, 7)
    recs = []
    for which in ("thumb", "arm"):
        r, skipped = rw_records("C07", which, table, rng, thorough)
        recs += r
        n = sum(v for k, v in skipped.items() if k.endswith("not encodable") or k.endswith("no bytes"))
        if n:
            ctx.note("%s: %d in-range instance(s) without bytes (not encodable / nop), not judged" % (which, n))
    recs = _restrict(ctx, recs)
    for r in recs:
        ctx.count(r["key"])
    for r in recs[:: max(1, len(recs) // 3)][:3]:
        ctx.sample({k: r[k] for k in ("key", "bytes", "uses", "defs", "clob")})
    verdicts = judge(ctx, recs, ["StaticWrites", "LinkWrite", "StaticReads", "NoUndeclaredChange", "OutputsDependOnDeclaredReads",
                                 "Decodable"], "E: C07 records (thumb, arm)")
    undec = 0
    for rec, clause in verdicts:
        if clause == "Decodable":
            undec += 1
            continue
        ctx.violation("%s::%s" % (rec["key"], clause),
                      "%s: '%s' (%s) %s; declared reads %s writes %s clobbers %s [clause %s]" % (
                          rec["isa"], rec["text"], bytes(rec["bytes"]).hex(), C07_WHAT[clause], rec["uses"], rec["defs"],
                          rec["clob"], clause), {"record": dict(rec), "clause": clause})
    if undec:
        ctx.note("%d ARM instance(s) whose bytes are UNPREDICTABLE or outside the decoder's subset (blx pc, mcr p10/p11): "
                 "no register sets to compare" % undec)
    return mine is True
