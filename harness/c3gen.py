"""Abstract C3 programs (property C37): generated as a JSON AST that
(a) tla/C3Src.tla interprets (to_src), (b) is rendered as a C3 module (render_c3) for ppci's
front-end and (c) as an equivalent C program (render_c_main) for the gcc reference guard.
All randomness comes from the rng passed in.

Types (AST names): i8 u8 i16 u16 i32 u32 i64 u64 (C3: int8_t byte/uint8_t int16_t uint16_t int/int32_t uint32_t
int64_t uint64_t), "bool".  The typing functions below (common_type, can_coerce, typeof) mirror the rules of the
language only so that the generator produces programs that are *in* the language and the C rendering can spell
out the conversions; the meaning of a program is decided by C3Src.tla alone.

AST
 program  {"consts":[{"n","ty","e"}], "globals":[gdecl], "funcs":[func], "main": name}
 gdecl    {"n","ty","ptr":bool,"len":0|N,"init":[expr]}          (len>0: array; init empty or exactly len / 1 items)
 func     {"n","ret":T|"bool"|"void","params":[{"n","ty","ptr"}],"body":[stmt]}
 stmt     {"k":"decl","n","ty","ptr","e":expr|NONE} | {"k":"declarr","n","ty","len","init":[expr]}
          {"k":"asg","lhs":lv,"op":"="|"+="|"-="|"*="|"&="|"|=","e"} | {"k":"call","f","args"}
          {"k":"if","c","t":[stmt],"f":[stmt]} | {"k":"while","c","b":[stmt]}
          {"k":"for","init":stmt,"c","step":stmt,"b":[stmt]}
          {"k":"switch","e","cases":[{"v":expr|NONE,"b":[stmt]}]} | {"k":"ret","e":expr|NONE}
 lv       {"k":"var","n"} | {"k":"idx","a","e"} | {"k":"deref","e"}
 gdecl may carry "lenx": expr, the array size as a constant expression; {"k":"sizeof","ty","n":expr} is sizeof(T[n])
 expr     lv | {"k":"lit","v":int} | {"k":"blit","v":bool} | {"k":"un","op":"-"|"+"|"not","a"}
          | {"k":"bin","op","a","b"} | {"k":"cast","ty","a"} | {"k":"call","f","args"} | {"k":"addr","lv"}
"""
import copy

TYPES = ["i8", "u8", "i16", "u16", "i32", "u32", "i64", "u64"]
BITS = {"i8": 8, "u8": 8, "i16": 16, "u16": 16, "i32": 32, "u32": 32, "i64": 64, "u64": 64, "bool": 32}
C3NAME = {"i8": "int8_t", "u8": "byte", "i16": "int16_t", "u16": "uint16_t", "i32": "int", "u32": "uint32_t",
          "i64": "int64_t", "u64": "uint64_t", "bool": "bool", "void": "void"}
C3ALT = {"u8": "uint8_t", "i32": "int32_t"}
CNAME = {"i8": "int8_t", "u8": "uint8_t", "i16": "int16_t", "u16": "uint16_t", "i32": "int32_t", "u32": "uint32_t",
         "i64": "int64_t", "u64": "uint64_t", "bool": "int32_t", "void": "void"}
NONE = {"k": "none"}
ARITH = ["+", "-", "*", "/", "%", "&", "|", "^", "<<", ">>"]
CMP = ["<", "<=", ">", ">=", "==", "!="]
CASG = ["+=", "-=", "*=", "&=", "|="]


def is_signed(t):
    return t[0] == "i"


def trange(t):
    if t == "bool":
        return (0, 1)
    b = BITS[t]
    return (-(1 << (b - 1)), (1 << (b - 1)) - 1) if is_signed(t) else (0, (1 << b) - 1)


def limbs(v, n):
    v &= (1 << (8 * n)) - 1
    return [(v >> (8 * i)) & 255 for i in range(n)]


# ---------------------------------------------------------------- typing (generator guidance / C rendering only)
def can_coerce(f, t):
    if f == t:
        return f in BITS
    if f not in TYPES or t not in TYPES:
        return False
    sf, st, bf, bt = is_signed(f), is_signed(t), BITS[f], BITS[t]
    if sf == st:
        return bf <= bt
    if not sf and st:
        return bf < bt - 1
    return True


def common_type(a, b):
    if a == b and a in BITS:
        return a
    if a in TYPES and b in TYPES:
        return ("i" if is_signed(a) or is_signed(b) else "u") + str(max(BITS[a], BITS[b]))
    return None


def operand_pairs(ty):
    """(ta, tb) whose common type is ty with both implicit conversions allowed."""
    return [(a, b) for a in TYPES for b in TYPES if common_type(a, b) == ty and can_coerce(a, ty) and can_coerce(b, ty)]


ALL_PAIRS = [(a, b) for a in TYPES for b in TYPES
             if common_type(a, b) and can_coerce(a, common_type(a, b)) and can_coerce(b, common_type(a, b))]


class Env:
    """name -> {"ty","ptr","len","const"} for globals / constants, plus the locals of one function; function table."""

    def __init__(self, prog, func=None):
        self.v = {}
        for c in prog.get("consts", []):
            self.v[c["n"]] = {"ty": c["ty"], "ptr": False, "len": 0, "const": True}
        for g in prog["globals"]:
            self.v[g["n"]] = {"ty": g["ty"], "ptr": bool(g.get("ptr")), "len": g.get("len", 0), "const": False}
        self.f = {f["n"]: f for f in prog["funcs"]}
        if func is not None:
            for p in func["params"]:
                self.v[p["n"]] = {"ty": p["ty"], "ptr": bool(p.get("ptr")), "len": 0, "const": False}
            for s in walk_stmts(func["body"]):
                if s["k"] == "decl":
                    self.v[s["n"]] = {"ty": s["ty"], "ptr": bool(s.get("ptr")), "len": 0, "const": False}
                elif s["k"] == "declarr":
                    self.v[s["n"]] = {"ty": s["ty"], "ptr": False, "len": s["len"], "const": False}


def walk_stmts(ss):
    for s in ss:
        yield s
        if s["k"] == "if":
            yield from walk_stmts(s["t"])
            yield from walk_stmts(s["f"])
        elif s["k"] == "while":
            yield from walk_stmts(s["b"])
        elif s["k"] == "for":
            yield from walk_stmts([s["init"], s["step"]])
            yield from walk_stmts(s["b"])
        elif s["k"] == "switch":
            for c in s["cases"]:
                yield from walk_stmts(c["b"])


def typeof(e, env):
    """Static type: an integer type name, "bool", "ptr:<T>", "void" or None (not typable)."""
    k = e["k"]
    if k == "lit":
        return "i32"
    if k == "blit":
        return "bool"
    if k == "var":
        d = env.v.get(e["n"])
        if d is None or d["len"]:
            return None
        return ("ptr:" + d["ty"]) if d["ptr"] else d["ty"]
    if k == "idx":
        d = env.v.get(e["a"])
        return d["ty"] if d and d["len"] else None
    if k == "deref":
        t = typeof(e["e"], env)
        return t[4:] if t and t.startswith("ptr:") else None
    if k == "addr":
        t = typeof(e["lv"], env)
        return ("ptr:" + t) if t in BITS else None
    if k == "un":
        t = typeof(e["a"], env)
        if e["op"] == "not":
            return "bool" if t == "bool" else None
        return t if t in TYPES else None
    if k == "bin":
        ta, tb = typeof(e["a"], env), typeof(e["b"], env)
        if e["op"] in ("and", "or"):
            return "bool" if ta == tb == "bool" else None
        ct = common_type(ta, tb) if ta in BITS and tb in BITS else None
        if ct is None or not can_coerce(ta, ct) or not can_coerce(tb, ct):
            return None
        if e["op"] in CMP:
            return "bool"
        return ct if ct in TYPES else None
    if k == "cast":
        return e["ty"] if typeof(e["a"], env) in TYPES else None
    if k == "call":
        f = env.f.get(e["f"])
        return f["ret"] if f else None
    if k == "sizeof":
        return "i32"
    return None


# ---------------------------------------------------------------- rendering as C3
def c3type(t, alt=False):
    return C3ALT.get(t, C3NAME[t]) if alt else C3NAME[t]


def c3_expr(e):
    k = e["k"]
    if k == "lit":
        return str(e["v"]) if not e.get("hex") else hex(e["v"])
    if k == "blit":
        return "true" if e["v"] else "false"
    if k == "var":
        return e["n"]
    if k == "idx":
        return "%s[%s]" % (e["a"], c3_expr(e["e"]))
    if k == "deref":
        return "(*%s)" % c3_expr(e["e"])
    if k == "addr":
        return "(&%s)" % c3_lv(e["lv"])
    if k == "un":
        return "(%s %s)" % (e["op"], c3_expr(e["a"])) if e["op"] == "not" else "(%s%s)" % (e["op"], c3_expr(e["a"]))
    if k == "bin":
        return "(%s %s %s)" % (c3_expr(e["a"]), e["op"], c3_expr(e["b"]))
    if k == "cast":
        return "cast<%s>(%s)" % (c3type(e["ty"], e.get("alt", False)), c3_expr(e["a"]))
    if k == "call":
        return "%s(%s)" % (e["f"], ", ".join(c3_expr(a) for a in e["args"]))
    if k == "sizeof":
        return "sizeof(%s[%s])" % (c3type(e["ty"]), c3_expr(e["n"]))
    raise ValueError(k)


def c3_lv(lv):
    if lv["k"] == "deref":
        return "*%s" % c3_expr(lv["e"])
    return c3_expr(lv)


def c3_decl(d, name=None):
    t = c3type(d["ty"], d.get("alt", False))
    if d.get("ptr"):
        t += "*"
    if d.get("lenx"):
        t += "[%s]" % c3_expr(d["lenx"])
    elif d.get("len"):
        t += "[%d]" % d["len"]
    return "%s %s" % (t, name or d["n"])


def c3_stmts(ss, ind):
    out = []
    p = "  " * ind
    for s in ss:
        k = s["k"]
        if k == "decl":
            out.append("%svar %s%s;" % (p, c3_decl(s), "" if s["e"]["k"] == "none" else " = " + c3_expr(s["e"])))
        elif k == "declarr":
            out.append("%svar %s%s;" % (p, c3_decl(s), " = {%s}" % ", ".join(c3_expr(x) for x in s["init"]) if s["init"] else ""))
        elif k == "asg":
            out.append("%s%s %s %s;" % (p, c3_lv(s["lhs"]), s["op"], c3_expr(s["e"])))
        elif k == "call":
            out.append("%s%s;" % (p, c3_expr(s)))
        elif k == "if":
            out.append("%sif (%s)" % (p, c3_expr(s["c"])))
            out.append(p + "{")
            out += c3_stmts(s["t"], ind + 1)
            out.append(p + "}")
            if s["f"]:
                out.append(p + "else")
                out.append(p + "{")
                out += c3_stmts(s["f"], ind + 1)
                out.append(p + "}")
        elif k == "while":
            out.append("%swhile (%s)" % (p, c3_expr(s["c"])))
            out.append(p + "{")
            out += c3_stmts(s["b"], ind + 1)
            out.append(p + "}")
        elif k == "for":
            i0 = c3_stmts([s["init"]], 0)[0].rstrip(";")
            st = c3_stmts([s["step"]], 0)[0].rstrip(";")
            out.append("%sfor (%s; %s; %s)" % (p, i0, c3_expr(s["c"]), st))
            out.append(p + "{")
            out += c3_stmts(s["b"], ind + 1)
            out.append(p + "}")
        elif k == "switch":
            out.append("%sswitch (%s)" % (p, c3_expr(s["e"])))
            out.append(p + "{")
            for c in s["cases"]:
                out.append("%s  %s" % (p, "default:" if c["v"]["k"] == "none" else "case %s:" % c3_expr(c["v"])))
                out.append(p + "  {")
                out += c3_stmts(c["b"], ind + 2)
                out.append(p + "  }")
            out.append(p + "}")
        elif k == "ret":
            out.append("%sreturn%s;" % (p, "" if s["e"]["k"] == "none" else " " + c3_expr(s["e"])))
        else:
            raise ValueError(k)
    return out


def render_c3(prog, module="main"):
    out = ["module %s;" % module]
    for c in prog.get("consts", []):
        out.append("const %s %s = %s;" % (c3type(c["ty"]), c["n"], c3_expr(c["e"])))
    for g in prog["globals"]:
        init = ""
        if g["init"]:
            init = " = {%s}" % ", ".join(c3_expr(x) for x in g["init"]) if g["len"] else " = " + c3_expr(g["init"][0])
        out.append("var %s%s;" % (c3_decl(g), init))
    for f in prog["funcs"]:
        out.append("")
        out.append("function %s %s(%s)" % (c3type(f["ret"]), f["n"], ", ".join(c3_decl(p) for p in f["params"])))
        out.append("{")
        out += c3_stmts(f["body"], 1)
        out.append("}")
    return "\n".join(out) + "\n"


# ---------------------------------------------------------------- encoding for C3Src.tla
def to_src(prog):
    """The same AST with integer literals as 4-byte words (TLC integers are 32-bit)."""
    def ex(e):
        k = e["k"]
        if k == "lit":
            return {"k": "lit", "w": limbs(e["v"], 4)}
        if k == "blit":
            return {"k": "blit", "v": bool(e["v"])}
        if k in ("var", "none"):
            return {kk: e[kk] for kk in e if kk in ("k", "n")}
        if k == "idx":
            return {"k": "idx", "a": e["a"], "e": ex(e["e"])}
        if k == "deref":
            return {"k": "deref", "e": ex(e["e"])}
        if k == "addr":
            return {"k": "addr", "lv": ex(e["lv"])}
        if k == "un":
            return {"k": "un", "op": e["op"], "a": ex(e["a"])}
        if k == "bin":
            return {"k": "bin", "op": e["op"], "a": ex(e["a"]), "b": ex(e["b"])}
        if k == "cast":
            return {"k": "cast", "ty": e["ty"], "a": ex(e["a"])}
        if k == "call":
            return {"k": "call", "f": e["f"], "args": [ex(a) for a in e["args"]]}
        if k == "sizeof":
            return {"k": "sizeof", "ty": e["ty"], "n": ex(e["n"])}
        raise ValueError(k)

    def st(s):
        k = s["k"]
        if k == "decl":
            return {"k": "decl", "n": s["n"], "ty": s["ty"], "ptr": bool(s.get("ptr")), "e": ex(s["e"])}
        if k == "declarr":
            return {"k": "declarr", "n": s["n"], "ty": s["ty"], "len": s["len"], "init": [ex(x) for x in s["init"]]}
        if k == "asg":
            return {"k": "asg", "lhs": ex(s["lhs"]), "op": s["op"], "e": ex(s["e"])}
        if k == "call":
            return ex(s)
        if k == "if":
            return {"k": "if", "c": ex(s["c"]), "t": sts(s["t"]), "f": sts(s["f"])}
        if k == "while":
            return {"k": "while", "c": ex(s["c"]), "b": sts(s["b"])}
        if k == "for":
            return {"k": "for", "init": st(s["init"]), "c": ex(s["c"]), "step": st(s["step"]), "b": sts(s["b"])}
        if k == "switch":
            return {"k": "switch", "e": ex(s["e"]), "cases": [{"v": ex(c["v"]), "b": sts(c["b"])} for c in s["cases"]]}
        if k == "ret":
            return {"k": "ret", "e": ex(s["e"])}
        raise ValueError(k)

    def sts(ss):
        return [st(s) for s in ss]

    return {"consts": [{"n": c["n"], "ty": c["ty"], "e": ex(c["e"])} for c in prog.get("consts", [])],
            "globals": [{"n": g["n"], "ty": g["ty"], "ptr": bool(g.get("ptr")), "len": g.get("len", 0),
                         "lenx": ex(g["lenx"]) if g.get("lenx") else {"k": "none"},
                         "init": [ex(x) for x in g["init"]]} for g in prog["globals"]],
            "funcs": [{"n": f["n"], "ret": f["ret"],
                       "params": [{"n": p["n"], "ty": p["ty"], "ptr": bool(p.get("ptr"))} for p in f["params"]],
                       "body": sts(f["body"])} for f in prog["funcs"]]}


def src_args(f, vec):
    return [limbs(int(v), BITS[p["ty"]] // 8) for v, p in zip(vec, f["params"])]


# ---------------------------------------------------------------- rendering as C (gcc reference guard)
def c_expr(e, env):
    """C expression computing the value C3 semantics give e; every C3 conversion is spelled out."""
    k = e["k"]
    t = typeof(e, env)
    if k == "lit":
        return "((int32_t)%d)" % e["v"]
    if k == "blit":
        return "((int32_t)%d)" % (1 if e["v"] else 0)
    if k == "var":
        return e["n"]
    if k == "idx":
        return "%s[(int32_t)(%s)]" % (e["a"], c_expr(e["e"], env))
    if k == "deref":
        return "(*%s)" % c_expr(e["e"], env)
    if k == "addr":
        return "(&%s)" % c_expr(e["lv"], env)
    if k == "un":
        if e["op"] == "not":
            return "((int32_t)!%s)" % c_expr(e["a"], env)
        return "((%s)(%s(%s)%s))" % (CNAME[t], e["op"], CNAME[t], c_expr(e["a"], env))
    if k == "bin":
        a, b = c_expr(e["a"], env), c_expr(e["b"], env)
        if e["op"] in ("and", "or"):
            return "((int32_t)(%s %s %s))" % (a, "&&" if e["op"] == "and" else "||", b)
        ct = CNAME[common_type(typeof(e["a"], env), typeof(e["b"], env))]
        if e["op"] in CMP:
            return "((int32_t)((%s)%s %s (%s)%s))" % (ct, a, e["op"], ct, b)
        return "((%s)((%s)%s %s (%s)%s))" % (ct, ct, a, e["op"], ct, b)
    if k == "cast":
        return "((%s)%s)" % (CNAME[e["ty"]], c_expr(e["a"], env))
    if k == "call":
        f = env.f[e["f"]]
        return "%s(%s)" % (e["f"], ", ".join(c_conv(a, p, env) for a, p in zip(e["args"], f["params"])))
    if k == "sizeof":
        return "((int32_t)sizeof(%s[%s]))" % (CNAME[e["ty"]], c_expr(e["n"], env))
    raise ValueError(k)


def c_conv(e, d, env):
    if d.get("ptr"):
        return c_expr(e, env)
    return "((%s)%s)" % (CNAME[d["ty"]], c_expr(e, env))


def c_decl(d):
    t = CNAME[d["ty"]]
    if d.get("ptr"):
        return "%s *%s" % (t, d["n"])
    if d.get("len"):
        return "%s %s[%d]" % (t, d["n"], d["len"])
    return "%s %s" % (t, d["n"])


def c_stmts(ss, env, fret, ind):
    out = []
    p = "  " * ind
    for s in ss:
        k = s["k"]
        if k == "decl":
            if s["e"]["k"] != "none":
                out.append("%s%s = %s;" % (p, s["n"], c_conv(s["e"], s, env)))
        elif k == "declarr":
            for j, x in enumerate(s["init"]):
                out.append("%s%s[%d] = %s;" % (p, s["n"], j, c_conv(x, {"ty": s["ty"]}, env)))
        elif k == "asg":
            lt = typeof(s["lhs"], env)
            lhs = c_expr(s["lhs"], env)
            if lt.startswith("ptr:"):
                out.append("%s%s = %s;" % (p, lhs, c_expr(s["e"], env)))
            elif s["op"] == "=":
                out.append("%s%s = (%s)%s;" % (p, lhs, CNAME[lt], c_expr(s["e"], env)))
            else:
                out.append("%s%s = (%s)((%s)%s %s (%s)%s);" % (p, lhs, CNAME[lt], CNAME[lt], lhs, s["op"][:-1], CNAME[lt], c_expr(s["e"], env)))
        elif k == "call":
            out.append("%s%s;" % (p, c_expr(s, env)))
        elif k == "if":
            out.append("%sif (%s) {" % (p, c_expr(s["c"], env)))
            out += c_stmts(s["t"], env, fret, ind + 1)
            out.append(p + "} else {")
            out += c_stmts(s["f"], env, fret, ind + 1)
            out.append(p + "}")
        elif k == "while":
            out.append("%swhile (%s) {" % (p, c_expr(s["c"], env)))
            out += c_stmts(s["b"], env, fret, ind + 1)
            out.append(p + "}")
        elif k == "for":
            out += c_stmts([s["init"]], env, fret, ind)
            out.append("%swhile (%s) {" % (p, c_expr(s["c"], env)))
            out += c_stmts(s["b"], env, fret, ind + 1)
            out += c_stmts([s["step"]], env, fret, ind + 1)
            out.append(p + "}")
        elif k == "switch":
            out.append("%sswitch ((int32_t)%s) {" % (p, c_expr(s["e"], env)))
            for c in s["cases"]:
                out.append("%s  %s {" % (p, "default:" if c["v"]["k"] == "none" else "case %s:" % c_expr(c["v"], env)))
                out += c_stmts(c["b"], env, fret, ind + 2)
                out.append(p + "  } break;")
            out.append(p + "}")
        elif k == "ret":
            out.append("%sreturn%s;" % (p, "" if s["e"]["k"] == "none" else " (%s)%s" % (CNAME[fret], c_expr(s["e"], env))))
    return out


def c_int(v):
    if v >= (1 << 63):
        return "%dULL" % v
    if v == -(1 << 63):
        return "(-9223372036854775807LL-1)"
    return "%dLL" % v if v >= 0 else "(-%dLL)" % -v


def c_print(t):
    """(C type to print a value of type t with, the same, printf format): unsigned values are printed unsigned."""
    if t in TYPES and not is_signed(t):
        return ("unsigned long long", "unsigned long long", "%llu")
    return ("long long", "long long", "%lld")


def render_c_main(prog, f, vecs):
    """C program: every argument selects an argument vector; prints K <index>, RET and the final value of every non-pointer global."""
    genv = Env(prog)
    out = ["#include <stdio.h>", "#include <stdlib.h>", "#include <stdint.h>", "#include <string.h>"]
    for c in prog.get("consts", []):
        out.append("#define %s ((%s)%s)" % (c["n"], CNAME[c["ty"]], c_expr(c["e"], genv)))
    for g in prog["globals"]:
        init = ""
        if g["init"]:
            vals = ["(%s)%s" % (CNAME[g["ty"]], c_expr(x, genv)) for x in g["init"]]
            init = " = {%s}" % ", ".join(vals) if g["len"] else " = " + vals[0]
        decl = c_decl(g) if not g.get("lenx") else "%s %s[%s]" % (CNAME[g["ty"]], g["n"], c_expr(g["lenx"], genv))
        out.append("%s%s;" % (decl, init))
    for fn in prog["funcs"]:
        env = Env(prog, fn)
        out.append("%s %s(%s) {" % (CNAME[fn["ret"]], fn["n"], ", ".join(c_decl(p) for p in fn["params"]) or "void"))
        seen = set()
        for s in walk_stmts(fn["body"]):
            if s["k"] in ("decl", "declarr") and s["n"] not in seen:       # one function scope (C3Src D8)
                seen.add(s["n"])
                out.append("  %s;" % c_decl(s))
        out += c_stmts(fn["body"], env, fn["ret"], 1)
        out.append("}")
    # main: every argument selects an argument vector; the globals are restored to their initial image before each run
    obs = [g for g in prog["globals"]]
    for g in obs:
        out.append("static %s;" % (c_decl(dict(g, n=g["n"] + "__init")) if not g.get("lenx") else
                                  "%s %s__init[%s]" % (CNAME[g["ty"]], g["n"], c_expr(g["lenx"], genv))))
    out.append("int main(int argc, char **argv) {")
    for g in obs:
        out.append("  memcpy(&%s__init, &%s, sizeof %s);" % (g["n"], g["n"], g["n"]))
    out.append("  for (int a = 1; a < argc; a++) {")
    out.append("    int k = atoi(argv[a]);")
    for g in obs:
        out.append("    memcpy(&%s, &%s__init, sizeof %s);" % (g["n"], g["n"], g["n"]))
    out.append("    printf(\"K %d\\n\", k);")
    for k, vec in enumerate(vecs):
        args = ", ".join("(%s)%s" % (CNAME[p["ty"]], c_int(v)) for v, p in zip(vec, f["params"]))
        if f["ret"] == "void":
            out.append("    if (k == %d) { %s(%s); printf(\"RET void\\n\"); }" % (k, f["n"], args))
        else:
            out.append("    if (k == %d) { %s r = (%s)%s(%s); printf(\"RET %s\\n\", r); }" % ((k,) + c_print(f["ret"])[:2] + (f["n"], args, c_print(f["ret"])[2])))
    for g in prog["globals"]:
        if g.get("ptr"):
            continue
        ct, _, fmt = c_print(g["ty"])
        if g["len"]:
            out.append("    for (int j = 0; j < (int)(sizeof %s / sizeof %s[0]); j++) printf(\"G %s[%%d] %s\\n\", j, (%s)%s[j]);" % (g["n"], g["n"], g["n"], fmt, ct, g["n"]))
        else:
            out.append("    printf(\"G %s %s\\n\", (%s)%s);" % (g["n"], fmt, ct, g["n"]))
    out.append("    fflush(stdout);")
    out.append("  }")
    out.append("  return 0;")
    out.append("}")
    return "\n".join(out) + "\n"


# ---------------------------------------------------------------- AST helpers
def V(n):
    return {"k": "var", "n": n}


def L(v):
    return {"k": "lit", "v": v}


def BL(v):
    return {"k": "blit", "v": bool(v)}


def B(op, a, b):
    return {"k": "bin", "op": op, "a": a, "b": b}


def U(op, a):
    return {"k": "un", "op": op, "a": a}


def CAST(ty, a):
    return {"k": "cast", "ty": ty, "a": a}


def IDX(a, e):
    return {"k": "idx", "a": a, "e": e}


def DEREF(e):
    return {"k": "deref", "e": e}


def ADDR(lv):
    return {"k": "addr", "lv": lv}


def CALL(f, *args):
    return {"k": "call", "f": f, "args": list(args)}


def RET(e=None):
    return {"k": "ret", "e": e if e is not None else NONE}


def ASG(lhs, e, op="="):
    return {"k": "asg", "lhs": lhs, "op": op, "e": e}


def DECL(n, ty, e=None, ptr=False):
    return {"k": "decl", "n": n, "ty": ty, "ptr": ptr, "e": e if e is not None else NONE}


def DECLARR(n, ty, ln, init=()):
    return {"k": "declarr", "n": n, "ty": ty, "len": ln, "init": list(init)}


def IF(c, t, f=()):
    return {"k": "if", "c": c, "t": list(t), "f": list(f)}


def WHILE(c, b):
    return {"k": "while", "c": c, "b": list(b)}


def FOR(init, c, step, b):
    return {"k": "for", "init": init, "c": c, "step": step, "b": list(b)}


def SWITCH(e, cases):
    return {"k": "switch", "e": e, "cases": [{"v": v if v is not None else NONE, "b": list(b)} for v, b in cases]}


def FN(name, ret, params, body):
    return {"n": name, "ret": ret, "params": [{"n": p[0], "ty": p[1], "ptr": len(p) > 2 and bool(p[2])} for p in params],
            "body": list(body)}


def G(n, ty, init=(), ln=0, ptr=False, lenx=None):
    """lenx: the array size as a constant expression (ln is then its intended value, used for the printed copy only)."""
    g = {"n": n, "ty": ty, "ptr": ptr, "len": ln, "init": list(init)}
    if lenx is not None:
        g["lenx"] = lenx
    return g


def SIZEOF(ty, n):
    return {"k": "sizeof", "ty": ty, "n": n}


def PROG(funcs, globals_=(), consts=()):
    return {"consts": [{"n": n, "ty": t, "e": e} for n, t, e in consts], "globals": list(globals_), "funcs": list(funcs),
            "main": funcs[-1]["n"]}


def lit_of(ty, v):
    """An expression of static type ty with the (non-negative, < 2^31) value v."""
    return L(v) if ty == "i32" else CAST(ty, L(v))


# ---------------------------------------------------------------- the generator
class Gen:
    """Random well-typed C3 programs: 1-3 functions, <= max_stmts statements per block level, expression depth
    <= max_depth over all integer types and bool, global / local arrays, pointers to locals, globals and array
    elements (as locals and parameters), compound assignment, nested bounded loops, switch, calls.
    avoid: construct classes not to generate (those whose systematic probes failed in the same run):
    "constexpr" (operators in constant expressions), "constexpr-div" (/ and % there), "shift", "div", "compound", "cast", "switch", "pointer"."""

    def __init__(self, rng, max_funcs=3, max_stmts=6, max_depth=3, avoid=()):
        self.r = rng
        self.max_funcs = max_funcs
        self.max_stmts = max_stmts
        self.max_depth = max_depth
        self.avoid = set(avoid)
        self.uid = 0

    def name(self, p):
        self.uid += 1
        return "%s%d" % (p, self.uid)

    def pick_type(self):
        return self.r.choice(["i32", "i32", "i32", "u8", "u8"] + TYPES)

    # ---- scope bookkeeping: self.vars = {name: decl}, decl = {"ty","ptr","len","const","global","prot"}
    def scalars(self, ty=None, writable=False):
        return [n for n, d in self.vars.items() if not d["ptr"] and not d["len"] and d["ty"] != "bool"
                and (ty is None or d["ty"] == ty) and not (writable and (d["const"] or d.get("prot")))]

    def bools(self, writable=False):
        return [n for n, d in self.vars.items() if d["ty"] == "bool" and not d["ptr"] and not d["len"]
                and not (writable and d.get("prot"))]

    def arrays(self, ty=None):
        return [n for n, d in self.vars.items() if d["len"] and (ty is None or d["ty"] == ty)]

    def pointers(self, ty=None):
        return [n for n, d in self.vars.items() if d["ptr"] and d.get("set") and (ty is None or d["ty"] == ty)]

    def index(self, arr, depth, calls):
        """An in-bounds int index expression for array arr."""
        n = self.vars[arr]["len"]
        if n & (n - 1) == 0 and self.r.random() < 0.5 and depth > 0:
            return B("&", self.expr("i32", depth - 1, calls), L(n - 1))
        return L(self.r.randrange(n))

    def literal(self):
        r = self.r
        c = r.random()
        if c < 0.55:
            return L(r.randrange(0, 12))
        if c < 0.85:
            e = L(r.choice([127, 128, 255, 256, 32767, 32768, 65535, 65536, 0x7FFFFFFF, 0x7FFFFFFE, 100, 1000, 31, 63]))
        else:
            e = L(r.randrange(0, 1 << 16))
        if r.random() < 0.3:
            e["hex"] = True              # spelling only: 0x7fff
        return e

    def leaf(self, ty, calls):
        r = self.r
        c = r.random()
        sc = self.scalars(ty)
        if sc and c < 0.55:
            return V(r.choice(sc))
        ar = self.arrays(ty)
        if ar and c < 0.68:
            a = r.choice(ar)
            return IDX(a, self.index(a, 0, False))
        ps = self.pointers(ty)
        if ps and c < 0.78 and "pointer" not in self.avoid:
            return DEREF(V(r.choice(ps)))
        if ty == "i32":
            return self.literal()
        anyv = self.scalars()
        if anyv and c < 0.9 and "cast" not in self.avoid:
            return CAST(ty, V(r.choice(anyv)))
        lit = self.literal()
        if "cast" in self.avoid:
            # without casts only an implicit conversion can produce the type: int literals convert to the unsigned
            # types and to int64_t; for the others fall back to a variable of that type if there is one
            return V(r.choice(sc)) if sc else lit
        return CAST(ty, lit)

    def expr(self, ty, depth, calls=True):
        """An expression of static type exactly ty (an integer type)."""
        r = self.r
        if depth <= 0 or r.random() < 0.18:
            return self.leaf(ty, calls)
        c = r.random()
        if c < 0.62:
            ops = [o for o in ARITH if not (o in ("<<", ">>") and "shift" in self.avoid) and not (o in ("/", "%") and "div" in self.avoid)]
            op = r.choice(ops)
            ta, tb = r.choice(operand_pairs(ty))
            a = self.expr(ta, depth - 1, calls)
            b = self.expr(tb, depth - 1, calls)
            if op in ("/", "%") and r.random() < 0.93:
                b = B("|", b, lit_of(tb, 1)) if tb == "i32" or "cast" not in self.avoid else b
            if op in ("<<", ">>") and r.random() < 0.95:
                m = lit_of(tb, min(BITS[ty], BITS[tb]) - 1) if tb == "i32" or "cast" not in self.avoid else None
                if m is not None:
                    b = B("&", b, m)
            return B(op, a, b)
        if c < 0.70:
            return U(r.choice(["-", "-", "+"]), self.expr(ty, depth - 1, calls))
        if c < 0.82 and "cast" not in self.avoid:
            return CAST(ty, self.expr(self.pick_type(), depth - 1, calls))
        if c < 0.92 and calls:
            fs = [f for f in self.callable if f["ret"] == ty and self.can_call(f)]
            if fs:
                return self.call(r.choice(fs), depth - 1)
        return self.leaf(ty, calls)

    def bexpr(self, depth, calls=True):
        r = self.r
        c = r.random()
        if depth <= 0 or c < 0.1:
            bs = self.bools()
            if bs and r.random() < 0.6:
                return V(r.choice(bs))
            if r.random() < 0.3:
                return BL(r.random() < 0.5)
            ta, tb = r.choice(ALL_PAIRS)
            return B(r.choice(CMP), self.leaf(ta, calls), self.leaf(tb, calls))
        if c < 0.55:
            ta, tb = r.choice(ALL_PAIRS)
            return B(r.choice(CMP), self.expr(ta, depth - 1, calls), self.expr(tb, depth - 1, calls))
        if c < 0.8:
            return B(r.choice(["and", "or"]), self.bexpr(depth - 1, calls), self.bexpr(depth - 1, calls))
        if c < 0.9:
            return U("not", self.bexpr(depth - 1, calls))
        if c < 0.95 and self.bools() and len(self.bools()) > 1:
            a, b = r.sample(self.bools(), 2)
            return B(r.choice(["==", "!="]), V(a), V(b))
        fs = [f for f in self.callable if f["ret"] == "bool" and self.can_call(f)]
        if fs and calls:
            return self.call(r.choice(fs), depth - 1)
        return self.bexpr(depth - 1, calls)

    def arg(self, p, depth):
        r = self.r
        if p["ptr"]:
            return self.pointer_to(p["ty"])
        if p["ty"] == "bool":
            return self.bexpr(depth, calls=False)
        srcs = [t for t in TYPES if can_coerce(t, p["ty"])]
        return self.expr(r.choice([p["ty"], p["ty"]] + srcs), depth, calls=False)

    def call(self, f, depth):
        return CALL(f["n"], *[self.arg(p, max(0, depth)) for p in f["params"]])

    def pointer_to(self, ty):
        """A pointer-valued expression of element type ty (always to a live object)."""
        r = self.r
        c = r.random()
        ps = self.pointers(ty)
        if ps and c < 0.3:
            return V(r.choice(ps))
        sc = [n for n in self.scalars(ty) if not self.vars[n]["const"] and not self.vars[n].get("prot")]
        ar = self.arrays(ty)
        if ar and (c < 0.6 or not sc):
            a = r.choice(ar)
            return ADDR(IDX(a, L(r.randrange(self.vars[a]["len"]))))
        if sc:
            return ADDR(V(r.choice(sc)))
        return None

    def can_point(self, ty):
        return bool(self.pointers(ty) or self.arrays(ty) or
                    [n for n in self.scalars(ty) if not self.vars[n]["const"] and not self.vars[n].get("prot")])

    def lvalue(self, depth):
        """(lvalue, type) of a writable non-pointer object."""
        r = self.r
        c = r.random()
        sc = self.scalars(writable=True)
        ar = self.arrays()
        ps = self.pointers()
        if ps and c < 0.15 and "pointer" not in self.avoid:
            p = r.choice(ps)
            return DEREF(V(p)), self.vars[p]["ty"]
        if ar and c < 0.4:
            a = r.choice(ar)
            return IDX(a, self.index(a, depth, False)), self.vars[a]["ty"]
        if sc:
            n = r.choice(sc)
            return V(n), self.vars[n]["ty"]
        return None, None

    def rhs_for(self, ty, depth):
        srcs = [t for t in TYPES if can_coerce(t, ty)]
        return self.expr(self.r.choice([ty, ty, ty] + srcs), depth)

    # ---- statements
    def stmts(self, n, depth, nest):
        out = []
        for _ in range(n):
            out += self.stmt(depth, nest)
        return out

    def block(self, n, depth, nest):
        """A nested block: what it declares is not used after it (it may not have been executed)."""
        saved = dict(self.vars)
        out = self.stmts(n, depth, nest)
        self.vars = saved
        return out

    def can_call(self, f):
        return all(not p["ptr"] or self.can_point(p["ty"]) for p in f["params"])

    def stmt(self, depth, nest):
        r = self.r
        c = r.random()
        if c < 0.16:
            ty = self.pick_type()
            n = self.name("v")
            s = DECL(n, ty, self.rhs_for(ty, depth))
            s["alt"] = r.random() < 0.3
            self.vars[n] = {"ty": ty, "ptr": False, "len": 0, "const": False}
            return [s]
        if c < 0.20:
            n = self.name("b")
            s = DECL(n, "bool", self.bexpr(depth))
            self.vars[n] = {"ty": "bool", "ptr": False, "len": 0, "const": False}
            return [s]
        if c < 0.25 and nest == 0:
            ty = self.pick_type()
            ln = r.choice([2, 3, 4, 4, 8])
            n = self.name("la")
            srcs = [t for t in TYPES if can_coerce(t, ty)]
            s = DECLARR(n, ty, ln, [self.expr(r.choice([ty] + srcs), max(0, depth - 1), calls=False) for _ in range(ln)])
            self.vars[n] = {"ty": ty, "ptr": False, "len": ln, "const": False}
            return [s]
        if c < 0.31 and "pointer" not in self.avoid and nest == 0:
            tys = [t for t in TYPES if self.can_point(t)]
            if tys:
                ty = r.choice(tys)
                n = self.name("q")
                s = DECL(n, ty, self.pointer_to(ty), ptr=True)
                self.vars[n] = {"ty": ty, "ptr": True, "len": 0, "const": False, "set": True}
                return [s]
        if c < 0.58:
            lv, ty = self.lvalue(depth)
            if lv is not None:
                if r.random() < 0.35 and "compound" not in self.avoid:
                    return [ASG(lv, self.rhs_for(ty, depth), r.choice(CASG))]
                return [ASG(lv, self.rhs_for(ty, depth))]
        if c < 0.62:
            bs = self.bools(writable=True)
            if bs:
                return [ASG(V(r.choice(bs)), self.bexpr(depth))]
        if c < 0.66 and "pointer" not in self.avoid:
            ps = [p for p in self.pointers() if not self.vars[p].get("param") and not self.vars[p].get("global")]
            if ps:
                p = r.choice(ps)
                tgt = self.pointer_to(self.vars[p]["ty"])
                if tgt is not None:
                    return [ASG(V(p), tgt)]
        if c < 0.76 and nest < 2:
            return [IF(self.bexpr(depth), self.block(r.randrange(1, 3), depth, nest + 1),
                       self.block(r.randrange(0, 3), depth, nest + 1))]
        if c < 0.84 and nest < 2:
            return self.loop(depth, nest)
        if c < 0.89 and nest < 2 and "switch" not in self.avoid:
            if self.kconsts and r.random() < 0.3:
                cases = [(V(r.choice(self.kconsts)), self.block(r.randrange(1, 3), depth, nest + 1))]
            else:
                vals = r.sample([0, 1, 2, 3, 5, 7, 100, 255, 256], r.randrange(1, 4))
                cases = [(L(v), self.block(r.randrange(1, 3), depth, nest + 1)) for v in vals]
            cases.insert(r.randrange(len(cases) + 1), (None, self.block(r.randrange(0, 2), depth, nest + 1)))
            return [SWITCH(self.expr("i32", depth), cases)]
        if c < 0.96:
            fs = [f for f in self.callable if self.can_call(f)]
            if fs:
                f = r.choice(fs)
                if f["ret"] == "void":
                    return [self.call(f, depth)]
                n = self.name("v")
                e = self.call(f, depth)
                if f["ret"] == "bool":
                    self.vars[n] = {"ty": "bool", "ptr": False, "len": 0, "const": False}
                    return [DECL(n, "bool", e)]
                tys = [t for t in TYPES if can_coerce(f["ret"], t)]
                ty = r.choice([f["ret"]] + tys)
                self.vars[n] = {"ty": ty, "ptr": False, "len": 0, "const": False}
                return [DECL(n, ty, e)]
        lv, ty = self.lvalue(depth)
        if lv is not None:
            return [ASG(lv, self.rhs_for(ty, depth))]
        return []

    def loop(self, depth, nest):
        """Counter-bounded loop: the counter (int or byte) is written by the loop header / last body statement only."""
        r = self.r
        n = self.name("i")
        bound = r.randrange(1, 5)
        ty = r.choice(["i32", "i32", "u8"])
        self.vars[n] = {"ty": ty, "ptr": False, "len": 0, "const": False, "prot": True}
        pre = [DECL(n, ty, L(0))]
        body = self.block(r.randrange(1, 3), depth, nest + 1)
        if r.random() < 0.7 and "cast" not in self.avoid:
            # the body observes the counter: a store that depends on it
            lv, lty = self.lvalue(0)
            if lv is not None:
                use = CAST(lty, B("*", V(n), self.leaf(ty, False)))
                body.append(ASG(lv, use, "+=") if "compound" not in self.avoid else ASG(lv, B("+", copy.deepcopy(lv), use)))
        cond = B("<", V(n), L(bound))
        if r.random() < 0.4:
            cond = B("and", cond, self.bexpr(max(0, depth - 1), calls=False))
        step = ASG(V(n), L(1), "+=") if r.random() < 0.5 and "compound" not in self.avoid else ASG(V(n), B("+", V(n), L(1)))
        if r.random() < 0.5:
            return pre + [FOR(ASG(V(n), L(0)), cond, step, body)]
        return pre + [WHILE(cond, body + [step])]

    # ---- functions and the program
    def func(self, k, nf):
        r = self.r
        self.vars = copy.deepcopy(self.gvars)
        for d in self.vars.values():
            if d["ptr"]:
                d["set"] = True            # the main function points every global pointer at a global first
        main = k == nf - 1
        params = []
        for _ in range(r.randrange(0 if not main else 1, 4)):
            ty = self.pick_type()
            n = self.name("p")
            if r.random() < 0.12:
                ty = "bool"
            params.append({"n": n, "ty": ty, "ptr": False})
            self.vars[n] = {"ty": ty, "ptr": False, "len": 0, "const": False}
        if not main and r.random() < 0.45 and "pointer" not in self.avoid:
            ty = r.choice(sorted({d["ty"] for d in self.gvars.values() if not d["const"] and not d["ptr"] and d["ty"] != "bool"}))
            n = self.name("q")
            params.append({"n": n, "ty": ty, "ptr": True})
            self.vars[n] = {"ty": ty, "ptr": True, "len": 0, "const": False, "set": True, "param": True}
        ret = "void" if (not main and r.random() < 0.2) else ("bool" if r.random() < 0.1 else self.pick_type())
        body = []
        if main:
            for g, d in self.gvars.items():
                if d["ptr"]:
                    cands = [n for n, e in self.gvars.items() if not e["ptr"] and e["ty"] == d["ty"] and not e["const"]]
                    tgt = r.choice(cands)
                    body.append(ASG(V(g), ADDR(IDX(tgt, L(r.randrange(self.gvars[tgt]["len"]))) if self.gvars[tgt]["len"] else V(tgt))))
        body += self.stmts(r.randrange(2, self.max_stmts + 1), self.max_depth, 0)
        # sinks: no dead computation - locals flow into a global or into the returned value
        sinks = [n for n in self.scalars() if n not in self.gvars][:5]
        gs = [n for n in self.scalars(writable=True) if n in self.gvars]
        for n in sinks[3:]:
            if gs:
                g = r.choice(gs)
                if "cast" not in self.avoid:
                    body.append(ASG(V(g), B("^", V(g), CAST(self.vars[g]["ty"], V(n)))))
        if ret == "void":
            if gs and sinks:
                g = r.choice(gs)
                if "cast" not in self.avoid:
                    body.append(ASG(V(g), CAST(self.vars[g]["ty"], V(sinks[0]))))
            if r.random() < 0.5:
                body.append(RET())
        elif ret == "bool":
            body.append(RET(self.bexpr(self.max_depth)))
        else:
            e = self.expr(ret, self.max_depth)
            if "cast" not in self.avoid:
                for n in sinks[:3]:
                    e = B(r.choice(["^", "+"]), e, CAST(ret, V(n)))
            body.append(RET(e))
        return {"n": self.name("f"), "ret": ret, "params": params, "body": body}

    def program(self):
        r = self.r
        consts, globals_ = [], []
        self.gvars = {}
        self.kconsts = []
        if r.random() < 0.6:
            for _ in range(r.randrange(1, 3)):
                n = self.name("K")
                ty = r.choice(["i32", "i32", "u8"])
                if "constexpr" in self.avoid or r.random() < 0.4:
                    e = L(r.randrange(0, 200))
                else:
                    op = r.choice(["+", "-", "*"] + ([] if "constexpr-div" in self.avoid else ["/", "%"]))
                    a = V(r.choice(self.kconsts)) if self.kconsts and r.random() < 0.4 else L(r.randrange(0, 300))
                    e = B(op, a, L(r.randrange(1, 40)))
                if ty == "u8" and "cast" in self.avoid:
                    ty = "i32"
                consts.append({"n": n, "ty": ty, "e": e})
                self.gvars[n] = {"ty": ty, "ptr": False, "len": 0, "const": True, "global": True}
                if ty == "i32":
                    self.kconsts.append(n)
        for _ in range(r.randrange(1, 4)):
            ty = self.pick_type()
            n = self.name("g")
            init = []
            if ty in ("i32", "u8") and r.random() < 0.7:      # pack_int / eval_const support only int and byte here
                v = r.randrange(0, 100)
                init = [L(v) if "constexpr" in self.avoid or r.random() < 0.6 else B(r.choice(["+", "-", "*"]), L(v), L(r.randrange(0, 9)))]
                if ty == "u8" and init[0]["k"] == "bin" and init[0]["op"] == "-":
                    init = [L(v)]
            globals_.append(G(n, ty, init))
            self.gvars[n] = {"ty": ty, "ptr": False, "len": 0, "const": False, "global": True}
        if r.random() < 0.3:
            n = self.name("gb")
            globals_.append(G(n, "bool"))
            self.gvars[n] = {"ty": "bool", "ptr": False, "len": 0, "const": False, "global": True}
        for _ in range(r.randrange(1, 3)):
            ty = self.pick_type()
            ln = r.choice([2, 3, 4, 4, 8])
            n = self.name("a")
            init = [L(r.randrange(0, 60)) for _ in range(ln)] if ty in ("i32", "u8") and r.random() < 0.7 else []
            globals_.append(G(n, ty, init, ln))
            self.gvars[n] = {"ty": ty, "ptr": False, "len": ln, "const": False, "global": True}
        if r.random() < 0.35 and "pointer" not in self.avoid:
            cands = sorted({d["ty"] for d in self.gvars.values() if not d["const"] and d["ty"] != "bool"})
            ty = r.choice(cands)
            n = self.name("gq")
            globals_.append(G(n, ty, ptr=True))
            self.gvars[n] = {"ty": ty, "ptr": True, "len": 0, "const": False, "global": True}
        self.callable = []
        funcs = []
        nf = r.randrange(1, self.max_funcs + 1)
        for k in range(nf):
            f = self.func(k, nf)
            funcs.append(f)
            self.callable.append(f)
        return {"consts": consts, "globals": globals_, "funcs": funcs, "main": funcs[-1]["n"]}


def boundary(t):
    lo, hi = trange(t)
    s = [0, 1, 2, 7, hi, hi - 1, hi // 2 + 1, 100, 31]
    if lo < 0:
        s += [-1, -2, -7, lo, lo + 1]
    return sorted({v for v in s if lo <= v <= hi})


def arg_vectors(prog, rng, n):
    """The function to run and n argument vectors: boundary values + seeded random values."""
    f = [x for x in prog["funcs"] if x["n"] == prog["main"]][0]
    vecs = []
    seen = set()
    for k in range(n * 4):
        vec = []
        for p in f["params"]:
            if p["ty"] == "bool":
                vec.append(rng.randrange(2))
                continue
            lo, hi = trange(p["ty"])
            c = rng.random()
            if k == 0:
                v = 0
            elif c < 0.45:
                v = rng.choice(boundary(p["ty"]))
            elif c < 0.8:
                v = rng.randrange(max(lo, -20), min(hi, 40) + 1)
            else:
                v = rng.randrange(lo, hi + 1)
            vec.append(v)
        if tuple(vec) not in seen:
            seen.add(tuple(vec))
            vecs.append(vec)
        if len(vecs) >= n:
            break
    return f, vecs
