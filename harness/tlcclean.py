"""Guard used by engines C20/C33: a TLC run must have finished its search.

An evaluation error that harness/tlc.py's parser does not know (e.g. "This was a Java
StackOverflowError") stops TLC even under -continue; records would be left unjudged and the run
would still look clean (errors == []).  `clean` turns that into a machinery failure."""
import re

from . import tlc as tlcmod

_BAD = ("StackOverflowError", "OutOfMemoryError", "Error: TLC threw", "Error: Evaluating", "Error: Attempted",
        "Error: In evaluation", "Error: The exception was")


def clean(res, module, expect_states=None):
    raw = res.raw
    bad = [ln for ln in raw.splitlines() if any(b in ln for b in _BAD)]
    left = [int(x) for x in re.findall(r"(\d+) states left on queue", raw)]
    if bad or not left or left[-1] != 0:
        raise tlcmod.MachineryError("%s: TLC did not finish the search cleanly: %s / queue %s\n%s" % (
            module, bad[:3], left[-1:], raw[-1500:] if not bad else ""))
    if expect_states is not None and res.distinct != expect_states:
        raise tlcmod.MachineryError("%s: %d states explored, %d expected (records not all judged)" % (
            module, res.distinct, expect_states))
