"""Verdict protocol, evidence, known findings, engine context (DESIGN §3.7)."""
import fnmatch
import hashlib
import json
import os
import random
import shutil
import sys
import tempfile
import time

from . import tlc as tlcmod

VERIF = tlcmod.VERIF
REPO = os.environ.get("VERIF_REPO", "/repo")
KNOWN_FILE = os.path.join(VERIF, "known_findings.json")
DEFAULT_SEED = 20260921


def load_known():
    try:
        with open(KNOWN_FILE) as f:
            return json.load(f)
    except FileNotFoundError:
        return {"known": [], "fixed": []}


def case_hash(obj):
    return hashlib.sha1(json.dumps(obj, sort_keys=True, default=str).encode()).hexdigest()[:16]


class Ctx:
    def __init__(self, prop, tier, seed, level, only=None):
        self.prop = prop
        self.tier = tier
        self.seed = seed
        self.level = level
        self.only = only  # replay: restrict to this case (engine-defined)
        self.rng = random.Random(seed)
        self.workdir = tempfile.mkdtemp(prefix="verif_%s_" % prop)
        self.t0 = time.time()
        self.violations = []
        self.known_hits = {}
        self.known = [k for k in load_known().get("known", []) if k["property"] == prop]
        self.cov = {
            "states": 0,
            "transitions": 0,
            "traces_validated_against_impl": 0,
            "evaluations": 0,
            "distinct_nontrivial": 0,
            "samples": [],
            "rule": "",
            "tlc_runs": [],
            "actions": {},
        }
        self.assumptions = []
        self._distinct = set()
        self.notes = []

    # ---- TLC -----------------------------------------------------------
    def tlc(self, module, cfg_text, label=None, **kw):
        """Run TLC; accumulate state counts and per-action coverage."""
        wd = os.path.join(self.workdir, "tlc_%d" % len(self.cov["tlc_runs"]))
        os.makedirs(wd, exist_ok=True)
        kw.setdefault("coverage", True)
        keep = kw.pop("keep", False)
        res = tlcmod.run(module, cfg_text, wd, **kw)
        self.cov["states"] += res.distinct
        self.cov["transitions"] += res.generated
        acts = tlcmod.action_coverage(res)
        for k, v in acts.items():
            self.cov["actions"][k] = self.cov["actions"].get(k, 0) + v
        self.cov["tlc_runs"].append(
            {
                "module": module,
                "label": label or module,
                "distinct_states": res.distinct,
                "states_generated": res.generated,
                "depth": res.depth,
                "wall_s": round(res.wall, 2),
                "errors": len(res.errors),
            }
        )
        if not keep:
            shutil.rmtree(wd, ignore_errors=True)
        return res

    def trace_file(self, obj, name="trace.json"):
        p = os.path.join(self.workdir, "%s_%d_%s" % (self.prop, len(os.listdir(self.workdir)), name))
        tlcmod.write_json(p, obj)
        return p

    # ---- accounting ----------------------------------------------------
    def count(self, case=None, nontrivial=True, n=1):
        self.cov["evaluations"] += n
        if case is not None and nontrivial:
            self._distinct.add(case if isinstance(case, (str, int)) else case_hash(case))

    def sample(self, obj, limit=5):
        if len(self.cov["samples"]) < limit:
            self.cov["samples"].append(obj)

    def rule(self, text):
        self.cov["rule"] = text

    def assume(self, text):
        if text not in self.assumptions:
            self.assumptions.append(text)

    def note(self, text):
        self.notes.append(text)
        print("NOTE: " + text)

    # ---- verdicts ------------------------------------------------------
    def violation(self, key, what, case=None):
        """Report a violation (unless it is a listed known finding)."""
        key = str(key)
        for k in self.known:
            if fnmatch.fnmatchcase(key, k["key"]):
                hit = self.known_hits.setdefault(k["key"], {"entry": k, "n": 0, "first": key})
                hit["n"] += 1
                return False
        safe = "".join(c if c.isalnum() or c in "-_.=" else "_" for c in key)[:110] + "_" + case_hash(key)[:8]
        d = os.path.join(VERIF, "replays", self.prop)
        os.makedirs(d, exist_ok=True)
        path = os.path.join(d, safe + ".json")
        if len(self.violations) < 200:  # a massive breakage must not flood the disk
            with open(path, "w") as f:
                json.dump({"property": self.prop, "key": key, "what": what, "case": case,
                           "seed": self.seed, "tier": self.tier}, f, indent=1, default=str)
        else:
            path = self.violations[0][2]
        if len(self.violations) < 50:
            print("VIOLATION property=%s replay=%s" % (self.prop, path))
            print("  key=%s: %s" % (key, what))
        self.violations.append((key, what, path))
        return True

    def finish(self):
        for pat, hit in self.known_hits.items():
            print("KNOWN-FINDING: property=%s %s [key %s, %d case(s), e.g. %s]" % (
                self.prop, hit["entry"]["what"], pat, hit["n"], hit["first"]))
        self.cov["distinct_nontrivial"] = max(self.cov["distinct_nontrivial"], len(self._distinct))
        cov = dict(self.cov)
        cov["known_findings_hit"] = {p: h["n"] for p, h in self.known_hits.items()}
        if self.notes:
            cov["notes"] = self.notes[:50]
        if not cov["samples"]:
            cov["samples"] = ["(no sample recorded)"]
        if self.level == "other":
            cov.setdefault("explanation", cov.get("rule") or "see rule")
        if cov["states"] == 0:
            # never write zero states for a model_checking claim: fall back to generic keys
            del cov["states"]
            del cov["transitions"]
        ev = {
            "property_id": self.prop,
            "tier": self.tier,
            "seed": self.seed,
            "level": self.level,
            "coverage": cov,
            "assumptions": self.assumptions,
            "wall_s": round(time.time() - self.t0, 2),
            "violations": len(self.violations),
        }
        if self.only is None:
            # X-series = specification coverage beyond the listed properties (DESIGN section 11)
            evdir = os.path.join(VERIF, "evidence", "ext") if self.prop.startswith("X") else os.path.join(VERIF, "evidence")
            os.makedirs(evdir, exist_ok=True)
            with open(os.path.join(evdir, self.prop + ".json"), "w") as f:
                json.dump(ev, f, indent=1, default=str)
        shutil.rmtree(self.workdir, ignore_errors=True)
        print("%s %s: evaluations=%d distinct=%d states=%s traces=%d violations=%d known=%d wall=%.1fs" % (
            self.prop, self.tier, cov["evaluations"], cov["distinct_nontrivial"], cov.get("states", 0),
            cov["traces_validated_against_impl"], len(self.violations),
            sum(h["n"] for h in self.known_hits.values()), ev["wall_s"]))
        return 1 if self.violations else 0


def chunks(seq, n):
    for i in range(0, len(seq), n):
        yield seq[i:i + n]


# ---- the E/T idiom: evaluate records in TLC, map errors back -----------
def eval_records(ctx, module, cfg_text, records, keyfn, whatfn=None, idx_var="i",
                 label=None, trace=True, **kw):
    """Run an Eval/Trace module over `records` (JSON array, TRACE_FILE) and
    report every TLC error as a violation of the record it points to.

    The module must expose a variable `idx_var` holding the 1-based index of
    the record under evaluation in the state where an invariant fails / a
    deadlock is reached."""
    if not records:
        return None
    path = ctx.trace_file(records)
    kw.setdefault("continue_", True)
    res = ctx.tlc(module, cfg_text, label=label, env={"TRACE_FILE": path}, **kw)
    os.unlink(path)
    if trace:
        ctx.cov["traces_validated_against_impl"] += len(records)
    seen = set()
    for e in res.errors:
        st = e.last
        idx = st.get(idx_var)
        if not isinstance(idx, int) or idx < 1 or idx > len(records):
            raise tlcmod.MachineryError("TLC error without record index in %s: %s\n%s" % (
                module, e, e.text[:2000]))
        if (idx, e.name) in seen:
            continue
        seen.add((idx, e.name))
        rec = records[idx - 1]
        what = (whatfn(rec, e) if whatfn else "%s %s rejected by %s" % (e.kind, e.name, module))
        ctx.violation(keyfn(rec), what + " [clause %s]" % e.name,
                      {"record": rec, "clause": e.name, "state": {k: v for k, v in st.items() if len(str(v)) < 400}})
    return res


# ---- parts of one check run side by side (C07 / C08: one part per instruction set) --------------
_MERGE_NUM = ("states", "transitions", "traces_validated_against_impl", "evaluations")


def run_parts(ctx, parts, jobs=4):
    """Run `parts` = [(name, fn)] (fn(ctx) -> truthy when the replay case was its own) in forked child
    processes, at most `jobs` at a time, and merge what they recorded into `ctx`.  Each child works on a
    copy of ctx (own workdir, own rng stream derived from the seed and the part name) and prints its own
    VIOLATION lines; the parent merges coverage, violations and known-finding hits.  A machinery failure
    in any part is re-raised in the parent."""
    import pickle
    import struct
    pending = list(parts)
    running = {}
    results = {}
    order = [n for n, _ in parts]

    def start(name, fn):
        r, w = os.pipe()
        sys.stdout.flush()
        pid = os.fork()
        if pid == 0:
            os.close(r)
            code = 0
            try:
                ctx.rng = random.Random("%s/%s" % (ctx.seed, name))
                ctx.workdir = tempfile.mkdtemp(prefix="verif_%s_%s_" % (ctx.prop, name))
                base = {k: ctx.cov[k] for k in _MERGE_NUM}
                nruns, nviol, nsamp, nnotes = len(ctx.cov["tlc_runs"]), len(ctx.violations), len(ctx.cov["samples"]), len(ctx.notes)
                hits0 = {k: h["n"] for k, h in ctx.known_hits.items()}
                dn0 = max(ctx.cov["distinct_nontrivial"], len(ctx._distinct))
                ctx.cov["rule"] = ""
                out = {"name": name}
                try:
                    out["own"] = bool(fn(ctx))
                except tlcmod.MachineryError as e:
                    out["machinery"] = str(e)[:4000]
                out.update({
                    "num": {k: ctx.cov[k] - base[k] for k in _MERGE_NUM},
                    "tlc_runs": ctx.cov["tlc_runs"][nruns:], "actions": ctx.cov["actions"],
                    "samples": ctx.cov["samples"][nsamp:], "rule": ctx.cov["rule"],
                    "dn": max(ctx.cov["distinct_nontrivial"], len(ctx._distinct)) - dn0, "violations": ctx.violations[nviol:],
                    "known_hits": {k: dict(h, n=h["n"] - hits0.get(k, 0)) for k, h in ctx.known_hits.items()
                                   if h["n"] > hits0.get(k, 0)}, "notes": ctx.notes[nnotes:], "assumptions": ctx.assumptions,
                    "extra": {k: v for k, v in ctx.cov.items() if k not in _MERGE_NUM and k not in (
                        "tlc_runs", "actions", "samples", "rule", "distinct_nontrivial")},
                })
                data = pickle.dumps(out)
                with os.fdopen(w, "wb") as f:
                    f.write(struct.pack("<Q", len(data)))
                    f.write(data)
                shutil.rmtree(ctx.workdir, ignore_errors=True)
            except BaseException:
                import traceback
                traceback.print_exc()
                code = 3
            sys.stdout.flush()
            os._exit(code)
        os.close(w)
        running[pid] = (name, r)

    while pending or running:
        while pending and len(running) < jobs:
            start(*pending.pop(0))
        # read the result of any finished child (read first: a child blocks on a full pipe otherwise)
        import select
        ready, _, _ = select.select([r for _, r in running.values()], [], [])
        for pid, (name, r) in list(running.items()):
            if r not in ready:
                continue
            with os.fdopen(r, "rb") as f:
                head = f.read(8)
                data = f.read(struct.unpack("<Q", head)[0]) if len(head) == 8 else b""
            _, status = os.waitpid(pid, 0)
            del running[pid]
            if not data:
                raise tlcmod.MachineryError("part %s of %s died (status %s)" % (name, ctx.prop, status))
            results[name] = pickle.loads(data)
            break
    own = False
    rules = []
    dn_sum = 0
    for name in order:
        out = results[name]
        if "machinery" in out:
            raise tlcmod.MachineryError("part %s: %s" % (name, out["machinery"]))
        own = own or out["own"]
        for k in _MERGE_NUM:
            ctx.cov[k] += out["num"][k]
        ctx.cov["tlc_runs"] += out["tlc_runs"]
        for k, v in out["actions"].items():
            ctx.cov["actions"][k] = max(ctx.cov["actions"].get(k, 0), v)
        for smp in out["samples"]:
            if len(ctx.cov["samples"]) < 12:
                ctx.cov["samples"].append(smp)
        if out["rule"]:
            rules.append("[%s] %s" % (name, out["rule"]))
        dn_sum += out["dn"]
        ctx.violations += out["violations"]
        for pat, hit in out["known_hits"].items():
            h = ctx.known_hits.setdefault(pat, {"entry": hit["entry"], "n": 0, "first": hit["first"]})
            h["n"] += hit["n"]
        ctx.notes += out["notes"]
        for a in out["assumptions"]:
            ctx.assume(a)
        for k, v in out["extra"].items():
            ctx.cov.setdefault(k, v)
    # the parts have disjoint key spaces: distinct cases add up
    ctx.cov["distinct_nontrivial"] = max(ctx.cov["distinct_nontrivial"], len(ctx._distinct)) + dn_sum
    if rules:
        ctx.cov["rule"] = (ctx.cov["rule"] + " " if ctx.cov["rule"] else "") + " ".join(rules)
    return own


def main(engines, argv=None):
    import argparse

    ap = argparse.ArgumentParser()
    ap.add_argument("prop")
    ap.add_argument("--tier", default=os.environ.get("VERIF_TIER", "quick"))
    ap.add_argument("--replay")
    ap.add_argument("--selftest", action="store_true")
    a = ap.parse_args(argv)
    seed = int(os.environ.get("VERIF_SEED", DEFAULT_SEED))
    if a.prop not in engines:
        print("no engine for", a.prop)
        return 2
    eng = engines[a.prop]()
    only = None
    if a.replay:
        with open(a.replay) as f:
            only = json.load(f)
        seed = only.get("seed", seed)
    ctx = Ctx(a.prop, a.tier, seed, eng.LEVEL, only=only)
    os.environ.setdefault("PYTHONHASHSEED", "0")
    try:
        eng.run(ctx)
        return ctx.finish()
    except tlcmod.MachineryError as e:
        print("MACHINERY-FAILURE property=%s: %s" % (a.prop, str(e)[:4000]))
        shutil.rmtree(ctx.workdir, ignore_errors=True)
        return 2
