"""Object / layout generator and link recorder for the linker family (C11, C12, C14).

* `link_recorder(events, index_of)`  wraps the methods of ppci.binutils.linker.Linker (no edit of
  /repo, same spirit as optcorpus.pass_recorder) and appends one event per phase:
      start            state before the first inject_object (entry + extra symbols)
      inject(obj)      state after each inject_object
      layout           state after layout_sections
      check            check_undefined_symbols returned
      relax            state after do_relaxations
      reloc(r)         site bytes before, section bytes after each _do_relocation
      fail(phase,exc)  the first exception, with the state at that moment
  states are harness.project_obj.project(linker.dst).
* `mk_object`, `mk_layout`, `layout_text`   build ppci objects from abstract descriptions
* `gen_job(rng, ...)`    random link job: objects (sections, symbols, relocations), layout, options
* `run_job(job)`         performs the link under the recorder and returns the trace for Linker_Trace
"""
import contextlib
import io

from . import project_obj as P


# ---------------------------------------------------------------------------
# recorder
@contextlib.contextmanager
def link_recorder(events, index_of, debug_proj=False):
    from ppci.binutils import linker as L

    cls = L.Linker
    failed = [False]

    def snap(self):
        return P.project(self.dst, debug=debug_proj)

    def guarded(name, fn):
        """run fn(); on the first exception record a fail event with the state reached"""
        def run(self, *a, **kw):
            try:
                return fn(self, *a, **kw)
            except BaseException as e:
                if not failed[0]:
                    failed[0] = True
                    try:
                        st = snap(self)
                    except Exception:
                        st = None
                    events.append({"ev": "fail", "phase": name, "exc": type(e).__name__, "msg": str(e)[:200],
                                   "state": st})
                raise
        return run

    orig = {n: cls.__dict__[n] for n in ("merge_objects", "inject_object", "layout_sections",
                                         "check_undefined_symbols", "do_relaxations", "_do_relocation")}

    def merge_objects(self, input_objects, debug):
        events.append({"ev": "start", "state": snap(self)})
        return orig["merge_objects"](self, input_objects, debug)

    def inject_object(self, obj, debug):
        r = orig["inject_object"](self, obj, debug)
        events.append({"ev": "inject", "obj": index_of(obj), "state": snap(self)})
        return r

    def layout_sections(self, layout):
        r = orig["layout_sections"](self, layout)
        events.append({"ev": "layout", "state": snap(self)})
        return r

    def check_undefined_symbols(self):
        r = orig["check_undefined_symbols"](self)
        events.append({"ev": "check"})
        return r

    def do_relaxations(self):
        r = orig["do_relaxations"](self)
        events.append({"ev": "relax", "state": snap(self)})
        return r

    def _do_relocation(self, relocation):
        idx = [k for k, x in enumerate(self.dst.relocations) if x is relocation]
        sec = self.dst.section_map.get(relocation.section)
        before = list(bytes(sec.data)) if sec is not None else []
        r = orig["_do_relocation"](self, relocation)
        events.append({"ev": "reloc", "r": (idx[0] + 1) if idx else 0, "sec": P._s(relocation.section),
                       "before": before, "after": list(bytes(sec.data)) if sec is not None else []})
        return r

    new = {"merge_objects": guarded("merge", merge_objects), "inject_object": guarded("inject", inject_object),
           "layout_sections": guarded("layout", layout_sections),
           "check_undefined_symbols": guarded("check", check_undefined_symbols),
           "do_relaxations": guarded("relax", do_relaxations), "_do_relocation": guarded("reloc", _do_relocation)}
    for n, f in new.items():
        setattr(cls, n, f)
    try:
        yield
    finally:
        for n, f in orig.items():
            setattr(cls, n, f)


# ---------------------------------------------------------------------------
# builders
def mk_object(arch, d):
    """abstract object {"secs":[{"name","align","data":[u8]}], "syms":[{"id","name","binding","def","sec","value",
    "typ","size"}], "rels":[{"type","sym","sec","off","add"}], "entry": id|-1} -> ObjectFile"""
    from ppci.binutils.objectfile import ObjectFile, RelocationEntry

    o = ObjectFile(arch)
    for s in d["secs"]:
        sec = o.get_section(s["name"], create=True)
        sec.alignment = s["align"]
        sec.add_data(bytes(s["data"]))
    for y in d["syms"]:
        if y["def"]:
            o.add_symbol(y["id"], y["name"], y["binding"], y["value"], y["sec"], y["typ"], y["size"])
        else:
            o.add_symbol(y["id"], y["name"], y["binding"], None, None, y["typ"], y["size"])
    for r in d["rels"]:
        o.add_relocation(RelocationEntry(r["type"], r["sym"], r["sec"], r["off"], r["add"]))
    if d.get("entry", -1) != -1:
        o.entry_symbol_id = d["entry"]
    return o


def mk_layout(lay):
    """abstract layout -> ppci Layout built from objects"""
    from ppci.binutils import layout as LY

    out = LY.Layout()
    if lay["entry"]:
        out.entry = LY.EntrySymbol(lay["entry"])
    for m in lay["mems"]:
        mem = LY.Memory(m["name"])
        mem.location = m["loc"]
        mem.size = m["size"]
        for i in m["ins"]:
            if i["k"] == "section":
                mem.add_input(LY.Section(i["name"]))
            elif i["k"] == "sectiondata":
                mem.add_input(LY.SectionData(i["name"]))
            elif i["k"] == "symbol":
                mem.add_input(LY.SymbolDefinition(i["name"]))
            elif i["k"] == "align":
                mem.add_input(LY.Align(i["al"]))
        out.add_memory(mem)
    return out


def layout_text(lay, rng=None):
    """abstract layout -> text in the layout language (parsed by ppci.binutils.layout)"""
    def num(v):
        return ("0x%x" % v) if (rng is None or rng.random() < 0.6) else str(v)

    lines = []
    if lay["entry"]:
        lines.append("ENTRY(%s)" % lay["entry"])
    for m in lay["mems"]:
        lines.append("MEMORY %s LOCATION=%s SIZE=%s {" % (m["name"], num(m["loc"]), num(m["size"])))
        for i in m["ins"]:
            if i["k"] == "section":
                lines.append("  SECTION(%s)" % i["name"])
            elif i["k"] == "sectiondata":
                lines.append("  SECTIONDATA(%s)" % i["name"])
            elif i["k"] == "symbol":
                lines.append("  DEFINESYMBOL(%s)" % i["name"])
            elif i["k"] == "align":
                lines.append("  ALIGN(%s)" % num(i["al"]))
        lines.append("}")
    return "\n".join(lines) + "\n"


KEYWORDS = {"MEMORY", "ALIGN", "ENTRY", "LOCATION", "SECTION", "SECTIONDATA", "SIZE", "DEFINESYMBOL"}


def is_id(n):
    import re

    return bool(re.fullmatch(r"[_A-Za-z][_A-Za-z0-9]*", n)) and n not in KEYWORDS


def text_expressible(lay):
    if not lay["on"] or not lay["mems"]:
        return False
    for m in lay["mems"]:
        if not is_id(m["name"]) or not m["ins"]:
            return False
        for i in m["ins"]:
            if i["k"] != "align" and not is_id(i["name"]):
                return False
    return (not lay["entry"]) or is_id(lay["entry"])


# ---------------------------------------------------------------------------
# generator (C12): everything is representable, so a link fails only for the reasons C12 names
SEC_NAMES = ["code", "data", "rodata", "bss", "x_1", "vec"]
ODD_NAMES = [".text", "a b", "séc", "$9", "MEMORY"]
GLOBALS = ["g0", "g1", "g2", "g3", "main"]
LOCALS = ["l0", "l1", "loop"]
ALIGNS = [1, 1, 2, 4, 4, 8, 16]
REL_TYPES = {"x86_64": [("abs64", 8), ("rel32", 4), ("abs32", 4)]}


def gen_object(rng, arch_name, idx, secpool, max_size=24, reltypes=None, defs=(), refs=()):
    """one abstract object; defs / refs = global names it defines / only references"""
    nsec = rng.choice([1, 1, 2, 2, 3])
    names = rng.sample(secpool, min(nsec, len(secpool)))
    secs = []
    for n in names:
        sz = rng.choice([0, 1, 2, 3, 4, 5, 7, 8, 9, 12, 15, 16, 17, max_size])
        if rng.random() < 0.08:
            sz = rng.randrange(33, 65)
        secs.append({"name": n, "align": rng.choice(ALIGNS), "data": [rng.randrange(256) for _ in range(sz)]})
    syms = []
    ids = list(range(0, 16))
    if rng.random() < 0.3:
        rng.shuffle(ids)  # symbol ids need not be dense or ordered
    todo = [("gdef", n) for n in defs] + [("gref", n) for n in refs if n not in defs]
    todo += [("local", rng.choice(LOCALS)) for _ in range(rng.choice([0, 1, 1, 2]))]
    rng.shuffle(todo)
    for kind, n in todo:
        sid = ids[len(syms)]
        if kind == "gref":
            syms.append({"id": sid, "name": n, "binding": "global", "def": False, "sec": "", "value": 0,
                         "typ": "object", "size": 0})
        else:
            s = rng.choice(secs)
            syms.append({"id": sid, "name": n, "binding": "global" if kind == "gdef" else "local", "def": True,
                         "sec": s["name"], "value": rng.choice([0, len(s["data"]), rng.randrange(0, len(s["data"]) + 1)]),
                         "typ": rng.choice(["object", "func"]), "size": rng.choice([0, 1, 4, 8])})
    rels = []
    rt = reltypes if reltypes is not None else REL_TYPES.get(arch_name, [])
    if syms and rt:
        for _ in range(rng.choice([0, 1, 1, 2, 3])):
            t, size = rng.choice(rt)
            cands = [s for s in secs if len(s["data"]) >= size]
            if not cands:
                continue
            s = rng.choice(cands)
            off = rng.randrange(0, len(s["data"]) - size + 1)
            add = rng.choice([0, 0, -4, 4, 1, -1]) if t == "rel32" else 0
            rels.append({"type": t, "sym": rng.choice(syms)["id"], "sec": s["name"], "off": off, "add": add,
                         "size": size})
    return {"secs": secs, "syms": syms, "rels": rels, "entry": -1}


def gen_symbol_plan(rng, nobj):
    """which object defines / references which global name: mostly a consistent program, sometimes a
    name defined twice or not at all (the failures property C12 names)"""
    defs = [set() for _ in range(nobj)]
    refs = [set() for _ in range(nobj)]
    for n in rng.sample(GLOBALS, rng.choice([1, 2, 3, 4])):
        r = rng.random()
        ndef = 1 if r < 0.86 else 2 if r < 0.93 else 0
        for o in rng.sample(range(nobj), min(ndef, nobj)):
            defs[o].add(n)
        for o in range(nobj):
            if rng.random() < 0.4:
                refs[o].add(n)
    return defs, refs


def out_sections(objs):
    """sizes / alignments of the merged sections as any linker must at least produce them (used only to
    pick interesting memory sizes; the verdict is TLC's)"""
    out = {}
    order = []
    for o in objs:
        for s in o["secs"]:
            if s["name"] not in out:
                out[s["name"]] = [0, 4]
                order.append(s["name"])
            e = out[s["name"]]
            e[1] = max(e[1], s["align"])
            e[0] += (-e[0]) % s["align"] + len(s["data"])
    return order, out


def gen_layout(rng, objs, names_ok):
    order, out = out_sections(objs)
    pool = [n for n in order if names_ok(n)]
    rng.shuffle(pool)
    nmem = rng.choice([1, 1, 2, 2, 3])
    mems = []
    base = rng.choice([0, 0x10, 0x100, 0x1001, 0x8000, 0x20000])
    defsyms = ["_start_data", "_end", "g3", "edata", "g0"]
    rng.shuffle(defsyms)
    placed = []
    copied = set()
    for k in range(nmem):
        ins = []
        take = pool[k::nmem]
        for n in take:
            r = rng.random()
            if r < 0.25:
                ins.append({"k": "align", "name": "", "al": rng.choice([1, 2, 4, 8, 16, 32, 3])})
            elif r < 0.4 and defsyms:
                ins.append({"k": "symbol", "name": defsyms.pop(), "al": 0})
            ins.append({"k": "section", "name": n, "al": 0})
            placed.append(n)
        if rng.random() < 0.25:
            ins.append({"k": "section", "name": rng.choice(["empty", "heap"]) + str(k), "al": 0})
        if placed and rng.random() < 0.3:
            src = rng.choice(placed + order)
            if names_ok(src) and src not in copied and src in out:
                copied.add(src)
                ins.insert(rng.randrange(0, len(ins) + 1), {"k": "sectiondata", "name": src, "al": 0})
        if rng.random() < 0.3 and defsyms:
            ins.append({"k": "symbol", "name": defsyms.pop(), "al": 0})
        if rng.random() < 0.15:
            ins.append({"k": "align", "name": "", "al": rng.choice([4, 8])})
        if not ins:
            ins.append({"k": "align", "name": "", "al": 4})
        # size: ample, exact, or one byte short of what sequential placement needs
        need = 0
        cur = base
        for i in ins:
            if i["k"] == "section":
                sz, al = out.get(i["name"], [0, 4])
                cur += (-cur) % al
                cur += sz
                need = cur - base
            elif i["k"] == "sectiondata":
                cur += out[i["name"]][0]
                need = cur - base
            elif i["k"] == "align":
                cur += (-cur) % i["al"]
            elif i["k"] == "symbol":
                need = cur - base
        r = rng.random()
        size = need + rng.choice([0x40, 0x100]) if r < 0.7 else need if r < 0.92 else max(0, need - rng.choice([1, 1, 2, 5]))
        mems.append({"name": "m%d" % k if rng.random() < 0.7 else ["flash", "ram", "rom"][k],
                     "loc": base, "size": size, "ins": ins})
        base = base + size + rng.choice([0, 1, 0x10, 0x1000, 0x7fff])
    return {"on": True, "entry": "", "mems": mems}


NO_LAYOUT = {"on": False, "entry": "", "mems": []}


def gen_job(rng, arch_name="x86_64", max_size=24):
    odd = rng.random() < 0.12
    secpool = SEC_NAMES + (ODD_NAMES if odd else [])
    nobj = rng.choice([1, 2, 2, 2, 3, 3, 4])
    defs, refs = gen_symbol_plan(rng, nobj)
    objs = [gen_object(rng, arch_name, k, secpool, max_size, defs=sorted(defs[k]), refs=sorted(refs[k]))
            for k in range(nobj)]
    partial = rng.random() < 0.12
    lay = NO_LAYOUT
    via_text = False
    if not partial and rng.random() < 0.75:
        lay = gen_layout(rng, objs, (lambda n: True) if odd else is_id)
        via_text = text_expressible(lay) and rng.random() < 0.5
    opt = {"partial": partial, "entry": "", "extra": []}
    r = rng.random()
    if r < 0.12:
        opt["entry"] = rng.choice(GLOBALS)
    elif r < 0.2 and lay["on"]:
        lay = dict(lay, entry=rng.choice(GLOBALS))
        via_text = via_text and text_expressible(lay)
    elif r < 0.27:
        cands = [y for o in objs[:1] for y in o["syms"] if y["binding"] == "global" and y["def"]]
        if cands:
            objs[0]["entry"] = rng.choice(cands)["id"]
    if rng.random() < 0.12:
        n = rng.choice(["g1", "g2", "ext0"])
        if n != opt["entry"] and n != lay["entry"]:
            opt["extra"] = [{"name": n, "value": rng.choice([0, 5, 0x1234])}]
    return {"arch": arch_name, "objs": objs, "lay": lay, "opt": opt, "via_text": via_text}


# ---------------------------------------------------------------------------
def spec_inputs(projs, sizes_of, ctl=None):
    """input objects as Linker.tla reads them: the projection of the real ObjectFile plus the
    size of each relocation's field (sizes_of: type -> bytes; Linker_Trace's invariant Domain checks
    it against Reloc.tla's table) and the generator's knowledge that a relocation sits in a
    control-transfer instruction (ctl: set of (object index, relocation index))"""
    inp = []
    ctl = ctl or set()
    for oi, p in enumerate(projs):
        inp.append({
            "secs": [{"name": s["name"], "align": s["alignment"], "size": len(s["data"]), "data": s["data"]}
                     for s in p["sections"]],
            "syms": [{"id": y["id"], "name": y["name"], "binding": y["binding"], "def": y["def"],
                      "sec": y["sec"], "value": y["value"], "typ": y["typ"], "size": y["size"]} for y in p["symbols"]],
            "rels": [{"type": r["type"], "sym": r["sym"], "sec": r["sec"], "off": r["off"], "add": r["add"],
                      "size": sizes_of(r["type"]), "ctl": (oi, ri) in ctl}
                     for ri, r in enumerate(p["relocations"])],
            "entry": p["entry"]})
    return inp


def run_link(objects, layout, opt, events):
    """the call under test; every outcome is recorded"""
    from ppci.binutils import linker as L

    def index_of(o):
        for k, x in enumerate(objects):
            if x is o:
                return k + 1
        return 0

    with link_recorder(events, index_of):
        try:
            out = L.link(objects, layout=layout, partial_link=opt["partial"],
                         extra_symbols={e["name"]: e["value"] for e in opt["extra"]} or None,
                         entry=opt["entry"] or None)
        except BaseException as e:  # noqa: the outcome class is part of the observation
            if not any(ev["ev"] == "fail" for ev in events):
                events.append({"ev": "fail", "phase": "outside", "exc": type(e).__name__, "msg": str(e)[:200],
                               "state": None})
            return None
    events.append({"ev": "end", "state": P.project(out, debug=False)})
    return out


def run_job(job, sizes_of, jid):
    """build the real objects / layout, link them under the recorder, return the trace"""
    import logging

    from ppci.api import get_arch

    logging.disable(logging.CRITICAL)
    arch = get_arch(job["arch"])
    objects = job.get("objects") or [mk_object(arch, d) for d in job["objs"]]
    lay = job["lay"]
    layout = None
    if lay["on"]:
        if job.get("via_text"):
            from ppci.binutils.layout import Layout

            layout = Layout.load(io.StringIO(job.get("text") or layout_text(lay)))
        else:
            layout = mk_layout(lay)
    projs = [P.project(o, debug=False) for o in objects]
    events = []
    out = run_link(objects, layout, job["opt"], events)
    empty = {"arch": "", "sections": [], "symbols": [], "relocations": [], "images": [], "entry": -1}
    for ev in events:
        if ev.get("state", 1) is None:
            ev["state"] = empty
    trace = {"id": jid, "arch": job["arch"], "inp": spec_inputs(projs, sizes_of, job.get("ctl")), "lay": lay,
             "opt": job["opt"],
             "events": events}
    return trace, out, objects
