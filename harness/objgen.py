"""Object / layout generator and link recorder for the linker family (C11, C12, C14).

* `link_recorder(events, index_of)`  wraps the methods of ppci.binutils.linker.Linker (no edit of
  /repo, same spirit as optcorpus.pass_recorder) and appends one event per phase:
      start            state before the first inject_object (entry + extra symbols)
      inject(obj)      state after each inject_object
      layout           state after layout_sections
      check            check_undefined_symbols returned
      relax            state after do_relaxations
      reloc(r)         site bytes before, section bytes after each _do_relocation
      fail(phase,exc)  the first exception, with the state at that moment
  states are harness.project_obj.project(linker.dst).
* `mk_object`, `mk_layout`, `layout_text`   build ppci objects from abstract descriptions
* `gen_job(rng, ...)`    random link job: objects (sections, symbols, relocations), layout, options
* `run_job(job)`         performs the link under the recorder and returns the trace for Linker_Trace
"""
import contextlib
import io

from . import project_obj as P


# ---------------------------------------------------------------------------
# recorder
@contextlib.contextmanager
def link_recorder(events, index_of, debug_proj=False):
    from ppci.binutils import linker as L

    cls = L.Linker
    failed = [False]

    def snap(self):
        return P.project(self.dst, debug=debug_proj)

    def guarded(name, fn):
        """run fn(); on the first exception record a fail event with the state reached"""
        def run(self, *a, **kw):
            try:
                return fn(self, *a, **kw)
            except BaseException as e:
                if not failed[0]:
                    failed[0] = True
                    try:
                        st = snap(self)
                    except Exception:
                        st = None
                    events.append({"ev": "fail", "phase": name, "exc": type(e).__name__, "msg": str(e)[:200],
                                   "state": st})
                raise
        return run

    orig = {n: cls.__dict__[n] for n in ("merge_objects", "inject_object", "layout_sections",
                                         "check_undefined_symbols", "do_relaxations", "_do_relocation")}

    def merge_objects(self, input_objects, debug):
        events.append({"ev": "start", "state": snap(self)})
        return orig["merge_objects"](self, input_objects, debug)

    def inject_object(self, obj, debug):
        r = orig["inject_object"](self, obj, debug)
        events.append({"ev": "inject", "obj": index_of(obj), "state": snap(self)})
        return r

    def layout_sections(self, layout):
        r = orig["layout_sections"](self, layout)
        events.append({"ev": "layout", "state": snap(self)})
        return r

    def check_undefined_symbols(self):
        r = orig["check_undefined_symbols"](self)
        events.append({"ev": "check"})
        return r

    def do_relaxations(self):
        r = orig["do_relaxations"](self)
        events.append({"ev": "relax", "state": snap(self)})
        return r

    def _do_relocation(self, relocation):
        idx = [k for k, x in enumerate(self.dst.relocations) if x is relocation]
        sec = self.dst.section_map.get(relocation.section)
        before = list(bytes(sec.data)) if sec is not None else []
        r = orig["_do_relocation"](self, relocation)
        events.append({"ev": "reloc", "r": (idx[0] + 1) if idx else 0, "sec": P._s(relocation.section),
                       "before": before, "after": list(bytes(sec.data)) if sec is not None else []})
        return r

    new = {"merge_objects": guarded("merge", merge_objects), "inject_object": guarded("inject", inject_object),
           "layout_sections": guarded("layout", layout_sections),
           "check_undefined_symbols": guarded("check", check_undefined_symbols),
           "do_relaxations": guarded("relax", do_relaxations), "_do_relocation": guarded("reloc", _do_relocation)}
    for n, f in new.items():
        setattr(cls, n, f)
    try:
        yield
    finally:
        for n, f in orig.items():
            setattr(cls, n, f)


# ---------------------------------------------------------------------------
# builders
def mk_object(arch, d):
    """abstract object {"secs":[{"name","align","data":[u8]}], "syms":[{"id","name","binding","def","sec","value",
    "typ","size"}], "rels":[{"type","sym","sec","off","add"}], "entry": id|-1} -> ObjectFile"""
    from ppci.binutils.objectfile import ObjectFile, RelocationEntry

    o = ObjectFile(arch)
    for s in d["secs"]:
        sec = o.get_section(s["name"], create=True)
        sec.alignment = s["align"]
        sec.add_data(bytes(s["data"]))
    for y in d["syms"]:
        if y["def"]:
            o.add_symbol(y["id"], y["name"], y["binding"], y["value"], y["sec"], y["typ"], y["size"])
        else:
            o.add_symbol(y["id"], y["name"], y["binding"], None, None, y["typ"], y["size"])
    for r in d["rels"]:
        o.add_relocation(RelocationEntry(r["type"], r["sym"], r["sec"], r["off"], r["add"]))
    if d.get("entry", -1) != -1:
        o.entry_symbol_id = d["entry"]
    return o


def mk_layout(lay):
    """abstract layout -> ppci Layout built from objects"""
    from ppci.binutils import layout as LY

    out = LY.Layout()
    if lay["entry"]:
        out.entry = LY.EntrySymbol(lay["entry"])
    for m in lay["mems"]:
        mem = LY.Memory(m["name"])
        mem.location = m["loc"]
        mem.size = m["size"]
        for i in m["ins"]:
            if i["k"] == "section":
                mem.add_input(LY.Section(i["name"]))
            elif i["k"] == "sectiondata":
                mem.add_input(LY.SectionData(i["name"]))
            elif i["k"] == "symbol":
                mem.add_input(LY.SymbolDefinition(i["name"]))
            elif i["k"] == "align":
                mem.add_input(LY.Align(i["al"]))
        out.add_memory(mem)
    return out


def layout_text(lay, rng=None):
    """abstract layout -> text in the layout language (parsed by ppci.binutils.layout)"""
    def num(v):
        return ("0x%x" % v) if (rng is None or rng.random() < 0.6) else str(v)

    lines = []
    if lay["entry"]:
        lines.append("ENTRY(%s)" % lay["entry"])
    for m in lay["mems"]:
        lines.append("MEMORY %s LOCATION=%s SIZE=%s {" % (m["name"], num(m["loc"]), num(m["size"])))
        for i in m["ins"]:
            if i["k"] == "section":
                lines.append("  SECTION(%s)" % i["name"])
            elif i["k"] == "sectiondata":
                lines.append("  SECTIONDATA(%s)" % i["name"])
            elif i["k"] == "symbol":
                lines.append("  DEFINESYMBOL(%s)" % i["name"])
            elif i["k"] == "align":
                lines.append("  ALIGN(%s)" % num(i["al"]))
        lines.append("}")
    return "\n".join(lines) + "\n"


KEYWORDS = {"MEMORY", "ALIGN", "ENTRY", "LOCATION", "SECTION", "SECTIONDATA", "SIZE", "DEFINESYMBOL"}


def is_id(n):
    import re

    return bool(re.fullmatch(r"[_A-Za-z][_A-Za-z0-9]*", n)) and n not in KEYWORDS


def text_expressible(lay):
    if not lay["on"] or not lay["mems"]:
        return False
    for m in lay["mems"]:
        if not is_id(m["name"]) or not m["ins"]:
            return False
        for i in m["ins"]:
            if i["k"] != "align" and not is_id(i["name"]):
                return False
    return (not lay["entry"]) or is_id(lay["entry"])


# ---------------------------------------------------------------------------
# generator (C12): everything is representable, so a link fails only for the reasons C12 names
SEC_NAMES = ["code", "data", "rodata", "bss", "x_1", "vec"]
ODD_NAMES = [".text", "a b", "séc", "$9", "MEMORY"]
GLOBALS = ["g0", "g1", "g2", "g3", "main"]
LOCALS = ["l0", "l1", "loop"]
ALIGNS = [1, 1, 2, 4, 4, 8, 16]
REL_TYPES = {"x86_64": [("abs64", 8), ("rel32", 4), ("abs32", 4)]}


def gen_object(rng, arch_name, idx, secpool, max_size=24, reltypes=None, defs=(), refs=()):
    """one abstract object; defs / refs = global names it defines / only references"""
    nsec = rng.choice([1, 1, 2, 2, 3])
    names = rng.sample(secpool, min(nsec, len(secpool)))
    secs = []
    for n in names:
        sz = rng.choice([0, 1, 2, 3, 4, 5, 7, 8, 9, 12, 15, 16, 17, max_size])
        if rng.random() < 0.08:
            sz = rng.randrange(33, 65)
        secs.append({"name": n, "align": rng.choice(ALIGNS), "data": [rng.randrange(256) for _ in range(sz)]})
    syms = []
    ids = list(range(0, 16))
    if rng.random() < 0.3:
        rng.shuffle(ids)  # symbol ids need not be dense or ordered
    todo = [("gdef", n) for n in defs] + [("gref", n) for n in refs if n not in defs]
    todo += [("local", rng.choice(LOCALS)) for _ in range(rng.choice([0, 1, 1, 2]))]
    rng.shuffle(todo)
    for kind, n in todo:
        sid = ids[len(syms)]
        if kind == "gref":
            syms.append({"id": sid, "name": n, "binding": "global", "def": False, "sec": "", "value": 0,
                         "typ": "object", "size": 0})
        else:
            s = rng.choice(secs)
            syms.append({"id": sid, "name": n, "binding": "global" if kind == "gdef" else "local", "def": True,
                         "sec": s["name"], "value": rng.choice([0, len(s["data"]), rng.randrange(0, len(s["data"]) + 1)]),
                         "typ": rng.choice(["object", "func"]), "size": rng.choice([0, 1, 4, 8])})
    rels = []
    rt = reltypes if reltypes is not None else REL_TYPES.get(arch_name, [])
    if syms and rt:
        for _ in range(rng.choice([0, 1, 1, 2, 3])):
            t, size = rng.choice(rt)
            cands = [s for s in secs if len(s["data"]) >= size]
            if not cands:
                continue
            s = rng.choice(cands)
            off = rng.randrange(0, len(s["data"]) - size + 1)
            add = rng.choice([0, 0, -4, 4, 1, -1]) if t == "rel32" else 0
            rels.append({"type": t, "sym": rng.choice(syms)["id"], "sec": s["name"], "off": off, "add": add,
                         "size": size})
    return {"secs": secs, "syms": syms, "rels": rels, "entry": -1}


def gen_symbol_plan(rng, nobj):
    """which object defines / references which global name: mostly a consistent program, sometimes a
    name defined twice or not at all (the failures property C12 names)"""
    defs = [set() for _ in range(nobj)]
    refs = [set() for _ in range(nobj)]
    for n in rng.sample(GLOBALS, rng.choice([1, 2, 3, 4])):
        r = rng.random()
        ndef = 1 if r < 0.86 else 2 if r < 0.93 else 0
        for o in rng.sample(range(nobj), min(ndef, nobj)):
            defs[o].add(n)
        for o in range(nobj):
            if rng.random() < 0.4:
                refs[o].add(n)
    return defs, refs


def out_sections(objs):
    """sizes / alignments of the merged sections as any linker must at least produce them (used only to
    pick interesting memory sizes; the verdict is TLC's)"""
    out = {}
    order = []
    for o in objs:
        for s in o["secs"]:
            if s["name"] not in out:
                out[s["name"]] = [0, 4]
                order.append(s["name"])
            e = out[s["name"]]
            e[1] = max(e[1], s["align"])
            e[0] += (-e[0]) % s["align"] + len(s["data"])
    return order, out


def gen_layout(rng, objs, names_ok):
    order, out = out_sections(objs)
    pool = [n for n in order if names_ok(n)]
    rng.shuffle(pool)
    nmem = rng.choice([1, 1, 2, 2, 3])
    mems = []
    base = rng.choice([0, 0x10, 0x100, 0x1001, 0x8000, 0x20000])
    defsyms = ["_start_data", "_end", "g3", "edata", "g0"]
    rng.shuffle(defsyms)
    placed = []
    copied = set()
    for k in range(nmem):
        ins = []
        take = pool[k::nmem]
        for n in take:
            r = rng.random()
            if r < 0.25:
                ins.append({"k": "align", "name": "", "al": rng.choice([1, 2, 4, 8, 16, 32, 3])})
            elif r < 0.4 and defsyms:
                ins.append({"k": "symbol", "name": defsyms.pop(), "al": 0})
            ins.append({"k": "section", "name": n, "al": 0})
            placed.append(n)
        if rng.random() < 0.25:
            ins.append({"k": "section", "name": rng.choice(["empty", "heap"]) + str(k), "al": 0})
        if placed and rng.random() < 0.3:
            src = rng.choice(placed + order)
            if names_ok(src) and src not in copied and src in out:
                copied.add(src)
                ins.insert(rng.randrange(0, len(ins) + 1), {"k": "sectiondata", "name": src, "al": 0})
        if rng.random() < 0.3 and defsyms:
            ins.append({"k": "symbol", "name": defsyms.pop(), "al": 0})
        if rng.random() < 0.15:
            ins.append({"k": "align", "name": "", "al": rng.choice([4, 8])})
        if not ins:
            ins.append({"k": "align", "name": "", "al": 4})
        # size: ample, exact, or one byte short of what sequential placement needs
        need = 0
        cur = base
        for i in ins:
            if i["k"] == "section":
                sz, al = out.get(i["name"], [0, 4])
                cur += (-cur) % al
                cur += sz
                need = cur - base
            elif i["k"] == "sectiondata":
                cur += out[i["name"]][0]
                need = cur - base
            elif i["k"] == "align":
                cur += (-cur) % i["al"]
            elif i["k"] == "symbol":
                need = cur - base
        r = rng.random()
        size = need + rng.choice([0x40, 0x100]) if r < 0.7 else need if r < 0.92 else max(0, need - rng.choice([1, 1, 2, 5]))
        # directed: the region is overfull only because of its LAST input (a SECTIONDATA copy, or a section), by
        # less than that input's size: every kind of input must take part in the end-of-memory check
        sd = [i for i in ins if i["k"] == "sectiondata"]
        if sd and rng.random() < 0.5:
            ins.remove(sd[0])
            ins.append(sd[0])
            cur = base
            for i in ins:
                if i["k"] == "section":
                    sz, al = out.get(i["name"], [0, 4])
                    cur += (-cur) % al
                    cur += sz
                elif i["k"] == "sectiondata":
                    cur += out[i["name"]][0]
                elif i["k"] == "align":
                    cur += (-cur) % i["al"]
            need = cur - base
            last = out[sd[0]["name"]][0]
            r2 = rng.random()
            size = need if r2 < 0.3 else max(0, need - rng.choice([1, max(1, last // 2), max(1, last)])) if r2 < 0.8 else need + 0x40
        mems.append({"name": "m%d" % k if rng.random() < 0.7 else ["flash", "ram", "rom"][k],
                     "loc": base, "size": size, "ins": ins})
        base = base + size + rng.choice([0, 1, 0x10, 0x1000, 0x7fff])
    return {"on": True, "entry": "", "mems": mems}


NO_LAYOUT = {"on": False, "entry": "", "mems": []}


def gen_job(rng, arch_name="x86_64", max_size=24):
    odd = rng.random() < 0.12
    secpool = SEC_NAMES + (ODD_NAMES if odd else [])
    nobj = rng.choice([1, 2, 2, 2, 3, 3, 4])
    defs, refs = gen_symbol_plan(rng, nobj)
    objs = [gen_object(rng, arch_name, k, secpool, max_size, defs=sorted(defs[k]), refs=sorted(refs[k]))
            for k in range(nobj)]
    partial = rng.random() < 0.12
    lay = NO_LAYOUT
    via_text = False
    if not partial and rng.random() < 0.75:
        lay = gen_layout(rng, objs, (lambda n: True) if odd else is_id)
        via_text = text_expressible(lay) and rng.random() < 0.5
    opt = {"partial": partial, "entry": "", "extra": []}
    r = rng.random()
    if r < 0.12:
        opt["entry"] = rng.choice(GLOBALS)
    elif r < 0.2 and lay["on"]:
        lay = dict(lay, entry=rng.choice(GLOBALS))
        via_text = via_text and text_expressible(lay)
    elif r < 0.27:
        cands = [y for o in objs[:1] for y in o["syms"] if y["binding"] == "global" and y["def"]]
        if cands:
            objs[0]["entry"] = rng.choice(cands)["id"]
    if rng.random() < 0.12:
        n = rng.choice(["g1", "g2", "ext0"])
        if n != opt["entry"] and n != lay["entry"]:
            opt["extra"] = [{"name": n, "value": rng.choice([0, 5, 0x1234])}]
    return {"arch": arch_name, "objs": objs, "lay": lay, "opt": opt, "via_text": via_text}


# ---------------------------------------------------------------------------
def spec_inputs(projs, sizes_of, ctl=None):
    """input objects as Linker.tla reads them: the projection of the real ObjectFile plus the
    size of each relocation's field (sizes_of: type -> bytes; Linker_Trace's invariant Domain checks
    it against Reloc.tla's table) and the generator's knowledge that a relocation sits in a
    control-transfer instruction (ctl: set of (object index, relocation index))"""
    inp = []
    ctl = ctl or set()
    for oi, p in enumerate(projs):
        inp.append({
            "secs": [{"name": s["name"], "align": s["alignment"], "size": len(s["data"]), "data": s["data"]}
                     for s in p["sections"]],
            "syms": [{"id": y["id"], "name": y["name"], "binding": y["binding"], "def": y["def"],
                      "sec": y["sec"], "value": y["value"], "typ": y["typ"], "size": y["size"]} for y in p["symbols"]],
            "rels": [{"type": r["type"], "sym": r["sym"], "sec": r["sec"], "off": r["off"], "add": r["add"],
                      "size": sizes_of(r["type"]), "ctl": (oi, ri) in ctl}
                     for ri, r in enumerate(p["relocations"])],
            "entry": p["entry"]})
    return inp


def run_link(objects, layout, opt, events):
    """the call under test; every outcome is recorded"""
    from ppci.binutils import linker as L

    def index_of(o):
        for k, x in enumerate(objects):
            if x is o:
                return k + 1
        return 0

    with link_recorder(events, index_of):
        try:
            out = L.link(objects, layout=layout, partial_link=opt["partial"],
                         extra_symbols={e["name"]: e["value"] for e in opt["extra"]} or None,
                         entry=opt["entry"] or None)
        except BaseException as e:  # noqa: the outcome class is part of the observation
            if not any(ev["ev"] == "fail" for ev in events):
                events.append({"ev": "fail", "phase": "outside", "exc": type(e).__name__, "msg": str(e)[:200],
                               "state": None})
            return None
    events.append({"ev": "end", "state": P.project(out, debug=False), "imgdata": [image_data(i) for i in out.images]})
    return out


def image_data(img):
    """objectfile.Image.data (gap filling, overlap detection) as observed"""
    try:
        return {"name": P._s(img.name), "ok": True, "data": list(bytes(img.data))}
    except Exception as e:
        return {"name": P._s(img.name), "ok": False, "data": [], "exc": type(e).__name__}


def run_job(job, sizes_of, jid):
    """build the real objects / layout, link them under the recorder, return the trace"""
    import logging

    from ppci.api import get_arch

    logging.disable(logging.CRITICAL)
    arch = get_arch(job["arch"])
    objects = job.get("objects") or [mk_object(arch, d) for d in job["objs"]]
    lay = job["lay"]
    layout = None
    if lay["on"]:
        if job.get("via_text"):
            from ppci.binutils.layout import Layout

            layout = Layout.load(io.StringIO(job.get("text") or layout_text(lay)))
        else:
            layout = mk_layout(lay)
    # (C14: the objects linked may be reloaded copies; the specification starts from the originals)
    projs = [P.project(o, debug=False) for o in (job.get("spec_objects") or objects)]
    events = []
    out = run_link(objects, layout, job["opt"], events)
    empty = {"arch": "", "sections": [], "symbols": [], "relocations": [], "images": [], "entry": -1}
    for ev in events:
        if ev.get("state", 1) is None:
            ev["state"] = empty
    trace = {"id": jid, "arch": job["arch"], "inp": spec_inputs(projs, sizes_of, job.get("ctl")), "lay": lay,
             "opt": job["opt"],
             "events": events}
    return trace, out, objects


# ---------------------------------------------------------------------------
# generator (C11): objects made by the real assembler, one primary relocation per job whose value is
# steered (by filler inside the section or by the addresses of the layout) to a chosen displacement
# (line, relocation type, control transfer?)
ASM_TEMPLATES = {
    "x86_64": [("jmp {L}", "rel32", True), ("call {L}", "rel32", True)]
    + [("%s {L}" % m, "rel32", True) for m in ("jz", "jne", "jb", "jae", "jbe", "ja", "js", "jl", "jge", "jle", "jg")]
    + [("jmpshort {L}", "jmp8", True), ("mov rsi, {L}", "abs64", False), ("mov rax, [{L}]", "abs32", False),
       ("mov [{L}], rbx", "abs32", False), ("lea rcx, [{L}]", "abs32", False), ("dcd ={L}", "absaddr32", False),
       ("dq ={L}", "absaddr64", False), ("dw {L}", "absaddr16", False)],
    "riscv": [("jal x5, {L}", "b_imm20", True), ("j {L}", "b_imm20", True), ("lui x5, {L}", "abs32_imm20", False),
              ("auipc x5, %pcrel_hi({L})", "rel_imm20", False), ("addi x5, x5, {L}", "abs32_imm12", False),
              ("lw x5%pcrel_lo({L})(x5)", "rel_imm12", False), ("addi x5, {L}", "rel_imm12", False)]
    + [("%s x5, x6, {L}" % m, "b_imm12", True) for m in ("beq", "bne", "blt", "bge", "bltu", "bgeu")]
    + [("la x5, {L}", "rel_imm20", False), ("dcd ={L}", "absaddr32", False), ("dw {L}", "absaddr16", False)],
    "arm": [("bl {L}", "imm24", True), ("b {L}", "imm24", True)]
    + [("%s {L}" % m, "imm24", True) for m in ("beq", "bne", "blt", "bgt")]
    + [("ldr r5, {L}", "ldr_imm12", False), ("adr r5, {L}", "adr_imm12", False), ("dcd ={L}", "absaddr32", False)],
    "arm:thumb": [("ldr r5, {L}", "lit8", False), ("adr r5, {L}", "lit8", False), ("b {L}", "wrap_new11", True),
                  ("bw {L}", "bl_imm11", True), ("bl {L}", "bl_imm11", True)]
    + [("%s {L}" % m, "rel8", True) for m in ("beq", "bne", "blt", "bgt")]
    + [("%s {L}" % m, "b_imm11_imm6", True) for m in ("beqw", "bnew", "bltw")]
    + [("dcd ={L}", "absaddr32", False)],
}
# how the generator aims at boundaries (not the oracle): type -> (pc bias, bits of the signed displacement
# incl. scale or None for absolute, scale)
AIM = {"rel32": (0, 32, 1), "jmp8": (1, 8, 1), "b_imm12": (0, 13, 2), "b_imm20": (0, 21, 2), "imm24": (8, 26, 4),
       "ldr_imm12": (8, 13, 1), "adr_imm12": (8, 13, 1), "lit8": (4, 11, 4), "wrap_new11": (4, 12, 2), "rel8": (4, 9, 2),
       "bl_imm11": (4, 25, 2), "b_imm11_imm6": (4, 21, 2), "rel_imm20": (0, None, 1), "rel_imm12": (0, None, 1)}
INSN_ALIGN = {"x86_64": 1, "riscv": 4, "arm": 4, "arm:thumb": 2}


def _asm(text, arch):
    from ppci.api import asm

    return asm(io.StringIO(text), arch)


def aim_displacements(rng, rtype):
    """interesting displacements S + A - Base for a pc-relative type"""
    bias, bits, s = AIM[rtype]
    if bits is None:
        return rng.choice([0, 4, -4, 0x7fc, 0x800, 0x804, -0x800, -0x804, 0xffc, 0x1000, 0x12344, -0x12344,
                           0x7ff800, 0x800000, rng.randrange(-0x100000, 0x100000) & ~3])
    bits = min(bits, 27)  # 32-bit fields: see the wide records of Reloc_Eval
    lo, hi = -(1 << (bits - 1)), (1 << (bits - 1)) - s
    pick = rng.random()
    if pick < 0.5:
        c = [lo, lo + s, hi, hi - s, 0, s, -s, 2 * s, lo // 2, hi // 2 // s * s]
        # 18 / 22 bits: where the Thumb-2 J1/J2 bits start to matter
        c += [1 << 18, -(1 << 18) - s, (1 << 18) - s, 1 << 19, 1 << 22, -(1 << 22) - s, (1 << 22) - s, 1 << 23]
        d = rng.choice([x for x in c if lo <= x <= hi])
    elif pick < 0.75:
        d = rng.randrange(lo // s, hi // s + 1) * s
        if rng.random() < 0.5:
            d = rng.randrange(-300 // s, 300 // s) * s
    elif pick < 0.93:
        # does not fit: just outside, in the "unsigned" range, far outside
        d = rng.choice([lo - s, hi + s, hi + 2 * s, (1 << bits) - s, (1 << bits), -(1 << bits), lo - 16 * s,
                        (1 << (bits - 1)) + 0x40 * s])
    else:
        d = rng.randrange(lo // s, hi // s + 1) * s + rng.choice([1, s // 2 or 1])  # misaligned target
    if rtype in ("ldr_imm12", "adr_imm12"):
        d = rng.choice([0, 4, -4, 8, 0xff, 0x100, -0x100, 0x104, 0x3fc, 0x400, 0xff0, 0xffc, 0xfff, 0x1000, -0xfff,
                        -0x1000, 0x1004, 0xff00, rng.randrange(-0x1100, 0x1100)])
    if rtype == "lit8":
        d = rng.choice([0, 4, 8, 1020, 1024, 1016, -4, 2, 6, 512, rng.randrange(0, 256) * 4])
    return d


def gen_reloc_job(rng, arch):
    """one link job around one primary relocation of a random template of `arch`"""
    line, rtype, ctl = rng.choice(ASM_TEMPLATES[arch])
    ia = INSN_ALIGN[arch]
    # learn size / relocation offset / addend of the instruction from the assembler itself
    probe = _asm("section code\n%s\nL: db 0\n" % line.format(L="L"), arch)
    psec = probe.get_section("code")
    r0 = probe.relocations[0]
    isize = len(psec.data) - 1
    roff, addend = r0.offset, r0.addend
    lead = rng.choice([0, 0, 4, 8, 12]) if ia > 1 else rng.choice([0, 0, 1, 3, 4, 7])
    # an object linked in front contributes `shift` bytes to section code: the site is merged at an offset
    shift = rng.choice([0, 0, 0, 4, 8, 16])
    absolute = rtype not in AIM
    pre = ["section code"] + (["ds %d" % lead] if lead else [])
    lay = None
    two_objects = rng.random() < 0.25
    far = True
    base_code = 0
    if absolute:
        # S itself is the value: place the target section at a chosen address
        lim = {"absaddr16": 16, "absaddr32": 28, "abs32": 28, "abs64": 28, "absaddr64": 28, "abs32_imm20": 28,
               "abs32_imm12": 28}[rtype]
        S = rng.choice([0, 4, 0x7fc, 0x800, 0x804, 0xffc, 0x1000, 0x1800, 0xfff0, 0xfffc, 0x10000, 0x10004, 0x7ffff800,
                        0x12345678 & ~3, rng.randrange(0, 1 << min(lim + 1, 28)) & ~3])
        if rtype == "absaddr16" and rng.random() < 0.5:
            S = rng.choice([0xfffc, 0xfffe, 0x10000, 0xff00, 0x8000, 0x7ffe, 0x10002])
        S &= (1 << 30) - 1
        q = S % 4
        T = S - q
        base_code = (T + 0x1000 + rng.choice([0, 0x100, 0x2350])) & ~0xf
        d = S
    else:
        bias = AIM[rtype][0]
        d = aim_displacements(rng, rtype)
        far = abs(d) >= 0x200 or (rng.random() < 0.2 and abs(d) >= 0x40)
        if far:
            base_code = ((max(0, -d) + 0x1000 + rng.choice([0, 0x10, 0x230, 0x4000])) + 15) & ~0xf
            P = base_code + shift + lead + roff
            base = P + bias if rtype != "lit8" else ((P + 4) & ~3)
            S = base + d - addend
            if S < 0:
                return None
            q = S % 4
            T = S - q
        else:
            if d >= 0:  # label after the instruction
                n = d - addend + roff + bias - isize
                if rtype == "lit8":
                    n = d - addend + (((lead + roff + 4) & ~3) - (lead + roff)) + roff - isize
                mode = "fwd"
            else:
                n = -d + addend - roff - bias
                if rtype == "lit8":
                    return None
                mode = "back"
            if n < 0 or n > 400:
                return None
            if mode == "back" and n % ia:
                return None  # the instruction itself would be misaligned: not a program of this target
    extra = rng.random() < 0.5  # a second, always representable relocation in a data section
    if far:
        src = pre + [line.format(L="tgt")] + ["ds %d" % rng.choice([0, 4, 8])]
        tsec = ["section t"] + (["ds %d" % q] if q else []) + ["tgt: dd 0x11223344"]
        if extra:
            tsec += ["section data", "dcd =tgt" if arch != "x86_64" else rng.choice(["dcd =tgt", "dq =tgt"])]
        if two_objects:
            texts = ["\n".join(["global tgt"] + src) + "\n", "\n".join(["global tgt"] + tsec) + "\n"]
        else:
            texts = ["\n".join(src + tsec) + "\n"]
        mems = [{"name": "mc", "loc": base_code, "size": 0x100, "ins": [{"k": "section", "name": "code", "al": 0}]},
                {"name": "mt", "loc": T, "size": 0x100, "ins": [{"k": "section", "name": "t", "al": 0}]}]
        if extra:
            mems.append({"name": "md", "loc": max(base_code, T) + 0x400, "size": 0x100,
                         "ins": [{"k": "section", "name": "data", "al": 0}]})
        if rng.random() < 0.5:
            mems.reverse()
        lay = {"on": True, "entry": "", "mems": mems}
    else:
        if mode == "fwd":
            src = pre + [line.format(L="tgt")] + (["ds %d" % n] if n else []) + ["tgt: dd 0x11223344"]
        else:
            src = ["section code"] + (["ds %d" % lead] if lead else []) + ["tgt:"] + (["ds %d" % n] if n else []) + [
                line.format(L="tgt"), "dd 0x55667788"]
        if extra:
            src += ["section data", "dcd =tgt"]
        texts = ["\n".join(src) + "\n"]
        base_code = rng.choice([0, 0x100, 0x8000, 0x10000])
        mems = [{"name": "mc", "loc": base_code, "size": 0x400, "ins": [{"k": "section", "name": "code", "al": 0}]}]
        if extra:
            mems.append({"name": "md", "loc": base_code + 0x1000, "size": 0x100,
                         "ins": [{"k": "section", "name": "data", "al": 0}]})
        lay = {"on": True, "entry": "", "mems": mems} if rng.random() < 0.8 else NO_LAYOUT
    if shift:
        texts.insert(0, "section code\nds %d\n" % shift)
    try:
        objects = [_asm(t, arch) for t in texts]
    except Exception:  # the assembler refuses the text: not a link job
        return None
    ctlset = set()
    if ctl:
        for oi, o in enumerate(objects):
            for ri, r in enumerate(o.relocations):
                if r.reloc_type == rtype and r.section == "code":
                    ctlset.add((oi, ri))
    return {"arch": arch, "objects": objects, "lay": lay, "opt": {"partial": False, "entry": "", "extra": []},
            "via_text": False, "ctl": ctlset, "aim": {"type": rtype, "d": d, "line": line, "far": far}, "texts": texts}
