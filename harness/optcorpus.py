"""Optimiser traces (DESIGN A.3): module snapshots before/after every pass.

No hook in /repo is needed: `PassRecorder` wraps the `run` method of every
pass class while the real `api.optimize` (or a single pass) runs, so the
sequence recorded is the sequence the code under test actually executed.
"""
import contextlib
import copy
import hashlib
import io
import json

from . import absprog, project_ir

SINGLE_PASSES = [
    ("Mem2RegPromotor", "ppci.opt.mem2reg"),
    ("RemoveAddZeroPass", "ppci.opt.transform"),
    ("ConstantFolder", "ppci.opt.constantfolding"),
    ("CommonSubexpressionEliminationPass", "ppci.opt.cse"),
    ("TailCallOptimization", "ppci.opt.tailcall"),
    ("LoadAfterStorePass", "ppci.opt.load_after_store"),
    ("DeleteUnusedInstructionsPass", "ppci.opt.transform"),
    ("CleanPass", "ppci.opt.clean"),
    ("CJumpPass", "ppci.opt.cjmp"),
]


def _all_pass_classes():
    from ppci.opt.transform import ModulePass
    import ppci.api  # noqa: F401  (imports every pass module)

    seen = []
    todo = [ModulePass]
    while todo:
        c = todo.pop()
        if c in seen:
            continue
        seen.append(c)
        todo += c.__subclasses__()
    return seen


@contextlib.contextmanager
def pass_recorder(callback):
    """callback(pass_name, module, exc_or_None) after every outermost pass run."""
    patched = []
    depth = [0]

    def wrap(cls, orig):
        def run(self, ir_module, *a, **kw):
            depth[0] += 1
            exc = None
            try:
                return orig(self, ir_module, *a, **kw)
            except Exception as e:  # recorded, then re-raised
                exc = e
                raise
            finally:
                depth[0] -= 1
                if depth[0] == 0:
                    callback(type(self).__name__, ir_module, exc)

        return run

    for cls in _all_pass_classes():
        if "run" in cls.__dict__ and not getattr(cls.__dict__["run"], "__isabstractmethod__", False):
            orig = cls.__dict__["run"]
            setattr(cls, "run", wrap(cls, orig))
            patched.append((cls, orig))
    try:
        yield
    finally:
        for cls, orig in patched:
            setattr(cls, "run", orig)


def strip_wf(pm):
    """Copy of a wf=True projection without the bookkeeping keys (smaller JSON for IR.tla)."""
    out = dict(pm)
    funcs = []
    for f in pm["funcs"]:
        f2 = {k: v for k, v in f.items() if k not in ("names", "ndef", "dangling")}
        f2["blocks"] = [{"name": b["name"],
                         "ins": [{k: v for k, v in ins.items() if k not in ("uses", "used_by", "inblock", "term")}
                                 for ins in b["ins"]]} for b in f["blocks"]]
        funcs.append(f2)
    out["funcs"] = funcs
    return out


def mod_hash(pm):
    return hashlib.sha1(json.dumps(pm, sort_keys=True).encode()).hexdigest()


def compile_c(src, march="x86_64"):
    from ppci import api

    return api.c_to_ir(io.StringIO(src), march)


def sigs_of(pm):
    """Signatures of the module's functions / externals for IRWF.TypesAgree."""
    out = []
    for gi, g in enumerate(pm["globals"]):
        if g["k"] == "fn":
            f = pm["funcs"][g["fi"] - 1]
            out.append({"g": gi + 1, "args": [p["ty"] for p in f["params"]], "ret": f["ret"]})
        elif g["k"] == "xfn":
            out.append({"g": gi + 1, "args": g["args"], "ret": g["ret"]})
    return out


class Trace:
    """One optimiser trace: snapshots[0] is the input module."""

    def __init__(self, tid, kind):
        self.id = tid
        self.kind = kind
        self.passes = []
        self.snaps = []      # wf projections
        self.outcomes = []   # "ok" | "error:<Exc>" per pass
        self.error = None


def run_trace(tid, make_module, kind, ptr_bytes=8, level=None, pass_cls=None, pass_seq=None):
    """Build the module with make_module(), run the requested passes, record snapshots."""
    from ppci import api

    t = Trace(tid, kind)
    m = make_module()
    t.snaps.append(project_ir.project_module(m, ptr_bytes, wf=True))

    def cb(name, module, exc):
        t.passes.append(name)
        if exc is None:
            t.outcomes.append("ok")
            t.snaps.append(project_ir.project_module(module, ptr_bytes, wf=True))
        else:
            t.outcomes.append("error:" + type(exc).__name__)

    try:
        with pass_recorder(cb):
            if level is not None:
                api.optimize(m, level=level)
            elif pass_cls is not None:
                pass_cls().run(m)
            else:
                for c in pass_seq:
                    c().run(m)
    except Exception as e:  # internal error of a pass or of the verifier inside optimize()
        t.error = type(e).__name__ + ": " + str(e)[:200]
    return t


def ext_stubs(prog, rng):
    out = []
    for x in prog["externs"]:
        out.append({"name": x["n"], "rets": [project_ir.limbs(rng.randrange(-5, 40), 4) for _ in range(6)]})
    return out


def arg_words(f, vec):
    return [project_ir.limbs(v, absprog.BITS[p["ty"]] // 8) for p, v in zip(f["params"], vec)]
