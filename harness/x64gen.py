"""Instruction-instance generator and observers for the x86-64 part of C08 / C07.

Python here only (a) enumerates instances of the instruction classes of ppci.arch.x86_64 (every class
of arch.isa.instructions, every addressing-mode constructor of its r/m operand, every register of the
operand's register class in every slot, boundary displacements / immediates / label distances),
(b) drives the real code -- the constructors, str(instruction), Instruction.encode(), the
instruction's own relocation, used_registers / defined_registers / clobbers -- and records what it did,
(c) tokenises the printed text lexically (no interpretation: register names, integers and brackets are
handed to TLC as they are printed).  The verdicts are TLC's (tla/X64_Eval.tla over tla/X64.tla)."""
import json
import os
import re
import subprocess

from . import enc
from . import tlc as tlcmod
from .asmgen import LABEL, observe_encode

CFG = "INIT Init\nNEXT Next\nCHECK_DEADLOCK FALSE\n"
PLACE = 0x1000
LAWS = ["LawModRM", "LawRex", "LawSign", "LawDisp", "LawTable", "LawDecodeEncode", "LawLength", "LawFields",
        "LawRegSets", "LawKat", "LawRwKat"]


# ---------------------------------------------------------------- idiom M
def laws(ctx, fams, deep, workers=8, which=None, coverage=True):
    """Model-check X64.tla itself.  A failing law is a defect of the specification: machinery failure."""
    cfg = "CONSTANT Deep = %s\nCONSTANT Fams = {%s}\n" % ("TRUE" if deep else "FALSE", ", ".join('"%s"' % f for f in fams))
    cfg += CFG + "".join("INVARIANT %s\n" % x for x in (which or LAWS))
    res = ctx.tlc("X64_MC", cfg, label="M: laws of X64.tla on %s" % "/".join(fams), workers=workers, coverage=coverage)
    for e in res.errors:
        raise tlcmod.MachineryError("a law of X64.tla fails in the specification itself: %s\n%s\n%s" % (
            e, e.text[:1500], e.last))
    from . import tlcclean
    tlcclean.clean(res, "X64_MC")
    return res


# ---------------------------------------------------------------- lexer
_INT = re.compile(r"^-?\s*(?:0x[0-9a-fA-F]+|\d+)$")
_ID = re.compile(r"^[A-Za-z_.][A-Za-z_0-9.]*$")


def _split(s):
    """Split at top-level commas (brackets nest one level)."""
    parts, depth, cur = [], 0, ""
    for ch in s:
        if ch == "[":
            depth += 1
        elif ch == "]":
            depth -= 1
        if ch == "," and depth == 0:
            parts.append(cur)
            cur = ""
        else:
            cur += ch
    if cur.strip() or parts:
        parts.append(cur)
    return [p.strip() for p in parts]


def _int16(text):
    v = int(text.replace(" ", ""), 0)
    if not -(1 << 127) <= v < (1 << 127):
        return None
    return enc.limbs(v, 16)


def _operand(tok):
    if tok.startswith("*"):  # 'call *rax': the star only marks the indirection
        tok = tok[1:].strip()
    if tok.startswith("[") and tok.endswith("]"):
        inner = [p.strip() for p in tok[1:-1].split(",")]
        regs, disp, lab = [], None, False
        for p in inner:
            if p == LABEL:
                lab = True
            elif _INT.match(p):
                if disp is not None:
                    return {"k": "x"}
                disp = _int16(p)
                if disp is None:
                    return {"k": "x"}
            elif _ID.match(p):
                if disp is not None:
                    return {"k": "x"}  # a register after the displacement: not the printed form
                regs.append(p)
            else:
                return {"k": "x"}
        if lab:
            return {"k": "abslab"} if not regs and disp is None and len(inner) == 1 else {"k": "x"}
        if not regs:
            return {"k": "abs", "addr": disp} if disp is not None else {"k": "x"}
        return {"k": "mem", "regs": regs, "disp": disp if disp is not None else enc.limbs(0, 16)}
    if tok == LABEL:
        return {"k": "lab"}
    if _INT.match(tok):
        v = _int16(tok)
        return {"k": "imm", "v": v} if v is not None else {"k": "x"}
    if _ID.match(tok):
        return {"k": "reg", "name": tok}
    return {"k": "x"}


def tokenize(text):
    """'mov rax, [rbx, rcx, 8]' -> ('mov', [{'k':'reg','name':'rax'}, {'k':'mem','regs':['rbx','rcx'],'disp':limbs}])."""
    text = text.strip()
    m = re.match(r"^([A-Za-z_.][A-Za-z_0-9.]*)", text)
    if not m:
        return None
    mn = m.group(1)
    rest = text[m.end():]
    if mn.endswith(LABEL) and len(mn) > len(LABEL):  # a syntax without a space before the label operand
        mn, rest = mn[:-len(LABEL)], LABEL + rest
    ops = [_operand(t) for t in _split(rest.strip())] if rest.strip() else []
    return mn, ops


# ---------------------------------------------------------------- classes and slots
DATA_MNEMONICS = {"db", "dw", "dd", "dq", "ds", "dcd", ".byte", ".zero", ".align", ".section"}


def _x86():
    from ppci.arch.x86_64 import instructions, sse2_instructions, registers
    return instructions, sse2_instructions, registers


def _abbr(c):
    """Short name of an operand class for the class identifier."""
    ins, sse, regs = _x86()
    if isinstance(c, tuple):
        for m, s in ((ins.RmReg64, "rm64"), (ins.RmReg32, "rm32"), (ins.RmReg16, "rm16"), (ins.RmReg8, "rm8"),
                     (sse.RmXmmRegSingle, "xm32"), (sse.RmXmmReg, "xm64")):
            if m in c:
                return s
        return "rm"
    return {regs.Register64: "r64", regs.Register32: "r32", regs.Register16: "r16", regs.Register8: "r8",
            regs.XmmRegisterSingle: "xs", regs.XmmRegisterDouble: "xd", int: "imm", str: "lab"}.get(c, getattr(c, "__name__", "?"))


def class_width(cls):
    """Operand width in bits the class fixes through the register alternative of its r/m operand (0: none)."""
    ins, sse, regs = _x86()
    for a in cls.syntax.formal_arguments:
        if isinstance(a._cls, tuple):
            for m, w in ((ins.RmReg64, 64), (ins.RmReg32, 32), (ins.RmReg16, 16), (ins.RmReg8, 8),
                         (sse.RmXmmRegSingle, 32), (sse.RmXmmReg, 64)):
                if m in a._cls:
                    return w
    return 0


def isa_classes():
    """[(identifier, cls)]: every concrete, encodable instruction class of get_arch('x86_64').isa."""
    from ppci.api import get_arch
    from ppci.arch.generic_instructions import ArtificialInstruction
    out, seen, names = [], set(), {}
    for c in get_arch("x86_64").isa.instructions:
        syn = getattr(c, "syntax", None)
        if syn is None or id(c) in seen:
            continue
        seen.add(id(c))
        if issubclass(c, ArtificialInstruction):
            continue
        first = syn.syntax[0] if syn.syntax and isinstance(syn.syntax[0], str) else ""
        if first in DATA_MNEMONICS or c.__module__.endswith("data_instructions"):
            continue  # data / section directives, not instructions
        ident = "%s(%s)" % (c.__name__, ",".join(_abbr(a._cls) for a in syn.formal_arguments))
        k = names.get(ident, 0)
        names[ident] = k + 1
        out.append((ident if k == 0 else "%s#%d" % (ident, k + 1), c))
    return out


def reg_pool(c):
    return list(c.registers)


DISPS = [-129, -128, -127, -1, 0, 1, 127, 128, 129, 2 ** 31 - 1, -2 ** 31, 2 ** 31, -2 ** 31 - 1, 2 ** 32 - 1]
ADDRS = [0, 1, 0x1000, 2 ** 31 - 1, 2 ** 31, 2 ** 32 - 1, -1, -2 ** 31]
IMMS = [-1, 0, 1, 127, 128, 255, 256, -128, -129, 32767, 32768, 65535, 65536, 2 ** 31 - 1, 2 ** 31, 2 ** 32 - 1, 2 ** 32,
        -2 ** 31, -2 ** 31 - 1, 2 ** 63 - 1, 2 ** 63, 2 ** 64 - 1, -2 ** 63, 0x1122334455667788]
REL_DISTANCES = [0, 1, -1, 5, 127, 128, 129, -126, -127, -128, -129, -130, 0x12345, -0x12345]
SYMS = [0, 0x1000, 0x7FFFFFFF, 0x80000000, 0x123456789A, 2 ** 63 + 5]
SPECIAL_BASES = ("rax", "rsp", "rbp", "r12", "r13")


class Slot:
    """A leaf operand slot: path (tuple of names), kind (r / i / l), cls, role."""

    def __init__(self, path, kind, cls, role):
        self.path, self.kind, self.cls, self.role = path, kind, cls, role


def leaf_slots(formal, prefix=(), owner=None):
    ins, sse, regs = _x86()
    out = []
    for a in formal:
        c = a._cls
        if isinstance(c, tuple):
            continue
        if isinstance(c, type) and issubclass(c, regs.Register):
            out.append(Slot(prefix + (a._name,), "r", c, owner))
        elif c is int:
            out.append(Slot(prefix + (a._name,), "i", c, owner))
        elif c is str:
            out.append(Slot(prefix + (a._name,), "l", c, owner))
        else:
            out.append(Slot(prefix + (a._name,), "?", c, owner))
    return out


def variants(cls):
    """[(mode name, rm slot name or None, constructor or None, leaf slots)]: one per addressing-mode alternative."""
    formal = cls.syntax.formal_arguments
    rms = [a for a in formal if isinstance(a._cls, tuple)]
    own = leaf_slots(formal, owner="ins")
    if not rms:
        return [("-", None, None, own)]
    assert len(rms) == 1, cls
    rm = rms[0]
    out = []
    for mode in rm._cls:
        out.append((mode.__name__, rm._name, mode, own + leaf_slots(mode.syntax.formal_arguments, (rm._name,), mode.__name__)))
    return out


def build(cls, rmname, mode, slots, values):
    """Instantiate cls; values: {path: value}."""
    args = []
    for a in cls.syntax.formal_arguments:
        if a._name == rmname:
            margs = [values[(rmname, b._name)] for b in mode.syntax.formal_arguments]
            args.append(mode(*margs))
        else:
            args.append(values[(a._name,)])
    return cls(*args)


def _default_reg(pool, k):
    """Distinct, unremarkable defaults (rbx, rcx, rdx / their sub-registers) where the pool has them."""
    pref = ("bx", "cx", "dx", "si", "di")
    names = {r.name: r for r in pool}
    order = []
    for stem in pref:
        for nm in ("r" + stem, "e" + stem, stem, stem[0] + "l"):
            if nm in names and names[nm] not in order:
                order.append(names[nm])
    for r in pool:
        if r not in order:
            order.append(r)
    # xmm pools: xmm1, xmm2 ...
    if pool and pool[0].name.startswith("xmm"):
        order = pool[1:] + pool[:1]
    return order[k % len(order)]


def enumerate_instances(cls, rng, level):
    """Yield {mode, values, tag, sym, place} for one class.
    level 0: every mode with defaults + sweeps of the instruction's own register slots and of the r/m register /
             base register (the class-specific encoding paths)
    level 1: + every register in every slot of every mode, diagonals, all boundary displacements / immediates /
             addresses / label distances (the full product of the assignment)
    level 2: + seeded random combinations"""
    for mname, rmname, mode, slots in variants(cls):
        if any(s.kind == "?" for s in slots):
            continue
        base = {}
        k = 0
        for s in slots:
            if s.kind == "r":
                base[s.path] = _default_reg(reg_pool(s.cls), k)
                k += 1
            elif s.kind == "i":
                base[s.path] = 8 if s.role != "ins" else 1
                if s.role == "RmAbs":
                    base[s.path] = 0x1000
            else:
                base[s.path] = LABEL
        haslab = any(s.kind == "l" for s in slots)

        def inst(vals, tag, sym=PLACE + 0x40, place=PLACE):
            if any(getattr(v, "name", "") in ("ah", "ch", "dh", "bh") for v in vals.values()):
                tag += "+hi8"  # classification of the input: a legacy high-byte register is an operand
            return {"mode": mname, "rm": rmname, "ctor": mode, "slots": slots, "values": dict(vals), "tag": tag,
                    "sym": sym if haslab else 0, "place": place if haslab else 0}

        yield inst(base, "default")
        rslots = [s for s in slots if s.kind == "r"]
        for s in rslots:
            full = level >= 1 or s.role == "ins" or mname.startswith("RmReg") or mname.startswith("RmXmm") or mname == "RmMem"
            if not full:
                continue
            for r in reg_pool(s.cls):
                x = dict(base)
                x[s.path] = r
                y = inst(x, "sweep.%s" % ".".join(s.path))
                y["swept"] = r.num if len(reg_pool(s.cls)) > 8 else None
                yield y
        if level >= 1 and len(rslots) > 1:
            pools = [reg_pool(s.cls) for s in rslots]
            for j in range(max(len(p) for p in pools)):
                x = dict(base)
                for s, p in zip(rslots, pools):
                    x[s.path] = p[j % len(p)]
                yield inst(x, "diag")
        for s in slots:
            if s.kind == "i":
                if s.role in ("RmMemDisp", "RmMemDisp2", "RmRip"):
                    vals = DISPS if level >= 1 else [-129, -128, 0, 127, 128, 2 ** 31 - 1]
                    lo, hi = (-128, 127) if s.role == "RmMemDisp2" else (-2 ** 31, 2 ** 31 - 1)
                    what = "disp"
                elif s.role == "RmAbs":
                    vals, lo, hi, what = (ADDRS if level >= 1 else [0, 2 ** 31 - 1]), -2 ** 31, 2 ** 31 - 1, "addr"
                else:
                    vals, lo, hi, what = IMMS, None, None, "imm"
                bases = [None]
                if s.role in ("RmMemDisp", "RmMemDisp2") and level >= 1:
                    bases = SPECIAL_BASES
                for bname in bases:
                    for v in vals:
                        if level < 2 and bname not in (None, "rax") and lo is not None and not lo <= v <= hi:
                            continue  # quick tier: out-of-range displacements with one base only
                        x = dict(base)
                        x[s.path] = v
                        if bname is not None:
                            for t in rslots:
                                if t.role == s.role and t.path[-1] in ("reg", "regb"):
                                    x[t.path] = next(r for r in reg_pool(t.cls) if r.name == bname)
                        cat = what if lo is None else "%s-%s" % (what, "in-range" if lo <= v <= hi else "out-of-range")
                        yield inst(x, "%s.%s" % (cat, ".".join(s.path)))
            elif s.kind == "l":
                dists = REL_DISTANCES if level >= 1 else [0, -128, 127, 0x12345]
                for d in dists:
                    yield inst(base, "distance.%s" % ".".join(s.path), sym=PLACE + d)
                for a in (SYMS if level >= 1 else SYMS[:3]):
                    yield inst(base, "address.%s" % ".".join(s.path), sym=a)
        if level >= 2:
            for _ in range(40):
                x = dict(base)
                for s in slots:
                    if s.kind == "r":
                        x[s.path] = rng.choice(reg_pool(s.cls))
                    elif s.kind == "i":
                        x[s.path] = rng.choice([-128, -1, 0, 1, 127]) if s.role != "ins" else rng.choice([-1, 0, 1, 100, 255])
                yield inst(x, "random")


# classes whose instances are enumerated in full already in the quick tier (one per encoding base class / operand width)
QUICK_FULL = ("mov_ins(r64,rm64)", "mov_ins(rm32,r32)", "add_ins16(r16,rm16)", "mov_ins(r8,rm8)", "MovsxReg64Rm8(r64,rm8)",
              "Neg(rm64)", "ShlCl(rm16)", "Movsd(xd,xm64)", "Cvtsi2sd(xd,rm64)", "lea_ins(r64,rm64)", "Jmp(rm64)",
              "Movss2(xm32,xs)", "SarCl8(rm8)")


def instances(rng, thorough, only_classes=None):
    """[(class id, cls, instance dict, instruction or None, text, error)] over all classes."""
    out = []
    for cname, cls in isa_classes():
        if only_classes and cname not in only_classes:
            continue
        level = 2 if thorough else (1 if cname in QUICK_FULL else 0)
        seen = set()
        for it in enumerate_instances(cls, rng, level):
            try:
                ins = build(cls, it["rm"], it["ctor"], it["slots"], it["values"])
                text = str(ins)
            except Exception as e:  # construction / printing failed: nothing is printed, nothing to compare
                out.append((cname, cls, it, None, None, type(e).__name__))
                continue
            sig = (text, it["sym"], it["place"])
            if sig in seen:
                continue
            seen.add(sig)
            out.append((cname, cls, it, ins, text, None))
    return out


def _sym_fields(it):
    return {"place": it["place"], "sym16": enc.limbs(it["sym"], 16)}


def enc_records(prop, rng, thorough, only_classes=None):
    """Records (t = 'enc'): printed text + bytes of every instance; skipped: {reason: count}."""
    recs, skipped = [], {}

    def skip(why):
        skipped[why] = skipped.get(why, 0) + 1

    for cname, cls, it, ins, text, err in instances(rng, thorough, only_classes):
        if ins is None:
            skip("not constructible:%s:%s" % (cname, err))
            continue
        haslab = LABEL in text
        out = observe_encode(ins, it["sym"] if haslab else None, it["place"])
        if not out["ok"]:
            skip("not encodable:%s:%s:%s" % (cname, it["mode"], out["exc"]))  # rejected operands: nothing emitted
            continue
        tk = tokenize(text)
        if tk is None:
            skip("not tokenisable:%s" % cname)
            continue
        r = {"t": "enc", "key": "%s:x86_64:%s:%s:%s:%s%s" % (prop, cname, it["mode"], it["tag"], text,
                                                           "@%#x" % it["sym"] if haslab else ""),
             "mn": tk[0], "ops": tk[1], "msz": class_width(cls), "out": out, "text": text, "cls": cname}
        r.update(_sym_fields(it))
        recs.append(r)
    return recs, skipped


QUICK_RW_REGS = (0, 1, 3, 4, 5, 8, 12, 13, 15)


def _names(regs):
    return [str(getattr(r, "name", r)) for r in regs]


def rw_records(prop, rng, thorough, only_classes=None):
    """Records (t = 'rw'): bytes + declared used / defined / clobbered register names of every instance."""
    recs, skipped = [], {}

    def skip(why):
        skipped[why] = skipped.get(why, 0) + 1

    for cname, cls, it, ins, text, err in instances(rng, thorough, only_classes):
        if ins is None:
            skip("not constructible:%s:%s" % (cname, err))
            continue
        if it["tag"].split(".")[0].split("-")[0] in ("disp", "addr", "imm", "address", "distance"):
            continue  # the register sets do not depend on the integer operands: the default value of each is enough
        if not thorough and it["tag"].startswith("sweep.") and it.get("swept") is not None and it["swept"] not in QUICK_RW_REGS:
            continue  # quick tier: the register sweeps of the 16-register files visit half of the numbers
        try:
            uses, defs, clob = _names(ins.used_registers), _names(ins.defined_registers), _names(getattr(ins, "clobbers", []))
        except Exception as e:
            skip("register sets:%s:%s" % (cname, type(e).__name__))
            continue
        out = observe_encode(ins, it["sym"] if LABEL in text else None, it["place"])
        if not out["ok"]:
            skip("not encodable:%s:%s:%s" % (cname, it["mode"], out["exc"]))
            continue
        recs.append({"t": "rw", "key0": (cname, it["mode"], it["tag"], text), "bytes": out["bytes"], "uses": uses, "defs": defs,
                     "clob": clob, "text": text, "cls": cname})
    return recs, skipped


# ---------------------------------------------------------------- judgement (TLC)
def judge(ctx, recs, invariants, label, workers=8, explain=None):
    """Evaluate the records in X64_Eval; returns [(record, clause, verdict record)] for every violated invariant
    (the verdict record = X64_Explain's account of what disagrees)."""
    if not recs:
        return []
    drop = ("key", "key0", "text", "cls")
    slim = [{k: v for k, v in r.items() if k not in drop} for r in recs]
    path = ctx.trace_file(slim)
    cfg = CFG + "".join("INVARIANT %s\n" % inv for inv in invariants)
    # (-coverage costs half of the run time; the two actions of X64_Eval are covered by construction: see expect_states)
    res = ctx.tlc("X64_Eval", cfg, label=label, env={"TRACE_FILE": path}, continue_=True, workers=workers, coverage=False)
    os.unlink(path)
    from . import tlcclean
    tlcclean.clean(res, "X64_Eval", expect_states=len(recs) + 1 + (len(recs) + 15) // 16)
    ctx.cov["traces_validated_against_impl"] += len(recs)
    out, seen = [], set()
    for e in res.errors:
        idx = e.last.get("i")
        if not isinstance(idx, int) or not 1 <= idx <= len(recs):
            raise tlcmod.MachineryError("TLC error without record index in X64_Eval: %s\n%s" % (e, e.text[:2000]))
        if (idx, e.name) in seen:
            continue
        seen.add((idx, e.name))
        out.append((idx, e.name))
    if not out:
        return []
    bad = sorted({idx for idx, _ in out if explain is None or explain(recs[idx - 1])})
    if not bad:
        return [(recs[idx - 1], name, {}) for idx, name in out]
    inp = ctx.trace_file([slim[idx - 1] for idx in bad], "explain.json")
    outp = os.path.join(ctx.workdir, "x64explain_out.json")
    ctx.tlc("X64_Explain", CFG, label=label + ": what disagrees in the rejected records", env={"TRACE_FILE": inp, "OUT_FILE": outp},
            workers=1, coverage=False)
    try:
        with open(outp) as f:
            expl = json.load(f)
    except Exception as e:
        raise tlcmod.MachineryError("X64_Explain wrote no table: %s" % e)
    os.unlink(inp)
    os.unlink(outp)
    if len(expl) != len(bad):
        raise tlcmod.MachineryError("X64_Explain: %d verdicts for %d records" % (len(expl), len(bad)))
    why = dict(zip(bad, expl))
    return [(recs[idx - 1], name, why.get(idx, {})) for idx, name in out]


REG64 = ["rax", "rcx", "rdx", "rbx", "rsp", "rbp", "rsi", "rdi", "r8", "r9", "r10", "r11", "r12", "r13", "r14", "r15"]


def fam_names(v):
    """Membership vector of register families (X64_Explain) -> 'rax+rdx' (for keys / messages only)."""
    return "+".join(REG64[n] if n < 16 else "xmm%d" % (n - 16) for n, m in enumerate(v) if m)


# ---------------------------------------------------------------- spec validation against objdump / llvm-objdump
# Both sides are brought into the same structure: (mnemonic, [operand]) with operand =
# ("reg", name) | ("mem", size bits or 0, base, index, scale, disp mod 2^64) | ("imm", value) | ("tgt", address).
OBJDUMP = "/usr/bin/objdump"
OBJCOPY = "/usr/bin/objcopy"
LLVM_OBJDUMP = "/usr/bin/llvm-objdump-14"
_R64 = REG64
_R32 = ["eax", "ecx", "edx", "ebx", "esp", "ebp", "esi", "edi"] + ["r%dd" % n for n in range(8, 16)]
_R16 = ["ax", "cx", "dx", "bx", "sp", "bp", "si", "di"] + ["r%dw" % n for n in range(8, 16)]
_R8 = ["al", "cl", "dl", "bl", "spl", "bpl", "sil", "dil"] + ["r%db" % n for n in range(8, 16)]
_ALLREGS = set(_R64 + _R32 + _R16 + _R8 + ["ah", "ch", "dh", "bh", "rip"] + ["xmm%d" % n for n in range(16)])
_SIZES = {"byte": 8, "word": 16, "dword": 32, "qword": 64, "xmmword": 128}
M64 = (1 << 64) - 1
_MN_ALIASES = {"sal": "shl", "jz": "je", "jnz": "jne", "jc": "jb", "jnc": "jae", "jnae": "jb", "jnb": "jae", "jna": "jbe",
               "jnbe": "ja", "jnge": "jl", "jnl": "jge", "jng": "jle", "jnle": "jg", "jpe": "jp", "jpo": "jnp",
               "cltq": "cdqe", "cqto": "cqo", "cltd": "cdq", "cwtl": "cwde", "cwtd": "cwd", "cbtw": "cbw", "movabs": "mov",
               "retq": "ret", "pause": "nop", "int3": "int3", "pushw": "push", "popw": "pop", "retw": "ret", "leavew": "leave"}


def _val(w):
    return sum(b << (8 * j) for j, b in enumerate(w))


def spec_struct(d, addr):
    """An X64.Decode record (JSON) in the comparison structure (None: no counterpart in a disassembly listing)."""
    if d["st"] != "ok" or d["mn"] in ("rep", "repne", "movsb", "stosb") or d["rep"]:
        return None
    ops = []
    for o in d["ops"]:
        k = o["k"]
        if k == "reg":
            ops.append(("reg", ["ah", "ch", "dh", "bh"][o["n"]] if o["hi"] else {64: _R64, 32: _R32, 16: _R16, 8: _R8}[o["sz"]][o["n"]]))
        elif k == "xmm":
            ops.append(("reg", "xmm%d" % o["n"]))
        elif k == "one":
            ops.append(("imm", 1))
        elif k == "imm":
            ops.append(("imm", _val(o["w"]), 8 * len(o["w"])))
        elif k == "rel":
            ops.append(("tgt", (addr + d["len"] + o["d"]) & M64))
        elif k == "mem":
            base = "rip" if o["base"] == 16 else _R64[o["base"]] if o["base"] >= 0 else ""
            idx = _R64[o["idx"]] if o["idx"] >= 0 else ""
            ops.append(("mem", 0 if d["mn"] == "lea" else o["sz"], base, idx, o["sc"] if idx else 1, o["disp"] & M64))
    return d["mn"], ops


def _num(t):
    t = t.strip().replace(" ", "")
    try:
        return int(t, 0) & M64
    except ValueError:
        return None


def parse_ref(text):
    """A line of objdump -M intel / llvm-objdump -M intel in the comparison structure (None: not understood)."""
    text = text.split("#")[0]
    text = re.sub(r"<[^>]*>", "", text).strip().lower()
    words = text.split(None, 1)
    while words and (words[0].startswith("rex") or words[0] in ("data16", "ds", "notrack")):
        words = words[1].split(None, 1) if len(words) > 1 else []
    if not words:
        return None
    mn = _MN_ALIASES.get(words[0], words[0])
    if mn == "xchg" and len(words) > 1 and words[1].replace(" ", "") in ("ax,ax", "eax,eax", "rax,rax"):
        return "nop", []  # 90 with an operand-size prefix
    ops = []
    for tok in (_split(words[1]) if len(words) > 1 else []):
        size = 0
        m = re.match(r"^(byte|word|dword|qword|xmmword) ptr (.*)$", tok)
        if m:
            size, tok = _SIZES[m.group(1)], m.group(2).strip()
        seg = re.match(r"^[defgs]s:", tok)
        tok = re.sub(r"^[defgs]s:", "", tok)
        if tok.startswith("[") and tok.endswith("]") or size or seg:
            inner = tok[1:-1] if tok.startswith("[") else tok
            base = idx = ""
            scale, disp = 1, 0
            for sign, term in re.findall(r"([+-]?)\s*([^+-]+)", inner):
                term = term.strip()
                mm = re.match(r"^([a-z0-9]+)\s*\*\s*([a-z0-9]+)$", term)
                if mm and ("riz" in mm.groups() or "eiz" in mm.groups()):
                    continue  # objdump's pseudo register for 'no index'
                if mm:
                    a, b = mm.groups()
                    if a in _ALLREGS:
                        idx, scale = a, _num(b)
                    else:
                        idx, scale = b, _num(a)
                elif term in ("riz", "eiz"):
                    continue
                elif term in _ALLREGS:
                    if not base:
                        base = term
                    else:
                        idx = term
                else:
                    v = _num(term)
                    if v is None:
                        return None
                    disp = (disp + (-v if sign == "-" else v)) & M64
            ops.append(("mem", size, base, idx, scale, disp))
        elif tok in _ALLREGS:
            ops.append(("reg", tok))
        else:
            v = _num(tok)
            if v is None:
                return None
            ops.append(("imm", v))
    return mn, ops


def _addr(m):
    """(base, index, scale, disp); an unscaled index without base is listed as base by some disassemblers."""
    _, _, base, idx, scale, disp = m
    if not base and idx and scale == 1:
        base, idx = idx, ""
    return base, idx, scale if idx else 1, disp


def random_strings(rng, n):
    """Byte strings shaped like instructions of the modelled subset: optional 66 / F2 / F3, optional REX, an opcode byte
    (one- or two-byte map), random ModRM / SIB / displacement / immediate bytes.  Inputs of the spec validation only."""
    out = []
    for _ in range(n):
        b = []
        if rng.random() < 0.25:
            b.append(rng.choice([0x66, 0xF2, 0xF3]))
        if rng.random() < 0.6:
            b.append(0x40 + rng.randrange(16))
        if rng.random() < 0.3:
            b += [0x0F, rng.choice([0x05, 0x0B, 0x10, 0x11, 0x1F, 0x28, 0x29, 0x2A, 0x2C, 0x2D, 0x2E, 0x2F, 0x51, 0x57, 0x58, 0x59,
                                    0x5A, 0x5C, 0x5D, 0x5E, 0x5F, 0x6E, 0x7E, 0xA2, 0xAF, 0xB6, 0xB7, 0xBE, 0xBF, 0xEF]
                                   + list(range(0x40, 0x50)) + list(range(0x80, 0xA0)))]
        else:
            b.append(rng.randrange(256))
        m = rng.randrange(256)
        if rng.random() < 0.5:  # favour the special ModRM / SIB cases
            m = (m & 0xF8) | rng.choice([4, 5])
        b.append(m)
        b.append(rng.choice([rng.randrange(256), 0x24, 0x25, 0x2C, 0x65, 0xE5, 0x05]))
        b += [rng.choice([0, 1, 0x7F, 0x80, 0xFF, rng.randrange(256)]) for _ in range(rng.randrange(0, 10))]
        out.append(b[:15])
    return out


def _same(mine, ref):
    mn, ops = mine
    rmn, rops = ref
    if mn != rmn:
        return False
    if mn in ("rol", "ror", "rcl", "rcr", "shl", "shr", "sar") and len(ops) == 2 and ops[1][:2] == ("imm", 1) and len(rops) == 1:
        ops = ops[:1]  # the shift-by-one form is listed without the count by llvm
    if len(ops) != len(rops):
        return False
    if mn == "xchg" and len(ops) == 2 and not _same(("", ops[:1]), ("", rops[:1])):
        rops = rops[::-1]  # symmetric: the disassemblers list the operands in either order
    for a, b in zip(ops, rops):
        if a[0] == "tgt":
            if b[0] != "imm" or a[1] != b[1]:
                return False
        elif a[0] == "imm":
            w = a[2] if len(a) > 2 else 64
            if b[0] != "imm" or (a[1] - b[1]) % (1 << w):
                return False
        elif a[0] == "mem":
            if b[0] != "mem" or _addr(a) != _addr(b) or (a[1] and b[1] and a[1] != b[1]):
                return False
        elif a != b:
            return False
    return True


def objdump_crosscheck(ctx, byte_lists, limit=60000):
    """Compare X64.Decode with GNU objdump and llvm-objdump on the same bytes.  NOTE / SPEC-SUSPECT lines only."""
    if not os.path.exists(OBJDUMP):
        ctx.note("objdump not installed: specification not cross-checked")
        return None
    uniq = sorted({tuple(b) for b in byte_lists if 0 < len(b) <= 15})[:limit]
    if not uniq:
        return None
    inp = ctx.trace_file([list(b) for b in uniq], "dis.json")
    outp = os.path.join(ctx.workdir, "x64dis_out.json")
    ctx.tlc("X64_Dis", CFG, label="spec validation: X64.Decode table for the comparison with objdump / llvm-objdump",
            env={"TRACE_FILE": inp, "OUT_FILE": outp}, workers=2, coverage=False)
    with open(outp) as f:
        decs = json.load(f)
    os.unlink(inp)
    os.unlink(outp)
    # one slot of 16 bytes per string (nop padding): every string starts at a known address
    blob = bytearray()
    for b in uniq:
        blob += bytes(b) + b"\x90" * (16 - len(b))
    binp = os.path.join(ctx.workdir, "x64dis.bin")
    objp = os.path.join(ctx.workdir, "x64dis.o")
    with open(binp, "wb") as f:
        f.write(blob)
    refs = {}
    try:
        p = subprocess.run([OBJDUMP, "-D", "-b", "binary", "-m", "i386:x86-64", "-M", "intel", "-w", binp],
                           capture_output=True, text=True, timeout=900)
        refs["objdump"] = p.stdout
        if os.path.exists(LLVM_OBJDUMP) and os.path.exists(OBJCOPY):
            subprocess.run([OBJCOPY, "-I", "binary", "-O", "elf64-x86-64", "-B", "i386:x86-64", "--rename-section",
                            ".data=.text,alloc,load,contents,code,readonly", binp, objp], check=True, timeout=300)
            p = subprocess.run([LLVM_OBJDUMP, "-d", "-M", "intel", objp], capture_output=True, text=True, timeout=900)
            refs["llvm-objdump"] = p.stdout
    except Exception as e:
        ctx.note("reference disassembler failed: %s" % type(e).__name__)
    for f in (binp, objp):
        if os.path.exists(f):
            os.unlink(f)
    summary, suspects = {}, []
    for tool, listing in refs.items():
        at = {}
        for ln in listing.splitlines():
            m = re.match(r"^\s*([0-9a-f]+):\s+((?:[0-9a-f]{2}[ \t])+)\s*(.*)$", ln)
            if m:
                at[int(m.group(1), 16)] = (len(m.group(2).split()), m.group(3).strip())
        agree = differ = nover = lenient = 0
        for n, (b, d) in enumerate(zip(uniq, decs)):
            mine = spec_struct(d, 16 * n)
            got = at.get(16 * n)
            if d["st"] == "unsupported" or d["mn"] in ("rep", "repne", "movsb", "stosb") or d["rep"]:
                nover += 1  # outside the decoder's subset / listed with implicit string operands
                continue
            if got is None:
                nover += 1
                continue
            rlen, rtext = got
            bad_ref = rtext.startswith("(bad)") or "<unknown>" in rtext or rtext.startswith(".byte")
            if mine is None:  # the specification says undefined / truncated
                if bad_ref or rlen != len(b):
                    agree += 1
                else:
                    differ += 1
                    suspects.append((tool, bytes(b).hex(), d["st"], rtext))
                continue
            if bad_ref and mine[0] == "shl" and tool == "llvm-objdump":
                lenient += 1  # /6 of the shift group: alias of /4 in the AMD manual, not decoded by llvm
                continue
            ref = None if bad_ref else parse_ref(rtext)
            if ref is not None and rlen == d["len"] and _same(mine, ref):
                agree += 1
            else:
                differ += 1
                suspects.append((tool, bytes(b).hex(), "%s %s" % mine, rtext))
        summary[tool] = {"agree": agree, "differ": differ, "no_counterpart": nover, "reference_lacks_amd_alias": lenient}
        ctx.note("spec validation: X64.Decode agrees with %s on %d of %d byte strings (%d without counterpart)" % (
            tool, agree, agree + differ, nover))
    for tool, h, mine, ref in suspects[:20]:
        print("SPEC-SUSPECT property=%s case=bytes:%s X64.Decode=%r %s=%r" % (ctx.prop, h, mine, tool, ref))
    ctx.cov["spec_validation_x86_64"] = summary
    return suspects


# ---------------------------------------------------------------- the x86_64 parts of the engines C08 / C07
def _mine(ctx, prop):
    """None: a normal run; True: a replay of one of this part's cases; False: a replay of another part's case."""
    if ctx.only is None:
        return None
    return str(ctx.only.get("key", "")).startswith(prop + ":x86_64:")


def _rng(ctx, salt):
    import random
    return random.Random(ctx.seed * 1000003 + salt)  # own stream: the other parts' instances do not depend on this one


def _restrict(ctx, recs):
    if ctx.only is None:
        return recs
    want = {ctx.only.get("key"), ((ctx.only.get("case") or {}).get("record") or {}).get("key")}
    sel = [r for r in recs if r["key"] in want]
    if not sel:
        ctx.note("replay: the case %s was not regenerated (different tier / seed / tree?)" % ctx.only.get("key"))
    return sel


def c08_part(ctx, thorough):
    """C08 for ppci.arch.x86_64: X64.Decode(bytes ppci emitted) designates the operation and operands ppci prints.
    Returns True when a replay was this part's."""
    mine = _mine(ctx, "C08")
    if mine is False:
        return False
    ctx.cov["rule_x86_64"] = (
        "every concrete instruction class of get_arch('x86_64').isa (integer, sse1, sse2) x every addressing-mode constructor "
        "of its r/m operand (RmMem, RmMemDisp, RmMemDisp2, RmReg*, RmXmmReg*, RmRip, RmAbs, RmAbsLabel) x {defaults; every "
        "register of the operand's register class in the instruction's own slots, in the register r/m alternative and as base "
        "of RmMem; boundary immediates of 8/16/32/64 bits}; for one class per encoding base class / operand width (all classes "
        "in the thorough tier) also every register in every constructor slot, diagonals, base in {rax rsp rbp r12 r13} x "
        "displacements {-129 -128 -127 -1 0 1 127 128 129, +-2^31 edges, 2^32-1}, label distances / addresses (the "
        "instruction's own relocation applied); bytes = encode(); TLC: Agrees(X64.Decode(bytes), tokenised printed text); "
        "distinct = distinct (class, mode, tag, printed text, symbol)")
    ctx.assume("x86_64: lexical tokenisation of the printed text (harness/x64gen.py: tokenize); the operand width of a class "
               "whose printed text shows no register (neg [rbx]) is the width of the register alternative of its r/m operand; "
               "'jmpshort' is read as jmp with an 8-bit displacement, 'call *reg' as call reg")
    if mine is None:
        # (-coverage more than triples the cost of the constant instance tables: the per-action counts are recorded in the
        # thorough tier; the quick run is bounded to < 10^4 states)
        laws(ctx, ["fld", "tab", "enc", "adr", "kat"], thorough, coverage=thorough)
    recs, skipped = enc_records("C08", _rng(ctx, 64), thorough)
    agg = {}
    for k, n in skipped.items():
        kk = k.split(":")
        agg[kk[0] + ":" + kk[-1]] = agg.get(kk[0] + ":" + kk[-1], 0) + n
    ctx.note("x86_64: instances rejected by ppci (nothing emitted, not judged): " +
             ", ".join("%d %s" % (n, k) for k, n in sorted(agg.items())))
    recs = _restrict(ctx, recs)
    for r in recs:
        ctx.count(r["key"])
    for r in recs[:: max(1, len(recs) // 3)][:3]:
        ctx.sample({"key": r["key"], "bytes": r["out"]["bytes"]})
    import fnmatch
    pats = [k["key"] for k in ctx.known]
    # the account of what disagrees only feeds the message: not needed for the listed findings
    verdicts = judge(ctx, recs, ["SyntaxKnown", "Decodable", "EncodingAgrees", "OperandSizeAgrees"], "E: C08 records (x86_64)",
                     explain=lambda r: not any(fnmatch.fnmatchcase(r["key"], p) for p in pats))
    unknown = undec = 0
    for rec, clause, v in verdicts:
        if clause == "SyntaxKnown":
            unknown += 1
        elif clause == "Decodable":
            undec += 1
        else:
            st = v.get("st")
            got = {"ok": "decode to '%s ...'" % v.get("dmn"), "ud": "are an undefined opcode",
                   "short": "are a truncated instruction"}.get(st, st)
            ctx.violation(rec["key"], "bytes %s %s, not the printed '%s'%s [clause %s]" % (
                bytes(rec["out"]["bytes"]).hex(), got, rec["text"],
                " (operand width of the class: %d bits)" % rec["msz"] if clause == "OperandSizeAgrees" else "", clause),
                {"record": rec, "clause": clause, "verdict": _plain(v)})
    if unknown:
        ctx.note("x86_64: %d instance(s) printed in a syntax outside the modelled assembly: no verdict" % unknown)
    if undec:
        ctx.note("x86_64: %d instance(s) whose bytes are outside the decoder's opcode subset: no verdict" % undec)
    if thorough and mine is None:
        objdump_crosscheck(ctx, [r["out"]["bytes"] for r in recs] + random_strings(_rng(ctx, 65), 20000))
    return mine is True


CLAUSES = {"OperandReadsDeclared": ("mr", "operand-read", "reads"), "ImplicitReadsDeclared": ("mri", "implicit-read", "reads"),
           "OperandWritesDeclared": ("mw", "operand-write", "writes"), "ImplicitWritesDeclared": ("mwi", "implicit-write", "writes")}


def _plain(v):
    return {k: (fam_names(x) if isinstance(x, list) else x) for k, x in (v or {}).items()}


def c07_part(ctx, thorough):
    """C07 for ppci.arch.x86_64: the architectural register sets of the emitted bytes (X64.ExplReads / ImplReads /
    ExplWrites / ImplWrites) are declared.  Returns True when a replay was this part's."""
    mine = _mine(ctx, "C07")
    if mine is False:
        return False
    ctx.cov["rule_x86_64"] = (
        "the instances of C08's x86_64 part without the integer-operand sweeps (every class x addressing mode x register "
        "sweeps, diagonals, thorough: seeded random registers; one in-range value per integer operand); ppci supplies the bytes and the names of used_registers / defined_registers / clobbers; TLC: ExplReads / "
        "ImplReads of X64.Decode(bytes) within the families of the declared reads, ExplWrites / ImplWrites within the declared "
        "writes + clobbers (al/ah/ax/eax/rax one family, xmm n single/double one family); distinct = distinct (class, mode, "
        "tag, printed text)")
    ctx.assume("x86_64: declared registers are read by their printed name; rsp as used by push / pop / call / ret, rip and the "
               "flags are fixed implicit state; a partial write (al, ax, movss xmm, xmm) is not a read of the full register")
    if mine is None:
        # (the laws of the decoder itself are checked by C08; here: the table, the register-set laws and the known answers)
        # quick: the known answers only (C08's quick run checks LawRegSets on every table entry x instance as well)
        laws(ctx, ["tab", "enc", "kat"] if thorough else ["tab", "kat"], thorough, which=["LawTable", "LawRegSets", "LawKat", "LawRwKat"],
             coverage=thorough)  # (-coverage multiplies the cost of the constant tables; C08's run records the action coverage)
    recs, skipped = rw_records("C07", _rng(ctx, 64), thorough)
    n = sum(skipped.values())
    if n:
        ctx.note("x86_64: %d instance(s) rejected by the constructor / encode(): nothing emitted, not judged" % n)
    for r in recs:
        r["key"] = "C07:x86_64:%s:%s:%s:%s" % r["key0"]
    recs = _restrict(ctx, recs)
    for r in recs:
        ctx.count(r["key"])
    for r in recs[:: max(1, len(recs) // 3)][:3]:
        ctx.sample({k: r[k] for k in ("key", "bytes", "uses", "defs", "clob")})
    verdicts = judge(ctx, recs, ["Decodable"] + list(CLAUSES), "E: C07 records (x86_64)")
    undec = 0
    for rec, clause, v in verdicts:
        if clause == "Decodable":
            undec += 1
            continue
        field, kind, verb = CLAUSES[clause]
        regs = fam_names(v.get(field, ()))
        cname, mode, tag, text = rec["key0"]
        ctx.violation("C07:x86_64:%s:%s:%s:%s:%s:%s" % (cname, mode, kind, regs, tag, text),
                      "'%s' (%s) %s %s without declaring it; declared reads %s writes %s clobbers %s [clause %s]" % (
                          text, bytes(rec["bytes"]).hex(), verb, regs.replace("+", ", "), rec["uses"], rec["defs"], rec["clob"],
                          clause),
                      {"record": {k: x for k, x in rec.items() if k != "key0"}, "clause": clause, "verdict": _plain(v)})
    if undec:
        ctx.note("x86_64: %d instance(s) whose bytes are outside the decoder's subset / the register-set model: no verdict" % undec)
    return mine is True
