"""Instruction-instance generator and observers for X12 (ppci.arch.mcs6500 and ppci.arch.stm8).

Python here only (a) enumerates instances of the instruction classes of the two instruction sets (every combination of
addressing-mode constructors in every operand slot, nested constructors included; boundary integers / addresses /
branch distances from TLC's table (idiom G, tla/Mos6502_MC.tla, tla/Stm8_MC.tla) in every integer and label slot),
(b) drives the real code -- Instruction.encode(), str(instruction), the instruction's own relocations, the assembler on
the printed text -- and records what it did, (c) tokenises printed text lexically (a word is kept as a word in lower
case, a number is read as written, a label token carries the address the harness resolved it to).
The verdicts are TLC's (tla/Mos6502_Eval.tla over tla/Mos6502.tla, tla/Stm8_Eval.tla over tla/Stm8.tla)."""
import itertools
import re

from . import isagen

PROP = "X12"
PLACE = 0x1000
LABELS = {"L_t": 0x1040}

ISAS = {
    "mcs6500": {"module": "Mos6502", "what": "Mos6502.tla",
                "laws": {"tab": ["LawTable"], "op": ["LawOpcode"], "ins": ["LawDecodeEncode"], "ln": ["LawLine", "LawBadLine"],
                         "ka": ["LawKnown"], "fld": ["LawFields"]},
                "clauses": ["EncodingAgrees", "SyntaxKnown", "TextInRange"]},
    "stm8": {"module": "Stm8", "what": "Stm8.tla",
             "laws": {"tab": ["LawTable"], "op": ["LawCell"], "ln": ["LawLine"], "ka": ["LawKnown"], "fld": ["LawFields"]},
             "clauses": ["EncodingAgrees", "SyntaxKnown", "AddressesUnsigned"]},
}


# ---------------------------------------------------------------- lexer
_TOK = re.compile(r"\s*(?:([A-Za-z_][A-Za-z_0-9]*)|(0x[0-9a-fA-F]+|\$[0-9a-fA-F]+|%[01]+|\d+)|(.))", re.S)
_GLYPHS = "#(),[]."


def tokenize(text, labels=None):
    """'adc A, (4387, X)' -> ('adc', [['w',0,'a'], [',',0,''], ['(',0,''], ['i',4387,''], [',',0,''], ['w',0,'x'], [')',0,'']]).
    Purely lexical: words are kept (lower case), numbers are read as written (decimal, 0x / $ hexadecimal, % binary); a '-'
    directly before a number and not after a number, label or closing bracket is its sign; a word that is one of the labels
    the harness placed becomes a label token carrying its address."""
    labels = labels or {}
    text = text.strip()
    m = re.match(r"^([A-Za-z_][A-Za-z_0-9]*)", text)
    if not m:
        return None
    mn = m.group(1).lower()
    rest = text[m.end():]
    ops = []
    pos = 0
    neg = False
    while pos < len(rest):
        t = _TOK.match(rest, pos)
        if not t:
            break
        pos = t.end()
        if t.group(1):
            if neg:
                ops.append(["x", 0, "-"])
                neg = False
            w = t.group(1)
            if w in labels:
                ops.append(["l", labels[w], w])
            else:
                ops.append(["w", 0, w.lower()])
        elif t.group(2):
            lit = t.group(2)
            if lit[0] == "$":
                v = int(lit[1:], 16)
            elif lit[0] == "%":
                v = int(lit[1:], 2)
            elif lit.lower().startswith("0x"):
                v = int(lit, 16)
            else:
                v = int(lit, 10)
            if neg:
                v = -v
                neg = False
            if not -(1 << 30) < v < (1 << 30):
                return None
            ops.append(["i", v, ""])
        else:
            ch = t.group(3)
            if ch in " \t\r\n":
                continue
            if neg:
                ops.append(["x", 0, "-"])
                neg = False
            if ch == "-" and (not ops or ops[-1][0] not in "il)]"):
                neg = True
            elif ch in _GLYPHS:
                ops.append([ch, 0, ""])
            else:
                ops.append(["x", 0, ch])
    if neg:
        ops.append(["x", 0, "-"])
    return mn, ops


# ---------------------------------------------------------------- classes
def isa_classes(isa):
    """[(name, cls)] concrete instruction classes with a syntax of get_arch(isa).isa (no data directives); a class name
    that occurs more than once (ppci.arch.stm8 builds several classes with one name) is numbered."""
    from ppci.api import get_arch
    from ppci.arch.data_instructions import DataInstruction
    out, count = [], {}
    for c in get_arch(isa).isa.instructions:
        if getattr(c, "syntax", None) is None or issubclass(c, DataInstruction):
            continue
        k = count.get(c.__name__, 0)
        count[c.__name__] = k + 1
        out.append((c.__name__ if k == 0 else "%s#%d" % (c.__name__, k + 1), c))
    return out


_REGS = {}


def _register_of(isa, t):
    """The register object a register-typed operand slot takes (stm8: one register per class)."""
    if isa not in _REGS:
        import importlib
        from ppci.arch.registers import Register
        mod = importlib.import_module("ppci.arch.%s.registers" % isa)
        _REGS[isa] = [v for v in vars(mod).values() if isinstance(v, Register)]
    exact = [r for r in _REGS[isa] if type(r) is t]
    if exact:
        return exact
    return [r for r in _REGS[isa] if isinstance(r, t)]


def shapes_of(isa, cls, depth=0):
    """Every combination of constructor choices below `cls`: [(leaves, maker, tag)]; leaves = [(kind, name, owner class)]
    (kind i integer, l label) in the order maker(iterator of leaf values) consumes them."""
    per_slot = []
    for a in cls.syntax.formal_arguments:
        t = a._cls
        if t is int or t is str:
            kind = "i" if t is int else "l"
            per_slot.append([([(kind, a._name, cls)], (lambda it: next(it)), "")])
        elif isinstance(t, tuple):
            alts = []
            if depth < 3:
                for ctor in t:
                    if getattr(ctor, "syntax", None) is None:
                        continue
                    for lv, mk, tag in shapes_of(isa, ctor, depth + 1):
                        alts.append((lv, mk, ctor.__name__ + ("(%s)" % tag if tag else "")))
            per_slot.append(alts)
        elif isinstance(t, type):
            regs = _register_of(isa, t)
            per_slot.append([([], (lambda it, r=r: r), "") for r in regs[:4]])
        else:
            per_slot.append([])
    out = []
    for combo in itertools.product(*per_slot):
        leaves = [x for c in combo for x in c[0]]

        def maker(it, combo=combo):
            return cls(*[c[1](it) for c in combo])

        out.append((leaves, maker, "+".join(c[2] for c in combo if c[2])))
    return out


def _row(table, isa, what):
    return [r for r in table[isa] if r["what"] == what][0]


def _accepts(maker, leaves, k, v):
    """Does ppci build and encode the shape with integer leaf k set to v (the other leaves at small defaults)?  Used only to
    choose which range of TLC's table the slot is swept over -- never to judge."""
    vals = [(v if j == k else (1 if kind == "i" else "L_t")) for j, (kind, _, _) in enumerate(leaves)]
    try:
        ins = maker(iter(vals))
        ins.encode()
        return True
    except Exception:
        return False


def leaf_row(maker, leaves, k):
    if _accepts(maker, leaves, k, 65535):
        return "w16"
    if _accepts(maker, leaves, k, 255):
        return "b8"
    if _accepts(maker, leaves, k, 7):
        return "bit"
    return None


def enumerate_instances(isa, cname, cls, table, rng, thorough):
    """[{build, tag, valid, syms, place}] for one class."""
    out = []

    def add(maker, vals, tag, valid=True, place=PLACE, syms=None):
        out.append({"build": (lambda maker=maker, vals=list(vals): maker(iter(vals))), "tag": tag, "valid": valid, "place": place,
                    "syms": dict(syms or LABELS)})

    for leaves, maker, stag in shapes_of(isa, cls):
        stag = stag or "plain"
        dflt = [(3 if kind == "i" else "L_t") for kind, _, _ in leaves]
        rows = [leaf_row(maker, leaves, k) if kind == "i" else None for k, (kind, _, _) in enumerate(leaves)]
        # bit-number slots must stay below 8 also as defaults
        dflt = [(v if rows[k] != "bit" else 3) for k, v in enumerate(dflt)]
        add(maker, dflt, "%s:default" % stag)
        for k, (kind, name, owner) in enumerate(leaves):
            if kind == "i":
                if rows[k] is None:
                    continue
                for v in _row(table, isa, rows[k])["vals"]:
                    vals = list(dflt)
                    vals[k] = v["v"]
                    add(maker, vals, "%s:%s=%s:%s" % (stag, name, rows[k], "in" if v["inside"] else "out"), valid=v["inside"])
            else:
                # a label: resolved by the instruction's own relocation; absolute addresses over the 16-bit range,
                # relative ones over the branch range from two places
                relative = "Relative" in owner.__name__
                if relative:
                    for place in (PLACE, PLACE + 1):
                        for v in _row(table, isa, "rel")["vals"]:
                            add(maker, dflt, "%s:%s=dist:%s:p%d" % (stag, name, "in" if v["inside"] else "out", place % 2),
                                valid=v["inside"], place=place, syms={"L_t": place + 2 + v["v"]})
                else:
                    for v in _row(table, isa, "w16")["vals"]:
                        if v["v"] < 0:
                            continue
                        add(maker, dflt, "%s:%s=addr:%s" % (stag, name, "in" if v["inside"] else "out"), valid=v["inside"],
                            syms={"L_t": v["v"]})
        if thorough and leaves:
            for _ in range(12):
                vals, syms = [], dict(LABELS)
                for k, (kind, name, owner) in enumerate(leaves):
                    if kind == "i":
                        r = rows[k]
                        vals.append(rng.randrange(0, 8) if r == "bit" else rng.randrange(-128, 256) if r == "b8" else
                                    rng.randrange(-32768, 65536) if r == "w16" else 1)
                    else:
                        vals.append("L_t")
                        syms["L_t"] = PLACE + 2 + rng.randrange(-128, 128) if "Relative" in owner.__name__ else rng.randrange(65536)
                add(maker, vals, "%s:random" % stag, syms=syms)
    return out


# ---------------------------------------------------------------- records
def record(isa, cname, path, text, out, inst):
    t = tokenize(text, inst["syms"])
    if t is None:
        return None
    mn, ops = t
    labs = [o for o in ops if o[0] == "l"]
    suffix = "".join("@%s=%#x" % (o[2], o[1]) for o in labs) + ("@pc=%#x" % inst["place"] if labs else "")
    return {"t": "enc", "isa": isa, "key": "%s:%s:%s:%s:%s:%s%s" % (PROP, isa, cname, path, inst["tag"], text, suffix), "mn": mn,
            "ops": ops, "pc": inst["place"], "out": out, "text": text, "cls": cname, "tag": inst["tag"]}


def enc_records(isa, table, rng, thorough, rig):
    recs, skipped = [], {}

    def skip(k):
        skipped[k] = skipped.get(k, 0) + 1

    for cname, cls in isa_classes(isa):
        seen = set()
        try:
            insts = enumerate_instances(isa, cname, cls, table, rng, thorough)
        except Exception as e:      # a class the harness cannot take apart: reported, never silently dropped
            skip("%s:not enumerable:%s" % (cname, type(e).__name__))
            continue
        if not insts:
            skip("%s:no instance" % cname)
        for inst in insts:
            try:
                ins = inst["build"]()
                text = str(ins)
            except Exception as e:      # construction / printing failed: nothing is printed, nothing to compare
                skip("%s:rejected:%s" % (cname, type(e).__name__))
                continue
            sig = (text, inst["place"], tuple(sorted(inst["syms"].items())) if "L_" in text else ())
            if sig in seen:
                continue
            seen.add(sig)
            out = isagen.observe(ins, inst["syms"], inst["place"])
            if not inst["valid"]:
                # operand values outside the field's range are C10's question; here only counted when accepted
                if out["ok"]:
                    skip("%s:out-of-range operand accepted" % cname)
                continue
            if not out["ok"]:
                skip("%s:not encodable:%s" % (cname, out["exc"]))
            r = record(isa, cname, "enc", text, out, inst)
            if r is None:
                skip("%s:not tokenisable" % cname)
                continue
            recs.append(r)
            # the assembler on the printed text (label-free lines; quick tier: the default and every 4th instance)
            if rig is not None and "L_" not in text and out["ok"] and (thorough or inst["tag"].endswith(":default") or len(recs) % 4 == 0):
                o2 = rig.observe_asm(isa, text)
                r2 = record(isa, cname, "asm", text, o2, inst)
                if r2 is not None:
                    if not o2["ok"]:
                        skip("%s:printed text not assembled:%s" % (cname, o2["exc"]))
                    recs.append(r2)
    return recs, skipped


WHAT = {
    "mcs6500": "6502",
    "stm8": "STM8",
}


def part(ctx, isa, thorough):
    """X12 for one of the two instruction sets.  Returns True when a replay was this part's."""
    mine = isagen.mine(ctx, "%s:%s:" % (PROP, isa))
    if mine is False:
        return False
    info = ISAS[isa]
    fams = sorted(info["laws"])
    table = isagen.laws_and_table(ctx, info["module"] + "_MC", info["laws"], fams if mine is None else [], thorough and mine is None,
                                  info["what"], workers=4 if mine is None else 2)
    rng = isagen.own_rng(ctx, 6502 if isa == "mcs6500" else 8)
    rig = isagen.Rig()
    recs, skipped = enc_records(isa, table, rng, thorough, rig)
    acc = sum(n for k, n in skipped.items() if k.endswith("out-of-range operand accepted"))
    rej = sum(n for k, n in skipped.items() if ":rejected:" in k)
    nenc = sum(n for k, n in skipped.items() if ":not encodable:" in k)
    nasm = sum(n for k, n in skipped.items() if ":printed text not assembled:" in k)
    other = sorted(k for k in skipped if ":not enumerable:" in k or k.endswith(":no instance") or k.endswith(":not tokenisable"))
    ctx.note("%s: %d instance(s) rejected by ppci at construction, %d in-range instance(s) printed but refused by encode() / the "
             "relocation, %d printed line(s) the assembler does not take back (no bytes: no verdict), %d out-of-range operand "
             "value(s) accepted by ppci (C10's question, not judged here)%s" % (
                 isa, rej, nenc, nasm, acc, "; " + ", ".join(other) if other else ""))
    ctx.cov["instances_%s" % isa] = {"classes": len(isa_classes(isa)), "records": len(recs), "rejected": rej,
                                                "not_encodable": nenc, "not_assembled": nasm, "out_of_range_accepted": acc}
    recs = isagen.restrict(ctx, recs)
    for r in recs:
        ctx.count(r["key"])
    for r in recs[:: max(1, len(recs) // 2)][:2]:
        ctx.sample({"key": r["key"], "bytes": r["out"]["bytes"]})
    verdicts = isagen.judge(ctx, info["module"] + "_Eval", recs, info["clauses"], "E: X12 records (%s)" % isa, workers=4)
    unknown = outrange = negaddr = 0
    unk_texts = []
    for rec, clause in verdicts:
        if clause == "SyntaxKnown":
            unknown += 1
            if rec["text"] not in unk_texts and len(unk_texts) < 6:
                unk_texts.append(rec["text"])
        elif clause == "AddressesUnsigned":
            negaddr += 1
        elif clause == "TextInRange":
            outrange += 1
        else:
            ctx.violation(rec["key"], "%s: bytes %s (%s) do not decode to the printed '%s' [clause %s]" % (
                isa, bytes(rec["out"]["bytes"]).hex(), "assembler" if ":asm:" in rec["key"] else "encode()", rec["text"], clause),
                {"record": dict(rec), "clause": clause})
    if unknown:
        ctx.note("%d %s instance(s) printed in a notation outside the modelled assembly: no verdict (e.g. %s)" % (
            unknown, isa, "; ".join(repr(t) for t in unk_texts)))
    if negaddr:
        ctx.note("%d %s instance(s) printed with a negative memory address / offset / pointer (the manual's addresses are "
                 "unsigned): no verdict" % (negaddr, isa))
    if outrange:
        ctx.note("%d %s instance(s) whose printed value lies outside every field: no verdict" % (outrange, isa))
    return mine is True
