"""Instruction-instance generator and observers for the xtensa part of C08.

Python here only (a) enumerates instances of ppci.arch.xtensa's instruction classes (every register in every register
slot, candidate immediates / label distances around the ends of the operand ranges TLC writes out of tla/Xtensa.tla,
idiom G), (b) drives the real code -- Instruction.encode(), str(instruction), the instruction's own relocation, the
assembler and the linker, render() of the macro instructions -- and records what it did, (c) tokenises printed text
lexically (register name a<n> / f<n> / b<n> -> number is the only interpretation).  The verdicts, including which
operand values are in range, are TLC's (tla/Xtensa_Eval.tla over tla/Xtensa.tla)."""
import itertools
import os
import re

from . import asmgen
from . import decgen
from .decgen import LABEL

ISA = "xtensa"
PLACE = 0x02000000
LAWS = {"fmt": ["LawFormatsTile", "LawOneFormat", "LawSplitJoin"], "w24": ["LawReencode24"], "w16": ["LawReencode16"],
        "rec": ["LawDecodeEncode"], "ln": ["LawLine"], "tab": ["LawSyntaxTable"]}


# ---------------------------------------------------------------- idioms M and G
def laws_and_table(ctx, fams, deep, workers=8):
    out = os.path.join(ctx.workdir, "xtensa_gen.json")
    invs = [i for f in fams for i in LAWS[f]]
    consts = [("Deep", "TRUE" if deep else "FALSE"), ("Fams", "{%s}" % ", ".join('"%s"' % f for f in fams))]
    _, table = decgen.run_laws(ctx, "Xtensa_MC", invs, consts,
                               "M: laws of Xtensa.tla on %s (+ G: operand range table)" % ("/".join(fams) or "-"), out=out,
                               workers=workers)
    return {r["mn"]: r for r in table}


# ---------------------------------------------------------------- lexer
_TOK = re.compile(r"\s*(?:([A-Za-z_][A-Za-z_0-9.]*)|([+-]?\s*(?:0x[0-9a-fA-F]+|\d+))|(.))")


def tokenize(text):
    """'l32i.n a1, a2, 8' -> ('l32i.n', [['a',1,'a1'], ['a',2,'a2'], ['i',8,'']]).  Purely lexical; ',' and blanks are
    dropped; integers are read as 32-bit two's complement."""
    text = text.strip()
    m = re.match(r"^([A-Za-z_.][A-Za-z_0-9.]*)", text)
    if not m:
        return None
    mn = m.group(1).lower()
    rest = text[m.end():]
    ops = []
    pos = 0
    while pos < len(rest):
        t = _TOK.match(rest, pos)
        if not t:
            break
        pos = t.end()
        if t.group(1):
            w = t.group(1)
            r = re.match(r"^([afb])(\d+)$", w)
            if r and int(r.group(2)) < 16:
                ops.append([r.group(1), int(r.group(2)), w])
            elif w == "sp":
                ops.append(["a", 1, w])
            elif w.startswith("L_"):
                ops.append(["l", 0, w])
            else:
                ops.append(["x", 0, w])
        elif t.group(2):
            lit = t.group(2).replace(" ", "")
            v = decgen.signed32(int(lit, 16) if "x" in lit.lower() else int(lit, 10))
            if v is None:
                return None
            ops.append(["i", v, ""])
        else:
            ch = t.group(3)
            if ch in ", \t":
                continue
            ops.append(["x", 0, ch])
    return mn, ops


# ---------------------------------------------------------------- classes
def isa_classes():
    """[(name, cls, macro?)]: the instruction classes with a syntax of get_arch('xtensa').isa, plus the classes of the
    integer divide option (ppci.arch.xtensa.instructions.integer_divide_isa)."""
    from ppci.api import get_arch
    from ppci.arch.xtensa import instructions as X
    from ppci.arch.generic_instructions import ArtificialInstruction
    src = list(get_arch("xtensa").isa.instructions) + list(X.integer_divide_isa.instructions)
    out, seen = [], set()
    for c in src:
        if getattr(c, "syntax", None) is None or id(c) in seen or c.__module__ != X.__name__:
            continue
        seen.add(id(c))
        out.append((c.__name__, c, issubclass(c, ArtificialInstruction)))
    return out


def slots(cls):
    from ppci.arch.xtensa.registers import AddressRegister, FloatRegister
    res = []
    for a in cls.syntax.formal_arguments:
        c = a._cls
        k = "a" if c is AddressRegister else "f" if c is FloatRegister else "i" if c is int else "l" if c is str else "?"
        res.append((a._name, k))
    return res


def reg(kind, n):
    from ppci.arch.xtensa.registers import AddressRegister, FloatRegister
    return (AddressRegister if kind == "a" else FloatRegister).registers[n]


def nregs(kind):
    from ppci.arch.xtensa.registers import AddressRegister, FloatRegister
    return len((AddressRegister if kind == "a" else FloatRegister).registers)


def build(cls, values):
    return cls(*[values[n] for n, _ in slots(cls)])


def mnemonic(cls):
    """Mnemonic of the printed form of a dummy instance."""
    vals = {}
    for n, k in slots(cls):
        vals[n] = reg(k, 0) if k in "af" else 0 if k == "i" else LABEL
    try:
        t = tokenize(str(build(cls, vals)))
        return t[0] if t else None
    except Exception:
        return None


def enumerate_instances(cname, cls, table, rng, thorough):
    """[{values, sym, place, tag}] for one class."""
    sl = slots(cls)
    if any(k == "?" for _, k in sl):
        return []
    mn = mnemonic(cls)
    row = table.get(mn)
    regs = [(n, k) for n, k in sl if k in "af"]
    ints = [n for n, k in sl if k == "i"]
    labs = [n for n, k in sl if k == "l"]
    out = []
    pool = [9, 10, 11, 12]

    def base():
        v = {}
        j = 0
        for n, k in sl:
            if k in "af":
                v[n] = reg(k, pool[j % 4] % nregs(k))
                j += 1
            elif k == "i":
                v[n] = row["lo"] if row and not (row["lo"] <= 0 <= row["hi"]) else 0
            else:
                v[n] = LABEL
        return v

    def add(vals, tag, sym=None, place=PLACE):
        if labs and sym is None:
            sym = place + 4 + (0x40 if not row or row["hi"] >= 0x40 else row["lo"])
            if row and row["step"] == 4:
                sym = (place & ~3) + (0x40 if row["hi"] > 0 else -0x40)
        out.append({"values": dict(vals), "sym": sym or 0, "place": place, "tag": tag})

    b = base()
    for n, k in regs:
        for r in range(nregs(k)):
            x = dict(b)
            x[n] = reg(k, r)
            add(x, "%s:sweep" % n)
    if len(regs) > 1:
        for r in range(min(nregs(k) for _, k in regs)):
            x = dict(b)
            for n, k in regs:
                x[n] = reg(k, r)
            add(x, "diag")
    for n in ints:
        lo, hi, step = (row["lo"], row["hi"], row["step"]) if row else (0, 255, 1)
        cand = decgen.boundary(lo, hi, step)
        if thorough:
            cand = sorted(set(cand) | {rng.randrange(lo, hi + 1) // step * step for _ in range(12)})
        for v in cand:
            x = dict(b)
            x[n] = v
            add(x, "%s:value" % n)
    if labs:
        lo, hi, step = (row["lo"], row["hi"], row["step"]) if row else (-128, 127, 1)
        cand = decgen.boundary(lo, hi, step)
        if thorough:
            cand = sorted(set(cand) | {rng.randrange(lo, hi + 1) // step * step for _ in range(12)})
        for place in (PLACE, PLACE + 1, PLACE + 2, PLACE + 3):
            # label distance v from each of the three base addresses the instruction descriptions use
            for bname, bas in (("pc4", place + 4), ("al4", (place & ~3) + 4), ("up4", (place + 3) & ~3)):
                for v in cand:
                    if bas + v >= 0:
                        add(b, "%s:%s:p%d" % (labs[0], bname, place % 4), sym=bas + v, place=place)
            if not thorough:
                cand = cand[::3]  # the other placements: a third of the distances in the quick tier
    if not sl:
        add(b, "plain")
    if thorough and len(regs) > 1:
        doms = [range(nregs(k)) for _, k in regs]
        combos = list(itertools.product(*doms)) if len(regs) <= 2 else [tuple(rng.randrange(len(d)) for d in doms) for _ in range(160)]
        for combo in combos:
            x = dict(b)
            for (n, k), r in zip(regs, combo):
                x[n] = reg(k, r)
            add(x, "regs")
    return out


# ---------------------------------------------------------------- observers / records
class AsmRig(asmgen.AsmRig):
    def get(self, which):
        if which not in self.arch:
            from ppci.api import get_arch
            self.arch[which] = get_arch("xtensa")
        return self.arch[which]


def record(prop, cname, path, text, out, sym, place, tag):
    t = tokenize(text)
    if t is None:
        return None
    mn, ops = t
    haslab = any(o[0] == "l" for o in ops)
    suffix = "@%+d/%d" % (sym - place, place % 4) if haslab else ""
    return {"t": "enc", "key": "%s:%s:%s:%s:%s:%s%s" % (prop, ISA, cname, path, tag, text, suffix), "mn": mn, "ops": ops,
            "sym": sym, "pc": place, "out": out, "text": text, "cls": cname, "tag": tag}


def observe_macro(ins):
    try:
        seq = [list(x.encode()) for x in ins.render()]
        return True, seq
    except Exception:
        return False, []


def records(prop, table, rng, thorough, paths=("enc",), rig=None):
    recs = []
    skipped = {}
    for cname, cls, macro in isa_classes():
        seen = set()
        for inst in enumerate_instances(cname, cls, table, rng, thorough):
            try:
                ins = build(cls, inst["values"])
                text = str(ins)
            except Exception as e:
                k = "%s:%s" % (cname, type(e).__name__)
                skipped[k] = skipped.get(k, 0) + 1
                continue
            sig = (text, inst["sym"], inst["place"])
            if sig in seen:
                continue
            seen.add(sig)
            t = tokenize(text)
            if t is None:
                skipped["%s:not tokenisable" % cname] = skipped.get("%s:not tokenisable" % cname, 0) + 1
                continue
            if macro:
                ok, seq = observe_macro(ins)
                recs.append({"t": "mac", "key": "%s:%s:%s:mac:%s:%s" % (prop, ISA, cname, inst["tag"], text), "mn": t[0], "ops": t[1],
                             "ok": ok, "seq": seq, "text": text, "cls": cname, "tag": inst["tag"]})
                continue
            haslab = LABEL in text
            for path in paths:
                if path == "enc":
                    out = decgen.observe_encode(ins, inst["sym"] if haslab else None, inst["place"])
                elif haslab:
                    out = rig.observe_link(ISA, text, inst["place"], inst["sym"])
                else:
                    out = rig.observe_asm(ISA, text)
                r = record(prop, cname, path, text, out, inst["sym"], inst["place"], inst["tag"])
                recs.append(r)
    return recs, skipped


# ---------------------------------------------------------------- the xtensa part of the engine C08
def c08_part(ctx, thorough):
    """C08 for ppci.arch.xtensa.  Returns True when a replay was this part's."""
    mine = decgen.mine(ctx, "C08", ISA)
    if mine is False:
        return False
    ctx.assume("xtensa: lexical tokenisation of the printed text (harness/xtensagen.py: tokenize), register names a<n> / f<n> / "
               "b<n> -> numbers, integers read as 32-bit two's complement; little-endian configuration; for label operands the "
               "harness resolves the label to an address it chose; LLVM 14 has no xtensa target and GNU objdump here is "
               "x86-only: tla/Xtensa.tla is not cross-checked against a reference disassembler")
    ctx.cov["rule_xtensa"] = (
        "every concrete instruction class of get_arch('xtensa').isa (+ the integer divide option's classes) x {each register "
        "slot swept over a0..a15 / f0..f1, diagonal, candidate immediates around both ends of the operand range TLC writes "
        "out of Xtensa.tla (ImmRange), label distances around the ends of the range from 4 byte placements x the 3 base "
        "addresses of the instruction descriptions}; bytes = encode() (+ own relocation applied; thorough: also assembler + "
        "linker on the printed text, seeded random registers / immediates); TLC: operand in range (WF) => "
        "Decode(bytes) = Asm(printed text); macro instructions: the rendering decodes to the documented expansion; "
        "distinct = distinct (class, path, printed text, displacement, placement)")
    if mine is None:
        fams = ["fmt", "w24", "w16", "rec", "ln", "tab"]
        table = laws_and_table(ctx, fams, thorough)
    else:
        table = laws_and_table(ctx, [], False, workers=2)
    rng = decgen.rng(ctx, 21)
    rig = AsmRig() if thorough else None
    recs, skipped = records("C08", table, rng, thorough, paths=("enc", "asm") if thorough else ("enc",), rig=rig)
    if skipped:
        ctx.note("xtensa: instances not built / printed: %s" % ", ".join("%s x%d" % kv for kv in sorted(skipped.items())))
    recs = decgen.restrict(ctx, recs)
    for r in recs:
        ctx.count(r["key"])
    for r in recs[:: max(1, len(recs) // 3)][:3]:
        ctx.sample({"key": r["key"], "bytes": r["out"]["bytes"] if "out" in r else r["seq"]})
    verdicts = decgen.judge(ctx, "Xtensa_Eval", recs, ["SyntaxKnown", "MacroKnown", "InDomain", "EncodingAgrees", "MacroAgrees"],
                            "E: C08 records (xtensa)")
    unknown = outdom = 0
    for rec, clause in verdicts:
        if clause in ("SyntaxKnown", "MacroKnown"):
            unknown += 1
        elif clause == "InDomain":
            outdom += 1
        elif clause == "MacroAgrees":
            ctx.violation(rec["key"], "xtensa: the macro '%s' is rendered to %s, not to its documented expansion" % (
                rec["text"], [bytes(b).hex() for b in rec["seq"]]), {"record": dict(rec), "clause": clause})
        else:
            ctx.violation(rec["key"], "xtensa: bytes %s do not decode to the printed '%s' [clause %s]" % (
                bytes(rec["out"]["bytes"]).hex(), rec["text"], clause), {"record": dict(rec), "clause": clause})
    rejected = sum(1 for r in recs if "out" in r and not r["out"]["ok"])
    ctx.note("xtensa: %d instance(s) judged; %d rejected by ppci (exception at encode / relocation: no bytes, no verdict "
             "here); %d operand value(s) / label distance(s) outside the instruction's range accepted by ppci (C10's "
             "question, not judged here); %d printed in a syntax outside the modelled assembly (no verdict)" % (
                 len(recs), rejected, outdom, unknown))
    return mine is True
