"""Independent projection ObjectFile -> JSON (DESIGN 3.5, A.5), by *data attributes* only.

Nothing here uses ppci's own serialisers, __eq__ methods or printers (those are under test in
C14).  The projection is free of logic: it copies attribute values into type-stable JSON
(TLC compares values of one kind only):

  object = {"arch": str,
            "sections":    [{"name", "address", "alignment", "data": [u8]}],
            "symbols":     [{"id", "name", "binding", "def": bool, "value": int (0 when undefined),
                             "sec": str ("" when section is None), "typ", "size"}],
            "relocations": [{"type", "sym": id, "sec", "off", "add"}],
            "images":      [{"name", "address", "secs": [name]}],
            "entry": id | -1,
            "debug": {...} | {"none": true}}

Integers that may exceed TLC's 32-bit range are exported by `wide=True` as
{"neg": bool, "b": [byte limbs, little endian, 8]} (addresses, addends, symbol values).
"""

W = 8  # limbs per wide integer


def wide_int(v):
    """two's-complement 64-bit limbs of v plus the information whether v fits (|v| < 2^63 .. 2^64)."""
    return {"fits": -(1 << 63) <= v < (1 << 64), "neg": v < 0,
            "b": [((v & ((1 << 64) - 1)) >> (8 * i)) & 255 for i in range(W)]}


def _num(v, wide):
    if wide:
        return wide_int(v)
    return v


def _s(x):
    """names: str stays str; None -> "" ; anything else -> its repr (odd objects stay visible)."""
    if x is None:
        return ""
    if isinstance(x, str):
        return x
    return repr(x)


def project_section(s, wide=False):
    return {"name": _s(s.name), "address": _num(s.address, wide), "alignment": s.alignment,
            "data": list(bytes(s.data))}


def project_symbol(y, wide=False):
    defined = y.value is not None
    return {"id": y.id, "name": _s(y.name), "binding": _s(y.binding), "def": defined,
            "value": _num(y.value if defined else 0, wide), "sec": _s(y.section),
            "hassec": y.section is not None,
            "typ": _s(y.typ), "size": y.size if isinstance(y.size, int) else -1}


def project_reloc(r, wide=False):
    return {"type": _s(r.reloc_type), "sym": r.symbol_id, "sec": _s(r.section), "off": r.offset,
            "add": _num(r.addend, wide)}


def project_image(i, wide=False):
    return {"name": _s(i.name), "address": _num(i.address, wide), "secs": [_s(s.name) for s in i.sections]}


def project(obj, wide=False, debug=True):
    out = {
        "arch": arch_id(obj.arch),
        "sections": [project_section(s, wide) for s in obj.sections],
        "symbols": [project_symbol(y, wide) for y in obj.symbols],
        "relocations": [project_reloc(r, wide) for r in obj.relocations],
        "images": [project_image(i, wide) for i in obj.images],
        "entry": obj.entry_symbol_id if obj.entry_symbol_id is not None else -1,
    }
    if debug:
        out["debug"] = project_debug(obj.debug_info)
    return out


def arch_id(arch):
    """architecture identity by attributes: name + sorted option names"""
    opts = sorted(str(o) for o in getattr(arch, "options", ()) or ())
    return ":".join([str(getattr(arch, "name", type(arch).__name__))] + opts)


# ---------------------------------------------------------------------------
# debug information: reflective projection of the object graph *by value* (no knowledge of the
# classes): every object becomes {"cls": ClassName, "f": [[attr, value]...]} with attributes sorted by
# name.  Sharing of sub-objects is not part of the value (a reloaded graph may share less or more);
# only a reference back into the path being expanded (recursive types) is exported, as the number
# of levels to go up.
def project_debug(dbg):
    if dbg is None:
        return {"none": True}
    stack = []

    def go(x):
        if x is None:
            return {"k": "none"}
        if isinstance(x, bool):
            return {"k": "bool", "v": x}
        if isinstance(x, int):
            return {"k": "int", "v": str(x)}
        if isinstance(x, float):
            return {"k": "float", "v": repr(x)}
        if isinstance(x, str):
            return {"k": "str", "v": x}
        if isinstance(x, (bytes, bytearray)):
            return {"k": "bytes", "v": bytes(x).hex()}
        if id(x) in stack:
            return {"k": "cycle", "up": len(stack) - stack.index(id(x))}
        stack.append(id(x))
        try:
            if isinstance(x, (list, tuple)) and not hasattr(x, "_asdict"):
                return {"k": "seq", "v": [go(e) for e in x]}
            if isinstance(x, dict):
                return {"k": "map", "v": [[go(k), go(v)] for k, v in x.items()]}
            d = getattr(x, "__dict__", None)
            if hasattr(x, "_asdict"):  # namedtuple
                d = x._asdict()
            if d is None:
                slots = [s for c in type(x).__mro__ for s in getattr(c, "__slots__", ())]
                d = {s: getattr(x, s) for s in slots if hasattr(x, s)}
            return {"k": "obj", "cls": type(x).__name__, "f": [[a, go(d[a])] for a in sorted(d)]}
        finally:
            stack.pop()

    return {"none": False, "g": go(dbg)}
