"""C08 (and for mips C07) for get_arch('or1k').isa: front end of harness/riscgen.py (tla/Or1k.tla)."""
from . import riscgen


def c08_part(ctx, thorough):
    """True only when ctx.only is a replay of one of this part's cases (key C08:or1k:...)."""
    return riscgen.c08_part(ctx, thorough, "or1k")
