"""Random well-formed ppci IR built directly through ppci.ir (DESIGN §3.8).

Structured CFGs (straight code, if-diamonds with phis, counted loops with phi
counters, early returns), SSA by construction: a value is only used where its
definition dominates.  Covers every instruction kind / operator / integer type,
allocas, globals with initial data, CopyBlob, LiteralData, volatile accesses,
internal calls (incl. tail position), external calls.

gen_module(rng, types=..., ptr_bytes=8) -> (module, info) where info =
 {"main": name, "params": [type names], "externs": [names]}
"""

INT_TYPES = ["i8", "u8", "i16", "u16", "i32", "u32", "i64", "u64"]
BITS = {"i8": 8, "u8": 8, "i16": 16, "u16": 16, "i32": 32, "u32": 32, "i64": 64, "u64": 64}


class FnGen:
    def __init__(self, rng, irmod, module, fn, types, helpers, externs, globs, budget, allow_ptr_ops=True):
        self.r = rng
        self.ir = irmod
        self.m = module
        self.fn = fn
        self.types = types
        self.helpers = helpers
        self.externs = externs
        self.globs = globs  # list of (Variable, elemtype name, count)
        self.budget = budget
        self.n = 0
        self.block = None
        self.avail = {}  # type name -> list of values usable here
        self.allocs = []  # (ptr value, elem type name, count)

    def ty(self, name):
        return getattr(self.ir, name)

    def name(self, p="v"):
        self.n += 1
        return "%s%d" % (p, self.n)

    def emit(self, ins):
        self.block.add_instruction(ins)
        return ins

    def new_block(self, p="b"):
        b = self.ir.Block(self.fn.name + "_" + self.name(p))
        self.fn.add_block(b)
        return b

    def add_avail(self, v, tname):
        self.avail.setdefault(tname, []).append(v)

    def const(self, tname, v=None):
        r = self.r
        bits = BITS[tname]
        if v is None:
            c = r.random()
            if c < 0.5:
                v = r.randrange(0, 9)
            elif c < 0.8:
                v = r.choice([-1, -2, -7, 127, 128, 255, 256, 1000, -1000, 32767, 65535, 0x7FFFFFFF, -0x80000000])
            else:
                v = r.randrange(-(1 << (bits - 1)), 1 << (bits - 1))
        if tname[0] == "u":
            v &= (1 << bits) - 1
        else:
            v = ((v + (1 << (bits - 1))) % (1 << bits)) - (1 << (bits - 1))
        return self.emit(self.ir.Const(v, self.name("c"), self.ty(tname)))

    def value(self, tname):
        vs = self.avail.get(tname)
        if vs and self.r.random() < 0.8:
            return self.r.choice(vs)
        # cast something else, or make a constant
        others = [t for t in self.avail if self.avail[t] and t != tname]
        if others and self.r.random() < 0.5:
            src = self.r.choice(self.avail[self.r.choice(others)])
            v = self.emit(self.ir.Cast(src, self.name("k"), self.ty(tname)))
            self.add_avail(v, tname)
            return v
        return self.const(tname)

    # ---- straight-line pieces ---------------------------------------------
    def step(self):
        r = self.r
        ir = self.ir
        t = r.choice(self.types)
        c = r.random()
        if c < 0.40:
            op = r.choice(["+", "-", "*", "/", "%", "|", "&", "^", "<<", ">>", "rol", "ror"])
            a = self.value(t)
            b = self.value(t)
            if op in ("/", "%"):
                one = self.const(t, 1)
                b = self.emit(ir.Binop(b, "|", one, self.name("nz"), self.ty(t)))
            if op in ("<<", ">>", "rol", "ror"):
                mask = self.const(t, r.choice([1, 3, 7]) if BITS[t] == 8 else r.choice([3, 7, 15]))
                b = self.emit(ir.Binop(b, "&", mask, self.name("sh"), self.ty(t)))
            v = self.emit(ir.Binop(a, op, b, self.name(), self.ty(t)))
            self.add_avail(v, t)
        elif c < 0.48:
            v = self.emit(ir.Unop(r.choice(["-", "~"]), self.value(t), self.name("u"), self.ty(t)))
            self.add_avail(v, t)
        elif c < 0.58:
            t2 = r.choice(self.types)
            v = self.emit(ir.Cast(self.value(t2), self.name("k"), self.ty(t)))
            self.add_avail(v, t)
        elif c < 0.63:
            self.add_avail(self.const(t), t)
        elif c < 0.72 and self.allocs:
            p, et, cnt = r.choice(self.allocs)
            addr = self.element_addr(p, et, cnt)
            if r.random() < 0.55:
                self.emit(ir.Store(self.value(et), addr, volatile=r.random() < 0.1))
            else:
                v = self.emit(ir.Load(addr, self.name("ld"), self.ty(et), volatile=r.random() < 0.1))
                self.add_avail(v, et)
        elif c < 0.80 and self.globs:
            g, et, cnt = r.choice(self.globs)
            addr = self.element_addr(g, et, cnt)
            if r.random() < 0.5:
                self.emit(ir.Store(self.value(et), addr))
            else:
                v = self.emit(ir.Load(addr, self.name("gl"), self.ty(et)))
                self.add_avail(v, et)
        elif c < 0.84 and len(self.allocs) >= 1 and self.globs:
            # CopyBlob between a global and an alloca of the same byte size
            g, et, cnt = r.choice(self.globs)
            nbytes = BITS[et] // 8 * cnt
            cands = [(p, e2, c2) for p, e2, c2 in self.allocs if BITS[e2] // 8 * c2 == nbytes]
            if cands:
                p, e2, c2 = r.choice(cands)
                if r.random() < 0.5:
                    self.emit(ir.CopyBlob(p, g, nbytes))
                else:
                    self.emit(ir.CopyBlob(g, p, nbytes))
        elif c < 0.88:
            data = bytes(r.randrange(256) for _ in range(r.choice([1, 2, 4, 8])))
            lit = self.emit(ir.LiteralData(data, self.name("lit")))
            addr = self.emit(ir.AddressOf(lit, self.name("la")))
            cands = [x for x in self.types if BITS[x] // 8 <= len(data)]
            if cands:
                et = r.choice(cands)
                v = self.emit(ir.Load(addr, self.name("ll"), self.ty(et)))
                self.add_avail(v, et)
        elif c < 0.94 and self.helpers:
            h, ptys, rty = r.choice(self.helpers)
            args = [self.value(p) for p in ptys]
            if rty:
                v = self.emit(ir.FunctionCall(h, args, self.name("call"), self.ty(rty)))
                self.add_avail(v, rty)
            else:
                self.emit(ir.ProcedureCall(h, args))
        elif self.externs:
            x, ptys, rty = r.choice(self.externs)
            args = [self.value(p) for p in ptys]
            if rty:
                v = self.emit(ir.FunctionCall(x, args, self.name("xc"), self.ty(rty)))
                self.add_avail(v, rty)
            else:
                self.emit(ir.ProcedureCall(x, args))
        else:
            self.add_avail(self.const(t), t)

    def element_addr(self, base, et, cnt):
        """base + k * sizeof(et) with constant k < cnt."""
        ir = self.ir
        k = self.r.randrange(cnt)
        if k == 0:
            return base
        off = self.emit(ir.Const(k * (BITS[et] // 8), self.name("off"), ir.ptr))
        return self.emit(ir.Binop(base, "+", off, self.name("ea"), ir.ptr))

    def make_alloc(self):
        ir = self.ir
        et = self.r.choice(self.types)
        cnt = self.r.choice([1, 1, 2, 4])
        size = BITS[et] // 8
        a = self.emit(ir.Alloc(self.name("alloc"), size * cnt, size))
        p = self.emit(ir.AddressOf(a, self.name("ap")))
        # initialise every element so later loads are defined
        for k in range(cnt):
            addr = p
            if k:
                off = self.emit(ir.Const(k * size, self.name("off"), ir.ptr))
                addr = self.emit(ir.Binop(p, "+", off, self.name("ea"), ir.ptr))
            self.emit(ir.Store(self.value(et), addr))
        self.allocs.append((p, et, cnt))

    # ---- structured regions -------------------------------------------------
    def region(self, depth):
        r = self.r
        while self.budget > 0:
            self.budget -= 1
            c = r.random()
            if c < 0.62 or depth >= 2:
                self.step()
            elif c < 0.82:
                self.diamond(depth)
            elif c < 0.96:
                self.loop(depth)
            else:
                self.early_return()
            if r.random() < 0.12:
                break

    def cjump(self, yes, no):
        t = self.r.choice(self.types)
        cond = self.r.choice(["==", "<", ">", ">=", "<=", "!="])
        self.emit(self.ir.CJump(self.value(t), cond, self.value(t), yes, no))

    def snapshot(self):
        return {t: list(v) for t, v in self.avail.items()}

    def diamond(self, depth):
        ir = self.ir
        then_b, else_b, join = self.new_block("then"), self.new_block("else"), self.new_block("join")
        one_sided = self.r.random() < 0.3
        self.cjump(then_b, join if one_sided else else_b)
        head = self.block
        saved = self.snapshot()
        self.block = then_b
        self.region(depth + 1)
        then_end, then_avail = self.block, self.snapshot()
        self.emit(ir.Jump(join))
        if one_sided:
            else_end, else_avail = head, saved
        else:
            self.avail = {t: list(v) for t, v in saved.items()}
            self.block = else_b
            self.region(depth + 1)
            else_end, else_avail = self.block, self.snapshot()
            self.emit(ir.Jump(join))
        if one_sided:
            # remove the unused else block
            self.fn.remove_block(else_b)
        self.avail = saved
        self.block = join
        then_avail = {t: list(v) for t, v in then_avail.items()}
        else_avail = {t: list(v) for t, v in else_avail.items()}
        # phis merging values of the two sides
        for _ in range(self.r.randrange(0, 4)):
            t = self.r.choice(self.types)
            a = self.r.choice(then_avail[t]) if then_avail.get(t) else None
            b = self.r.choice(else_avail[t]) if else_avail.get(t) else None
            if a is None or b is None:
                continue
            phi = ir.Phi(self.name("phi"), self.ty(t))
            join.insert_instruction(phi, before_instruction=join.instructions[0] if join.instructions else None) \
                if join.instructions else join.add_instruction(phi)
            phi.set_incoming(then_end, a)
            phi.set_incoming(else_end, b)
            self.add_avail(phi, t)

    def loop(self, depth):
        ir = self.ir
        head, body, exit_b = self.new_block("lh"), self.new_block("lb"), self.new_block("lx")
        pre = self.block
        zero = self.const("i32", 0)
        limit = self.const("i32", self.r.randrange(1, 5))
        one = self.const("i32", 1)
        acc_t = self.r.choice(self.types)
        acc0 = self.value(acc_t)
        self.emit(ir.Jump(head))
        self.block = head
        cnt = self.emit(ir.Phi(self.name("cnt"), ir.i32))
        acc = self.emit(ir.Phi(self.name("acc"), self.ty(acc_t)))
        self.emit(ir.CJump(cnt, "<", limit, body, exit_b))
        saved = self.snapshot()
        self.add_avail(cnt, "i32")
        self.add_avail(acc, acc_t)
        self.block = body
        self.region(depth + 1)
        nxt = self.emit(ir.Binop(cnt, "+", one, self.name("inc"), ir.i32))
        acc2 = self.emit(ir.Binop(acc, self.r.choice(["+", "^", "-"]), self.value(acc_t), self.name("acc"), self.ty(acc_t)))
        body_end = self.block
        self.emit(ir.Jump(head))
        cnt.set_incoming(pre, zero)
        cnt.set_incoming(body_end, nxt)
        acc.set_incoming(pre, acc0)
        acc.set_incoming(body_end, acc2)
        self.avail = saved
        self.add_avail(cnt, "i32")
        self.add_avail(acc, acc_t)
        self.block = exit_b

    def early_return(self):
        ir = self.ir
        ret_b, cont = self.new_block("ret"), self.new_block("cont")
        self.cjump(ret_b, cont)
        saved = self.snapshot()
        self.block = ret_b
        self.finish()
        self.avail = saved
        self.block = cont

    def finish(self):
        ir = self.ir
        if isinstance(self.fn, ir.Function):
            rt = self.fn.return_ty.name
            # tail call sometimes
            cands = [h for h in self.helpers if h[2] == rt]
            if cands and self.r.random() < 0.25:
                h, ptys, _ = self.r.choice(cands)
                v = self.emit(ir.FunctionCall(h, [self.value(p) for p in ptys], self.name("tc"), self.ty(rt)))
                self.emit(ir.Return(v))
            else:
                self.emit(ir.Return(self.value(rt)))
        else:
            self.emit(ir.Exit())

    def build(self, param_types):
        ir = self.ir
        entry = self.new_block("entry")
        self.fn.entry = entry
        self.block = entry
        for k, t in enumerate(param_types):
            p = ir.Parameter("p%d" % k, self.ty(t))
            self.fn.add_parameter(p)
            self.add_avail(p, t)
        # pointers to globals
        self.globs = [(g, et, cnt) for g, et, cnt in self.globs]
        for _ in range(self.r.randrange(0, 3)):
            self.make_alloc()
        if self.r.random() < 0.15:
            self.emit(ir.Undefined(self.name("undef"), self.ty(self.r.choice(self.types))))  # never used
        self.region(0)
        self.finish()


def gen_module(rng, types=None, nfuncs=None, budget=14, name="irgen"):
    from ppci import ir

    types = list(types or INT_TYPES)
    from ppci.binutils.debuginfo import DebugDb

    m = ir.Module(name, debug_db=DebugDb())
    globs = []
    for k in range(rng.randrange(1, 4)):
        et = rng.choice(types)
        cnt = rng.choice([1, 2, 4])
        size = BITS[et] // 8
        init = None
        if rng.random() < 0.7:
            init = bytes(rng.randrange(256) for _ in range(size * cnt))
        g = ir.Variable("g%d" % k, ir.Binding.GLOBAL, size * cnt, size, value=init)
        m.add_variable(g)
        globs.append((g, et, cnt))
    externs = []
    if rng.random() < 0.7:
        x = ir.ExternalFunction("ext_f", [ir.i32], ir.i32)
        m.add_external(x)
        externs.append((x, ["i32"], "i32"))
    if rng.random() < 0.4 and "i32" in types:
        x = ir.ExternalProcedure("ext_p", [ir.i32, ir.i32])
        m.add_external(x)
        externs.append((x, ["i32", "i32"], None))
    if "i32" not in types:
        externs = []
    helpers = []
    nf = nfuncs or rng.randrange(1, 4)
    main = None
    for k in range(nf):
        last = k == nf - 1
        ptys = [rng.choice(types) for _ in range(rng.randrange(1 if last else 0, 4))]
        if not last and rng.random() < 0.25:
            fn = ir.Procedure("h%d" % k, ir.Binding.GLOBAL)
            rty = None
        else:
            rty = rng.choice(types)
            fn = ir.Function("f%d" % k if last else "h%d" % k, ir.Binding.GLOBAL, getattr(ir, rty))
        m.add_function(fn)
        g = FnGen(rng, ir, m, fn, types, list(helpers), externs, globs, budget if last else max(4, budget // 2))
        g.build(ptys)
        helpers.append((fn, ptys, rty))
        if last:
            main = (fn.name, ptys)
    return m, {"main": main[0], "params": main[1], "externs": [x[0].name for x in externs]}
