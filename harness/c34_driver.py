"""C34 driver: runs the real ppci build runner on dependency graphs and records what it did.

Run as a separate process (so that PYTHONHASHSEED -- which decides the iteration order of the
sets of target names inside ppci.build.tasks -- is controlled by the caller):

    PYTHONHASHSEED=<n> python c34_driver.py  < cases.json  > results.json

cases.json  : [[names, deps, request, via], ...]
                names   "ABCD"              the project's targets
                deps    ["BC", "D", "D", ""]  deps[k] = direct dependencies of names[k]
                request "A" / "CA"          requested targets, in the order passed to the runner
                via     "run"               Project/Target API, TaskRunner().run(project, [..])
                        "default"           the single request is given as project.default
                        "recipe"            build.xml text -> ppci.api.construct(file, [..])
                        "recipe-default"    build.xml with default="..", construct(file)
results.json: [[events, outcome, detail], ...]
                events  "DBCA"   targets in the order in which their (stub) tasks ran
                outcome "done"   run returned
                        "loop"   TaskError reporting a dependency loop
                        "error"  anything else (detail = exception class and message)

No judgement is made here: the histories are validated by TLC against tla/Tasks.tla.
"""
import io
import json
import signal
import sys

LOG = []


class CaseTimeout(Exception):
    pass


def _alarm(signum, frame):
    raise CaseTimeout("case did not finish in time")


def main():
    from ppci.api import construct
    from ppci.build.tasks import Project, Target, Task, TaskError, TaskRunner, register_task

    @register_task
    class VerifLogTask(Task):
        """Stub task: records that the tasks of its target ran."""

        def run(self):
            LOG.append(self.arguments["name"])

    def build_project(names, deps):
        project = Project("verif")
        project.default = None
        for n, ds in zip(names, deps):
            target = Target(n, project)
            for d in ds:
                target.add_dependency(d)
            target.add_task(("veriflog", {"name": n}))
            project.add_target(target)
        return project

    def build_xml(names, deps, default):
        out = ['<project name="verif"%s>' % (' default="%s"' % default if default else "")]
        for n, ds in zip(names, deps):
            dep = ' depends="%s"' % ",".join(ds) if ds else ""
            out.append('<target name="%s"%s><veriflog name="%s"/></target>' % (n, dep, n))
        out.append("</project>")
        return "\n".join(out)

    def run_case(names, deps, req, via):
        if via == "run":
            TaskRunner().run(build_project(names, deps), list(req))
        elif via == "default":
            project = build_project(names, deps)
            project.default = req[0]
            TaskRunner().run(project)
        elif via in ("recipe", "recipe-default"):
            if via == "recipe":
                construct(io.StringIO(build_xml(names, deps, None)), list(req))
            else:
                construct(io.StringIO(build_xml(names, deps, req[0])))
        else:
            raise ValueError(via)

    cases = json.load(sys.stdin)
    have_alarm = hasattr(signal, "setitimer")
    if have_alarm:
        signal.signal(signal.SIGALRM, _alarm)
    # projects have at most 5 targets: a runaway recursion in a changed tree should fail fast
    # (unwinding 1000 frames costs ~50 ms per case)
    sys.setrecursionlimit(120)
    out = []
    for names, deps, req, via in cases:
        del LOG[:]
        detail = ""
        if have_alarm:
            signal.setitimer(signal.ITIMER_REAL, 20.0)
        try:
            run_case(names, deps, req, via)
            outcome = "done"
        except TaskError as e:
            msg = str(getattr(e, "msg", e))
            if "loop" in msg.lower() or "cycl" in msg.lower() or "circular" in msg.lower():
                outcome = "loop"
            else:
                outcome = "error"
            detail = "TaskError: " + msg[:120]
        except BaseException as e:  # the outcome class is part of the observation
            if isinstance(e, KeyboardInterrupt):
                raise
            outcome = "error"
            detail = "%s: %s" % (type(e).__name__, str(e)[:120])
        finally:
            if have_alarm:
                signal.setitimer(signal.ITIMER_REAL, 0)
        out.append(["".join(str(x) for x in LOG), outcome, detail])
    json.dump(out, sys.stdout, separators=(",", ":"))


if __name__ == "__main__":
    main()
