"""Instruction-instance generator and observers for the msp430 part of C08.

Python here only (a) enumerates instances of ppci.arch.msp430's instruction classes (every addressing-mode
constructor in every operand slot, every register in every register slot, boundary immediates / offsets /
label distances from TLC's table (idiom G, tla/Msp430_MC.tla)), (b) drives the real code -- Instruction.encode(),
str(instruction), the instruction's own relocations, render() of the emulated instructions, the assembler --
and records what it did, (c) tokenises printed text lexically (register name -> number is the only
interpretation; a label token carries the address the harness resolved it to).
The verdicts are TLC's (tla/Msp430_Eval.tla over tla/Msp430.tla)."""
import itertools
import re

from . import isagen

ISA = "msp430"
PLACE = 0x8000
LABELS = {"L_t": 0x8040, "L_u": 0x0202}
LAWS = {"w16": ["LawOneFormat", "LawReencode"], "ins": ["LawDecodeEncode"], "ln": ["LawLine"], "ka": ["LawKnown"],
        "fld": ["LawFields"], "mn": ["LawMnemonic"]}
WHAT = "Msp430.tla"


# ---------------------------------------------------------------- lexer
_REGN = {"pc": 0, "sp": 1, "sr": 2, "cg": 3}
_TOK = re.compile(r"\s*(?:([A-Za-z_][A-Za-z_0-9]*)|(0x[0-9a-fA-F]+|\d+)|(.))")


def tokenize(text, labels=None):
    """'mov.w #-1, 4(r5)' -> ('mov.w', [['#',0,''], ['i',-1,''], [',',0,''], ['i',4,''], ['(',0,''], ['r',5,'r5'], [')',0,'']]).
    Purely lexical.  A '-' directly before a number (not after a number, register or ')') is its sign;
    '$+N' / '$-N' of the reference disassembler is the integer N."""
    labels = labels or {}
    text = text.strip()
    m = re.match(r"^([A-Za-z_][A-Za-z_0-9.]*)", text)
    if not m:
        return None
    mn = m.group(1).lower()
    rest = text[m.end():]
    ops = []
    pos = 0
    neg = False
    dollar = False
    while pos < len(rest):
        t = _TOK.match(rest, pos)
        if not t:
            break
        pos = t.end()
        if t.group(1):
            w = t.group(1)
            lw = w.lower()
            r = re.match(r"^r(\d+)$", lw)
            if neg:
                ops.append(["x", 0, "-"])
                neg = False
            if r and int(r.group(1)) < 16:
                ops.append(["r", int(r.group(1)), w])
            elif lw in _REGN:
                ops.append(["r", _REGN[lw], w])
            elif w in labels:
                ops.append(["l", labels[w], w])
            else:
                ops.append(["x", 0, w])
        elif t.group(2):
            lit = t.group(2)
            v = int(lit, 16) if lit.lower().startswith("0x") else int(lit, 10)
            if neg:
                v = -v
                neg = False
            if not -(1 << 30) < v < (1 << 30):
                return None
            dollar = False
            ops.append(["i", v, ""])
        else:
            ch = t.group(3)
            if ch in " \t":
                continue
            if neg:
                ops.append(["x", 0, "-"])
                neg = False
            if ch == "$":
                dollar = True
            elif ch == "-" and (dollar or not ops or ops[-1][0] in "#,(&"):
                neg = True
            elif ch == "+" and dollar:
                pass
            elif ch in "#&@+(),":
                ops.append([ch, 0, ""])
            else:
                ops.append(["x", 0, ch])
    if neg:
        ops.append(["x", 0, "-"])
    return mn, ops


# ---------------------------------------------------------------- classes
def _mod():
    from ppci.arch.msp430 import instructions as I
    return I


def isa_classes():
    """[(name, cls)] concrete instruction classes with a syntax of get_arch('msp430').isa (no data directives)."""
    from ppci.api import get_arch
    from ppci.arch.data_instructions import DataInstruction
    out, count = [], {}
    for c in get_arch(ISA).isa.instructions:
        if getattr(c, "syntax", None) is None or issubclass(c, DataInstruction):
            continue
        k = count.get(c.__name__, 0)
        count[c.__name__] = k + 1
        out.append((c.__name__ if k == 0 else "%s#%d" % (c.__name__, k + 1), c))
    return out


def reg(n):
    from ppci.arch.msp430 import registers as R
    return getattr(R, "r%d" % n)


def args_of(c):
    """[(name, kind)] of a class / constructor with a syntax: r register, i int, l label, m mode constructors."""
    from ppci.arch.msp430.registers import Msp430Register
    res = []
    for a in c.syntax.formal_arguments:
        t = a._cls
        if t is Msp430Register:
            k = "r"
        elif t is int:
            k = "i"
        elif t is str:
            k = "l"
        elif isinstance(t, tuple):
            k = "m"
        else:
            k = "?"
        res.append((a._name, k, t))
    return res


def _vals(table, what):
    row = [r for r in table[ISA] if r["what"] == what][0]
    return row


def mode_instances(ctor, table, lab, quickints, base_reg):
    """Instances of one addressing-mode constructor: [(object factory args dict, tag, valid)]:
    every register in its register slot, boundary integers in its integer slot (validity from TLC's `inside`)."""
    sl = args_of(ctor)
    if any(k in "?m" for _, k, _ in sl):
        return []
    d = {}
    for n, k, _ in sl:
        d[n] = reg(base_reg) if k == "r" else (6 if k == "i" else lab)
    if ctor.__name__ == "SmallConstSrc":
        d = {n: 1 for n in d}
    out = [(dict(d), "default", True)]
    for n, k, _ in sl:
        if k == "r":
            for r in range(16):
                x = dict(d)
                x[n] = reg(r)
                out.append((x, "%s:sweep" % n, True))
        elif k == "i":
            row = _vals(table, "imm")
            vals = row["vals"]
            if quickints is not None:
                vals = [v for v in vals if v["v"] in quickints]
            for v in vals:
                x = dict(d)
                x[n] = v["v"]
                out.append((x, "%s:%s" % (n, "in" if v["inside"] else "out"), v["inside"]))
    return out


def _plain_reg_mode(defaults):
    """The (constructor, default operands) whose only operand is a register (RegSrc / RegDst); else the first."""
    for ctor, vals in defaults:
        if [k for _, k, _ in args_of(ctor)] == ["r"]:
            return ctor, vals
    return defaults[0]


def build_mode(ctor, vals):
    return ctor(*[vals[n] for n, _, _ in args_of(ctor)])


QUICK_INTS = {-32768, -1, 0, 1, 2, 4, 8, 32768, 65535, 65536}
FULL_CLASSES = {"Movw", "Addb", "Cmpw", "Xorb", "Rrc", "Push", "Call"}


def enumerate_instances(cname, cls, table, rng, thorough):
    """[{build: () -> instruction, tag, valid, syms, place}] for one class."""
    sl = args_of(cls)
    out = []
    full = thorough or cname in FULL_CLASSES
    quickints = None if full else QUICK_INTS

    def add(factory, tag, valid=True, place=PLACE, syms=None):
        out.append({"build": factory, "tag": tag, "valid": valid, "place": place, "syms": dict(syms or LABELS)})

    if not sl:
        add(lambda: cls(), "plain")
        return out
    kinds = [k for _, k, _ in sl]
    if kinds == ["l"]:                                   # jumps
        row = _vals(table, "jump")
        for place in (PLACE, PLACE + 2):
            for v in row["vals"]:
                sym = place + 2 + v["v"]
                if not 0 <= sym <= 0xFFFF:
                    continue
                add(lambda: cls("L_t"), "target:%s:p%d" % ("in" if v["inside"] else "out", place % 4), valid=v["inside"],
                    place=place, syms={"L_t": sym, "L_u": LABELS["L_u"]})
        if thorough:
            for _ in range(24):
                d = rng.randrange(-512, 512) * 2
                add(lambda: cls("L_t"), "target:random", place=PLACE, syms={"L_t": PLACE + 2 + d, "L_u": LABELS["L_u"]})
        return out
    if kinds == ["r"]:                                   # pop
        for r in range(16):
            add((lambda r=r: cls(reg(r))), "%s:sweep" % sl[0][0])
        return out
    if any(k != "m" for k in kinds):
        return out
    # operand slots that take addressing-mode constructors
    per_slot = []
    for si, (n, _, ctors) in enumerate(sl):
        lab = "L_t" if si == 0 else "L_u"
        alts = []
        for ctor in ctors:
            alts.append((ctor, mode_instances(ctor, table, lab, quickints, 9 + si)))
        per_slot.append((n, alts))

    def make(choice):
        return lambda: cls(*[build_mode(ctor, vals) for ctor, vals in choice])

    # every combination of mode constructors with default operands
    defaults = [[(ctor, inst[0][0]) for ctor, inst in alts if inst] for _, alts in per_slot]
    for combo in itertools.product(*defaults):
        add(make(combo), "modes:" + "+".join(c.__name__ for c, _ in combo))
    # per slot: every instance of every mode, the other slots at their first register mode
    for si, (n, alts) in enumerate(per_slot):
        for ctor, insts in alts:
            for vals, tag, valid in insts[1:]:
                combo = [_plain_reg_mode(d) for d in defaults]
                combo[si] = (ctor, vals)
                add(make(combo), "%s:%s:%s" % (n, ctor.__name__, tag), valid=valid)
    # diagonal: the same register in every register slot of every mode combination
    if full:
        regmodes = [[ctor for ctor, _ in alts if any(k == "r" for _, k, _ in args_of(ctor))] for _, alts in per_slot]
        for combo in itertools.product(*regmodes):
            for r in range(16):
                choice = []
                for si, ctor in enumerate(combo):
                    vals = {}
                    for an, k, _ in args_of(ctor):
                        vals[an] = reg(r) if k == "r" else (2 * si + 2 if k == "i" else "L_t")
                    choice.append((ctor, vals))
                add(make(choice), "diag:" + "+".join(c.__name__ for c in combo))
    if thorough and len(per_slot) == 2:
        # every pair of register-taking modes: the full register product for the classes in FULL_CLASSES, 48 seeded
        # random register pairs for the others; seeded random offsets
        regmodes = [[ctor for ctor, _ in alts if any(k == "r" for _, k, _ in args_of(ctor))] for _, alts in per_slot]
        for c0, c1 in itertools.product(*regmodes):
            if cname in FULL_CLASSES:
                pairs = [(r0, r1) for r0 in range(16) for r1 in range(16)]
            else:
                pairs = [(rng.randrange(16), rng.randrange(16)) for _ in range(48)]
            for r0, r1 in pairs:
                ch = []
                for si, (ctor, r) in enumerate(((c0, r0), (c1, r1))):
                    vals = {}
                    for an, k, _ in args_of(ctor):
                        vals[an] = reg(r) if k == "r" else (rng.randrange(-32768, 65536) if k == "i" else "L_t")
                    ch.append((ctor, vals))
                add(make(ch), "regs:%s+%s" % (c0.__name__, c1.__name__))
    return out


# ---------------------------------------------------------------- records
def record(cname, path, text, out, inst):
    t = tokenize(text, inst["syms"])
    if t is None:
        return None
    mn, ops = t
    labs = [o for o in ops if o[0] == "l"]
    suffix = "".join("@%s=%#x" % (o[2], o[1]) for o in labs) + ("@pc=%#x" % inst["place"] if labs and len(ops) == 1 else "")
    return {"t": "enc", "isa": ISA, "key": "C08:%s:%s:%s:%s:%s%s" % (ISA, cname, path, inst["tag"], text, suffix), "mn": mn,
            "ops": ops, "pc": inst["place"], "out": out, "text": text, "cls": cname, "tag": inst["tag"]}


def enc_records(table, rng, thorough, rig=None):
    recs, skipped = [], {}

    def skip(k):
        skipped[k] = skipped.get(k, 0) + 1

    for cname, cls in isa_classes():
        seen = set()
        macro = hasattr(cls, "render") and not _is_plain(cls)
        for inst in enumerate_instances(cname, cls, table, rng, thorough):
            try:
                ins = inst["build"]()
                text = str(ins)
            except Exception as e:      # construction / printing failed: nothing is printed, nothing to compare
                skip("%s:rejected:%s" % (cname, type(e).__name__))
                continue
            sig = (text, inst["place"], tuple(sorted(inst["syms"].items())) if "L_" in text else ())
            if sig in seen:
                continue
            seen.add(sig)
            out = isagen.observe_render(ins, inst["syms"], inst["place"]) if macro else isagen.observe(ins, inst["syms"], inst["place"])
            if not inst["valid"]:
                # operand values outside the field's range are C10's question; here only counted when accepted
                if out["ok"]:
                    skip("%s:out-of-range operand accepted" % cname)
                continue
            if not out["ok"]:
                skip("%s:not encodable:%s" % (cname, out["exc"]))
            r = record(cname, "render" if macro else "enc", text, out, inst)
            if r is None:
                skip("%s:not tokenisable" % cname)
                continue
            recs.append(r)
            if rig is not None and not macro and "L_" not in text and not inst["tag"].startswith("regs:"):
                o2 = rig.observe_asm(ISA, text)
                r2 = record(cname, "asm", text, o2, inst)
                if r2 is not None:
                    recs.append(r2)
    return recs, skipped


def _is_plain(cls):
    from ppci.arch.generic_instructions import ArtificialInstruction
    return not issubclass(cls, ArtificialInstruction)


# ---------------------------------------------------------------- spec validation against llvm-mc
TRIPLE = ["--triple=msp430"]


def reference_corpus(rng, table_len):
    """Byte strings beyond what ppci emitted: every 16th first word with the extension words its format takes."""
    bl = []
    for w in range(0, 65536, 16):
        n = table_len(w)
        if n == 0:
            n = 2
        b = [w & 255, w >> 8]
        for _ in range((n - 2) // 2):
            x = rng.choice([0, 1, 2, 0x1234, 0x8000, 0xFFFE, 0xFFFF, rng.randrange(65536)])
            b += [x & 255, x >> 8]
        bl.append(b)
    return bl


def _length_of(w):
    """Number of bytes llvm-mc must be given for first word w so that it sees one whole instruction: a *guess* used only
    to build the corpus (a wrong guess makes the reference print two instructions; such strings are dropped)."""
    top = w >> 12
    if top >= 4:
        as_, src, ad = (w >> 4) & 3, (w >> 8) & 15, (w >> 7) & 1
        return 2 + (2 if (as_ == 1 and src != 3) or (as_ == 3 and src == 0) else 0) + 2 * ad
    if (w >> 10) == 4:
        as_, r = (w >> 4) & 3, w & 15
        return 2 + (2 if (as_ == 1 and r != 3) or (as_ == 3 and r == 0) else 0)
    return 2


def llvm_crosscheck(ctx, byte_lists, rng):
    import os
    if not os.path.exists(isagen.LLVM_MC):
        ctx.note("llvm-mc-14 not installed: Msp430.tla not cross-checked")
        return
    emitted = sorted({tuple(b) for b in byte_lists if len(b) in (2, 4, 6)})
    if len(emitted) > 3000:     # the reference disassembler is slow to start and to warn: a seeded sample is enough here
        emitted = rng.sample(emitted, 3000)
    uniq = sorted(set(emitted) | {tuple(b) for b in reference_corpus(rng, _length_of)})
    dis = []
    for k in range(0, len(uniq), 4000):
        dis += isagen.disassemble(TRIPLE, [list(b) for b in uniq[k:k + 4000]], ([0x0F, 0x4F], "mov r15, r15"))
    recs = []
    crashed = 0
    for b, text in zip(uniq, dis):
        if text is False:
            crashed += 1
            continue
        if text is None:
            recs.append({"t": "enc", "isa": ISA, "mn": "invalid", "ops": [], "pc": PLACE, "out": {"ok": True, "exc": "", "bytes": list(b)},
                         "text": "<invalid>", "key": bytes(b).hex()})
            continue
        t = tokenize(text)
        if t is None:
            continue
        mn, ops = t
        recs.append({"t": "enc", "isa": ISA, "mn": mn, "ops": ops, "pc": 0, "out": {"ok": True, "exc": "", "bytes": list(b)},
                     "text": text, "key": bytes(b).hex()})
    verdicts = isagen.judge(ctx, "Msp430_Eval", recs, ["RefInvalid", "SyntaxKnown", "ModeExists", "RefAgrees"],
                            "spec validation: Msp430.Decode against llvm-mc", count=False)
    unknown = differ = invdiff = nomode = 0
    suspects, seen = [], set()
    for r, clause in verdicts:
        if r["key"] in seen:
            continue
        seen.add(r["key"])
        if clause == "SyntaxKnown":
            unknown += 1
        elif clause == "ModeExists":
            nomode += 1
        elif clause == "RefInvalid":
            invdiff += 1
            suspects.append((r["key"], "defined in the specification", "invalid for llvm-mc"))
        else:
            differ += 1
            suspects.append((r["key"], "differs", r["text"]))
    agree = len(recs) - unknown - differ - invdiff - nomode
    for h, mine_, ref in [s for s in suspects if s[1] == "differs"][:20]:
        print("SPEC-SUSPECT property=%s case=msp430-bytes:%s specification %s llvm-mc=%r" % (ctx.prop, h, mine_, ref))
    ctx.note("spec validation (msp430): Msp430.Decode agrees with llvm-mc-14 --triple=msp430 on %d of %d byte strings (%d printed "
             "in a syntax outside the compared one, %d printed with R2 / R3 as a base register, %d differ, %d defined here / "
             "invalid there: llvm rejects single-operand instructions on an immediate and some byte forms of the emulated "
             "instructions; %d dropped because llvm read them as two instructions or crashed)" % (
                 agree, len(recs), unknown, nomode, differ, invdiff, crashed))
    ctx.cov.setdefault("spec_validation_small_isas", {})[ISA] = {
        "reference": "llvm-mc-14 --triple=msp430", "agree": agree, "differ": differ, "not_compared": unknown + nomode + crashed,
        "invalid_for_reference_only": invdiff}


# ---------------------------------------------------------------- the msp430 part of engine C08
def c08_part(ctx, thorough):
    """C08 for ppci.arch.msp430.  Returns True when a replay was this part's."""
    mine = isagen.mine(ctx, "C08:%s:" % ISA)
    if mine is False:
        return False
    ctx.assume("msp430: lexical tokenisation of the printed text (harness/msp430gen.py: tokenize), register names r<n> -> n, "
               "integers read as written and compared as 16-bit patterns; for label operands the harness resolves the label "
               "to an address it chose (the label token carries it)")
    ctx.cov["rule_msp430"] = (
        "every concrete instruction class of get_arch('msp430').isa (10 jumps, 8 single-operand, reti, 23 double-operand, "
        "the 6 emulated instructions ppci renders) x {every combination of source and destination addressing-mode "
        "constructors, every register r0..r15 in every register slot of every mode, the diagonal, boundary immediates / "
        "offsets and label distances enumerated by TLC (Msp430_MC.Table; quick: diagonal and all values for 7 classes, 10 "
        "boundary values for the others), jumps from two places}; bytes = encode() + the instruction's own relocations applied (thorough: "
        "every pair of register-taking modes x the full register product (7 classes) / 48 seeded random register pairs, "
        "seeded random offsets and jump distances, and the assembler on the printed text of label-free lines); TLC: Core(Decode(bytes)) = Core(Asm(printed "
        "text)); distinct = distinct (class, path, printed text, label addresses)")
    fams = sorted(LAWS)
    table = isagen.laws_and_table(ctx, "Msp430_MC", LAWS, fams if mine is None else [], thorough and mine is None, WHAT,
                                  workers=8 if mine is None else 2)
    rng = isagen.own_rng(ctx, 430)
    rig = isagen.Rig() if thorough else None
    recs, skipped = enc_records(table, rng, thorough, rig)
    acc = sum(n for k, n in skipped.items() if k.endswith("out-of-range operand accepted"))
    rej = sum(n for k, n in skipped.items() if ":rejected:" in k)
    nenc = sum(n for k, n in skipped.items() if ":not encodable:" in k)
    ctx.note("msp430: %d instance(s) rejected by ppci at construction, %d in-range instance(s) printed but refused by encode() "
             "/ the relocation (e.g. a small-constant source with a value no constant generator has, a jump distance of "
             "-1024), %d out-of-range operand value(s) accepted by ppci (C10's question, not judged here)" % (rej, nenc, acc))
    recs = isagen.restrict(ctx, recs)
    for r in recs:
        ctx.count(r["key"])
    for r in recs[:: max(1, len(recs) // 2)][:2]:
        ctx.sample({"key": r["key"], "bytes": r["out"]["bytes"]})
    verdicts = isagen.judge(ctx, "Msp430_Eval", recs, ["EncodingAgrees", "SyntaxKnown", "ModeExists"], "E: C08 records (msp430)")
    unknown = nomode = 0
    for rec, clause in verdicts:
        if clause == "SyntaxKnown":
            unknown += 1
        elif clause == "ModeExists":
            nomode += 1
        else:
            ctx.violation(rec["key"], "msp430: bytes %s do not decode to the printed '%s' [clause %s]" % (
                bytes(rec["out"]["bytes"]).hex(), rec["text"], clause), {"record": dict(rec), "clause": clause})
    if unknown:
        ctx.note("%d msp430 instance(s) printed in a syntax outside the modelled assembly: no verdict" % unknown)
    if nomode:
        ctx.note("%d msp430 instance(s) whose printed operand names an addressing mode the architecture does not have (R2 / R3 as "
                 "pointer or base register select the constant generators, @PC+ is the immediate mode): no verdict" % nomode)
    if thorough and mine is None:
        llvm_crosscheck(ctx, [r["out"]["bytes"] for r in recs if r["out"]["ok"]], rng)
    return mine is True
