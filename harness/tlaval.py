"""Parser for TLA+ values as printed by TLC (states of error traces, PrintT).

Supported: integers, strings, booleans, sequences <<..>>, sets {..},
records [a |-> v, ...], functions (k :> v @@ k :> v), model values (bare
identifiers), and intervals a..b.  Returns plain Python objects:
int, str, bool, list (sequence), frozenset-as-list tagged tuple ("set", [...]),
dict (records and functions with string keys), dict with tuple/int keys for
general functions.
"""


class ParseError(Exception):
    pass


class _P:
    def __init__(self, s):
        self.s = s
        self.i = 0

    def ws(self):
        s = self.s
        while self.i < len(s) and s[self.i] in " \t\r\n":
            self.i += 1

    def peek(self, n=1):
        return self.s[self.i:self.i + n]

    def eat(self, tok):
        self.ws()
        if self.s.startswith(tok, self.i):
            self.i += len(tok)
            return True
        return False

    def expect(self, tok):
        if not self.eat(tok):
            raise ParseError(
                "expected %r at %d: %r" % (tok, self.i, self.s[self.i:self.i + 40])
            )

    def value(self):
        v = self.atom()
        self.ws()
        # function literal  k :> v @@ k2 :> v2
        if self.s.startswith(":>", self.i):
            self.i += 2
            d = {}
            d[_key(v)] = self.atom_noat()
            while self.eat("@@"):
                k = self.atom()
                self.expect(":>")
                d[_key(k)] = self.atom_noat()
            return d
        if self.s.startswith("..", self.i):
            self.i += 2
            hi = self.atom()
            return ("set", list(range(v, hi + 1)))
        return v

    def atom_noat(self):
        return self.atom()

    def atom(self):
        self.ws()
        s = self.s
        if self.i >= len(s):
            raise ParseError("unexpected end")
        c = s[self.i]
        if s.startswith("<<", self.i):
            self.i += 2
            out = []
            self.ws()
            if self.eat(">>"):
                return out
            while True:
                out.append(self.value())
                if self.eat(">>"):
                    return out
                self.expect(",")
        if c == "{":
            self.i += 1
            out = []
            if self.eat("}"):
                return ("set", out)
            while True:
                out.append(self.value())
                if self.eat("}"):
                    return ("set", out)
                self.expect(",")
        if c == "[":
            self.i += 1
            d = {}
            if self.eat("]"):
                return d
            while True:
                self.ws()
                j = self.i
                while self.i < len(s) and (s[self.i].isalnum() or s[self.i] == "_"):
                    self.i += 1
                name = s[j:self.i]
                self.expect("|->")
                d[name] = self.value()
                if self.eat("]"):
                    return d
                self.expect(",")
        if c == "(":
            self.i += 1
            v = self.value()
            self.expect(")")
            return v
        if c == '"':
            j = self.i + 1
            out = []
            while s[j] != '"':
                if s[j] == "\\":
                    j += 1
                    out.append({"n": "\n", "t": "\t"}.get(s[j], s[j]))
                else:
                    out.append(s[j])
                j += 1
            self.i = j + 1
            return "".join(out)
        if c == "-" or c.isdigit():
            j = self.i
            self.i += 1
            while self.i < len(s) and s[self.i].isdigit():
                self.i += 1
            return int(s[j:self.i])
        if c.isalpha() or c == "_":
            j = self.i
            while self.i < len(s) and (s[self.i].isalnum() or s[self.i] == "_"):
                self.i += 1
            w = s[j:self.i]
            if w == "TRUE":
                return True
            if w == "FALSE":
                return False
            return w
        raise ParseError("unexpected %r at %d" % (s[self.i:self.i + 20], self.i))


def _key(k):
    if isinstance(k, list):
        return tuple(_key(x) for x in k)
    if isinstance(k, tuple) and k and k[0] == "set":
        return frozenset(_key(x) for x in k[1])
    return k


def parse(text):
    p = _P(text)
    v = p.value()
    p.ws()
    if p.i != len(p.s):
        raise ParseError("trailing text %r" % p.s[p.i:p.i + 40])
    return v


def parse_state(block):
    """Parse a state block ``/\\ a = v\\n/\\ b = v`` into {var: value}.

    Values that fail to parse are kept as raw strings."""
    out = {}
    cur = None
    buf = []

    def flush():
        if cur is not None:
            raw = "\n".join(buf).strip()
            try:
                out[cur] = parse(raw)
            except (ParseError, IndexError, ValueError):
                out[cur] = raw

    for line in block.splitlines():
        if line.startswith("/\\ ") and " = " in line:
            flush()
            name, rest = line[3:].split(" = ", 1)
            cur = name.strip()
            buf = [rest]
        else:
            buf.append(line)
    flush()
    return out


def to_tla(v):
    """Python object -> TLA+ expression text (ints, str, bool, list, dict)."""
    if isinstance(v, bool):
        return "TRUE" if v else "FALSE"
    if isinstance(v, int):
        return str(v) if v >= 0 else "(%d)" % v
    if isinstance(v, str):
        return '"%s"' % v.replace("\\", "\\\\").replace('"', '\\"')
    if isinstance(v, (list, tuple)):
        return "<<" + ", ".join(to_tla(x) for x in v) + ">>"
    if isinstance(v, (set, frozenset)):
        return "{" + ", ".join(to_tla(x) for x in sorted(v, key=repr)) + "}"
    if isinstance(v, dict):
        if not v:
            return "<<>>"
        if all(isinstance(k, str) and k.isidentifier() for k in v):
            return "[" + ", ".join("%s |-> %s" % (k, to_tla(x)) for k, x in v.items()) + "]"
        return "(" + " @@ ".join("%s :> %s" % (to_tla(k), to_tla(x)) for k, x in v.items()) + ")"
    raise TypeError(type(v))
