"""Drives ppci's WebAssembly execution (ppci.wasm.instantiate, target 'python' | 'native') and the reference
engine (node) on call traces, always in subprocesses.

A *job* is {id, wat | hex, target, traces:[[{fn,args:[int],tys:[ty],rtys:[ty]}...]...], exports:[{name,kind,ty}],
            ext:[{mod,name,params:[ty],ty:result type or "",rets:[int]}]}.
Every trace is run on a fresh instance.  The observation of a trace is a list: element 0 = instantiation
(incl. start function), element k = call k:
    {outcome: "value" | "trap" | "exc:<Class>" | "crash:<signal>" | "timeout" | "badvalue" | "value-from-void",
     msg, ret:[[limb..]..],
     state: bool, glob:[{name,v}], mem:[[address,byte]..] (non-zero cells), pages, hascalls, calls:[{name,args}]}
A native trap kills the process: the parent notices the dead child, records 'crash' for the call that was
running and restarts a child for the remaining traces (a dead child is an observation, not a failure).

child mode:  python wasm_runner.py --child jobs.json     (ndjson events on stdout)
Integers travel as decimal strings (JSON numbers lose precision beyond 2^53 in node).
"""
import json
import os
import select
import subprocess
import sys
import tempfile
import time

HERE = os.path.dirname(os.path.abspath(__file__))
BITS = {"i32": 32, "i64": 64}


def limbs(v, n):
    v = int(v) & ((1 << (8 * n)) - 1)
    return [(v >> (8 * i)) & 255 for i in range(n)]


# ---------------------------------------------------------------------------------------------------
# child
# ---------------------------------------------------------------------------------------------------
def _emit(obj):
    sys.stdout.write(json.dumps(obj, separators=(",", ":")) + "\n")
    sys.stdout.flush()


def _value_ok(v, t):
    b = BITS[t]
    return isinstance(v, int) and not isinstance(v, bool) and -(1 << (b - 1)) <= v < (1 << b)


def _snapshot(inst, job):
    glob, mem, pages = [], [], -1
    for e in job["exports"]:
        if e["kind"] == "global":
            v = inst.exports[e["name"]].read()
            if not _value_ok(v, e["ty"]):
                raise ValueError("global %s holds %r" % (e["name"], v))
            glob.append({"name": e["name"], "v": limbs(v, BITS[e["ty"]] // 8)})
        elif e["kind"] == "memory":
            m = inst.exports[e["name"]]
            pages = int(m.size())
            data = bytes(m.read(0, pages * 65536))
            if len(data) != pages * 65536:
                raise ValueError("memory read returned %d bytes for %d pages" % (len(data), pages))
            if data.count(0) != len(data):
                mem = [[a, b] for a, b in enumerate(data) if b]
    return {"glob": glob, "mem": mem, "pages": pages}


def _observe(outcome, msg, ret, inst, job, calls):
    o = {"outcome": outcome, "msg": str(msg)[:200], "ret": ret, "state": False, "glob": [], "mem": [], "pages": -1,
         "hascalls": True, "calls": list(calls)}
    if inst is not None:
        try:
            o.update(_snapshot(inst, job))
            o["state"] = True
        except Exception as e:  # the state could not be read back: part of the observation
            o["outcome"] = "exc-state:" + type(e).__name__
            o["msg"] = str(e)[:200]
    return o


def _trap_class(e):
    from ppci.wasm import WasmTrapException
    from ppci.wasm.execution.runtime import Unreachable

    if isinstance(e, (WasmTrapException, Unreachable)):
        return "trap"
    return "exc:" + type(e).__name__


def _make_imports(job, calls, counters):
    from ppci import ir

    tymap = {"i32": ir.i32, "i64": ir.i64}
    imports = {}
    for x in job.get("ext") or []:
        def make(x=x):
            def body(*args):
                calls.append({"name": x["name"], "args": [limbs(a, BITS[t] // 8) for a, t in zip(args, x["params"])]})
                k = counters[x["name"]] = counters.get(x["name"], 0) + 1
                if not x["ty"]:
                    return None
                v = int(x["rets"][k - 1]) if k <= len(x["rets"]) else 0
                b = BITS[x["ty"]]
                v &= (1 << b) - 1
                return v - (1 << b) if v >> (b - 1) else v

            names = ["a%d" % k for k in range(len(x["params"]))]
            ns = {"body": body, "tys": [tymap[t] for t in x["params"]], "rty": tymap.get(x["ty"])}
            src = "def f(%s) -> rty:\n    return body(%s)\n" % (
                ", ".join("%s: tys[%d]" % (n, k) for k, n in enumerate(names)), ", ".join(names))
            exec(src, ns)
            return ns["f"]

        imports.setdefault(x["mod"], {})[x["name"]] = make()
    return imports


def child(path):
    with open(path) as f:
        jobs = json.load(f)
    from ppci.wasm import Module, instantiate

    for job in jobs:
        for t, trace in job["todo"]:
            _emit({"ev": "start", "job": job["id"], "trace": t})
            calls = []
            counters = {}       # the k-th call of an import within one export call returns rets[k]
            inst = None
            try:
                module = Module(job["wat"]) if "wat" in job else Module(bytes.fromhex(job["hex"]))
                _emit({"ev": "call", "job": job["id"], "trace": t, "k": 0})
                inst = instantiate(module, imports=_make_imports(job, calls, counters), target=job["target"])
                _emit({"ev": "obs", "job": job["id"], "trace": t, "k": 0, "obs": _observe("value", "", [], inst, job, calls)})
            except BaseException as e:
                if isinstance(e, (KeyboardInterrupt, SystemExit)):
                    raise
                _emit({"ev": "obs", "job": job["id"], "trace": t, "k": 0,
                       "obs": _observe(_trap_class(e), repr(e), [], None, job, calls)})
                _emit({"ev": "done", "job": job["id"], "trace": t})
                continue
            for k, c in enumerate(trace, start=1):
                del calls[:]
                counters.clear()
                _emit({"ev": "call", "job": job["id"], "trace": t, "k": k})
                try:
                    r = inst.exports[c["fn"]](*[int(a) for a in c["args"]])
                    rs = [] if r is None else (list(r) if isinstance(r, (tuple, list)) else [r])
                    if not c["rtys"] and rs:
                        # a function without results handed a value to its caller
                        o = _observe("value-from-void", repr(r), [], inst, job, calls)
                    elif len(rs) != len(c["rtys"]) or not all(_value_ok(v, ty) for v, ty in zip(rs, c["rtys"])):
                        o = _observe("badvalue", repr(r), [], inst, job, calls)
                    else:
                        o = _observe("value", "", [limbs(v, BITS[ty] // 8) for v, ty in zip(rs, c["rtys"])], inst, job, calls)
                except BaseException as e:
                    if isinstance(e, (KeyboardInterrupt, SystemExit)):
                        raise
                    o = _observe(_trap_class(e), repr(e), [], inst, job, calls)
                _emit({"ev": "obs", "job": job["id"], "trace": t, "k": k, "obs": o})
            _emit({"ev": "done", "job": job["id"], "trace": t})


# ---------------------------------------------------------------------------------------------------
# parent
# ---------------------------------------------------------------------------------------------------
def _dead(outcome, msg):
    return {"outcome": outcome, "msg": msg, "ret": [], "state": False, "glob": [], "mem": [], "pages": -1,
            "hascalls": False, "calls": []}


def _run_child(jobs, workdir, call_timeout, tag):
    """Run one child over jobs (each with 'todo'); returns {(job, trace): [obs...]}, restarting after crashes."""
    results = {}
    pending = [(j, list(j["todo"])) for j in jobs]
    rounds = 0
    while any(todo for _, todo in pending):
        rounds += 1
        batch = []
        for j, todo in pending:
            if todo:
                jj = dict(j)
                jj["todo"] = todo
                batch.append(jj)
        path = os.path.join(workdir, "jobs_%s_%d.json" % (tag, rounds))
        with open(path, "w") as f:
            json.dump(batch, f)
        env = dict(os.environ)
        env["PYTHONHASHSEED"] = "0"
        proc = subprocess.Popen([sys.executable, os.path.abspath(__file__), "--child", path], stdout=subprocess.PIPE,
                                stderr=subprocess.DEVNULL, env=env, cwd=workdir)
        cur = None          # (job, trace, k) of the call in flight
        buf = b""
        finished = set()
        timed_out = False
        last = time.time()
        fd = proc.stdout.fileno()
        while True:
            r, _, _ = select.select([fd], [], [], 1.0)
            if r:
                chunk = os.read(fd, 1 << 16)
                if not chunk:
                    break
                last = time.time()
                buf += chunk
                while b"\n" in buf:
                    line, buf = buf.split(b"\n", 1)
                    try:
                        ev = json.loads(line)
                    except ValueError:
                        continue
                    key = (ev.get("job"), ev.get("trace"))
                    if ev["ev"] == "start":
                        results[key] = []
                        cur = (key[0], key[1], 0)
                    elif ev["ev"] == "call":
                        cur = (key[0], key[1], ev["k"])
                    elif ev["ev"] == "obs":
                        results[key].append(ev["obs"])
                        cur = (key[0], key[1], -1)
                    elif ev["ev"] == "done":
                        finished.add(key)
                        cur = None
            elif time.time() - last > call_timeout:
                timed_out = True
                proc.kill()
                break
        proc.wait()
        os.unlink(path)
        if cur is not None and (cur[0], cur[1]) not in finished:
            key = (cur[0], cur[1])
            if cur[2] >= 0 or not results.get(key):
                rc = proc.returncode
                what = "timeout" if timed_out else ("crash:%s" % (-rc if rc and rc < 0 else "exit%s" % rc))
                results.setdefault(key, []).append(_dead(what, "process ended during call %s" % (cur[2],)))
            finished.add(key)
        elif cur is None and proc.returncode not in (0, None) and not finished:
            # the child died before doing anything (import error...): do not loop forever
            for j, todo in pending:
                for t, _ in todo:
                    results.setdefault((j["id"], t), [_dead("crash:startup", "child exit %s" % proc.returncode)])
                    finished.add((j["id"], t))
        for j, todo in pending:
            todo[:] = [(t, tr) for t, tr in todo if (j["id"], t) not in finished]
        if rounds > 2000:
            break
    return results


def run_ppci(jobs, target, nproc=6, call_timeout=60):
    """jobs: [{id, wat|hex, traces, exports, ext}] -> {id: [[obs...] per trace]}."""
    from concurrent.futures import ThreadPoolExecutor

    workdir = tempfile.mkdtemp(prefix="wasmrun_")
    try:
        units = []
        for j in jobs:
            for t, tr in enumerate(j["traces"]):
                jj = {k: v for k, v in j.items() if k != "traces"}
                jj["target"] = target
                jj["todo"] = [(t, tr)]
                units.append(jj)
        shares = [units[k::nproc] for k in range(nproc)]
        shares = [s for s in shares if s]
        with ThreadPoolExecutor(max_workers=max(1, len(shares))) as ex:
            parts = list(ex.map(lambda a: _run_child(a[1], workdir, call_timeout, "%s%d" % (target, a[0])),
                                enumerate(shares)))
        out = {}
        for j in jobs:
            out[j["id"]] = [None] * len(j["traces"])
        for p in parts:
            for (jid, t), obs in p.items():
                out[jid][t] = obs
        for j in jobs:
            for t in range(len(j["traces"])):
                if out[j["id"]][t] is None:
                    out[j["id"]][t] = [_dead("crash:lost", "no observation")]
        return out
    finally:
        import shutil

        shutil.rmtree(workdir, ignore_errors=True)


def run_node(jobs, timeout=300):
    """jobs: [{id, hex, traces, exports, ext}] -> {id: {valid, traces:[[obs...]...], error?}}."""
    workdir = tempfile.mkdtemp(prefix="wasmnode_")
    try:
        path = os.path.join(workdir, "jobs.json")
        with open(path, "w") as f:
            json.dump(jobs, f)
        p = subprocess.run(["node", "--stack-size=2000", os.path.join(HERE, "wasm_node.js"), path],
                           stdout=subprocess.PIPE, stderr=subprocess.PIPE, timeout=timeout)
        out = {}
        for line in p.stdout.splitlines():
            try:
                r = json.loads(line)
            except ValueError:
                continue
            out[r["id"]] = r
        if p.returncode != 0 and len(out) < len(jobs):
            raise RuntimeError("node failed: %s" % p.stderr.decode()[-500:])
        return out
    finally:
        import shutil

        shutil.rmtree(workdir, ignore_errors=True)


if __name__ == "__main__":
    if len(sys.argv) == 3 and sys.argv[1] == "--child":
        sys.dont_write_bytecode = True
        child(sys.argv[2])
