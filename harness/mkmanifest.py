#!/venv/bin/python
"""Assemble MANIFEST.json from manifest.d/*.json fragments (one per property)."""
import glob
import json
import os

V = os.path.dirname(os.path.dirname(os.path.abspath(__file__)))
base = json.load(open(os.path.join(V, "manifest.d", "_base.json")))
props = [json.loads(l)["id"] for l in open(os.path.join(V, "properties.jsonl"))]
checks = []
claimed = set()
for p in sorted(glob.glob(os.path.join(V, "manifest.d", "C*.json"))):
    c = json.load(open(p))
    pid = c["property_id"]
    c.setdefault("quick_cmd", "./check %s --tier quick" % pid)
    c.setdefault("thorough_cmd", "./check %s --tier thorough" % pid)
    c.setdefault("evidence_file", "/verif/evidence/%s.json" % pid)
    c.setdefault("replay_cmd_template", "./check %s --replay {path}" % pid)
    checks.append(c)
    claimed.add(pid)
na = json.load(open(os.path.join(V, "manifest.d", "_not_applicable.json")))
na_out = []
for pid in props:
    if pid in claimed:
        continue
    reason = na.get(pid, "not yet built: no registered check decides this property at this commit (see DESIGN.md section 5 for the plan)")
    na_out.append({"property_id": pid, "reason": reason})
# known findings: merge known.d/*.json fragments into the single committed file
known, fixed = [], []
for p in sorted(glob.glob(os.path.join(V, "known.d", "*.json"))):
    k = json.load(open(p))
    known += k.get("known", [])
    for f in k.get("fixed", []):
        f["line"] = "fixed: property=%s %s %s" % (f["property"], f["commit"], f["what"])
        fixed.append(f)
json.dump({"_comment": "generated from known.d/*.json by harness/mkmanifest.py; 'known' entries suppress the matching "
           "violation keys (fnmatch) and are printed as KNOWN-FINDING; 'fixed' entries suppress nothing",
           "known": known, "fixed": fixed}, open(os.path.join(V, "known_findings.json"), "w"), indent=1)
base["checks"] = checks
base["not_applicable"] = na_out
engines = {}
for c in checks:
    e = c.get("engine")
    if e:
        engines.setdefault(e, []).append(c["property_id"])
base["engines"] = [{"name": e, "path": "engines/ + tla/ (see DESIGN.md section 4)", "serves_properties": ps,
                    "kind_free_text": "TLA+ specification checked by TLC, bound to /repo by recorded-call / trace validation"}
                   for e, ps in sorted(engines.items())]
# X-series: specification coverage beyond the listed properties (ext.d/X*.json; run with ./check Xnn);
# they are not claims about listed properties, so they appear only in the engines list.
for p in sorted(glob.glob(os.path.join(V, "ext.d", "X*.json"))):
    x = json.load(open(p))
    base["engines"].append({"name": "%s %s" % (x["id"], x["title"]), "path": "engines/%s.py; ./check %s [--tier thorough]; evidence/ext/%s.json" % (x["id"].lower(), x["id"], x["id"]),
                            "serves_properties": x.get("related_properties", []),
                            "kind_free_text": "extension beyond the listed properties: " + x["statement"] + " -- " + x.get("technique", "")})
json.dump(base, open(os.path.join(V, "MANIFEST.json"), "w"), indent=1)
print("MANIFEST.json: %d checks, %d not_applicable" % (len(checks), len(na_out)))
try:
    import jsonschema  # noqa
    jsonschema.validate(base, json.load(open("/root/.vp/MANIFEST.schema.json")))
    print("schema ok")
except ImportError:
    pass
