"""Instruction-instance generator and observers for the m68k part of C08 / C07.

Python here only (a) enumerates instances of ppci.arch.m68k's instruction classes (every effective-address constructor
in every operand slot x every register in every register slot, candidate immediates / displacements / label
distances around the ends of the operand ranges TLC writes out of tla/M68k.tla, idiom G), (b) drives the real code --
Instruction.encode(), str(instruction), the instruction's own relocation, the assembler and the linker,
used_registers / defined_registers -- and records what it did, (c) tokenises printed text lexically (register name
D<n> / A<n> -> number is the only interpretation).  The verdicts, including which operand values and addressing modes
an instruction has, are TLC's (tla/M68k_Eval.tla over tla/M68k.tla)."""
import itertools
import os
import re
import subprocess

from . import asmgen
from . import decgen
from .decgen import LABEL

ISA = "m68k"
PLACE = 0x02000000
LAWS = {"map": ["LawOneLine", "LawEAField", "LawMaskReversal"], "op": ["LawReencode"], "ln": ["LawLine"], "mn": ["LawMnemonic"]}


# ---------------------------------------------------------------- idioms M and G
def laws_and_table(ctx, fams, deep, workers=8):
    out = os.path.join(ctx.workdir, "m68k_gen.json")
    invs = [i for f in fams for i in LAWS[f]]
    consts = [("Deep", "TRUE" if deep else "FALSE"), ("Fams", "{%s}" % ", ".join('"%s"' % f for f in fams))]
    _, table = decgen.run_laws(ctx, "M68k_MC", invs, consts,
                               "M: laws of M68k.tla on %s (+ G: operand range table)" % ("/".join(fams) or "-"), out=out, workers=workers)
    return {r["what"]: r for r in table}


# ---------------------------------------------------------------- lexer
_TOK = re.compile(r"\s*(?:\.([wlWL])\b|([A-Za-z_][A-Za-z_0-9]*)|([+-]?(?:0x[0-9a-fA-F]+|\d+))|(.))")


def tokenize(text):
    """'addl (-4, A3), D2' -> ('addl', [['(',0,''], ['i',-4,''], [',',0,''], ['a',3,'A3'], [')',0,''], [',',0,''],
    ['d',2,'D2']]).  Purely lexical; blanks are dropped; integers are read as 32-bit two's complement."""
    text = text.strip()
    m = re.match(r"^([A-Za-z_][A-Za-z_0-9.]*)", text)
    if not m:
        return None
    mn = m.group(1).lower()
    rest = text[m.end():]
    ops = []
    pos = 0
    while pos < len(rest):
        t = _TOK.match(rest, pos)
        if not t:
            break
        pos = t.end()
        if t.group(1):
            ops.append(["s", 0, t.group(1).lower()])
        elif t.group(2):
            w = t.group(2)
            r = re.match(r"^([dDaA])([0-7])$", w)
            if r:
                ops.append([r.group(1).lower(), int(r.group(2)), w])
            elif w.lower() == "sp":
                ops.append(["a", 7, w])
            elif w.lower() == "pc":
                ops.append(["p", 0, w])
            elif w.startswith("L_"):
                ops.append(["l", 0, w])
            else:
                ops.append(["x", 0, w])
        elif t.group(3):
            lit = t.group(3)
            v = decgen.signed32(int(lit, 16) if "x" in lit.lower() else int(lit, 10))
            if v is None:
                return None
            ops.append(["i", v, ""])
        else:
            ch = t.group(4)
            if ch in " \t":
                continue
            ops.append([ch, 0, ""] if ch in "(),#+-" else ["x", 0, ch])
    return mn, ops


# ---------------------------------------------------------------- classes
def isa_classes():
    from ppci.api import get_arch
    from ppci.arch.m68k import instructions as M
    out, seen = [], set()
    for c in get_arch("m68k").isa.instructions:
        if getattr(c, "syntax", None) is None or id(c) in seen or c.__module__ != M.__name__:
            continue
        seen.add(id(c))
        out.append((c.__name__, c))
    return out


def _kind(c):
    from ppci.arch.m68k.registers import DataRegister, AddressRegister
    if c is DataRegister:
        return "d"
    if c is AddressRegister:
        return "a"
    if c is int:
        return "i"
    if c is str:
        return "l"
    if isinstance(c, tuple):
        return "E"
    return "?"


def slots(cls):
    """Operand slots in constructor order: [(name, kind, alternatives)], kind d a i l, or E (a tuple of constructors)."""
    return [(a._name, _kind(a._cls), a._cls if isinstance(a._cls, tuple) else None) for a in cls.syntax.formal_arguments]


def reg(kind, n):
    from ppci.arch.m68k.registers import DataRegister, AddressRegister
    regs = (DataRegister if kind == "d" else AddressRegister).registers
    return regs[n % len(regs)]


def nregs(kind):
    from ppci.arch.m68k.registers import DataRegister, AddressRegister
    return len((DataRegister if kind == "d" else AddressRegister).registers)


def leaves(cls, choice):
    """Leaf operand paths of a class for a choice {slot: constructor}: [(path, kind)], path = (slot,) or (slot, sub)."""
    out = []
    for n, k, alts in slots(cls):
        if k == "E":
            for sn, sk, _ in slots(choice[n]):
                out.append(((n, sn), sk))
        else:
            out.append(((n,), k))
    return out


def build(cls, choice, values):
    args = []
    for n, k, alts in slots(cls):
        if k == "E":
            con = choice[n]
            args.append(con(*[values[(n, sn)] for sn, _, _ in slots(con)]))
        else:
            args.append(values[(n,)])
    return cls(*args)


def enumerate_instances(cname, cls, table, rng, thorough):
    """[{choice, values, sym, place, tag}] for one class."""
    sl = slots(cls)
    if any(k == "?" for _, k, _ in sl):
        return []
    eslots = [(n, alts) for n, k, alts in sl if k == "E"]
    out = []
    imm_all = sorted(set(v for w in ("imm.b", "imm.w", "imm.l", "moveq") for v in decgen.boundary(table[w]["lo"], table[w]["hi"], 1)))
    for combo in itertools.product(*[alts for _, alts in eslots]):
        choice = {n: c for (n, _), c in zip(eslots, combo)}
        ctag = "/".join(c.__name__ for c in combo) or "-"
        lv = leaves(cls, choice)
        regs = [(p, k) for p, k in lv if k in "da"]
        ints = [p for p, k in lv if k == "i"]
        labs = [p for p, k in lv if k == "l"]
        pool = [1, 2, 3, 4, 5]

        def base():
            v = {}
            for j, (p, k) in enumerate(lv):
                v[p] = reg(k, pool[j % 5]) if k in "da" else 4 if k == "i" else LABEL
            return v

        def add(vals, tag, sym=None, place=PLACE):
            if labs and sym is None:
                sym = place + 2 + 0x40
            out.append({"choice": choice, "values": dict(vals), "sym": sym or 0, "place": place, "tag": "%s:%s" % (ctag, tag)})

        b = base()
        add(b, "base")
        for p, k in regs:
            for r in range(nregs(k)):
                x = dict(b)
                x[p] = reg(k, r)
                add(x, "%s:sweep" % ".".join(p))
        if len(regs) > 1:
            for r in range(8):
                x = dict(b)
                for p, k in regs:
                    x[p] = reg(k, r)
                add(x, "diag")
        for p in ints:
            con = choice.get(p[0])
            cn = con.__name__ if con else ""
            if cn.startswith("AddressOffset"):
                cand = decgen.boundary(table["d16"]["lo"], table["d16"]["hi"], 1)
            elif cn.startswith("AbsNear"):
                cand = decgen.boundary(table["absw"]["lo"], table["absw"]["hi"], 1)
            else:
                cand = imm_all
            if not thorough:
                cand = cand if cname in QUICK_FULL else cand[::3] + [cand[-1]]
            else:
                cand = sorted(set(cand) | {rng.randrange(-40000, 70000) for _ in range(10)})
            for v in cand:
                x = dict(b)
                x[p] = v
                add(x, "%s:value" % ".".join(p))
        if labs:
            branch = not eslots
            cand = decgen.boundary(table["pcd"]["lo"], table["pcd"]["hi"], 1) + [126, 127, 128, 129, -126, -127, -128, -129, -130]
            if branch:
                cand += [1 << 24, -(1 << 24), (1 << 30) + 2, 0x7D000000, -PLACE, -PLACE - 2]
            if thorough:
                cand += [rng.randrange(-70000, 70000) for _ in range(12)]
            for place in (PLACE, PLACE + 2):
                for v in sorted(set(cand)):
                    if 0 <= place + 2 + v < (1 << 31):
                        add(b, "%s:dist:p%d" % (".".join(labs[0]), place % 4), sym=place + 2 + v, place=place)
        if thorough and len(regs) > 1:
            doms = [range(nregs(k)) for _, k in regs]
            combos = list(itertools.product(*doms)) if len(regs) <= 2 else [tuple(rng.randrange(len(d)) for d in doms) for _ in range(100)]
            for cmb in combos:
                x = dict(b)
                for (p, k), r in zip(regs, cmb):
                    x[p] = reg(k, r)
                add(x, "regs")
    return out


# classes whose immediates are instantiated with every candidate value in the quick tier too (one per operand size / shape)
QUICK_FULL = {"Addb", "Addw", "Addl", "Moveq", "Movew", "Lea", "Eorb", "Cmpl"}


# ---------------------------------------------------------------- observers / records
class AsmRig(asmgen.AsmRig):
    def get(self, which):
        if which not in self.arch:
            from ppci.api import get_arch
            self.arch[which] = get_arch("m68k")
        return self.arch[which]


def instances(table, rng, thorough, skipped):
    for cname, cls in isa_classes():
        seen = set()
        for inst in enumerate_instances(cname, cls, table, rng, thorough):
            try:
                ins = build(cls, inst["choice"], inst["values"])
                text = str(ins)
            except Exception as e:
                k = "%s:%s" % (cname, type(e).__name__)
                skipped[k] = skipped.get(k, 0) + 1
                continue
            sig = (text, inst["sym"], inst["place"])
            if sig in seen:
                continue
            seen.add(sig)
            yield cname, inst, ins, text


def enc_records(prop, table, rng, thorough, paths=("enc",), rig=None):
    recs = []
    skipped = {}
    for cname, inst, ins, text in instances(table, rng, thorough, skipped):
        t = tokenize(text)
        if t is None:
            skipped["%s:not tokenisable" % cname] = skipped.get("%s:not tokenisable" % cname, 0) + 1
            continue
        haslab = LABEL in text
        suffix = "@%+d/%d" % (inst["sym"] - inst["place"], inst["place"] % 4) if haslab else ""
        for path in paths:
            if path == "enc":
                out = decgen.observe_encode(ins, inst["sym"] if haslab else None, inst["place"])
            elif haslab:
                out = rig.observe_link(ISA, text, inst["place"], inst["sym"])
            else:
                out = rig.observe_asm(ISA, text)
            recs.append({"t": "enc", "key": "%s:%s:%s:%s:%s:%s%s" % (prop, ISA, cname, path, inst["tag"], text, suffix), "mn": t[0],
                         "ops": t[1], "sym": inst["sym"], "pc": inst["place"], "out": out, "text": text, "cls": cname, "tag": inst["tag"]})
    return recs, skipped


_RNAME = re.compile(r"^([DA])([0-7])$")


def _nums(regs):
    out = []
    for r in regs:
        m = _RNAME.match(str(r))
        if m:
            out.append(int(m.group(2)) + (8 if m.group(1) == "A" else 0))
    return out


def rw_records(prop, table, rng, thorough):
    """Records (t = 'rw'): bytes of every instance ppci encodes + the register sets ppci declares."""
    recs = []
    skipped = {}
    for cname, inst, ins, text in instances(table, rng, thorough, skipped):
        if ":value" in inst["tag"] or ":dist" in inst["tag"]:
            continue  # the register sets do not depend on immediates / distances: the base instance stands for them
        try:
            uses = _nums(ins.used_registers)
            defs = _nums(ins.defined_registers)
            clob = _nums(getattr(ins, "clobbers", []))
        except Exception as e:
            skipped["%s:%s" % (cname, type(e).__name__)] = skipped.get("%s:%s" % (cname, type(e).__name__), 0) + 1
            continue
        out = decgen.observe_encode(ins, inst["sym"] if LABEL in text else None, inst["place"])
        if not out["ok"] or not out["bytes"]:
            skipped["%s:not encodable" % cname] = skipped.get("%s:not encodable" % cname, 0) + 1
            continue
        t = tokenize(text)
        if t is None:
            continue
        recs.append({"t": "rw", "key": "%s:%s:%s:%s:%s" % (prop, ISA, cname, inst["tag"], text), "mn": t[0], "ops": t[1],
                     "sym": inst["sym"], "pc": inst["place"], "bytes": out["bytes"], "uses": uses,
                     "defs": defs, "clob": clob, "text": text, "cls": cname, "tag": inst["tag"]})
    return recs, skipped


# ---------------------------------------------------------------- spec validation against llvm-mc
LLVM_MC = "/usr/bin/llvm-mc-14"


def disassemble(byte_lists):
    """llvm-mc --disassemble --triple=m68k --show-encoding, one atomic [..] block per byte string.
    [text | None]: the text when the whole byte string is exactly one instruction for the reference and its own
    re-encoding gives the bytes back (LLVM 14 swaps the words of long immediates), else None."""
    text = "".join("[" + " ".join("0x%02x" % v for v in b) + "]\n" for b in byte_lists)
    p = subprocess.run([LLVM_MC, "--disassemble", "--triple=m68k", "--show-encoding"], input=text, capture_output=True, text=True,
                       timeout=900)
    covered = {}  # block number -> bytes decoded before the first invalid encoding
    for m in re.finditer(r"<stdin>:(\d+):(\d+): warning: invalid instruction encoding", p.stderr):
        n, col = int(m.group(1)), int(m.group(2))
        covered.setdefault(n, (col - 2) // 5)
    lines = []
    for ln in p.stdout.splitlines():
        m = re.match(r"^\s*(.*?)\s*; encoding: \[(.*)\]\s*$", ln)
        if m:
            lines.append((" ".join(m.group(1).replace("\t", " ").split()), [int(x, 16) for x in m.group(2).split(",")]))
    res, k = [], 0
    for n, b in enumerate(byte_lists, start=1):
        want = covered.get(n, len(b))
        got, first = 0, k
        while got < want and k < len(lines):
            got += len(lines[k][1])
            k += 1
        if got != want:
            return None  # output cannot be aligned with the input
        whole = n not in covered and k - first == 1 and lines[first][1] == list(b)
        res.append(lines[first][0] if whole else None)
    return res if k == len(lines) else None


def ref_records(byte_lists):
    """Records (t = 'enc') whose printed text is llvm-mc's disassembly (Motorola syntax: %d1, (8,%a3), #5, $8 for a
    branch displacement; 16-bit displacements are printed unsigned): the clause RefAgrees then compares the
    specification with the reference disassembler."""
    dis = disassemble(byte_lists)
    if dis is None:
        return None
    recs = []
    for b, text in zip(byte_lists, dis):
        if text is None:
            continue  # LLVM 14's m68k decoder covers a subset only: a rejection says nothing
        norm = re.sub(r"\((\d+),", lambda m: "(%d," % (int(m.group(1)) - 65536 if int(m.group(1)) >= 32768 else int(m.group(1))),
                      text.replace("%", ""))
        t = tokenize(re.sub(r"\$([0-9a-fA-F]+)", r"0x\1", norm))
        if t is None:
            continue
        mn, ops = t
        sym = 0
        if mn.startswith(("b", "db")) and ops and ops[-1][0] == "i" and (len(ops) == 1 or ops[-2][0] == ","):
            v = ops[-1][1]
            if len(b) == 2 and v >= 128:
                v -= 256
            elif len(b) == 4 and v >= 32768:
                v -= 65536
            sym = PLACE + 2 + v  # the reference prints the displacement from the extension word / pc + 2
            ops[-1] = ["l", 0, "L_ref"]
        recs.append({"t": "enc", "mn": mn, "ops": ops, "sym": sym, "pc": PLACE, "out": {"ok": True, "exc": "", "bytes": list(b)},
                     "text": text, "key": bytes(b).hex()})
    return recs


def llvm_crosscheck(ctx, byte_lists, limit=40000):
    if not os.path.exists(LLVM_MC):
        ctx.note("llvm-mc-14 not installed: M68k.tla not cross-checked")
        return
    uniq = sorted({tuple(b) for b in byte_lists if b and len(b) % 2 == 0})[:limit]
    recs = ref_records([list(b) for b in uniq]) if uniq else None
    if not recs:
        ctx.note("llvm-mc output could not be aligned with its input: M68k.tla not cross-checked")
        return
    verdicts = decgen.judge(ctx, "M68k_Eval", recs, ["SyntaxKnown", "InDomain", "RefAgrees"],
                            "spec validation: M68k.Decode against llvm-mc --triple=m68k", drop=("key", "text"))
    ctx.cov["traces_validated_against_impl"] -= len(recs)
    unknown = sum(1 for _, c in verdicts if c in ("SyntaxKnown", "InDomain"))
    differ = [(r, c) for r, c in verdicts if c == "RefAgrees"]
    for r, _ in differ[:20]:
        print("SPEC-SUSPECT property=%s case=m68k-bytes:%s specification differs from llvm-mc=%r" % (ctx.prop, r["key"], r["text"]))
    ctx.note("spec validation (m68k): of %d byte strings llvm-mc-14 --triple=m68k disassembles %d (its decoder covers a subset "
             "of the MC68000 instructions); M68k.Decode agrees on %d, %d are printed in a syntax not compared, %d differ" % (
                 len(uniq), len(recs), len(recs) - unknown - len(differ), unknown, len(differ)))
    ctx.cov.setdefault("spec_validation_m68k", {}).update(
        {"reference": "llvm-mc-14 --disassemble --triple=m68k", "byte_strings": len(uniq), "disassembled_by_reference": len(recs),
         "agree": len(recs) - unknown - len(differ), "not_compared": unknown, "differ": len(differ)})


def reference_corpus(rng):
    """Byte strings beyond what ppci emitted: operation words x extension words."""
    out = []
    for op in range(0, 65536, 7):
        out.append([op >> 8, op & 255])
        out.append([op >> 8, op & 255, 0x00, 0x08])
        out.append([op >> 8, op & 255, 0x12, 0x34, 0x56, 0x78])
    return out


# ---------------------------------------------------------------- the m68k parts of the engines C08 / C07
def c08_part(ctx, thorough):
    """C08 for ppci.arch.m68k.  Returns True when a replay was this part's."""
    mine = decgen.mine(ctx, "C08", ISA)
    if mine is False:
        return False
    ctx.assume("m68k: lexical tokenisation of the printed text (harness/m68kgen.py: tokenize), register names D<n> / A<n> -> "
               "numbers, integers read as 32-bit two's complement; the mnemonic's last letter b / w / l is the operation size; "
               "M68000 family manual incl. the MC68020 32-bit branch displacement (displacement field $FF); a byte / word "
               "immediate is compared as its bit pattern; for label operands the harness resolves the label to an address it chose")
    ctx.cov["rule_m68k"] = (
        "every concrete instruction class of get_arch('m68k').isa x every effective-address constructor in every operand slot "
        "(7 source forms x 3 move destinations) x {each register slot swept over D0..D7 / A0..A6, diagonal, candidate "
        "immediates / displacements / absolute addresses around both ends of the operand ranges TLC writes out of M68k.tla "
        "(byte, word, long, d16, (xxx).W, moveq), label distances around the byte / word displacement limits and far ones "
        "from two placements}; bytes = encode() (+ own relocation applied; thorough: also assembler + linker on the printed "
        "text, register pairs, seeded random values); TLC: operand in range and addressing mode legal (WF) => "
        "Core(Decode(bytes)) = Core(Norm(Asm(printed text))); distinct = distinct (class, path, printed text, displacement)")
    if mine is None:
        table = laws_and_table(ctx, ["map", "op", "ln", "mn"], thorough)
    else:
        table = laws_and_table(ctx, [], False, workers=2)
    rng = decgen.rng(ctx, 31)
    rig = AsmRig() if thorough else None
    recs, skipped = enc_records("C08", table, rng, thorough, paths=("enc", "asm") if thorough else ("enc",), rig=rig)
    if skipped:
        ctx.note("m68k: instances not built / printed: %s" % ", ".join("%s x%d" % kv for kv in sorted(skipped.items())))
    recs = decgen.restrict(ctx, recs)
    for r in recs:
        ctx.count(r["key"])
    for r in recs[:: max(1, len(recs) // 3)][:3]:
        ctx.sample({"key": r["key"], "bytes": r["out"]["bytes"]})
    verdicts = decgen.judge(ctx, "M68k_Eval", recs, ["SyntaxKnown", "InDomain", "EncodingAgrees"], "E: C08 records (m68k)")
    unknown = outdom = 0
    for rec, clause in verdicts:
        if clause == "SyntaxKnown":
            unknown += 1
        elif clause == "InDomain":
            outdom += 1
        else:
            ctx.violation(rec["key"], "m68k: bytes %s do not decode to the printed '%s' [clause %s]" % (
                bytes(rec["out"]["bytes"]).hex(), rec["text"], clause), {"record": dict(rec), "clause": clause})
    rejected = sum(1 for r in recs if not r["out"]["ok"])
    ctx.note("m68k: %d instance(s) judged; %d rejected by ppci (exception at encode / relocation: no bytes, no verdict here); "
             "%d accepted by ppci with an operand value outside the instruction's range or an addressing mode the instruction "
             "does not have (e.g. lea D1, A0; moveq #200; a byte operation on an address register: C10's question, not judged "
             "here); %d printed in a syntax outside the modelled assembly (no verdict)" % (len(recs), rejected, outdom, unknown))
    if thorough and mine is None:
        llvm_crosscheck(ctx, [r["out"]["bytes"] for r in recs if r["out"]["ok"]] + reference_corpus(rng))
    return mine is True


C07_WHAT = {"StaticWrites": "writes a register it does not declare as written or clobbered",
            "StaticReads": "reads a register it does not declare as read"}


def c07_part(ctx, thorough):
    """C07 for ppci.arch.m68k: the register sets of the emitted instruction against the declared ones."""
    mine = decgen.mine(ctx, "C07", ISA)
    if mine is False:
        return False
    ctx.assume("m68k: declared registers are read by their printed name D<n> / A<n>; the condition codes, the program counter "
               "and the stack pointer A7 (not a register object of ppci.arch.m68k) are fixed implicit state; a byte / word "
               "write of a data register is a write, not a read")
    ctx.cov["rule_m68k"] = (
        "every concrete instruction class of get_arch('m68k').isa x every effective-address constructor in every operand slot x "
        "{register sweeps D0..D7 / A0..A6 per slot, diagonal}; ppci supplies the bytes and used_registers / defined_registers / "
        "clobbers; TLC decodes the bytes (M68k.Decode) and decides Writes \\ {A7} within declared writes + clobbers, "
        "Reads \\ {A7} within declared reads; distinct = distinct (class, effective-address forms, printed text)")
    table = laws_and_table(ctx, ["map"] if mine is None else [], thorough, workers=8 if mine is None else 2)
    rng = decgen.rng(ctx, 32)
    recs, skipped = rw_records("C07", table, rng, thorough)
    n = sum(v for k, v in skipped.items() if k.endswith("not encodable"))
    if n:
        ctx.note("m68k: %d instance(s) without bytes (not encodable), not judged" % n)
    recs = decgen.restrict(ctx, recs)
    for r in recs:
        ctx.count(r["key"])
    for r in recs[:: max(1, len(recs) // 3)][:3]:
        ctx.sample({k: r[k] for k in ("key", "bytes", "uses", "defs", "clob")})
    verdicts = decgen.judge(ctx, "M68k_Eval", recs, ["Decodable", "StaticWrites", "StaticReads"], "E: C07 records (m68k)")
    undec = 0
    for rec, clause in verdicts:
        if clause == "Decodable":
            undec += 1
            continue
        ctx.violation("%s::%s" % (rec["key"], clause), "m68k: '%s' (%s) %s; declared reads %s writes %s clobbers %s [clause %s]" % (
            rec["text"], bytes(rec["bytes"]).hex(), C07_WHAT[clause], rec["uses"], rec["defs"], rec["clob"], clause),
            {"record": dict(rec), "clause": clause})
    if undec:
        ctx.note("m68k: %d instance(s) whose bytes are not the printed instruction (an addressing mode the instruction does not "
                 "have, sub* encoded as add*, a truncated long immediate): no register sets to compare (C08 / C10 judge them)" % undec)
    return mine is True
