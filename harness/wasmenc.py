"""Independent binary encoder: abstract module (schema of harness/project_wasm.py) -> WebAssembly binary,
written from the binary-format chapter of the core specification (no ppci code involved).
Used to hand generated modules to the reference engine (node) and as the 'reference assembler' of C21.
Integers are encoded canonically (shortest LEB128)."""

VALTYPE = {"i32": 0x7F, "i64": 0x7E, "f32": 0x7D, "f64": 0x7C, "funcref": 0x70, "externref": 0x6F}

_NUM = {}
for _k, _name in enumerate(["eqz", "eq", "ne", "lt_s", "lt_u", "gt_s", "gt_u", "le_s", "le_u", "ge_s", "ge_u"]):
    _NUM["i32." + _name] = 0x45 + _k
    _NUM["i64." + _name] = 0x50 + _k
for _k, _name in enumerate(["clz", "ctz", "popcnt", "add", "sub", "mul", "div_s", "div_u", "rem_s", "rem_u", "and",
                            "or", "xor", "shl", "shr_s", "shr_u", "rotl", "rotr"]):
    _NUM["i32." + _name] = 0x67 + _k
    _NUM["i64." + _name] = 0x79 + _k
_NUM.update({"i32.wrap_i64": 0xA7, "i64.extend_i32_s": 0xAC, "i64.extend_i32_u": 0xAD,
             "i32.extend8_s": 0xC0, "i32.extend16_s": 0xC1, "i64.extend8_s": 0xC2, "i64.extend16_s": 0xC3,
             "i64.extend32_s": 0xC4})
_MEM = {"i32.load": 0x28, "i64.load": 0x29, "i32.load8_s": 0x2C, "i32.load8_u": 0x2D, "i32.load16_s": 0x2E,
        "i32.load16_u": 0x2F, "i64.load8_s": 0x30, "i64.load8_u": 0x31, "i64.load16_s": 0x32, "i64.load16_u": 0x33,
        "i64.load32_s": 0x34, "i64.load32_u": 0x35, "i32.store": 0x36, "i64.store": 0x37, "i32.store8": 0x3A,
        "i32.store16": 0x3B, "i64.store8": 0x3C, "i64.store16": 0x3D, "i64.store32": 0x3E}
_SIMPLE = {"unreachable": 0x00, "nop": 0x01, "else": 0x05, "end": 0x0B, "return": 0x0F, "drop": 0x1A, "select": 0x1B}


def uleb(v):
    out = bytearray()
    while True:
        b = v & 0x7F
        v >>= 7
        if v:
            out.append(b | 0x80)
        else:
            out.append(b)
            return bytes(out)


def sleb(v):
    out = bytearray()
    while True:
        b = v & 0x7F
        v >>= 7
        if (v == 0 and not b & 0x40) or (v == -1 and b & 0x40):
            out.append(b)
            return bytes(out)
        out.append(b | 0x80)


def _signed(lb):
    n = len(lb)
    v = sum(b << (8 * k) for k, b in enumerate(lb))
    return v - (1 << (8 * n)) if v >> (8 * n - 1) else v


def _unsigned(lb):
    return sum(b << (8 * k) for k, b in enumerate(lb))


def vec(items):
    return uleb(len(items)) + b"".join(items)


def name(s):
    b = s.encode("utf-8")
    return uleb(len(b)) + b


def blocktype(bt):
    if bt["k"] == "empty":
        return b"\x40"
    if bt["k"] == "val":
        return bytes([VALTYPE[bt["ty"]]])
    return sleb(bt["x"])


def instr(i):
    op = i["op"]
    if op in ("i32.const", "i64.const"):
        return bytes([0x41 if op == "i32.const" else 0x42]) + sleb(_signed(i["v"]))
    if op in _SIMPLE:
        return bytes([_SIMPLE[op]])
    if op in _NUM:
        return bytes([_NUM[op]])
    if op in _MEM:
        return bytes([_MEM[op]]) + uleb(i["align"]) + uleb(_unsigned(i["off"]))
    if op in ("block", "loop", "if"):
        return bytes([{"block": 2, "loop": 3, "if": 4}[op]]) + blocktype(i["bt"])
    if op in ("br", "br_if"):
        return bytes([0x0C if op == "br" else 0x0D]) + uleb(i["l"])
    if op == "br_table":
        return b"\x0e" + vec([uleb(x) for x in i["ls"]]) + uleb(i["d"])
    if op == "call":
        return b"\x10" + uleb(i["x"])
    if op == "call_indirect":
        return b"\x11" + uleb(i["type"]) + uleb(i["table"])
    if op in ("local.get", "local.set", "local.tee", "global.get", "global.set"):
        return bytes([{"local.get": 0x20, "local.set": 0x21, "local.tee": 0x22, "global.get": 0x23,
                       "global.set": 0x24}[op]]) + uleb(i["x"])
    if op == "memory.size":
        return b"\x3f\x00"
    if op == "memory.grow":
        return b"\x40\x00"
    raise ValueError("cannot encode " + op)


def expr(ins_list):
    return b"".join(instr(i) for i in ins_list) + b"\x0b"


def limits(mn, mx):
    return (b"\x00" + uleb(mn)) if mx < 0 else (b"\x01" + uleb(mn) + uleb(mx))


def section(sid, payload):
    return bytes([sid]) + uleb(len(payload)) + payload


def _locals(tys):
    groups = []
    for t in tys:
        if groups and groups[-1][1] == t:
            groups[-1][0] += 1
        else:
            groups.append([1, t])
    return vec([uleb(n) + bytes([VALTYPE[t]]) for n, t in groups])


def encode(m):
    out = bytearray(b"\x00asm\x01\x00\x00\x00")
    if m["types"]:
        out += section(1, vec([b"\x60" + vec([bytes([VALTYPE[p]]) for p in t["params"]])
                               + vec([bytes([VALTYPE[r]]) for r in t["results"]]) for t in m["types"]]))
    if m["imports"]:
        out += section(2, vec([name(i["mod"]) + name(i["name"]) + b"\x00" + uleb(i["type"]) for i in m["imports"]]))
    if m["funcs"]:
        out += section(3, vec([uleb(f["type"]) for f in m["funcs"]]))
    if m["tables"]:
        out += section(4, vec([bytes([VALTYPE[t.get("kind", "funcref")]]) + limits(t["min"], t["max"])
                               for t in m["tables"]]))
    if m["mems"]:
        out += section(5, vec([limits(x["min"], x["max"]) for x in m["mems"]]))
    if m["globals"]:
        out += section(6, vec([bytes([VALTYPE[g["ty"]], 1 if g["mut"] else 0]) + expr(g["init"])
                               for g in m["globals"]]))
    if m["exports"]:
        kinds = {"func": 0, "table": 1, "memory": 2, "global": 3}
        out += section(7, vec([name(e["name"]) + bytes([kinds[e["kind"]]]) + uleb(e["idx"]) for e in m["exports"]]))
    if m["start"] >= 0:
        out += section(8, uleb(m["start"]))
    if m["elems"]:
        out += section(9, vec([b"\x00" + expr(e["offset"]) + vec([uleb(x) for x in e["refs"]]) for e in m["elems"]]))
    if m["funcs"]:
        codes = []
        for f in m["funcs"]:
            body = _locals(f["locals"]) + expr(f["body"])
            codes.append(uleb(len(body)) + body)
        out += section(10, vec(codes))
    if m["datas"]:
        out += section(11, vec([b"\x00" + expr(d["offset"]) + uleb(len(d["bytes"])) + bytes(d["bytes"])
                                for d in m["datas"]]))
    return bytes(out)
