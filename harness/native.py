"""Native execution of ppci's x86-64 code on the host CPU (engines C04, C05, C40).

Everything that runs generated machine code runs in a *subprocess* (a gcc-built launcher that forks one
child per execution, with CPU-time and wall-clock limits), in a scratch directory made with
tempfile.mkdtemp() and removed afterwards.  A crash (SIGSEGV, SIGFPE, time limit) is an *observation*
("error:SIGSEGV"), never a harness failure.  Nothing here judges anything: the functions build artefacts,
run them and write down what happened as records for TLC.

Vocabulary
  signature  {"fn", "ret": IR type name | "", "params": [IR type], "externs": [{"name","ret","args"}],
              "globals": [[name, size]]}          (from a projected IR module: sig_of)
  unit       one relocatable object (ppci, x86_64) + the signature of the function under test + argument
             vectors + stub table; symbols of the object carry the unit's prefix so that many units can be
             linked into one executable.
  observation (one per unit and argument vector)
             {"outcome": "ok" | "error:<what>", "ret": [byte limbs] (width of the IR return type; [] for a
              procedure or when there is no result), "exit": exit status of the process (-1 if none),
              "globals": [{"name","bytes"}], "calls": [{"name","args":[[limbs]...]}]}
"""
import hashlib
import io
import os
import re
import shutil
import signal
import subprocess
import tempfile
from concurrent.futures import ThreadPoolExecutor

from .watchdog import limited

CT = {"i8": "signed char", "u8": "unsigned char", "i16": "short", "u16": "unsigned short", "i32": "int",
      "u32": "unsigned int", "i64": "long long", "u64": "unsigned long long"}
NBYTES = {"i8": 1, "u8": 1, "i16": 2, "u16": 2, "i32": 4, "u32": 4, "i64": 8, "u64": 8}
GCC = "gcc"
COMPILE_LIMIT_S = 180    # per call into ppci's code generator (a changed tree may loop; normal: well under a second)
CHILD_CPU_S = 4          # CPU seconds per execution (a defined execution needs microseconds)
CHILD_WALL_S = 60        # wall-clock back-stop per execution (the machine is shared and may be heavily loaded)
THREADS = 8

# ---------------------------------------------------------------------------------------------------
# C text shared by the gcc-compiled and the ppci-compiled driver (kept inside ppci's C subset)
# ---------------------------------------------------------------------------------------------------
PRELUDE = r"""
void bsp_write(char *p, long n);
void bsp_exit(int code);
static char obuf[2100];
static int opos;
static int ototal;
static void oflush(void) { if (opos > 0) { bsp_write(obuf, opos); } opos = 0; }
static void putch(int c) {
  if (opos >= 2000) {
    ototal = ototal + opos;
    oflush();
    if (ototal > 60000) { bsp_write("\n@X output-overflow\n", 20); bsp_exit(97); }
  }
  obuf[opos] = c;
  opos = opos + 1;
}
static void putstr(char *s) { while (*s) { putch(*s); s = s + 1; } }
static void puthex(unsigned long long v, int nbytes) {
  int i;
  for (i = nbytes * 2 - 1; i >= 0; i = i - 1) {
    int d = (int)((v >> (i * 4)) & 15);
    if (d < 10) { putch('0' + d); } else { putch('a' + d - 10); }
  }
}
"""

GCC_BSP = r"""
#include <unistd.h>
void bsp_write(char *p, long n) { long k = 0; while (k < n) { long w = write(1, p + k, n - k); if (w <= 0) break; k += w; } }
void bsp_exit(int code) { _exit(code); }
"""

GCC_MAIN = r"""
#include <stdio.h>
#include <stdlib.h>
#include <sys/wait.h>
#include <sys/resource.h>
typedef int (*runfn_t)(int);
struct unit_t { runfn_t run; void *present; int id; int nvec; };
static struct unit_t units[] = {
%(table)s
  {0, 0, 0, 0}
};
int main(void) {
  int u, v;
  for (u = 0; units[u].run; u++) {
    if (!units[u].present) continue;
    for (v = 0; v < units[u].nvec; v++) {
      printf("@B %%d %%d\n", units[u].id, v); fflush(stdout);
      pid_t p = fork();
      if (p == 0) {
        struct rlimit rl; rl.rlim_cur = %(cpu)d; rl.rlim_max = %(cpu)d + 1; setrlimit(RLIMIT_CPU, &rl);
        rl.rlim_cur = rl.rlim_max = 0; setrlimit(RLIMIT_CORE, &rl);
        alarm(%(wall)d);
        int st = units[u].run(v);
        _exit(st & 255);
      }
      int ws = 0; waitpid(p, &ws, 0);
      if (WIFEXITED(ws)) printf("\n@E %%d %%d exit %%d\n", units[u].id, v, WEXITSTATUS(ws));
      else printf("\n@E %%d %%d sig %%d\n", units[u].id, v, WTERMSIG(ws));
      fflush(stdout);
    }
  }
  return 0;
}
"""

# launcher for stand-alone executables (ppci-linked static ELF files): same framing of the output
LAUNCHER = r"""
#include <stdio.h>
#include <stdlib.h>
#include <string.h>
#include <unistd.h>
#include <sys/wait.h>
#include <sys/resource.h>
int main(int argc, char **argv) {
  FILE *f = fopen(argv[1], "r");
  char exe[512], arg[64]; int u, v;
  if (!f) return 2;
  while (fscanf(f, "%%d %%d %%500s %%60s", &u, &v, exe, arg) == 4) {
    printf("@B %%d %%d\n", u, v); fflush(stdout);
    pid_t p = fork();
    if (p == 0) {
      struct rlimit rl; rl.rlim_cur = %(cpu)d; rl.rlim_max = %(cpu)d + 1; setrlimit(RLIMIT_CPU, &rl);
      rl.rlim_cur = rl.rlim_max = 0; setrlimit(RLIMIT_CORE, &rl);
      alarm(%(wall)d);
      execl(exe, exe, arg, (char *)0);
      printf("\n@X exec-failed\n"); fflush(stdout);
      _exit(126);
    }
    int ws = 0; waitpid(p, &ws, 0);
    if (WIFEXITED(ws)) printf("\n@E %%d %%d exit %%d\n", u, v, WEXITSTATUS(ws));
    else printf("\n@E %%d %%d sig %%d\n", u, v, WTERMSIG(ws));
    fflush(stdout);
  }
  return 0;
}
"""

# start-up code and layout for the executables that ppci's own linker builds (after examples/linux64/glue.asm,
# linux64.mmap and test/samples/test_samples_on_linux64.py: entry symbol, code at 0x40000, data in its own
# segment, Linux system calls 1 = write and 60 = exit).  argc/argv are taken from the initial stack.
CRT0 = """
section code
global main
global start
global bsp_write
global bsp_exit
start:
    mov rdi, [rsp]
    lea rsi, [rsp, 8]
    call main
    mov rdi, rax
    mov rax, 60
    syscall
bsp_exit:
    mov rax, 60
    syscall
bsp_write:
    mov rdx, rsi
    mov rsi, rdi
    mov rdi, 1
    mov rax, 1
    syscall
    ret
"""
MMAP = """
ENTRY(start)
MEMORY code LOCATION=0x40000 SIZE=0x100000 {
    SECTION(code)
}
MEMORY ram LOCATION=0x20000000 SIZE=0x100000 {
    SECTION(data)
}
"""


def limbs_of_hex(h):
    """'0a0b' (most significant digit first) -> little-endian byte limbs."""
    return [int(h[k:k + 2], 16) for k in range(len(h) - 2, -1, -2)]


def c_lit(v, t):
    """A C constant expression whose value, converted to the C type of IR type t, is the word v (Python int,
    any representative): in range of the type, so that no out-of-range conversion is involved."""
    bits = 8 * NBYTES[t]
    v &= (1 << bits) - 1
    if t[0] == "i":
        if v >> (bits - 1):
            v -= 1 << bits
        if v == -(1 << 63):
            return "(-9223372036854775807LL - 1)"
        if v == -(1 << 31):
            return "(-2147483647 - 1)"
        return "%d%s" % (v, "LL" if abs(v) >= (1 << 31) else "") if v >= 0 else "(%d%s)" % (v, "LL" if abs(v) >= (1 << 31) else "")
    return "%d%s" % (v, "ULL" if v >= (1 << 32) else "U")


def word_int(w):
    return sum(b << (8 * k) for k, b in enumerate(w))


# ---------------------------------------------------------------------------------------------------
# signatures
# ---------------------------------------------------------------------------------------------------
def sig_of(pm, fn):
    """Signature of function fn of a projected module, or (None, reason) if the driver cannot call it."""
    fi = [f for f in pm["funcs"] if f["name"] == fn]
    if not fi:
        return None, "no such function"
    f = fi[0]
    ptys = [p["ty"] for p in f["params"]]
    if any(t not in CT for t in ptys) or (f["ret"] not in CT and f["ret"] != ""):
        return None, "non-integer signature"
    ext = []
    for g in pm["globals"]:
        if g["k"] == "xfn":
            if any(t not in CT for t in g["args"]) or (g["ret"] not in CT and g["ret"] != ""):
                return None, "non-integer external"
            ext.append({"name": g["name"], "ret": g["ret"], "args": list(g["args"])})
        elif g["k"] == "xvar":
            return None, "external variable"
    # (variables whose initial value contains addresses - function pointer tables - are not reported: the native
    # address differs from the pseudo address of IR.tla's memory layout)
    gl = [[g["name"], g["size"]] for g in pm["globals"] if g["k"] == "var" and g.get("binding", "global") == "global"
          and not any(part.get("k") == "r" for part in (g.get("init") or []))]
    return {"fn": fn, "ret": f["ret"], "params": ptys, "externs": ext, "globals": gl}, None


class Unit:
    """One artefact under test.  `elf` = bytes of the relocatable ELF file ppci wrote, or None with `err`
    = the outcome recorded for every vector ("error:codegen:<Exc>" is never produced here: callers skip those)."""

    def __init__(self, key, prefix, sig, vecs, ext, elf=None, err=None, obj=None, labels=None, tags=()):
        self.tags = list(tags)      # names of known defect classes present in the generated code (see SpillWatch)
        self.key = key
        self.prefix = prefix
        self.sig = sig
        self.vecs = vecs            # argument vectors (Python ints)
        self.ext = ext              # [{"name", "rets": [word...]}]
        self.elf = elf
        self.err = err
        self.obj = obj              # ppci ObjectFile (for the ppci link path)
        self.labels = labels or [key]


def unit_c(u, weak=False):
    """C text (ppci subset) for one unit: declarations, external stubs, run_<prefix>(v)."""
    P = u.prefix
    s = u.sig
    w = " WEAKSYM" if weak else ""
    out = []
    for name, size in s["globals"]:
        out.append("extern unsigned char %s%s[%d]%s;" % (P, name, max(1, size), w))
    rty = CT[s["ret"]] if s["ret"] else "void"
    out.append("extern %s %s%s(%s)%s;" % (rty, P, s["fn"], ", ".join(CT[t] for t in s["params"]) or "void", w))
    tab = {e["name"]: e["rets"] for e in u.ext}
    for x in s["externs"]:
        n = P + x["name"]
        xr = CT[x["ret"]] if x["ret"] else "void"
        ps = ", ".join("%s a%d" % (CT[t], k) for k, t in enumerate(x["args"])) or "void"
        body = ["int k;", 'putstr("CALL %s");' % x["name"]]
        for k, t in enumerate(x["args"]):
            body.append("putch(' '); puthex((unsigned long long)a%d, %d);" % (k, NBYTES[t]))
        body.append("putch(10);")
        body.append("k = n_%s; n_%s = k + 1;" % (n, n))
        body.append("CLOBBER_CALLER_SAVED")
        if x["ret"]:
            nb = NBYTES[x["ret"]]
            for k, wv in enumerate(tab.get(x["name"], [])):
                # the k-th call returns the stub word resized (zero-extended / truncated) to the return type
                val = word_int((list(wv) + [0] * 8)[:nb])
                body.append("if (k == %d) { return %s; }" % (k, c_lit(val, x["ret"])))
            body.append("return 0;")
        out.append("static int n_%s;" % n)
        out.append("%s %s(%s) { %s }" % (xr, n, ps, " ".join(body)))
    out.append("static int run_%s(int v) {" % P)
    out.append("  int i; int done;")
    if s["ret"]:
        out.append("  %s r;" % rty)
        out.append("  r = 0;")
    out.append("  done = 0;")
    for vi, vec in enumerate(u.vecs):
        args = ", ".join(c_lit(v, t) for v, t in zip(vec, s["params"]))
        call = "%s%s(%s);" % (P, s["fn"], args)
        out.append("  if (v == %d) { %s%s done = 1; }" % (vi, "r = " if s["ret"] else "", call))
    out.append("  if (done == 0) { return 96; }")
    if s["ret"]:
        out.append('  putstr("RET "); puthex((unsigned long long)r, %d); putch(10);' % NBYTES[s["ret"]])
    else:
        out.append('  putstr("RET -"); putch(10);')
    for name, size in s["globals"]:
        out.append('  putstr("G %s "); for (i = 0; i < %d; i = i + 1) { puthex(%s%s[i], 1); } putch(10);' % (
            name, size, P, name))
    out.append("  oflush();")
    out.append("  return %s;" % ("(int)(r & 255)" if s["ret"] else "0"))
    out.append("}")
    return "\n".join(out) + "\n"


# ---------------------------------------------------------------------------------------------------
# parsing the framed output
# ---------------------------------------------------------------------------------------------------
_SIGNAMES = {int(getattr(signal, n)): n for n in dir(signal) if n.startswith("SIG") and not n.startswith("SIG_")
             and isinstance(getattr(signal, n), int)}


def blank(outcome):
    return {"outcome": outcome, "ret": [], "exit": -1, "globals": [], "calls": []}


def parse_framed(text):
    """-> {(u, v): observation}"""
    out = {}
    cur = None
    lines = []
    for ln in text.split("\n"):
        if ln.startswith("@B "):
            p = ln.split()
            cur = (int(p[1]), int(p[2]))
            lines = []
        elif ln.startswith("@E ") and cur is not None:
            p = ln.split()
            if (int(p[1]), int(p[2])) == cur:
                out[cur] = _obs(lines, p[3], int(p[4]))
            cur = None
        elif cur is not None:
            lines.append(ln)
    return out


_HEX = re.compile(r"^([0-9a-f][0-9a-f])*$")


def _obs(lines, how, code):
    o = blank("ok")
    have_ret = False
    bad = None
    for ln in lines:
        if not ln:
            continue
        p = ln.split(" ")
        if p[0] == "CALL" and len(p) >= 2 and all(_HEX.match(x) for x in p[2:]):
            o["calls"].append({"name": p[1], "args": [limbs_of_hex(x) for x in p[2:]]})
        elif p[0] == "RET" and len(p) == 2 and (p[1] == "-" or _HEX.match(p[1])):
            have_ret = True
            o["ret"] = [] if p[1] == "-" else limbs_of_hex(p[1])
        elif p[0] == "G" and len(p) == 3 and _HEX.match(p[2]):
            o["globals"].append({"name": p[1], "bytes": limbs_of_hex(p[2])[::-1]})
        elif p[0] == "@X" and len(p) == 2:
            bad = "error:" + p[1]
        else:
            bad = bad or "error:garbled-output"
    if how == "sig":
        o["outcome"] = "error:" + _SIGNAMES.get(code, "SIG%d" % code)
    elif bad:
        o["outcome"] = bad
        o["exit"] = code
    elif not have_ret:
        o["outcome"] = "error:no-result"
        o["exit"] = code
    else:
        o["exit"] = code
    return o


# ---------------------------------------------------------------------------------------------------
# building and running
# ---------------------------------------------------------------------------------------------------
class Workdir:
    def __init__(self):
        self.path = tempfile.mkdtemp(prefix="verif_native_")
        self.n = 0

    def file(self, suffix):
        self.n += 1
        return os.path.join(self.path, "f%d%s" % (self.n, suffix))

    def close(self):
        shutil.rmtree(self.path, ignore_errors=True)

    def __enter__(self):
        return self

    def __exit__(self, *a):
        self.close()


def run_cmd(args, timeout=600, **kw):
    """-> (returncode | None on time-out, stdout bytes, stderr bytes)"""
    try:
        p = subprocess.run(args, stdin=subprocess.DEVNULL, stdout=subprocess.PIPE, stderr=subprocess.PIPE,
                           timeout=timeout, **kw)
        return p.returncode, p.stdout, p.stderr
    except subprocess.TimeoutExpired as e:
        return None, e.stdout or b"", e.stderr or b""


class HarnessError(Exception):
    """gcc could not build harness-only code: a machinery failure, not an observation."""


def gcc_compile(wd, text, flags=("-O0",)):
    src = wd.file(".c")
    with open(src, "w") as f:
        f.write(text)
    obj = src[:-2] + ".o"
    rc, _, err = run_cmd([GCC, "-w", "-c", *flags, src, "-o", obj])
    if rc != 0:
        raise HarnessError("gcc failed on generated driver: %s" % err.decode(errors="replace")[:2000])
    return obj


def gcc_link(wd, objs):
    """-> (exe path | None, stderr text)"""
    exe = wd.file(".exe")
    rc, _, err = run_cmd([GCC, "-no-pie", *objs, "-o", exe])
    if rc != 0:
        return None, err.decode(errors="replace")
    return exe, ""


def gcc_driver_text(units, ids):
    rows = []
    # an external function may destroy every caller-saved register: the gcc-compiled stubs really do
    clobber = ('#define CLOBBER_CALLER_SAVED __asm__ volatile("movabsq $0x5a5a5a5a5a5a5a5a, %%rcx; movq %%rcx, %%rdx; '
               'movq %%rcx, %%rsi; movq %%rcx, %%rdi; movq %%rcx, %%r8; movq %%rcx, %%r9; movq %%rcx, %%r10; movq %%rcx, %%r11" '
               '::: "rcx", "rdx", "rsi", "rdi", "r8", "r9", "r10", "r11");')
    parts = ["#define WEAKSYM __attribute__((weak))", clobber, PRELUDE, GCC_BSP]
    for u, uid in zip(units, ids):
        parts.append(unit_c(u, weak=True))
        rows.append("  {run_%s, (void *)%s%s, %d, %d}," % (u.prefix, u.prefix, u.sig["fn"], uid, len(u.vecs)))
    parts.append(GCC_MAIN % {"table": "\n".join(rows), "cpu": CHILD_CPU_S, "wall": CHILD_WALL_S})
    return "\n".join(parts)


def run_exe(args, expect):
    """Run a launcher / batch executable; observations for the expected (u, v) pairs (missing -> error)."""
    rc, out, err = run_cmd(args, timeout=max(120, CHILD_WALL_S * 2 + 2 * len(expect)))
    got = parse_framed(out.decode("latin-1"))
    res = {}
    for k in expect:
        res[k] = got.get(k) or blank("error:no-report" if rc is not None else "error:timeout")
    return res


def run_gcc_linked(wd, groups, batch=32, pool=None):
    """groups: list of groups; a group = list of Units with the same prefix / signature / vectors (the variants
    of one program: optimisation levels), each with its own `elf`.  One gcc-compiled driver object per batch
    of groups, one executable per (batch, variant slot).  -> {unit.key: [observation per vector]}"""
    own = pool is None
    pool = pool or ThreadPoolExecutor(THREADS)
    results = {}
    try:
        jobs = []
        for b0 in range(0, len(groups), batch):
            jobs.append(pool.submit(_run_batch, wd, groups[b0:b0 + batch]))
        for j in jobs:
            results.update(j.result())
    finally:
        if own:
            pool.shutdown()
    return results


def _run_batch(wd, groups):
    res = {}
    heads = [g[0] for g in groups]
    ids = list(range(len(groups)))
    drv = gcc_compile(wd, gcc_driver_text(heads, ids))
    nslots = max(len(g) for g in groups)
    for slot in range(nslots):
        members = [(gi, g[slot]) for gi, g in enumerate(groups) if slot < len(g)]
        for gi, u in members:
            if u.elf is None:
                res[u.key] = [blank(u.err or "error:no-object") for _ in u.vecs]
        members = [(gi, u) for gi, u in members if u.elf is not None]
        res.update(_link_and_run(wd, drv, members))
    return res


def _link_and_run(wd, drv, members):
    """Link the driver with the members' objects; on a link failure bisect to find the objects gcc/ld refuse."""
    if not members:
        return {}
    paths = []
    for gi, u in members:
        p = wd.file(".o")
        with open(p, "wb") as f:
            f.write(u.elf)
        paths.append(p)
    exe, err = gcc_link(wd, [drv] + paths)
    if exe is None:
        # the driver alone must link (all references to the objects under test are weak): otherwise gcc/ld are
        # unusable here and the failed link cannot be blamed on ppci's objects
        alone, err0 = gcc_link(wd, [drv])
        if alone is None:
            raise HarnessError("gcc cannot link the driver by itself: %s" % err0[:1500])
        os.unlink(alone)
        if len(members) == 1:
            u = members[0][1]
            m = re.search(r"(undefined reference|multiple definition|file format not recognized|relocation truncated|"
                          r"bad value|invalid|corrupt)", err)
            return {u.key: [blank("error:link:" + (m.group(1).replace(" ", "-") if m else "failed")) for _ in u.vecs]}
        h = len(members) // 2
        out = _link_and_run(wd, drv, members[:h])
        out.update(_link_and_run(wd, drv, members[h:]))
        return out
    expect = [(gi, v) for gi, u in members for v in range(len(u.vecs))]
    got = run_exe([exe], expect)
    for p in paths:
        os.unlink(p)
    os.unlink(exe)
    return {u.key: [got[(gi, v)] for v in range(len(u.vecs))] for gi, u in members}


# ---- ppci's own linker: static ELF executables -----------------------------------------------------
_crt0 = {}


def crt0_obj():
    from ppci import api

    if "o" not in _crt0:
        _crt0["o"] = api.asm(io.StringIO(CRT0), "x86_64")
    return _crt0["o"]


def ppci_driver_text(u):
    return ("#define WEAKSYM\n#define CLOBBER_CALLER_SAVED\n" + PRELUDE + unit_c(u) +
            "int main(int argc, char **argv) { int v; v = argv[1][0] - 'a'; return run_%s(v); }\n" % u.prefix)


def ppci_link_exe(objs):
    """ppci's linker + ELF writer -> bytes of a static executable."""
    from ppci import api
    from ppci.format.elf import write_elf

    exe = api.link([crt0_obj()] + list(objs), layout=io.StringIO(MMAP))
    f = io.BytesIO()
    write_elf(exe, f, type="executable")
    return f.getvalue()


def build_launcher(wd):
    src = wd.file(".c")
    with open(src, "w") as f:
        f.write(LAUNCHER % {"cpu": CHILD_CPU_S, "wall": CHILD_WALL_S})
    exe = src[:-2] + ".launcher"
    rc, _, err = run_cmd([GCC, "-w", "-O0", src, "-o", exe])
    if rc != 0:
        raise HarnessError("gcc failed on the launcher: %s" % err.decode(errors="replace")[:1000])
    return exe


def run_standalone(wd, launcher, items):
    """items: [(key, exe bytes | None, err, nvec)] -> {key: [observation per vector]}; one launcher process."""
    res = {}
    lines = []
    expect = []
    files = []
    for k, (key, data, err, nvec) in enumerate(items):
        if data is None:
            res[key] = [blank(err or "error:no-executable") for _ in range(nvec)]
            continue
        p = wd.file(".elf")
        with open(p, "wb") as f:
            f.write(data)
        os.chmod(p, 0o755)
        files.append(p)
        for v in range(nvec):
            lines.append("%d %d %s %s" % (k, v, p, chr(ord("a") + v)))
            expect.append((k, v))
    if lines:
        lst = wd.file(".lst")
        with open(lst, "w") as f:
            f.write("\n".join(lines) + "\n")
        got = run_exe([launcher, lst], expect)
        for k, (key, data, err, nvec) in enumerate(items):
            if data is not None:
                res[key] = [got[(k, v)] for v in range(nvec)]
        for p in files:
            os.unlink(p)
    return res


# ---------------------------------------------------------------------------------------------------
# ppci side (in-process; exceptions are returned, not raised)
# ---------------------------------------------------------------------------------------------------
def rename_ir(m, prefix):
    """Prefix the names of all functions, variables and externals of an IR module (linker-visible names)."""
    for f in m.functions:
        f.name = prefix + f.name
    for v in m.variables:
        v.name = prefix + v.name
    for e in m.externals:
        e.name = prefix + e.name
    # initial values that refer to other globals by name
    for v in m.variables:
        if v.value is not None:
            v.value = tuple((p[0], prefix + p[1]) if isinstance(p, tuple) and len(p) == 2 and isinstance(p[1], str) else p
                            for p in v.value)


def rename_c(src, names, prefix):
    if not names:
        return src
    rx = re.compile(r"\b(%s)\b" % "|".join(sorted((re.escape(n) for n in names), key=len, reverse=True)))
    return rx.sub(lambda mo: prefix + mo.group(1), src)


def elf_bytes(obj):
    from ppci.format.elf import write_elf

    f = io.BytesIO()
    write_elf(obj, f, type="relocatable")
    return f.getvalue()


RMW_UNARY = {"neg", "not", "shl", "shr", "sar", "inc", "dec"}


class SpillWatch:
    """Records, while ppci generates code, which instructions the register allocator's spill rewriting gave a
    reload before and which a store after.  Used only to *name* a known defect class in violation keys
    (a read-modify-write instruction on a spilled register that is reloaded but never stored back):
    tags() == ["spilled-rmw"] when the generated code contains such an instruction."""

    def __enter__(self):
        from ppci.arch.stack import Frame

        self.Frame = Frame
        self.before = Frame.insert_code_before
        self.after = Frame.insert_code_after
        self.loaded = {}
        self.stored = set()
        watch = self

        def ib(frame, instruction, code):
            watch.loaded[id(instruction)] = instruction
            return watch.before(frame, instruction, code)

        def ia(frame, instruction, code):
            watch.stored.add(id(instruction))
            return watch.after(frame, instruction, code)

        Frame.insert_code_before = ib
        Frame.insert_code_after = ia
        return self

    def __exit__(self, *a):
        self.Frame.insert_code_before = self.before
        self.Frame.insert_code_after = self.after

    def tags(self):
        for k, ins in self.loaded.items():
            if k not in self.stored and str(ins).split(" ")[0] in RMW_UNARY:
                return ["spilled-rmw"]
        return []


def ir_tags(m):
    """Names a second known defect class (label for violation keys only): ["latch-phi"] when some block's
    terminator uses a phi of one of that block's successors (a loop that tests its own phi: the selection DAG
    places the phi copies before the terminator, which then sees the next iteration's value)."""
    try:
        for f in m.functions:
            for b in f.blocks:
                term = b.instructions[-1] if b.instructions else None
                if term is None:
                    continue
                phis = set()
                for s_ in b.successors:
                    phis.update(s_.phis)
                if any(u in phis for u in term.uses):
                    return ["latch-phi"]
    except Exception:
        return []
    return []


def compile_ir(m, level, watch=None, tags=None):
    """optimize + ir_to_object + relocatable ELF of an IR module (renamed already). -> (obj, elf, err);
    `tags` (a list) receives ir_tags of the module handed to the back-end."""
    from ppci import api

    def work():
        if str(level) != "0":
            api.optimize(m, level=level)
        if tags is not None:
            tags.extend(ir_tags(m))
        return api.ir_to_object([m], "x86_64")

    try:
        obj = limited(work, COMPILE_LIMIT_S, "x86_64 codegen")
    except Exception as e:  # code generation refused the module (or does not terminate): property C29's business
        return None, None, "codegen:" + type(e).__name__
    try:
        return obj, elf_bytes(obj), None
    except Exception as e:
        return obj, None, "error:elf-writer:" + type(e).__name__


def digest(b):
    return hashlib.sha1(b).hexdigest()
