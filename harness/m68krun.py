"""C05, m68k part: machine code ppci generates for march 'm68k' preserves IR behaviour.

B: M68k_Run.tla  IR modules inside what ppci's m68k back-end claims to translate (32-bit integers; + - & | ^ neg ~,
   + IR.tla      compare-and-branch, phis, loops, stack slots, no constants / globals / calls: everything else it
                 rejects, which is counted, never judged) are compiled with api.optimize + api.ir_to_object at levels
                 0/1/2/s, linked by ppci's own linker, and the image is executed by TLC under tla/M68kExec.tla (decoder:
                 tla/M68k.tla): M68k_Run loads the sections into the byte memory, sets up the call as M68kArch declares it
                 (arguments in memory at (offset, A0), stack slots below A0, result D0, return through rts) and prints the
                 observation.  A second TLC run executes the un-optimised module under IR.tla with that observation as the
                 case's `obs` record; invariant ObsMatchesImpl decides.
M: M68kExec_MC   laws of the semantics (condition codes against integer arithmetic, condition table, addressing-mode side
                 effects, the tie to the static register sets of M68k.tla); M68k_Run on hand-written images (AsExpected).
Nothing here judges: images are copies of the linked sections, observations come out of TLC and go back into TLC.
(Development aid: C05_PART=m68k restricts ./check C05 to this part.)"""
import os
import random

from . import native, project_ir, rvlink, watchdog
from .tlc import MachineryError

MARCH = "m68k"
TYPES = ["i32", "u32"]
LEVELS = ("0", "1", "2", "s")
WORKERS = 8
FUEL = 2500
HANG_LIMIT_S = 2.0   # per call into ppci's code generator (normal: about 10 ms)
MAX_HANGS = 3        # per optimisation level: after that many hangs the level is not tried any more (counted)
CODE_AT = 0x1000
LAYOUT = ("MEMORY flash LOCATION=0x%x SIZE=0x6000 { SECTION(code) }\n"
          "MEMORY ram LOCATION=0x8000 SIZE=0x4000 { SECTION(data) }\n" % CODE_AT)
ABASE = 0xE000       # A0 at the call: arguments at (offset, A0), the function's stack slots at negative offsets
SP = 0xF000
RA = 0xFFF0
IR_CFG = "INIT Init\nNEXT Next\nCHECK_DEADLOCK FALSE\nINVARIANT ObsMatchesImpl\nINVARIANT TypeOK\n"
MC_LAWS = ["LawAddFlags", "LawSubFlags", "LawNegFlags", "LawLogicFlags", "LawConditions", "LawShift", "LawEASideEffect",
           "LawWritesOnly", "LawReadsOnly", "LawMulDiv"]
OPNAME = {"+": "add", "-": "sub", "|": "or", "&": "and", "^": "xor", "<": "lt", ">": "gt", "<=": "le", ">=": "ge", "==": "eq",
          "!=": "ne"}
CONDS = ("<", ">", "<=", ">=", "==", "!=")


def be(v, n=4):
    return list((v & ((1 << (8 * n)) - 1)).to_bytes(n, "big"))


# ---------------------------------------------------------------------------------------------------
# programs: constant-free 32-bit code (the back-end has no rule for a constant, a global or a call)
# ---------------------------------------------------------------------------------------------------
def _vectors(ptys, rng, n, small=False):
    from engines.c02 import int_vectors

    if not small:
        return int_vectors(ptys, rng, n)
    return [[rng.randrange(0, 6) if k != len(ptys) - 1 else rng.randrange(1, 4) for k in range(len(ptys))] for _ in range(n)]


def directed(nvec, thorough):
    from .irpatterns import B
    from ppci import ir

    out = []

    def add(key, make, ptys, src, small=False, extra=()):
        prng = random.Random(key)
        vecs = [list(v) for v in extra] + _vectors(ptys, prng, nvec, small)
        out.append({"key": key, "make": make, "fn": "f", "vecs": vecs, "ext": [], "src": "harness/m68krun.py directed: " + src})

    edge = {"i32": [[-0x80000000, 1], [0x7FFFFFFF, 1], [-1, -1], [0x7FFFFFFF, -0x80000000]],
            "u32": [[0xFFFFFFFF, 1], [0x80000000, 0x7FFFFFFF], [0, 0xFFFFFFFF], [0x80000000, 0x80000000]]}
    for t in TYPES:
        for op in ("+", "-", "&", "|", "^"):
            def make(t=t, op=op):
                b = B("f", t, [t, t])
                b.ret(b.bin(b.p[0], op, b.p[1], t))
                return b.m
            add("m68op.%s.%s" % (OPNAME[op], t), make, [t, t], "f(x, y) = x %s y on %s" % (op, t), extra=edge[t][:2])
        for op in ("-", "~"):
            def make(t=t, op=op):
                b = B("f", t, [t])
                b.ret(b.e(ir.Unop(op, b.p[0], b.nm("u"), getattr(ir, t))))
                return b.m
            add("m68un.%s.%s" % ("neg" if op == "-" else "not", t), make, [t], "f(x) = %sx on %s" % (op, t),
                extra=[[edge[t][0][0]], [edge[t][1][0]]])
        for cond in CONDS:
            def make(t=t, cond=cond):
                b = B("f", t, [t, t])
                x, y = b.p
                yes, no = b.block("yes"), b.block("no")
                b.cj(x, cond, y, yes, no)
                b.at(yes).ret(b.bin(x, "-", y, t))
                b.at(no).ret(b.bin(y, "+", x, t))
                return b.m
            add("m68cmp.%s.%s" % (OPNAME[cond], t), make, [t, t], "if (x %s y) return x - y; else return y + x; on %s" % (cond, t),
                extra=edge[t] + [[5, 5], [2, 3], [3, 2]])

            def make2(t=t, cond=cond):          # the comparison's operands come out of arithmetic, the result through a phi
                b = B("f", t, [t, t, t])
                x, y, z = b.p
                yes, no, join = b.block("yes"), b.block("no"), b.block("join")
                s = b.bin(x, "+", z, t)
                b.cj(s, cond, y, yes, no)
                v1 = b.at(yes).bin(s, "&", y, t)
                b.jmp(join)
                v2 = b.at(no).bin(s, "|", y, t)
                b.jmp(join)
                b.at(join)
                p = b.phi(t, [(yes, v1), (no, v2)])
                b.ret(b.bin(p, "-", z, t))
                return b.m
            add("m68phi.%s.%s" % (OPNAME[cond], t), make2, [t, t, t], "s = x + z; p = (s %s y) ? s & y : s | y; return p - z; on %s" % (cond, t),
                extra=[e + [1] for e in edge[t]])
        # a loop: while (x < y) { x = x + z; acc = acc + x; }  (small argument vectors: z >= 1)
        for cond in ("<", "!="):
            def make3(t=t, cond=cond):
                b = B("f", t, [t, t, t])
                x, y, z = b.p
                head, body, done = b.block("head"), b.block("body"), b.block("done")
                entry = b.cur
                b.jmp(head)
                b.at(head)
                xi = b.phi(t, [])
                acc = b.phi(t, [])
                b.cj(xi, cond, y, body, done)
                b.at(body)
                x2 = b.bin(xi, "+", z, t)
                a2 = b.bin(acc, "+", x2, t)
                b.jmp(head)
                xi.set_incoming(entry, x)
                xi.set_incoming(body, x2)
                acc.set_incoming(entry, y)
                acc.set_incoming(body, a2)
                b.at(done).ret(b.bin(acc, "-", xi, t))
                return b.m
            add("m68loop.%s.%s" % (OPNAME[cond], t), make3, [t, t, t], "while (x %s y) { x += z; acc += x; } on %s" % (cond, t),
                small=True, extra=[[0, 6, 1], [0, 6, 2], [2, 2, 1]])
        # stack slots: values through memory
        def make4(t=t):
            b = B("f", t, [t, t])
            x, y = b.p
            p1, p2 = b.alloc(4), b.alloc(4)
            b.store(x, p1)
            b.store(b.bin(x, "-", y, t), p2)
            v = b.bin(b.load(p1, t), "+", b.load(p2, t), t)
            b.store(v, p1)
            b.ret(b.bin(b.load(p1, t), "&", b.load(p2, t), t))
            return b.m
        add("m68slot.%s" % t, make4, [t, t], "two stack slots written and read back on %s" % t, extra=edge[t][:2])
        # many values alive at once (8 data registers)
        for n in (5, 7, 9) if thorough else (5, 9):
            def make5(t=t, n=n):
                b = B("f", t, [t] * n)
                sums = [b.bin(b.p[k], "+", b.p[(k + 1) % n], t) for k in range(n)]
                acc = sums[0]
                for k in range(1, n):
                    acc = b.bin(b.bin(acc, "-", sums[k], t), "|", b.p[k], t)
                b.ret(acc)
                return b.m
            add("m68live.%d.%s" % (n, t), make5, [t] * n, "%d arguments, %d sums alive at once on %s" % (n, n, t))
    # the small two-parameter shapes of both types first (while the code generator hangs on the larger ones, see prepare)
    order = ["m68op", "m68un", "m68cmp", "m68slot", "m68phi", "m68loop", "m68live"]
    out.sort(key=lambda p: order.index(p["key"].split(".")[0]))
    return out


def random_program(seed, t):
    """a random constant-free function over three parameters: arithmetic DAG with if / else diamonds joined by phis"""
    from .irpatterns import B
    from ppci import ir

    rng = random.Random(seed)
    b = B("f", t, [t, t, t])
    vals = list(b.p)
    ops = ["+", "-", "&", "|", "+", "-"]
    for _ in range(rng.randrange(2, 5)):
        k = rng.random()
        if k < 0.55:
            vals.append(b.bin(rng.choice(vals), rng.choice(ops), rng.choice(vals), t))
        elif k < 0.7:
            vals.append(b.e(ir.Unop(rng.choice(["-", "~"]), rng.choice(vals), b.nm("u"), getattr(ir, t))))
        else:
            yes, no, join = b.block("yes"), b.block("no"), b.block("join")
            x, y = rng.choice(vals), rng.choice(vals)
            b.cj(x, rng.choice(CONDS), y, yes, no)
            v1 = b.at(yes).bin(rng.choice(vals), rng.choice(ops), x, t)
            b.jmp(join)
            v2 = b.at(no).bin(y, rng.choice(ops), rng.choice(vals), t)
            b.jmp(join)
            b.at(join)
            vals.append(b.phi(t, [(yes, v1), (no, v2)]))
    b.ret(b.bin(vals[-1], "+", rng.choice(vals), t))
    return b.m


C_SOURCES = {
    "addsub": "int f(int a, int b, int c){ return (a + b) - (c - a); }",
    "neg": "int f(int a, int b){ return -a - ~b; }",
    "andor": "unsigned f(unsigned a, unsigned b){ return (a & b) | (a - b); }",
    "min": "int f(int a, int b){ if (a < b) return a; return b; }",
    "umin": "unsigned f(unsigned a, unsigned b){ if (a < b) return a; return b; }",
    "umax3": "unsigned f(unsigned a, unsigned b, unsigned c){ unsigned m = a; if (b > m) m = b; if (c >= m) m = c; return m; }",
    "clamp": "int f(int x, int lo, int hi){ if (x < lo) x = lo; if (x > hi) x = hi; return x; }",
    "sumto": "int f(int a, int b, int c){ int s = a; while (a < b) { a = a + c; s = s + a; } return s; }",
    "eq": "int f(int a, int b, int c){ if (a == b) return c; if (a != c) return b; return a; }",
}


def programs(ctx, thorough):
    from . import irgen

    nvec = 4 if thorough else 3
    out = directed(nvec, thorough)
    rng = random.Random("%d:c05:m68k" % ctx.seed)
    for _ in range(300 if thorough else 24):
        seed = rng.randrange(1 << 30)
        t = TYPES[seed % 2]
        out.append({"key": "m68rnd%d" % seed, "make": (lambda seed=seed, t=t: random_program(seed, t)), "fn": "f",
                    "vecs": _vectors([t] * 3, random.Random(seed ^ 0x5EED), nvec), "ext": [],
                    "src": "harness/m68krun.py random_program(%d, %r)" % (seed, t)})
    for name, src in C_SOURCES.items():
        small = name == "sumto"

        def make(src=src):
            from .optcorpus import compile_c
            return compile_c(src, MARCH)
        try:
            pm = project_ir.project_module(make(), 4)
            ptys = [q["ty"] for q in [f for f in pm["funcs"] if f["name"] == "f"][0]["params"]]
        except Exception:
            ctx.cov["m68k_c_frontend_rejected"] = ctx.cov.get("m68k_c_frontend_rejected", 0) + 1
            continue
        out.append({"key": "m68c.%s" % name, "make": make, "fn": "f", "vecs": _vectors(ptys, random.Random(name), nvec + 1, small) +
                    ([[0, 7, 2], [1, 9, 3]] if small else []), "ext": [], "src": src})
    # the general corpus (constants, globals, calls, narrow types): what the back-end rejects is counted below
    for _ in range(40 if thorough else 6):
        seed = rng.randrange(1 << 30)
        try:
            _, info = irgen.gen_module(random.Random(seed), types=TYPES, budget=6)
        except Exception:
            continue
        out.append({"key": "m68ir%d" % seed, "make": (lambda seed=seed: irgen.gen_module(random.Random(seed), types=TYPES, budget=6)[0]),
                    "fn": info["main"], "vecs": _vectors(info["params"], random.Random(seed ^ 0x5EED), nvec), "ext": [],
                    "src": "harness/irgen.py gen_module(random.Random(%d), types=i32/u32, budget=6)" % seed})
    return out


def tags_of(pm):
    """which listed defect classes the module can touch (part of the violation key; read off the IR, not the oracle):
    ucmp  an ordering comparison (< > <= >=) of unsigned values"""
    tags = set()
    for f in pm["funcs"]:
        for b in f["blocks"]:
            for i in b["ins"]:
                if i["k"] == "cjmp" and str(i.get("aty", "")).startswith("u") and i.get("op", i.get("cond")) in ("<", ">", "<=", ">="):
                    tags.add("ucmp")
    return "{%s}" % "+".join(sorted(tags)) if tags else ""


def prepare(ctx, progs):
    from ppci import api
    from engines.c05rv import module_types

    arch = rvlink.arch_of(MARCH)
    ready = []
    skipped = {}
    hung = []

    def skip(k):
        skipped[k] = skipped.get(k, 0) + 1

    for p in progs:
        try:
            pm = project_ir.project_module(p["make"](), 4)
        except Exception:
            skip("build_failed")
            continue
        f = [x for x in pm["funcs"] if x["name"] == p["fn"]]
        if not f or not f[0]["ret"] or any(q["ty"] not in TYPES for q in f[0]["params"]) or f[0]["ret"] not in TYPES:
            skip("signature")
            continue
        if not module_types(pm) <= set(TYPES) | {"ptr", "blob"} or any(g["k"] in ("xvar", "xfn", "var") for g in pm["globals"]):
            skip("globals_calls_or_types")     # no rule of the back-end covers them; IR.tla's memory is little-endian
            continue
        ptys = [q["ty"] for q in f[0]["params"]]
        vecs = [v for v in p["vecs"] if len(v) == len(ptys)]
        if not vecs:
            continue
        images, variants = {}, []
        for lv in LEVELS:
            label = "m68k-O%s" % lv
            if sum(1 for _, l in hung if l == label) >= MAX_HANGS:
                skip("codegen_not_tried_after_%d_hangs_at_the_level" % MAX_HANGS)
                continue
            try:
                def work(lv=lv):
                    m = p["make"]()
                    if lv != "0":
                        api.optimize(m, level=lv)
                    return api.ir_to_object([m], arch)
                obj = watchdog.limited(work, HANG_LIMIT_S)
            except watchdog.CallTimeout:
                hung.append((p, label))
                skip("codegen_hangs")
                continue
            except Exception as e:      # the back-end raised: C29's business, counted
                skip("codegen_" + type(e).__name__)
                continue
            try:
                img = rvlink.image_of(rvlink.link_objects([obj], LAYOUT), p["fn"], [])
            except Exception as e:
                variants.append((label, None, "error:link:" + type(e).__name__))
                continue
            if img is None or rvlink.images_overlap(img):
                variants.append((label, None, "error:image"))
                continue
            h = native.digest(repr((img["segs"], img["entry"])).encode())
            images.setdefault(h, img)
            variants.append((label, h, None))
        if variants:
            ready.append({"p": p, "pm": pm, "ptys": ptys, "ret": f[0]["ret"], "vecs": vecs, "images": images, "variants": variants,
                          "tags": tags_of(pm)})
    ctx.cov["m68k_skipped"] = dict(sorted(skipped.items()))
    if hung:
        p, label = hung[0]
        ctx.violation("C05:m68k:codegen-does-not-terminate", "ppci's code generator does not terminate (> %g s; a compilation takes "
                      "some 10 ms) for %d (module, level) combinations inside the back-end's subset, first %s [%s]: no machine "
                      "code to compare with the IR" % (HANG_LIMIT_S, len(hung), p["key"], label),
                      {"program": p["key"], "part": "m68k", "source": p["src"][:6000], "variant": label,
                       "hung": ["%s [%s]" % (q["key"], l) for q, l in hung]})
    return ready


def call_record(ptys, values):
    """M68kArch.determine_arg_locations: every argument in memory, at the running sum of the sizes; the back-end reads
    them at (offset, A0).  (Stated as data: a change of it is a change of the convention the property speaks about.)"""
    args, off = [], 0
    for t, v in zip(ptys, values):
        n = int(t[1:]) // 8
        args.append([off, be(v, n)])
        off += n
    return {"args": args}


# ---------------------------------------------------------------------------------------------------
# TLC
# ---------------------------------------------------------------------------------------------------
def run_images(ctx, cases, label, emit=True, invariants=("TypeOK",), workers=WORKERS):
    slim = [{k: c[k] for k in ("id", "img", "calls", "abase", "sp", "ra", "fuel", "expect") if k in c} for c in cases]
    path = ctx.trace_file(slim)
    res = ctx.tlc("M68k_Run", rvlink.run_cfg(emit, invariants, nchunks=max(1, min(64, len(cases))), burst=24), label=label,
                  env={"TRACE_FILE": path}, continue_=True, workers=workers, heap="6g", coverage=False, timeout=3000)
    os.unlink(path)
    return res, (rvlink.parse_obs(res.raw) if emit else {})


def build_object(lines):
    return rvlink.build_object(MARCH, lines)


def micro(ctx):
    """M: M68k_Run on hand-written images whose results are known (loader, call wrapper, observation, big-endian memory)"""
    L = rvlink.limbs
    cases = []

    def case(name, body, calls, expect, fuel=60):
        obj = build_object(["global main", "section code", "main:"] + body)
        img = rvlink.image_of(rvlink.link_objects([obj], LAYOUT), "main", [])
        cases.append({"id": "micro-" + name, "img": img, "calls": calls, "abase": ABASE, "sp": SP, "ra": RA, "fuel": fuel,
                      "expect": expect})

    case("args", ["movel (0, a0), d0", "addl (4, a0), d0", "movel d0, (-4, a0)", "subl (-4, a0), d0", "addl (4, a0), d0", "rts"],
         [call_record(["i32", "i32"], [5, 7]), call_record(["i32", "i32"], [-1, 2])], {"status": "ok", "d0": [L(7), L(2)]})
    case("bytes", ["moveq #-1, d0", "moveb (3, a0), d0", "rts"], [call_record(["i32"], [0x11223344])],
         {"status": "ok", "d0": [L(0xFFFFFF44)]})
    case("branch", ["movel (0, a0), d1", "cmpl (4, a0), d1", "blt less", "moveq #1, d0", "rts", "less:", "moveq #2, d0", "rts"],
         [call_record(["i32", "i32"], [3, 4]), call_record(["i32", "i32"], [4, 3]), call_record(["i32", "i32"], [-1, 1])],
         {"status": "ok", "d0": [L(2), L(1), L(2)]})
    case("call", ["bsr sub1", "addl d0, d0", "rts", "sub1:", "moveq #21, d0", "rts"], [call_record([], [])], {"status": "ok", "d0": [L(42)]})
    case("loop", ["again:", "bra again"], [call_record([], [])], {"status": "fuel", "d0": [[]]}, fuel=40)
    case("wild", ["jsr (a1)"], [call_record([], [])], {"status": "fault", "d0": [[]]})
    case("odd", ["movel (1, a0), d0", "rts"], [call_record([], [])], {"status": "fault", "d0": [[]]})
    ctx.cov["m68k_micro_images"] = len(cases)
    return cases


def model_check(ctx, thorough):
    """M: laws of M68kExec.tla (tla/M68kExec_MC.tla)"""
    from . import tlcclean
    cfg = "CONSTANT Deep = %s\nINIT Init\nNEXT Next\nCHECK_DEADLOCK FALSE\n" % ("TRUE" if thorough else "FALSE")
    cfg += "".join("INVARIANT %s\n" % x for x in MC_LAWS)
    res = ctx.tlc("M68kExec_MC", cfg, label="M: laws of M68kExec.tla", workers=WORKERS, coverage=False)
    for e in res.errors:
        raise MachineryError("a law of M68kExec.tla fails in the specification itself: %s %s\n%s" % (e, str(e.last)[:600], e.text[:1500]))
    tlcclean.clean(res, "M68kExec_MC")


# ---------------------------------------------------------------------------------------------------
# the part
# ---------------------------------------------------------------------------------------------------
def c05_hook(ctx, thorough, part, only):
    """called from engines/c05.py: part = "" (all parts) | "m68k" | another part's name; only = program key of a replay"""
    if part not in ("", "m68k"):
        return False
    c05_part(ctx, thorough, only if ctx.only is not None else None)
    return part == "m68k"


def c05_part(ctx, thorough, only=None):
    from . import core

    ctx.assume("m68k: tla/M68kExec.tla over tla/M68k.tla is the meaning of MC68000 machine code (C08 validates ppci's encodings "
               "against the decoder, M68k_MC / M68kExec_MC their own laws); the calling convention is the one ppci's M68kArch "
               "declares: every argument in memory at the running sum of the sizes, addressed (offset, A0), stack slots at "
               "negative offsets from A0, result D0, return by rts; harness/m68krun.py copies the linked sections and symbol "
               "addresses faithfully")
    ctx.cov["rule_m68k"] = (
        "constant-free 32-bit IR modules (ppci's m68k back-end has no rule for constants, globals, calls, narrow types, "
        "multiplication or shifts: such modules are rejected by it and counted): every selectable operator, every comparison "
        "x signedness with and without phis, loops, stack slots, register pressure, seeded random arithmetic / diamond DAGs, C "
        "functions through the front-end, + a sample of the general irgen corpus; compiled at levels 0,1,2,s, linked by ppci's "
        "linker, executed by TLC under M68kExec.tla on 3-8 argument vectors; IR.tla compares the return word.  distinct = "
        "(program, vector, level) triples; levels with byte-identical images share one execution")
    if only is None:
        model_check(ctx, thorough)
    progs = programs(ctx, thorough)
    if only is not None:
        progs = [p for p in progs if p["key"] == only]
    ctx.cov["m68k_programs_generated"] = len(progs)
    ready = prepare(ctx, progs)
    ctx.cov["m68k_programs_compiled"] = len(ready)
    # the hand-written images with known results (M: loader, call wrapper, observation) run in the same TLC run
    cases = micro(ctx) if only is None else []
    meta = [None] * len(cases)
    for r in ready:
        for h, img in r["images"].items():
            cases.append({"id": r["p"]["key"], "img": img, "abase": ABASE, "sp": SP, "ra": RA, "fuel": FUEL,
                          "calls": [call_record(r["ptys"], v) for v in r["vecs"]]})
            meta.append((r, h))
    ctx.cov["m68k_distinct_images_executed"] = len([x for x in meta if x is not None])
    observed, steps = {}, []
    if cases:
        res, obs = run_images(ctx, cases, "M68kExec.tla executes the linked images (+ M: hand-written images with known results)",
                              invariants=("AsExpected", "TypeOK"))
        for e in res.errors:
            raise MachineryError("M68k_Run self-check fails / unexpected TLC error: %s %s\n%s" % (e, str(e.last)[:400], e.text[:1500]))
        for (ci, av, im), (o, n) in obs.items():
            if meta[ci - 1] is None:
                continue
            r, h = meta[ci - 1]
            observed[(id(r), h, av)] = (o, n)
            steps.append(n)
    if steps:
        ctx.cov["m68k_machine_instructions_executed"] = sum(steps)
        ctx.cov["m68k_max_instructions_per_call"] = max(steps)
    ir_cases, ir_meta, skipped = [], [], {}
    for r in ready:
        for vi, vec in enumerate(r["vecs"]):
            groups = {}
            for label, h, err in r["variants"]:
                if err is not None:
                    ob = {"outcome": err, "ret": [], "globals": [], "hascalls": False, "calls": []}
                else:
                    got = observed.get((id(r), h, vi + 1))
                    if got is None:
                        raise MachineryError("no observation for %s %s vector %d" % (r["p"]["key"], label, vi + 1))
                    o, n = got
                    st = o["status"]
                    if st == "outofmodel":
                        st = "illegal-or-unmodelled-instruction"
                    if st == "fuel":
                        skipped[st] = skipped.get(st, 0) + 1
                        continue
                    if st == "ok" and not o["kept"]:
                        st = "stack-pointer-not-restored"
                    ob = {"outcome": "ok" if st == "ok" else "error:" + st, "ret": list(o["d0"][:4]) if st == "ok" else [],
                          "globals": [], "hascalls": False, "calls": []}
                groups.setdefault(repr(ob), (ob, []))[1].append(label)
            for ob, labels in groups.values():
                ir_cases.append({"id": "%s@%d" % (r["p"]["key"], vi), "mods": [r["pm"]], "fn": r["p"]["fn"],
                                 "argv": [[project_ir.limbs(v, 4) for v in vec]], "ext": r["p"]["ext"], "fuel": 3000, "obs": ob})
                ir_meta.append((r, vec, labels, ob))
                ctx.count(None, n=len(labels))
    ctx.cov["m68k_skipped_machine_side"] = skipped
    for r, vec, labels, ob in ir_meta[:2]:
        ctx.sample({"program": r["p"]["key"], "args": vec, "variants": labels, "observed": ob["outcome"], "d0": ob["ret"]})
    if ir_cases:
        path = ctx.trace_file(ir_cases)
        res2 = ctx.tlc("IR", IR_CFG, label="IR.tla judges the m68k observations", env={"TRACE_FILE": path}, continue_=True,
                       workers=WORKERS, heap="6g")
        os.unlink(path)
        seen = set()
        for e in res2.errors:
            st = e.last
            i = st.get("i")
            if e.kind != "invariant" or e.name != "ObsMatchesImpl" or not isinstance(i, int) or not 1 <= i <= len(ir_cases):
                raise MachineryError("unexpected TLC error in the IR run: %s\n%s" % (e, e.text[:1500]))
            r, vec, labels, ob = ir_meta[i - 1]
            for lab in labels:
                key = "C05:m68k:%s%s:%s" % (r["tags"], r["p"]["key"], lab)
                if key in seen:
                    continue
                seen.add(key)
                ctx.violation(key, "%s(%s) [%s]: the linked image executed by M68kExec.tla ends %s with d0=%s; the IR prescribes ret=%s" % (
                    r["p"]["fn"], ", ".join(map(str, vec)), lab, ob["outcome"], ob["ret"], st.get("ret")),
                    {"program": r["p"]["key"], "part": "m68k", "source": r["p"]["src"][:6000], "args": vec, "variant": lab,
                     "observed": ob, "ir_state": {x: st.get(x) for x in ("status", "ret")}})
        ctx.cov["traces_validated_against_impl"] += len(ir_cases)
        ctx.cov["distinct_nontrivial"] += sum(len(m[2]) for m in ir_meta)
