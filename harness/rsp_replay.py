"""Deterministic driver for ppci.binutils.dbg.gdb.rsp (property C35).

The real RspHandler / decoder() run over a fake transport.  Every blocking
point of the code (the `_ack_queue` get/put with time-outs, the `_lock`) is
replaced *on the instance* by a virtual-time object: a thread reaching such a
point parks and hands control back to the driver, which decides (from a script
or from a TLC behaviour) whether the operation completes or times out.  Exactly
one thread runs at any moment, no sleep and no wall-clock time-out is part of
the control flow (a 20 s watchdog only turns a hung mutant into an observation).

The driver records one event per atomic step (format: tla/Rsp_Trace.tla) and
can project the state of the real objects for comparison with a model state.
No verdict is computed here.
"""
import queue
import threading

WATCHDOG = 20.0


class Hung(Exception):
    pass


class CThread:
    """A controlled thread: runs only between resume() and its next park()/end."""

    def __init__(self, name):
        self.name = name
        self.go = threading.Semaphore(0)
        self.back = threading.Semaphore(0)
        self.where = ("new", None)
        self.verdict = None
        self.thread = None
        self.result = None  # ("ret", value) | ("exc", class name)

    def start(self, fn, *args):
        def body():
            self.go.acquire()
            try:
                self.result = ("ret", fn(*args))
            except BaseException as e:  # the outcome class is the observation
                self.result = ("exc", type(e).__name__)
            self.where = ("end", self.result)
            self.back.release()

        self.thread = threading.Thread(target=body, name=self.name, daemon=True)
        self.thread.start()

    def resume(self, verdict=None):
        """Let the thread run up to its next parking point; returns `where`."""
        self.verdict = verdict
        self.go.release()
        if not self.back.acquire(timeout=WATCHDOG):
            self.where = ("hung", None)
            raise Hung(self.name)
        return self.where

    # called from inside the controlled thread
    def park(self, kind, info=None):
        self.where = (kind, info)
        self.back.release()
        self.go.acquire()
        return self.verdict


_current = threading.local()


def _me():
    return getattr(_current, "ct", None)


class VQueue:
    """Stand-in for queue.Queue(maxsize=cap) under driver control."""

    def __init__(self, cap, log):
        self.maxsize = cap
        self.items = []
        self.log = log

    def _full(self):
        return self.maxsize > 0 and len(self.items) >= self.maxsize

    def qsize(self):
        return len(self.items)

    def empty(self):
        return not self.items

    def full(self):
        return self._full()

    def get(self, block=True, timeout=None):
        ct = _me()
        if ct is None or not block:
            if not self.items:
                raise queue.Empty()
            v = self.items.pop(0)
            self.log(("get", v))
            return v
        verdict = ct.park("get")
        if verdict == "timeout" or not self.items:
            raise queue.Empty()
        v = self.items.pop(0)
        self.log(("get", v))
        return v

    def get_nowait(self):
        return self.get(block=False)

    def put(self, item, block=True, timeout=None):
        if not self._full():
            self.items.append(item)
            self.log(("put", item))
            return
        ct = _me()
        if ct is None or not block:
            self.log(("put_blocked", item))
            self.log(("put_timeout", item))
            raise queue.Full()
        self.log(("put_blocked", item))
        verdict = ct.park("put", item)
        if verdict == "timeout" or self._full():
            self.log(("put_timeout", item))
            raise queue.Full()
        self.items.append(item)
        self.log(("put_done", item))

    def put_nowait(self, item):
        return self.put(item, block=False)


class VLock:
    """Stand-in for threading.Lock: acquisition is a parking point."""

    def __init__(self, log):
        self.held = False
        self.log = log

    def acquire(self, blocking=True, timeout=-1):
        ct = _me()
        if ct is not None:
            ct.park("lock")
        if self.held:
            # granted while held: the model never does this; report instead of dead-locking
            self.log(("lock_conflict", None))
        self.held = True
        self.log(("lock", None))
        return True

    def release(self):
        self.held = False
        self.log(("unlock", None))

    def locked(self):
        return self.held

    __enter__ = acquire

    def __exit__(self, *a):
        self.release()


class FakeTransport:
    def __init__(self, log):
        self.sent = []
        self.on_byte = None
        self.log = log

    def send(self, data):
        try:
            unit = list(bytes(data))
        except Exception:
            unit = [-1]
        self.sent.append(unit)
        self.log(("tx", unit))

    def rx_avail(self):
        return False

    def recv(self):
        return b""


class DecoderProxy:
    """Wraps the generator returned by decoder(): records what each send() yields."""

    def __init__(self, gen, log):
        self.gen = gen
        self.log = log

    def send(self, byte):
        msg = self.gen.send(byte)
        self.log(("dec", msg))
        return msg


def ref_decoder():
    """Test double used for the dispatch-level scenarios: a byte-wise decoder with
    '-' and '%' support.  It is *not* trusted: every message it yields is checked by
    TLC against DecStep like those of the real decoder."""
    byte = yield
    while True:
        if byte in (b"$", b"%"):
            res = bytearray(byte)
            while True:
                byte = yield
                res.extend(byte)
                if res[-1] == ord("#"):
                    byte = yield
                    res.extend(byte)
                    byte = yield
                    res.extend(byte)
                    byte = yield res.decode("latin-1")
                    break
        elif byte in (b"+", b"-"):
            byte = yield byte.decode("ascii")
        else:
            byte = yield


def enc_msg(msg):
    """decoder output -> the message record of Rsp.tla (pure re-encoding)."""
    if msg is None or msg == "":
        return {"k": "none"}
    if msg in ("+", "-"):
        return {"k": "ack", "v": msg}
    if isinstance(msg, str) and msg[:1] == "$":
        return {"k": "pkt", "raw": [ord(c) for c in msg]}
    if isinstance(msg, str) and msg[:1] == "%":
        return {"k": "notif", "raw": [ord(c) for c in msg]}
    return {"k": "other", "repr": repr(msg)[:40]}


class Rig:
    """One RspHandler over a fake transport with virtual queue and lock."""

    def __init__(self, decoder="real", budget=2, handler=None):
        from ppci.binutils.dbg.gdb import rsp

        self.rsp = rsp
        self.budget = budget
        self.buf = []  # low-level log of the current step
        self.events = []
        self.line = []  # bytes on the way to the client
        self.delivered = []
        self.transport = FakeTransport(self._log)
        self.h = handler(self.transport) if handler else rsp.RspHandler(self.transport)
        self.next_on_message = self.h.on_message  # e.g. GdbDebugDriver._handle_message
        self.h.on_message = self._on_message
        self.send_fn = None  # how a sender thread sends (default: h.sendpkt(data, retries=budget))
        cap = getattr(getattr(self.h, "_ack_queue", None), "maxsize", 1)
        self.cap = cap
        self.q = VQueue(cap, self._log)
        self.h._ack_queue = self.q
        self.lock = VLock(self._log)
        self.h._lock = self.lock
        if decoder == "ref":
            g = ref_decoder()
            next(g)
        else:
            g = self.h._packet_decoder
        self.h._packet_decoder = DecoderProxy(g, self._log)
        self.on_byte = self.transport.on_byte  # what RspHandler registered
        self.senders = {}
        self.calls = {}
        self.rx = None
        self.rx_alive = True
        self.rx_pend = ""
        self.stuck = None

    # ---- plumbing -------------------------------------------------------
    def _log(self, x):
        self.buf.append(x)

    def _on_message(self, res):
        try:
            p = [ord(c) for c in res]
        except Exception:
            p = [-1]
        self.delivered.append(p)
        self._log(("deliver", p))
        if self.next_on_message is not None:
            self.next_on_message(res)

    def _take(self):
        b, self.buf = self.buf, []
        return b

    def _emit(self, ev):
        self.events.append(ev)
        return ev

    def _fail(self, why, **kw):
        self.stuck = why
        ev = {"ev": "stuck", "why": why}
        ev.update(kw)
        return self._emit(ev)

    def _spawn(self, name, fn, *args):
        ct = CThread(name)

        def run(*a):
            _current.ct = ct
            return fn(*a)

        ct.start(run, *args)
        return ct

    # ---- sender side ----------------------------------------------------
    def _sender_status(self, c):
        ct = self.senders.get(c)
        if ct is None:
            return "out"
        kind, info = ct.where
        if kind == "lock":
            return "lockwait"
        if kind == "get":
            return "wait"
        if kind == "end":
            if info[0] == "ret":
                return "done"
            if info[0] == "exc" and info[1] == "ValueError":
                return "failed"
            if info[0] == "exc" and info[1] == "Empty":
                return "timeout"
            return "exc:%s" % (info[1],)
        return kind

    def call(self, c, payload):
        if self._sender_status(c) in ("lockwait", "wait"):
            return self._fail("call while sending", c=c)
        try:
            data = bytes(payload).decode("latin-1")
        except Exception:
            return self._fail("bad payload")
        fn = self.send_fn or (lambda d: self.h.sendpkt(d, retries=self.budget))
        ct = self._spawn("sender%d" % c, lambda: fn(data))
        self.senders[c] = ct
        self.calls[c] = {"tx": 0}
        try:
            where = ct.resume()
        except Hung:
            return self._fail("hung", c=c)
        low = self._take()
        ev = {"ev": "call", "c": c, "payload": list(payload)}
        if where[0] != "lock" or low:
            # the thread did not stop at the lock: report what it did instead
            ev = {"ev": "call_nolock", "c": c, "payload": list(payload), "did": _lowrepr(low), "at": where[0]}
        return self._emit(ev)

    def acquire(self, c):
        ct = self.senders.get(c)
        if ct is None or ct.where[0] != "lock":
            return self._fail("acquire: not at lock", c=c)
        try:
            where = ct.resume("go")
        except Hung:
            return self._fail("hung", c=c)
        low = self._take()
        tx = [x[1] for x in low if x[0] == "tx"]
        self.calls[c]["tx"] += len(tx)
        ev = {"ev": "acquire", "c": c, "tx": tx}
        extra = [x for x in low if x[0] not in ("tx", "lock")]
        if where[0] != "get" or extra:
            ev = {"ev": "acquire_odd", "c": c, "tx": tx, "did": _lowrepr(low), "at": self._sender_status(c)}
        return self._emit(ev)

    def get(self, c, timeout=False):
        ct = self.senders.get(c)
        if ct is None or ct.where[0] != "get":
            return self._fail("get: not waiting", c=c)
        if not timeout and not self.q.items:
            return self._fail("get: queue empty", c=c)
        try:
            where = ct.resume("timeout" if timeout else "go")
        except Hung:
            return self._fail("hung", c=c)
        low = self._take()
        tx = [x[1] for x in low if x[0] == "tx"]
        self.calls[c]["tx"] += len(tx)
        gets = [x[1] for x in low if x[0] == "get"]
        st = self._sender_status(c)
        if timeout:
            ev = {"ev": "timeout", "c": c}
            if st != "timeout" or tx or gets:
                ev = {"ev": "timeout_odd", "c": c, "out": st, "did": _lowrepr(low)}
            return self._emit(ev)
        extra = [x for x in low if x[0] not in ("tx", "get", "unlock")]
        ev = {"ev": "ack_get", "c": c, "v": gets[0] if gets else "?", "tx": tx, "out": st}
        if len(gets) != 1 or extra or not isinstance(ev["v"], str):
            ev = {"ev": "ack_get_odd", "c": c, "out": st, "did": _lowrepr(low)}
        return self._emit(ev)

    # ---- line and receiver side ----------------------------------------
    def peer(self, bs):
        self.line.extend(bs)
        return self._emit({"ev": "peer", "bytes": list(bs)})

    def _rx_loop(self):
        while True:
            ct = _me()
            b = ct.park("idle")
            if b is None:
                return
            self.on_byte(b)

    def _rx_resume(self, verdict):
        """Run the receiver thread to its next parking point; classify the outcome."""
        if self.rx is None:
            self.rx = self._spawn("rx", self._rx_loop)
            self.rx.resume()  # to first "idle"
        where = self.rx.resume(verdict)
        dead, err = False, ""
        if where[0] == "end":
            self.rx_alive = False
            dead = True
            err = where[1][1] if where[1][0] == "exc" else "returned"
        self.rx_pend = where[1] if where[0] == "put" else ""
        return where, dead, err

    def rx_byte(self, chunk=None):
        if not self.rx_alive:
            return self._fail("rx: receiver dead")
        if self.rx_pend != "":
            return self._fail("rx: receiver blocked")
        if chunk is None:
            if not self.line:
                return self._fail("rx: line empty")
            chunk = bytes([self.line.pop(0)])
        if self.rx is None and not self.q._full():
            # the put of an ack cannot block (queue not full, nothing else runs meanwhile):
            # take the byte in the driver thread, which is what the receiver thread would do
            where, dead, err = ("idle", None), False, ""
            try:
                self.on_byte(chunk)
            except BaseException as e:  # the receiver thread would end here
                self.rx_alive = False
                dead, err = True, type(e).__name__
        else:
            try:
                where, dead, err = self._rx_resume(chunk)
            except Hung:
                return self._fail("hung")
            if where[0] == "idle":
                self._rx_retire()
        low = self._take()
        decs = [x[1] for x in low if x[0] == "dec"]
        ev = {
            "ev": "rx",
            "byte": chunk[0] if len(chunk) == 1 else -1,
            "msg": enc_msg(decs[0]) if len(decs) == 1 else {"k": "other", "repr": "%d decoder calls" % len(decs)},
            "tx": [x[1] for x in low if x[0] == "tx"],
            "deliver": [x[1] for x in low if x[0] == "deliver"],
            "blocked": where[0] == "put",
            "dead": dead,
        }
        if dead:
            ev["error"] = err
        self._emit(ev)
        # a non-blocking put on a full queue is a put with a zero time-out
        if any(x[0] == "put_timeout" for x in low):
            ev["blocked"] = True
            ev["dead"] = False
            self._emit({"ev": "put_timeout", "dead": dead, "error": err})
        return ev

    def _rx_retire(self):
        """Receiver thread back at its loop head: let it end, the next bytes are taken directly."""
        if self.rx is not None and self.rx.where[0] == "idle":
            try:
                self.rx.resume(None)
            except Hung:
                pass
            self.rx = None

    def put_finish(self, timeout):
        if self.rx_pend == "":
            return self._fail("put: receiver not blocked")
        if not timeout and self.q._full():
            return self._fail("put: queue still full")
        try:
            where, dead, err = self._rx_resume("timeout" if timeout else "go")
        except Hung:
            return self._fail("hung")
        low = self._take()
        if where[0] == "idle":
            self._rx_retire()
        odd = [x for x in low if x[0] not in ("put_done", "put_timeout")]
        if timeout:
            ev = {"ev": "put_timeout", "dead": dead, "error": err}
        else:
            ev = {"ev": "put_done"}
            if dead:
                ev = {"ev": "put_done_dead", "error": err}
        if odd:
            ev = {"ev": "put_odd", "did": _lowrepr(low)}
        return self._emit(ev)

    # ---- projection ------------------------------------------------------
    def project(self):
        cl = {}
        for c in self.senders:
            cl[c] = {"st": self._sender_status(c), "tries": self.calls[c]["tx"]}
        return {
            "txlog": [list(u) for u in self.transport.sent],
            "ackq": list(self.q.items),
            "delivered": [list(p) for p in self.delivered],
            "rxAlive": self.rx_alive,
            "rxPend": self.rx_pend,
            "toClient": list(self.line),
            "cl": cl,
        }

    def close(self):
        """Let every parked thread run off (so that no thread outlives the rig)."""
        for ct in list(self.senders.values()):
            n = 0
            while ct.where[0] in ("lock", "get") and n < 50:
                try:
                    ct.resume("timeout")
                except Hung:
                    break
                n += 1
        if self.rx is not None and self.rx.where[0] in ("idle", "put"):
            try:
                if self.rx.where[0] == "put":
                    self.rx.resume("timeout")
                if self.rx.where[0] == "idle":
                    self.rx.resume(None)
            except Hung:
                pass
        self.buf = []


def _lowrepr(low):
    return [[x[0], x[1] if isinstance(x[1], (int, str, list)) else repr(x[1])] for x in low][:12]


# ---- the real receive path of transport.TCP over a fake socket -----------
class FakeSock:
    def __init__(self, chunks, log):
        self.chunks = [bytes(c) for c in chunks]
        self.log = log
        self.sent = []

    def recv(self, n):
        while self.chunks and not self.chunks[0]:
            self.chunks.pop(0)
        if not self.chunks:
            return b""  # closed: recv_thread leaves its loop
        c = self.chunks[0]
        out, rest = c[:n], c[n:]
        self.chunks[0] = rest
        return out

    def send(self, data):
        unit = list(bytes(data))
        self.sent.append(unit)
        self.log(("tx", unit))
        return len(unit)

    def close(self):
        pass


def run_tcp_pipeline(chunks):
    """Feed `chunks` (what successive socket reads could return at most) through the real
    transport.TCP.recv_thread into a real RspHandler; returns the recorded events."""
    from ppci.binutils.dbg.gdb import rsp, transport

    low = []
    events = []
    delivered = []
    t = transport.TCP(0)
    try:
        t.sock.close()
    except Exception:
        pass
    t.sock = FakeSock(chunks, low.append)
    t.rx_avail = lambda: True
    h = rsp.RspHandler(t)

    def on_message(res):
        p = [ord(c) for c in res]
        delivered.append(p)
        low.append(("deliver", p))

    h.on_message = on_message
    h._ack_queue = VQueue(getattr(h._ack_queue, "maxsize", 1), low.append)
    h._packet_decoder = DecoderProxy(h._packet_decoder, low.append)
    inner = t.on_byte

    def on_byte(data):
        del low[:]
        dead, err = False, ""
        try:
            inner(data)
        except BaseException as e:
            dead, err = True, type(e).__name__
        decs = [x[1] for x in low if x[0] == "dec"]
        ev = {
            "ev": "rx",
            "byte": data[0] if len(data) == 1 else -1,
            "msg": enc_msg(decs[0]) if len(decs) == 1 else {"k": "other", "repr": "%d decoder calls" % len(decs)},
            "tx": [x[1] for x in low if x[0] == "tx"],
            "deliver": [x[1] for x in low if x[0] == "deliver"],
            "blocked": any(x[0] == "put_blocked" for x in low),
            "dead": dead,
        }
        if dead:
            ev["error"] = err
        events.append(ev)
        if any(x[0] == "put_timeout" for x in low):
            ev["dead"] = False
            events.append({"ev": "put_timeout", "dead": dead, "error": err})
        if dead:
            raise RuntimeError("receiver died")

    t.on_byte = on_byte
    t._running = True
    allbytes = [b for c in chunks for b in bytes(c)]
    events.append({"ev": "peer", "bytes": allbytes})
    try:
        t.recv_thread()
    except BaseException as e:  # the receiver thread would have ended here
        if not (events and events[-1].get("dead")) and not (len(events) > 1 and events[-2].get("dead")):
            events.append({"ev": "rx_thread_exc", "error": type(e).__name__})
    return events
