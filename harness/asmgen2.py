"""Generic instruction-instance generator for every ppci instruction set (C09).

Python here only enumerates instances of ppci's instruction classes by reflection over
`arch.isa.instructions` (operand kinds: registers of the operand's register class, integers from a
boundary / random pool, label names, nested constructors such as addressing modes), drives the real
code -- str(instruction), Instruction.encode(), Instruction.relocations(), ppci.api.asm -- and
records what it did.  Nothing here compares the two sides; the verdict is TLC's (tla/Codec_Eval.tla).

An instance is *in the domain* of C09 when it can be constructed, printed and directly encoded; a
tuple of operand values for which the class's own constructor / printer / encoder raises is not an
instance (counted, never a violation)."""
import contextlib
import io
import logging

ARCHES = ["x86_64", "arm", "arm:thumb", "riscv", "riscv:rvc", "msp430", "avr", "m68k", "mips", "or1k", "xtensa",
          "microblaze", "stm8", "mcs6500"]
LABEL = "lab1"
INT_POOL = [0, 1, 2, 3, 4, 5, 7, 8, 12, 15, 16, 31, 32, 63, 64, 100, 127, 128, 255, 256, 511, 1000, 1023, 2047,
            2048, 4095, 4096, 32767, 32768, 65535, 65536, 0x12345, 0xFFFFF, 0x7FFFFFFF, 0x80000000, 0xFFFFFFFF,
            0x123456789A, -1, -2, -3, -4, -8, -16, -17, -32, -33, -64, -128, -129, -256, -2048, -2049, -32768,
            -65536, -0x80000000]


def _quiet(fn):
    """run fn() with ppci's diagnostics (stdout / logging) silenced"""
    buf = io.StringIO()
    logging.disable(logging.CRITICAL)
    try:
        with contextlib.redirect_stdout(buf), contextlib.redirect_stderr(buf):
            return fn()
    finally:
        logging.disable(logging.NOTSET)


def classes_of(arch):
    """instruction classes of the arch's ISA that have an assembler syntax and an encoding"""
    from ppci.arch.encoding import Instruction

    out = []
    for c in arch.isa.instructions:
        if not (isinstance(c, type) and issubclass(c, Instruction)):
            continue
        if getattr(c, "syntax", None) is None or not getattr(c, "tokens", None):
            continue
        out.append(c)
    return out


def skeleton(cls):
    """literal syntax elements and operand positions of a class (whitespace ignored)"""
    return tuple(e if isinstance(e, str) else "<>" for e in cls.syntax.syntax if not (isinstance(e, str) and e.isspace()))


def keyword_labels(arch, thorough=False):
    """label names spelled like keywords of the same ISA's assembler (register names and aliases,
    mnemonics, other keywords): with a digit, with an underscore, purely alphabetic.  ppci's assembler
    explicitly allows keywords as identifiers (BaseAssembler.add_keyword)."""
    import re

    try:
        kws = sorted(k for k in arch.assembler.lexer.kws if re.fullmatch(r"[a-z_][a-z0-9_]*", k))
    except Exception:
        return []
    digit = [k for k in kws if any(c.isdigit() for c in k)]
    under = [k for k in kws if "_" in k]
    alpha = [k for k in kws if k.isalpha() and len(k) > 1]
    out = []

    def take(lst, n):
        if not lst:
            return
        step = max(1, len(lst) // n)
        for k in lst[::step][:n]:
            if k not in out:
                out.append(k)

    take(digit, 3 if thorough else 2)
    take(under, 2 if thorough else 1)
    take(alpha, 3 if thorough else 2)
    return out


def register_names(arch):
    """lower-case names and aliases of every register an instruction operand of the ISA can take"""
    from ppci.arch.registers import Register

    names = set()

    def visit(t, depth=0):
        if isinstance(t, tuple):
            for x in t:
                visit(x, depth)
        elif isinstance(t, type) and issubclass(t, Register):
            try:
                for r in t.all_registers():
                    names.add(str(r.name).lower())
                    for a in getattr(r, "aka", ()) or ():
                        names.add(str(a).lower())
            except Exception:
                pass
        elif isinstance(t, type) and getattr(t, "syntax", None) is not None and depth < 3:
            for f in t.syntax.formal_arguments:
                visit(f._cls, depth + 1)

    for c in classes_of(arch):
        for f in c.syntax.formal_arguments:
            visit(f._cls)
    return names


def ambiguous_operand(ins):
    """input feature: an operand of the instance is built by a constructor class whose syntax skeleton
    is also the skeleton of another alternative of the same operand (the printed operand does not say
    which alternative it is, e.g. msp430 '#4' = constant generator or immediate)"""
    from ppci.arch.encoding import Constructor

    try:
        for f in ins.syntax.formal_arguments:
            v = getattr(ins, f._name)
            if isinstance(f._cls, tuple) and isinstance(v, Constructor):
                for t in f._cls:
                    if t is not type(v) and getattr(t, "syntax", None) is not None and skeleton(t) == skeleton(type(v)):
                        return True
    except Exception:
        return False
    return False


def clone(v):
    """a fresh copy of a nested operand constructor (pool values are shared between instances)"""
    from ppci.arch.encoding import Constructor

    if isinstance(v, Constructor) and getattr(v, "syntax", None) is not None:
        return type(v)(*[clone(getattr(v, f._name)) for f in v.syntax.formal_arguments])
    return v


class Pools:
    """candidate values per operand type"""

    def __init__(self, rng, nints=14, labels=(), regnames=()):
        self.rng = rng
        self.nints = nints
        # top-level label operands: any keyword spelling; label operands inside a nested operand
        # constructor (where a register is usually an alternative reading of the same text): only
        # spellings that are not register names
        self.labels = [LABEL] + [x for x in labels if x != LABEL]
        self.nested_labels = [x for x in self.labels if x not in regnames]
        self.regnames = set(regnames)
        self._ctor = {}

    def values(self, typ, depth=0):
        from ppci.arch.encoding import Constructor
        from ppci.arch.registers import Register

        if isinstance(typ, tuple):
            out = []
            for t in typ:
                out.extend(self.values(t, depth))
            return out
        if not isinstance(typ, type):
            return []
        if issubclass(typ, Register):
            try:
                return list(typ.all_registers())
            except Exception:
                return []
        if typ is int:
            extra = [self.rng.randrange(-(1 << 15), 1 << 16) for _ in range(3)]
            return INT_POOL + extra
        if typ is str:
            return list(self.labels if depth == 0 else self.nested_labels)
        if issubclass(typ, Constructor):
            if depth > 2:
                return []
            if typ not in self._ctor:
                self._ctor[typ] = None           # recursion guard
                self._ctor[typ] = self._ctor_values(typ, depth + 1)
            return self._ctor[typ] or []
        return []

    def _ctor_values(self, typ, depth):
        syn = getattr(typ, "syntax", None)
        if syn is None:
            return []
        pools = [self.values(f._cls, depth) for f in syn.formal_arguments]
        if any(not p for p in pools):
            return []
        out = []
        seen = set()
        for _ in range(40):
            args = [self.rng.choice(p) for p in pools]
            try:
                v = typ(*args)
                s = str(v)
            except Exception:
                continue
            if s in seen:
                continue
            seen.add(s)
            out.append(v)
            if len(out) >= 6:
                break
        return out


def observe(ins, printer=None):
    """text, direct encoding and relocations of an instance; None when the instance's own printer /
    encoder raises (not an instance of the class)"""
    try:
        text = printer.print_instruction(ins) if printer is not None else str(ins)
        data = bytes(ins.encode())
        rels = [[str(r.name), str(r.symbol_name), int(r.offset), str(int(r.addend))] for r in ins.relocations()]
    except Exception:
        return None
    if not text or "\n" in text or "<" in text and "object at 0x" in text:
        return None
    return text, list(data), rels


def instances(cls, pools, rng, limit, printer=None, plain_labels=False):
    """up to `limit` distinct instances [(text, bytes, relocs)] of the class: a base tuple, then every
    operand varied alone through its pool (each register, each boundary integer), then random tuples.
    Also returns how many tuples were tried and rejected by the class itself."""
    fargs = cls.syntax.formal_arguments
    plist = [pools.values(f._cls) for f in fargs]
    if plain_labels:   # the class shares its syntax with another one: no register-spelled labels
        plist = [[v for v in p if not (isinstance(v, str) and v in pools.regnames)] for p in plist]
    if any(not p for p in plist):
        return None, 0                       # an operand kind that cannot be built generically
    out = []
    seen = set()
    rejected = [0]

    def attempt(args):
        try:
            ins = cls(*args)
        except Exception:
            rejected[0] += 1
            return False
        ob = observe(ins, printer)
        if ob is None:
            rejected[0] += 1
            return False
        if ob[0] in seen:
            return True
        seen.add(ob[0])
        out.append({"text": ob[0], "bytes": ob[1], "relocs": ob[2], "how": "", "amb": ambiguous_operand(ins)})
        return True

    if not fargs:
        attempt([])
        return out, rejected[0]
    base = None
    for _ in range(80):
        args = [rng.choice(p) for p in plist]
        if attempt(args):
            base = args
            break
    if base is None:
        return out, rejected[0]
    # one operand at a time
    order = list(range(len(fargs)))
    per = max(2, limit // max(1, len(fargs)))
    for k in order:
        pool = list(plist[k])
        if len(pool) > per:
            head = pool[:per // 2] if fargs[k]._cls is not int else []
            pool = head + rng.sample(pool, per - len(head))
        for v in pool:
            if len(out) >= limit:
                break
            a = list(base)
            a[k] = v
            attempt(a)
    tries = 0
    while len(out) < limit and tries < 3 * limit:
        tries += 1
        attempt([rng.choice(p) for p in plist])
    return out[:limit], rejected[0]


def mutated_instances(cls, pools, rng, limit, printer=None):
    """instances observed AFTER a mutation sequence on a live instruction object: construct, print and
    encode it once (s0), change one operand inside a nested operand constructor (addressing mode, shift,
    src / dst) through the public setter or Instruction.replace_register, then print / encode again.
    Returns [(text after, bytes after, relocs after, description)]; the law is judged on the object as
    it is after the mutation."""
    from ppci.arch.encoding import Constructor
    from ppci.arch.registers import Register

    fargs = cls.syntax.formal_arguments
    plist = [pools.values(f._cls) for f in fargs]
    if any(not p for p in plist):
        return []
    nested = [k for k, p in enumerate(plist) if any(isinstance(v, Constructor) for v in p)]
    if not nested:
        return []
    out = []
    seen = set()
    tries = 0
    while len(out) < limit and tries < 12 * limit:
        tries += 1
        args = [clone(rng.choice(p)) for p in plist]
        cands = [k for k in nested if isinstance(args[k], Constructor) and args[k].syntax.formal_arguments]
        if not cands:
            continue
        try:
            ins = cls(*args)
            s0 = printer.print_instruction(ins) if printer is not None else str(ins)
            ins.encode()
            ins.relocations()
        except Exception:
            continue
        c = args[rng.choice(cands)]
        f = rng.choice(c.syntax.formal_arguments)
        pool = pools.values(f._cls, 1)          # an operand inside a nested constructor
        try:
            old = getattr(c, f._name)
            new = [v for v in pool if str(v) != str(old)]
            if not new:
                continue
            v = clone(rng.choice(new))
            if isinstance(old, Register) and isinstance(v, Register) and rng.random() < 0.5:
                ins.replace_register(old, v)
                how = "replace_register(%s, %s)" % (old, v)
            else:
                setattr(c, f._name, v)
                how = "%s.%s = %s" % (type(c).__name__, f._name, v)
        except Exception:
            continue
        ob = observe(ins, printer)
        if ob is None or ob[0] in seen:
            continue
        seen.add(ob[0])
        out.append({"text": ob[0], "bytes": ob[1], "relocs": ob[2], "amb": ambiguous_operand(ins),
                    "how": "printed '%s', encoded, then %s" % (s0, how)})
    return out


def project_asm(obj):
    """section bytes and relocation list of the assembled object ('code' section)"""
    data = []
    for s in obj.sections:
        if s.name == "code":
            data = list(bytes(s.data))
    rels = []
    for r in obj.relocations:
        sym = obj.symbols_by_id[r.symbol_id]
        rels.append([str(r.reloc_type), str(sym.name), int(r.offset), str(int(r.addend))])
    others = [s.name for s in obj.sections if s.name != "code" and len(s.data)]
    return data, rels, others


def assemble(text, arch):
    """the call under test; every outcome is recorded"""
    from ppci import api

    try:
        obj = _quiet(lambda: api.asm(io.StringIO(text + "\n"), arch))
    except BaseException as e:  # noqa: outcome class is the observation
        if isinstance(e, (KeyboardInterrupt, SystemExit)):
            raise
        return {"ok": False, "exc": type(e).__name__, "bytes": [], "relocs": []}
    try:
        data, rels, others = project_asm(obj)
    except Exception as e:
        return {"ok": False, "exc": "Projection:" + type(e).__name__, "bytes": [], "relocs": []}
    if others:
        return {"ok": False, "exc": "EmittedIntoSection:" + ",".join(others)[:40], "bytes": data, "relocs": rels}
    return {"ok": True, "exc": "", "bytes": data, "relocs": rels}


def assemble_class(obs, arch):
    """assemble the instances of one class: one batch when the batch is unremarkable (same total bytes
    and relocations, shifted by the instances' offsets), else one call per instance.  Returns the
    per-instance observations of the assembler."""
    if len(obs) > 1:
        batch = assemble("\n".join(o["text"] for o in obs), arch)
        if batch["ok"]:
            exp_bytes = []
            exp_rels = []
            for o in obs:
                for r in o["relocs"]:
                    exp_rels.append([r[0], r[1], r[2] + len(exp_bytes), r[3]])
                exp_bytes.extend(o["bytes"])
            if batch["bytes"] == exp_bytes and sorted(batch["relocs"]) == sorted(exp_rels):
                # attribution by the offsets the instances occupy in the batch (a split, not a verdict:
                # TLC still compares every slice with the direct encoding)
                res = []
                pos = 0
                for o in obs:
                    n = len(o["bytes"])
                    res.append({"ok": True, "exc": "", "bytes": batch["bytes"][pos:pos + n],
                                "relocs": [[r[0], r[1], r[2] - pos, r[3]] for r in batch["relocs"]
                                           if pos <= r[2] < pos + max(n, 1)]})
                    pos += n
                return res
    return [assemble(o["text"], arch) for o in obs]
