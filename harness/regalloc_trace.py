"""Register-allocation records (DESIGN A.4) taken WITHOUT a hook in /repo.

`recording(sink)` wraps methods of `GraphColoringRegisterAllocator` (and of its spill-code generator
`MiniGen`) while real code generation runs — the same way `harness/optcorpus.py: pass_recorder` wraps
optimiser passes — and hands one record per `alloc_frame` call to `sink`.

The recorder is a projection: it copies data attributes of live objects (instruction operands through
`used_registers` / `defined_registers` / `clobbers` / `jumps` / `ismove`, `Register.color`, the direct
sub-register tuples `Register.aliases`) into plain lists of small integers.  It never decides anything
and does not use the allocator's own derived data (liveness, interference graph, `arch.info.alias`).

Record (all ids are dense 1-based integers; instruction identity = Python object identity, stable
across rounds because the allocator mutates instruction objects in place; register identity = object
identity, except that a register that is coloured when first seen is identified with the machine
register `type(reg).from_num(reg.color)` it denotes):

 {"arch", "fn", "ok": bool, "exc": str,
  "regs":   [{"n": name, "cls": class name, "p": bool (machine register), "sub": [rid...]}]   index = rid
  "rounds": [[ins...]...]         instruction list at every init_data (last one = L of ColourCheck)
  "steps":  [[step...]...]        per round (recording(steps=True)): one entry per call of simplify /
                                  coalesc / freeze / select_spill / assign_colors:
                                  {"ev": method, "x": the element the method took (node = smallest rid of its
                                   temps; move = iid), "post": projection of the work lists after the call,
                                   assign_colors: "assign": [[node, machine register rid or 0]...] in pop order}
  "graphs": [graph...]            per round (steps=True): the interference graph and moves init_data built:
                                  {"nodes": [[node, class index, pre-coloured register rid or 0]...],
                                   "edges": [[node, node]...], "moves": [[iid, dst node, src node]...],
                                   "classes": [{"n": name, "regs": [rid...]}...], "sub": [[bool]] (issubclass),
                                   "alias": {rid: [rid...]}   (the allocator's own alias table: its input),
                                   "init": projection of the work lists init_data produced}
  "rewrites": [{"round", "before":[ins], "after":[ins], "slot": k, "temps":[rid],
                "blocks":[{"k":"load"|"store", "reg": rid, "slot": k, "ins":[iid...]}]}]
  "premove": [iid...], "postmove": [iid...]     frame.instructions around remove_redundant_moves
  "coalesced": [iid...]                         self.coalescedMoves at that moment
  "emitted": [ins...]                           frame.instructions when alloc_frame returns
  "colour": [phys rid or 0 per rid]             after alloc_frame returns (0 = none)
 }
 ins = {"i": iid, "u": [rid...], "d": [rid...], "c": [rid...], "j": [iid...], "m": bool, "t": text,
        "k": instruction class name}
"""
import contextlib


class _Ids:
    def __init__(self):
        self.map = {}
        self.keep = []

    def get(self, obj):
        k = id(obj)
        if k not in self.map:
            self.map[k] = len(self.map) + 1
            self.keep.append(obj)  # keep alive: ids must not be recycled
        return self.map[k]


class FrameRecord:
    def __init__(self, arch, frame):
        self.ins_ids = _Ids()
        self.reg_ids = {}
        self.keep = []
        self.regs = []
        self.slots = _Ids()
        self.rec = {"arch": str(getattr(arch, "name", arch)), "fn": str(getattr(frame, "name", "?")), "ok": True,
                    "exc": "", "regs": self.regs, "rounds": [], "steps": [], "graphs": [], "rewrites": [], "premove": [],
                    "postmove": [], "coalesced": [], "emitted": [], "colour": []}
        self.pending_blocks = None
        try:
            self.classes = list(arch.info.register_classes)
        except Exception:
            self.classes = []

    # ---- registers ------------------------------------------------------
    def machine_register(self, reg):
        """The machine register a coloured register denotes: the register numbered `reg.color` in the
        register file of reg's type (searched in the architecture's register classes: same type first,
        then sub/super types; `from_num` as a fallback).  None if there is none."""
        col, typ = reg.color, type(reg)
        exact, related = [], []
        for rc in self.classes:
            if rc.typ is typ:
                exact += [r for r in rc.registers or () if r.color == col]
            elif issubclass(typ, rc.typ) or issubclass(rc.typ, typ):
                related += [r for r in rc.registers or () if r.color == col]
        for cands in (exact, related):
            if cands:
                return cands[0]
        try:
            return typ.from_num(col)
        except Exception:
            return None

    def _canon(self, reg):
        """The object standing for this register's identity."""
        if getattr(reg, "_num", None) is not None or reg.color is None:
            return reg
        # coloured virtual-looking register: identified with the machine register it denotes
        return self.machine_register(reg) or reg

    def rid(self, reg, force_self=False):
        if id(reg) in self.reg_ids:
            return self.reg_ids[id(reg)]
        target = reg
        if not force_self and reg.color is not None:
            target = self._canon(reg)
            if id(target) in self.reg_ids:
                self.reg_ids[id(reg)] = self.reg_ids[id(target)]
                self.keep.append(reg)
                return self.reg_ids[id(reg)]
        n = len(self.regs) + 1
        self.reg_ids[id(target)] = n
        self.reg_ids[id(reg)] = n
        self.keep += [reg, target]
        ent = {"n": str(getattr(target, "name", "?")), "cls": type(target).__name__,
               "p": target.color is not None, "sub": []}
        self.regs.append(ent)
        if ent["p"]:
            ent["sub"] = [self.rid(r) for r in (getattr(target, "aliases", ()) or ())]
        return n

    def add_class_registers(self, arch):
        """Machine registers of the architecture's register classes (so that super-registers of the
        ones mentioned are known to the alias relation)."""
        for rc in self.classes:
            for r in rc.registers or ():
                self.rid(r)

    # ---- instructions ---------------------------------------------------
    def ins(self, obj):
        try:
            text = str(obj)[:60]
        except Exception:
            text = type(obj).__name__
        return {"i": self.ins_ids.get(obj),
                "u": [self.rid(r) for r in obj.used_registers],
                "d": [self.rid(r) for r in obj.defined_registers],
                "c": [self.rid(r) for r in (getattr(obj, "clobbers", ()) or ())],
                "j": [self.ins_ids.get(j) for j in (getattr(obj, "jumps", ()) or ())],
                "m": bool(getattr(obj, "ismove", False)), "t": text, "k": type(obj).__name__}

    def snapshot(self, instructions):
        return [self.ins(i) for i in instructions]

    def idlist(self, instructions):
        return [self.ins_ids.get(i) for i in instructions]

    def colours(self):
        """rid -> rid of the machine register it is coloured with (0 = none)."""
        out = [0] * len(self.regs)
        for o in list(self.keep):
            n = self.reg_ids[id(o)]
            if self.regs[n - 1]["p"] or o.color is None:
                continue
            m = self.machine_register(o)
            pn = self.rid(m) if m is not None else 0
            out += [0] * (len(self.regs) - len(out))
            out[n - 1] = pn
        out += [0] * (len(self.regs) - len(out))
        for n, ent in enumerate(self.regs):
            if ent["p"]:
                out[n] = n + 1
        return out


@contextlib.contextmanager
def recording(sink, steps=False):
    """While active, every GraphColoringRegisterAllocator.alloc_frame call produces one record,
    passed to sink(record)."""
    from ppci.codegen import registerallocator as ra

    A = ra.GraphColoringRegisterAllocator
    G = ra.MiniGen
    names = ["alloc_frame", "init_data", "rewrite_program", "remove_redundant_moves"]
    if steps:
        names += ["simplify", "coalesc", "freeze", "select_spill", "assign_colors"]
    orig = {n: A.__dict__[n] for n in names if n in A.__dict__}
    gorig = {n: G.__dict__[n] for n in ("gen_load", "gen_store") if n in G.__dict__}
    cur = []  # stack of active FrameRecords (alloc_frame is not re-entrant, but be safe)

    def alloc_frame(self, frame):
        fr = FrameRecord(self.arch, frame)
        fr.add_class_registers(self.arch)
        cur.append(fr)
        try:
            res = orig["alloc_frame"](self, frame)
            return res
        except Exception as e:
            fr.rec["ok"] = False
            fr.rec["exc"] = type(e).__name__
            raise
        finally:
            cur.pop()
            try:
                fr.rec["emitted"] = fr.snapshot(frame.instructions)
                fr.rec["colour"] = fr.colours()
            except Exception as e:  # a changed tree may leave odd objects behind
                fr.rec["ok"] = False
                fr.rec["exc"] = fr.rec["exc"] or ("projection:" + type(e).__name__)
            sink(fr.rec)

    def init_data(self, frame):
        if not cur:
            return orig["init_data"](self, frame)
        fr = cur[-1]
        fr.rec["rounds"].append(fr.snapshot(frame.instructions))
        fr.rec["steps"].append([])
        res = orig["init_data"](self, frame)
        if steps:
            try:
                fr.rec["graphs"].append(_graph(self, fr, nid))
            except Exception as e:
                fr.rec["graphs"].append({"exc": type(e).__name__})
        return res

    def rewrite_program(self, node):
        if not cur:
            return orig["rewrite_program"](self, node)
        fr = cur[-1]
        rw = {"round": len(fr.rec["rounds"]), "before": fr.snapshot(self.frame.instructions),
              "temps": sorted(fr.rid(t) for t in node.temps), "blocks": [], "slot": 0}
        fr.pending_blocks = rw["blocks"]
        try:
            return orig["rewrite_program"](self, node)
        finally:
            fr.pending_blocks = None
            rw["after"] = fr.snapshot(self.frame.instructions)
            slots = sorted({b["slot"] for b in rw["blocks"]})
            rw["slot"] = slots[0] if len(slots) == 1 else 0
            rw["nslots"] = len(slots)
            fr.rec["rewrites"].append(rw)

    def remove_redundant_moves(self):
        if not cur:
            return orig["remove_redundant_moves"](self)
        fr = cur[-1]
        fr.rec["premove"] = fr.idlist(self.frame.instructions)
        fr.rec["coalesced"] = fr.idlist(self.coalescedMoves)
        try:
            return orig["remove_redundant_moves"](self)
        finally:
            fr.rec["postmove"] = fr.idlist(self.frame.instructions)

    def gen_block(kind):
        def gen(self, frame, vreg, slot):
            code = gorig[kind](self, frame, vreg, slot)
            if cur and cur[-1].pending_blocks is not None:
                fr = cur[-1]
                fr.pending_blocks.append({"k": "load" if kind == "gen_load" else "store", "reg": fr.rid(vreg),
                                          "slot": fr.slots.get(slot), "ins": fr.idlist(code)})
            return code

        return gen

    # ---- work-list steps (IRC trace validation) --------------------------
    def nid(fr, node):
        return sorted(fr.rid(t) for t in node.temps)[0]

    def step_wrapper(name):
        def step(self, *a):
            fr = cur[-1] if cur else None
            if fr is None:
                return orig[name](self, *a)
            x, before = 0, None
            try:   # what the method is about to take (OrderedSet.pop() returns the first element)
                if name == "simplify":
                    x = nid(fr, next(iter(self.simplify_worklist)))
                elif name == "coalesc":
                    x = fr.ins_ids.get(next(iter(self.worklistMoves)))
                elif name == "freeze":
                    x = nid(fr, next(iter(self.freeze_worklist)))
                elif name == "select_spill":
                    before = {nid(fr, n) for n in self.spill_worklist}
                elif name == "assign_colors":
                    before = list(reversed(self.select_stack))
            except Exception:
                x = -1
            res = orig[name](self, *a)
            try:
                ev = {"ev": name, "x": x, "post": _irc_state(self, fr, nid)}
                if name == "select_spill":
                    gone = sorted(before - {nid(fr, n) for n in self.spill_worklist})
                    ev["x"] = gone[0] if len(gone) == 1 else -1
                if name == "assign_colors":
                    ev["assign"] = [[nid(fr, n), fr.rid(n.reg) if n.reg is not None else 0] for n in before]
                    ev["spilled"] = [nid(fr, n) for n in res]
                fr.rec["steps"][-1].append(ev)
            except Exception as e:
                fr.rec["steps"][-1].append({"ev": name, "x": -1, "post": {}, "exc": type(e).__name__})
            return res

        return step

    wrappers = {"alloc_frame": alloc_frame, "init_data": init_data, "rewrite_program": rewrite_program,
                "remove_redundant_moves": remove_redundant_moves}
    for n in names:
        if n not in wrappers:
            wrappers[n] = step_wrapper(n)
    for n, fn in wrappers.items():
        if n in orig:
            setattr(A, n, fn)
    for n in gorig:
        setattr(G, n, gen_block(n))
    try:
        yield
    finally:
        for n, fn in orig.items():
            setattr(A, n, fn)
        for n, fn in gorig.items():
            setattr(G, n, fn)


def _graph(alloc, fr, nid):
    """The interference graph, the moves and the register tables the allocator works on (after init_data)."""
    ig = alloc.frame.ig
    ctypes = []

    def cidx(t):
        if t not in ctypes:
            ctypes.append(t)
        return ctypes.index(t) + 1

    for t in alloc.K:
        cidx(t)
    nodes = [[nid(fr, n), cidx(n.reg_class), fr.rid(n.reg) if n.reg is not None else 0] for n in ig.nodes]
    edges = sorted({tuple(sorted((nid(fr, n), nid(fr, m)))) for n in ig.nodes for m in ig.adj_map[n]})
    moves = [[fr.ins_ids.get(m), nid(fr, alloc.node(m.defined_registers[0])), nid(fr, alloc.node(m.used_registers[0]))]
             for m in alloc.moves]
    classes = [{"n": t.__name__, "regs": [fr.rid(r) for r in alloc.cls_regs.get(t, ())]} for t in ctypes]
    sub = [[bool(issubclass(a, b)) for b in ctypes] for a in ctypes]
    alias = {str(fr.rid(r)): [fr.rid(q) for q in al] for r, al in alloc.alias.items()}
    return {"nodes": nodes, "edges": [list(e) for e in edges], "moves": moves, "classes": classes, "sub": sub,
            "alias": alias, "init": _irc_state(alloc, fr, nid)}


def _irc_state(alloc, fr, nid):
    """Projection of the allocator's work lists (node = smallest register id of its temps)."""
    def ns(s):
        return sorted(nid(fr, n) for n in s)

    def ms(s):
        return sorted(fr.ins_ids.get(m) for m in s)

    return {"simplify": ns(alloc.simplify_worklist), "freeze": ns(alloc.freeze_worklist),
            "spill": ns(alloc.spill_worklist), "stack": [nid(fr, n) for n in alloc.select_stack],
            "wl": ms(alloc.worklistMoves), "active": ms(alloc.activeMoves), "coalesced": ms(alloc.coalescedMoves),
            "constrained": ms(alloc.constrainedMoves), "frozen": ms(alloc.frozenMoves)}
