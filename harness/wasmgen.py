"""Generator of valid integer WebAssembly modules as *abstract modules* (the JSON schema of
harness/project_wasm.py, which Wasm.tla executes), plus an independent WAT renderer.

The abstract module is built here directly (not through ppci); `render_wat` writes the flat text form
with explicit numeric indices and explicit type uses, so that what ppci's text parser produces can be
compared with the abstract module component by component (C21) and executed (C22).

A *work item* is  {key, mod, traces: [[call...]...]}  with call = {fn, args:[int], tys:[ty]}; every trace
is run on a fresh instance.  Calls that are meant to trap (or that kill a native process, like
INT_MIN rem -1 on x86) are the last call of their own trace.
"""
from harness.project_wasm import limbs

I32, I64 = "i32", "i64"
BITS = {"i32": 32, "i64": 64}
BIN = ["add", "sub", "mul", "div_s", "div_u", "rem_s", "rem_u", "and", "or", "xor", "shl", "shr_s", "shr_u",
       "rotl", "rotr"]
CMP = ["eq", "ne", "lt_s", "lt_u", "gt_s", "gt_u", "le_s", "le_u", "ge_s", "ge_u"]
UN = ["clz", "ctz", "popcnt"]
LOADS = {"i32": ["load", "load8_s", "load8_u", "load16_s", "load16_u"],
         "i64": ["load", "load8_s", "load8_u", "load16_s", "load16_u", "load32_s", "load32_u"]}
STORES = {"i32": ["store", "store8", "store16"], "i64": ["store", "store8", "store16", "store32"]}


def acc_bytes(t, o):
    if o in ("load", "store"):
        return BITS[t] // 8
    return {"8": 1, "16": 2, "32": 4}[o.replace("load", "").replace("store", "").split("_")[0]]


# ---------------------------------------------------------------------------------------------------
# instructions
# ---------------------------------------------------------------------------------------------------
def ins(op, **kw):
    t, dot, o = op.partition(".")
    if not dot:
        t, o = "", op
    r = {"op": op, "t": t, "o": o}
    r.update(kw)
    return r


def const(t, v):
    return ins(t + ".const", v=limbs(v, BITS[t] // 8))


def lget(x):
    return ins("local.get", x=x)


def lset(x):
    return ins("local.set", x=x)


def ltee(x):
    return ins("local.tee", x=x)


def gget(x):
    return ins("global.get", x=x)


def gset(x):
    return ins("global.set", x=x)


def bt_empty():
    return {"k": "empty"}


def bt_val(t):
    return {"k": "val", "ty": t}


def bt_idx(x):
    return {"k": "idx", "x": x}


def block(bt=None):
    return ins("block", bt=bt or bt_empty())


def loop(bt=None):
    return ins("loop", bt=bt or bt_empty())


def if_(bt=None):
    return ins("if", bt=bt or bt_empty())


def br(l):
    return ins("br", l=l)


def br_if(l):
    return ins("br_if", l=l)


def br_table(ls, d):
    return ins("br_table", ls=list(ls), d=d)


def call(x):
    return ins("call", x=x)


def call_indirect(ty, table=0):
    return ins("call_indirect", type=ty, table=table)


def mem(op, off=0, align=None):
    t, _, o = op.partition(".")
    n = acc_bytes(t, o)
    if align is None:
        align = {1: 0, 2: 1, 4: 2, 8: 3}[n]
    return ins(op, align=align, off=limbs(off, 4), offok=True)


END = ins("end")
ELSE = ins("else")


def simple(op):
    return ins(op)


class Mod:
    def __init__(self):
        self.m = {"types": [], "imports": [], "funcs": [], "tables": [], "mems": [], "globals": [], "exports": [],
                  "start": -1, "elems": [], "datas": []}

    def type(self, params, results):
        t = {"params": list(params), "results": list(results)}
        if t in self.m["types"]:
            return self.m["types"].index(t)
        self.m["types"].append(t)
        return len(self.m["types"]) - 1

    def nfi(self):
        return sum(1 for i in self.m["imports"] if i["kind"] == "func")

    def imp_func(self, mod, name, params, results):
        assert not self.m["funcs"], "imports first"
        self.m["imports"].append({"mod": mod, "name": name, "kind": "func", "type": self.type(params, results)})
        return self.nfi() - 1

    def func(self, params, results, locals_, body, export=None):
        self.m["funcs"].append({"type": self.type(params, results), "locals": list(locals_), "body": list(body)})
        x = self.nfi() + len(self.m["funcs"]) - 1
        if export:
            self.m["exports"].append({"name": export, "kind": "func", "idx": x})
        return x

    def memory(self, mn, mx=-1, export="mem"):
        self.m["mems"].append({"min": mn, "max": mx})
        if export:
            self.m["exports"].append({"name": export, "kind": "memory", "idx": 0})

    def table(self, mn, mx=-1):
        self.m["tables"].append({"kind": "funcref", "min": mn, "max": mx})

    def glob(self, ty, mut, v, export=None):
        self.m["globals"].append({"ty": ty, "mut": bool(mut), "init": [const(ty, v)]})
        x = len(self.m["globals"]) - 1
        if export:
            self.m["exports"].append({"name": export, "kind": "global", "idx": x})
        return x

    def elem(self, off, refs):
        self.m["elems"].append({"mode": "active", "table": 0, "offset": [const(I32, off)], "refs": list(refs)})

    def data(self, off, bs):
        self.m["datas"].append({"mode": "active", "mem": 0, "offset": [const(I32, off)], "bytes": list(bs)})

    def start(self, x):
        self.m["start"] = x


# ---------------------------------------------------------------------------------------------------
# WAT renderer (independent of ppci)
# ---------------------------------------------------------------------------------------------------
def _sv(lb):
    n = len(lb)
    v = sum(b << (8 * k) for k, b in enumerate(lb))
    return v - (1 << (8 * n)) if v >> (8 * n - 1) else v


def _uv(lb):
    return sum(b << (8 * k) for k, b in enumerate(lb))


def _bt(bt):
    if bt["k"] == "empty":
        return ""
    if bt["k"] == "val":
        return " (result %s)" % bt["ty"]
    return " (type %d)" % bt["x"]


def render_ins(i):
    op = i["op"]
    if op in ("i32.const", "i64.const"):
        return "%s %d" % (op, _sv(i["v"]))
    if op in ("local.get", "local.set", "local.tee", "global.get", "global.set", "call"):
        return "%s %d" % (op, i["x"])
    if op in ("br", "br_if"):
        return "%s %d" % (op, i["l"])
    if op == "br_table":
        return "br_table " + " ".join(str(x) for x in i["ls"] + [i["d"]])
    if op in ("block", "loop", "if"):
        return op + _bt(i["bt"])
    if op == "call_indirect":
        return "call_indirect (type %d)" % i["type"]
    if "off" in i:
        return "%s offset=%d align=%d" % (op, _uv(i["off"]), 1 << i["align"])
    return op


def _str(bs):
    return '"' + "".join("\\%02x" % b for b in bs) + '"'


def render_wat(m):
    out = ["(module"]
    for t in m["types"]:
        p = (" (param %s)" % " ".join(t["params"])) if t["params"] else ""
        r = (" (result %s)" % " ".join(t["results"])) if t["results"] else ""
        out.append("  (type (func%s%s))" % (p, r))
    for im in m["imports"]:
        out.append('  (import "%s" "%s" (func (type %d)))' % (im["mod"], im["name"], im["type"]))
    for f in m["funcs"]:
        out.append("  (func (type %d)" % f["type"])
        if f["locals"]:
            out.append("    (local %s)" % " ".join(f["locals"]))
        depth = 0
        for i in f["body"]:
            if i["op"] in ("end", "else"):
                depth -= 1
            out.append("    " + "  " * max(depth, 0) + render_ins(i))
            if i["op"] in ("block", "loop", "if", "else"):
                depth += 1
        out.append("  )")
    for t in m["tables"]:
        out.append("  (table %d%s %s)" % (t["min"], (" %d" % t["max"]) if t["max"] >= 0 else "", t.get("kind", "funcref")))
    for mm in m["mems"]:
        out.append("  (memory %d%s)" % (mm["min"], (" %d" % mm["max"]) if mm["max"] >= 0 else ""))
    for g in m["globals"]:
        ty = "(mut %s)" % g["ty"] if g["mut"] else g["ty"]
        out.append("  (global %s (%s))" % (ty, render_ins(g["init"][0])))
    for e in m["exports"]:
        out.append('  (export "%s" (%s %d))' % (e["name"], e["kind"], e["idx"]))
    if m["start"] >= 0:
        out.append("  (start %d)" % m["start"])
    for e in m["elems"]:
        out.append("  (elem (%s) func %s)" % (render_ins(e["offset"][0]), " ".join(str(x) for x in e["refs"])))
    for d in m["datas"]:
        out.append("  (data (%s) %s)" % (render_ins(d["offset"][0]), _str(d["bytes"])))
    out.append(")")
    return "\n".join(out) + "\n"


# ---------------------------------------------------------------------------------------------------
# operand values
# ---------------------------------------------------------------------------------------------------
def signed(v, t):
    b = BITS[t]
    v &= (1 << b) - 1
    return v - (1 << b) if v >> (b - 1) else v


def boundary(t):
    b = BITS[t]
    m = (1 << b) - 1
    s = [0, 1, 2, 3, 7, m, m - 1, 1 << (b - 1), (1 << (b - 1)) - 1, (1 << (b - 1)) + 1, b - 1, b, b + 1, 2 * b - 1,
         0x80, 0xFF, 0x7F, 0x8000, 0xFFFF, 0x0123456789ABCDEF & m, 0xFEDCBA9876543210 & m, 0x55555555 & m, 0xAAAAAAAA & m,
         1 << (b // 2), (1 << (b // 2)) - 1, 0x80000000 & m, 0xFFFFFFFF & m, 0x7FFFFFFF]
    return sorted({signed(x, t) for x in s})


def pairs(t, rng, n):
    """Operand pairs: boundary x boundary sample + random."""
    bv = boundary(t)
    out = set()
    key = [signed(x, t) for x in (0, 1, -1, 1 << (BITS[t] - 1), (1 << (BITS[t] - 1)) - 1, 2, BITS[t], BITS[t] + 1, 7)]
    for a in key:
        for b in key:
            out.add((a, b))
    out = sorted(out)
    rng.shuffle(out)
    out = out[:max(n // 2, 8)]
    while len(out) < n:
        a = rng.choice(bv) if rng.random() < 0.6 else signed(rng.getrandbits(BITS[t]), t)
        b = rng.choice(bv) if rng.random() < 0.6 else signed(rng.getrandbits(BITS[t]), t)
        out.append((a, b))
    return out


def will_trap_bin(o, a, b, t):
    """Generator-side *intent* only (decides how calls are grouped into traces, never the verdict)."""
    if o in ("div_s", "div_u", "rem_s", "rem_u") and b == 0:
        return True
    if o in ("div_s", "rem_s") and a == -(1 << (BITS[t] - 1)) and b == -1:
        return True       # rem_s does not trap but x86 idiv faults: isolate it as well
    return False


def C(fn, args, tys):
    return {"fn": fn, "args": [int(a) for a in args], "tys": list(tys)}


def item(key, mod, traces):
    return {"key": key, "mod": mod.m if isinstance(mod, Mod) else mod, "traces": [t for t in traces if t]}


def slice_leaf(mod, names):
    """Module with only the exported functions `names` (for modules whose functions do not call each other and
    that have no imports, table, elements or start function): the same types, memory, globals and data."""
    m = mod.m if isinstance(mod, Mod) else mod
    assert not m["imports"] and not m["tables"] and not m["elems"] and m["start"] < 0
    out = {k: (list(v) if isinstance(v, list) else v) for k, v in m.items()}
    keep = [e for e in m["exports"] if e["kind"] == "func" and e["name"] in names]
    out["funcs"] = [m["funcs"][e["idx"]] for e in keep]
    assert not any(i["op"] in ("call", "call_indirect") for f in out["funcs"] for i in f["body"])
    out["exports"] = [e for e in m["exports"] if e["kind"] != "func"] + \
                     [{"name": e["name"], "kind": "func", "idx": k} for k, e in enumerate(keep)]
    return out


def explode(key, mod, calls, risky, ntraps, rng, chunk=150, leaf=True):
    """-> items: the module with the ordinary calls (traces of <= chunk calls) and, for `ntraps` of the calls that
    are meant to trap (or to kill a native process), one item each: a module reduced to the called function and a
    single one-call trace."""
    safe = [c for c, r in zip(calls, risky) if not r]
    out = [item(key, mod, [safe[k:k + chunk] for k in range(0, len(safe), chunk)])]
    byfn = {}
    for c, r in zip(calls, risky):
        if r:
            byfn.setdefault(c["fn"], []).append(c)
    fns = sorted(byfn)
    if len(fns) > ntraps:
        rng.shuffle(fns)
    rk = []
    while any(byfn.values()):          # round robin over the functions, each in its listed order
        for f in fns:
            if byfn[f]:
                rk.append(byfn[f].pop(0))
    for j, c in enumerate(rk[:ntraps]):
        m = slice_leaf(mod, [c["fn"]]) if leaf else mod
        out.append(item("%s.risk%d_%s" % (key, j, c["fn"]), m, [[c]]))
    return out


# ---------------------------------------------------------------------------------------------------
# directed modules
# ---------------------------------------------------------------------------------------------------
BIN_GROUPS = {"a": ["add", "sub", "mul", "div_s", "div_u"], "b": ["rem_s", "rem_u", "and", "or", "xor"],
              "c": ["shl", "shr_s", "shr_u", "rotl", "rotr"]}


def m_binops(t, grp, rng, npairs, ntraps):
    m = Mod()
    ops = BIN_GROUPS[grp]
    for o in ops:
        m.func([t, t], [t], [], [lget(0), lget(1), simple("%s.%s" % (t, o))], export=o)
    calls, risky = [], []
    for o in ops:
        ps = pairs(t, rng, npairs)
        extra = []
        if o in ("div_s", "div_u", "rem_s", "rem_u"):
            mn = -(1 << (BITS[t] - 1))
            extra = [(mn, -1), (7, 0), (0, 0), (mn, 0), (mn, 1), (mn, 2), (-7, 2), (7, -2), (-7, -2), (mn + 1, -1), (-1, mn)]
        if o in ("shl", "shr_s", "shr_u", "rotl", "rotr"):
            b = BITS[t]
            extra = [(x, c) for x in (1, -1, 1 << (b - 1), 0x12345678) for c in (0, 1, b - 1, b, b + 1, 2 * b, -1, 255, 256)]
            rng.shuffle(extra)
            extra = extra[:max(npairs, 12)]
        seen = set()
        for a, b_ in extra + ps:
            a, b_ = signed(a, t), signed(b_, t)
            if (a, b_) in seen:
                continue
            seen.add((a, b_))
            calls.append(C(o, [a, b_], [t, t]))
            risky.append(will_trap_bin(o, a, b_, t))
    return explode("bin_%s_%s" % (t, grp), m, calls, risky, ntraps, rng)


def m_cmp(t, rng, npairs):
    m = Mod()
    for o in CMP:
        m.func([t, t], [I32], [], [lget(0), lget(1), simple("%s.%s" % (t, o))], export=o)
    calls = []
    for o in CMP:
        for a, b in pairs(t, rng, npairs):
            calls.append(C(o, [a, b], [t, t]))
        for a in boundary(t)[:3]:
            calls.append(C(o, [a, a], [t, t]))
    return [item("cmp_" + t, m, [calls[k:k + 150] for k in range(0, len(calls), 150)])]


def m_unary(t, rng, npairs):
    m = Mod()
    for o in UN:
        m.func([t], [t], [], [lget(0), simple("%s.%s" % (t, o))], export=o)
    m.func([t], [I32], [], [lget(0), simple(t + ".eqz")], export="eqz")
    exts = ["extend8_s", "extend16_s"] + (["extend32_s"] if t == I64 else [])
    for o in exts:
        m.func([t], [t], [], [lget(0), simple("%s.%s" % (t, o))], export=o)
    if t == I64:
        m.func([I64], [I32], [], [lget(0), simple("i32.wrap_i64")], export="wrap")
        m.func([I32], [I64], [], [lget(0), simple("i64.extend_i32_s")], export="ext_s")
        m.func([I32], [I64], [], [lget(0), simple("i64.extend_i32_u")], export="ext_u")
    # select / drop / tee / nop
    m.func([t, t, I32], [t], [], [lget(0), lget(1), lget(2), simple("select")], export="sel")
    m.func([t, t], [t], [t], [lget(0), lget(1), simple("drop"), ltee(2), simple("nop"), lget(2),
                               simple(t + ".add")], export="tee")
    calls = []
    bv = boundary(t)
    rng.shuffle(bv)
    one = bv[:npairs] + [signed(rng.getrandbits(BITS[t]), t) for _ in range(npairs // 3)] + [0, -1, signed(1 << (BITS[t] - 1), t)]
    for o in UN + ["eqz"] + exts:
        for a in one:
            calls.append(C(o, [a], [t]))
    if t == I64:
        for a in one:
            calls.append(C("wrap", [a], [I64]))
        for a in boundary(I32)[::2]:
            calls.append(C("ext_s", [a], [I32]))
            calls.append(C("ext_u", [a], [I32]))
    for a, b in pairs(t, rng, 4):
        for c in (0, 1, -1, 256, 1 << 31):
            calls.append(C("sel", [a, b, signed(c, I32)], [t, t, I32]))
        calls.append(C("tee", [a, b], [t, t]))
    return [item("unary_" + t, m, [calls[k:k + 150] for k in range(0, len(calls), 150)])]


def _mem_base():
    m = Mod()
    m.memory(1, 3)
    m.data(0, [1, 2, 3, 4, 5, 6, 7, 8])
    m.data(65528, [0x80, 0x81, 0x82, 0x83, 0xF4, 0xF5, 0xF6, 0xF7])
    m.data(100, [0xFF, 0x7F, 0x80, 0x00, 0xFF, 0xFF, 0xFF, 0xFF, 0x01])
    return m


def m_loads(t, rng, ntraps):
    """Loads of every width with offsets 0 / 4 / 65528 around the edges of a one-page memory."""
    m = _mem_base()
    calls, risky = [], []

    def add(c, r=False):
        calls.append(c)
        risky.append(r)

    for o in LOADS[t]:
        n = acc_bytes(t, o)
        for off in (0, 4, 65528):
            nm = "%s_%d" % (o, off)
            m.func([I32], [t], [], [lget(0), mem("%s.%s" % (t, o), off)], export=nm)
            bases = [0, 1, 3, 100, 101, 104] if off < 65528 else [0, 1, 4, 7, 8 - n]
            for b in bases:
                add(C(nm, [b], [I32]), b + off + n > 65536)
            add(C(nm, [65536 - off - n], [I32]))                    # last valid address
            add(C(nm, [65536 - off - n + 1], [I32]), True)         # first invalid one
            add(C(nm, [-1], [I32]), True)                          # base 0xFFFFFFFF
            add(C(nm, [signed(0x80000000, I32)], [I32]), True)
    if t == I32:
        m.func([I32], [I32], [], [lget(0), mem("i32.load", 0xFFFFFFFF)], export="maxoff")
        m.func([I32], [I32], [], [lget(0), mem("i32.load8_u", 0xFFFFFFFF)], export="maxoff8")
        m.func([I32], [I32], [], [lget(0), mem("i32.load16_u", 1, align=0)], export="unaligned")
        for b in (0, 1, 2):
            add(C("maxoff", [b], [I32]), True)
            add(C("maxoff8", [b], [I32]), True)
        add(C("unaligned", [0], [I32]))
        add(C("unaligned", [100], [I32]))
    return explode("ld_" + t, m, calls, risky, ntraps, rng)


def m_stores(t, rng, ntraps):
    m = _mem_base()
    g = m.glob(I32, True, 0, export="g0")
    calls, risky = [], []

    def add(c, r=False):
        calls.append(c)
        risky.append(r)

    m.func([I32], [I64], [], [lget(0), mem("i64.load")], export="rd")
    for o in STORES[t]:
        n = acc_bytes(t, o)
        for off in (0, 3):
            nm = "%s_%d" % (o, off)
            # (the function also returns the first byte written, so that no call of the trace is result-less)
            m.func([I32, t], [I32], [], [lget(0), lget(1), mem("%s.%s" % (t, o), off), lget(0), mem("i32.load8_u", off)],
                   export=nm)
            vals = [signed(x, t) for x in (0x0123456789ABCDEF, -1, 0x80, 0x8000, 0x80000000)]
            for k, v in enumerate(vals):
                add(C(nm, [200 + 16 * k + (k % 3), v], [I32, t]))
                add(C("rd", [200 + 16 * k], [I32]))
            add(C(nm, [65536 - off - n, vals[0]], [I32, t]))
            add(C("rd", [65528], [I32]))
            add(C(nm, [65536 - off - n + 1, vals[1]], [I32, t]), True)
            add(C(nm, [-4, vals[0]], [I32, t]), True)
    return explode("st_" + t, m, calls, risky, ntraps, rng)


def m_grow(rng):
    m = _mem_base()
    g = m.glob(I32, True, 0, export="g0")
    m.func([], [I32], [], [ins("memory.size", m=0)], export="size")
    m.func([I32], [I32], [], [lget(0), ins("memory.grow", m=0), ltee(0), gset(g), lget(0)], export="grow")
    m.func([I32, I32], [I32], [], [lget(0), lget(1), mem("i32.store"), ins("memory.size", m=0)], export="st")
    m.func([I32], [I32], [], [lget(0), mem("i32.load")], export="ld")
    m.func([I32], [I64], [], [lget(0), mem("i64.load")], export="ld64")
    # an offset that does not fit 16 bits: base 4 + 65540 is inside the second page
    m.func([I32], [I32], [], [lget(0), mem("i32.load", 65540)], export="ldbig")
    m.func([I32, I32], [I32], [], [lget(0), lget(1), mem("i32.store16", 131000), ins("memory.size", m=0)], export="stbig")
    grow = [C("size", [], []), C("grow", [1], [I32]), C("size", [], []), C("st", [65536 + 8, 77], [I32, I32]),
            C("ld", [65536 + 8], [I32]), C("ldbig", [4], [I32]), C("grow", [2], [I32]), C("grow", [1], [I32]), C("size", [], []),
            C("grow", [0], [I32]), C("stbig", [70, -2], [I32, I32]), C("ld64", [131068], [I32]),
            C("grow", [-1], [I32]), C("grow", [65536], [I32]), C("size", [], []),
            C("ld64", [3 * 65536 - 8], [I32])]
    return [item("memgrow", m, [grow, grow[:6] + [C("ld", [3 * 65536 - 3], [I32])],
                                [C("ld", [65536], [I32])], [C("grow", [1], [I32]), C("ld", [2 * 65536 - 4], [I32]),
                                                            C("ld64", [2 * 65536 - 4], [I32])]])]


def m_control(rng):
    m = Mod()
    m.memory(1, 1)
    g = m.glob(I64, True, 5, export="acc")
    # factorial with loop/br_if/br
    m.func([I64], [I64], [I64], [const(I64, 1), lset(1), block(), loop(), lget(0), simple("i64.eqz"), br_if(1),
                                 lget(1), lget(0), simple("i64.mul"), lset(1), lget(0), const(I64, 1),
                                 simple("i64.sub"), lset(0), br(0), END, END, lget(1)], export="fac")
    # nested blocks, br_table with every target, values carried out of blocks
    # every target (three value blocks and the function label) takes one i32
    body = [block(bt_val(I32)), block(bt_val(I32)), block(bt_val(I32)),
            lget(1), lget(0), br_table([0, 1, 2, 3, 0], 3),
            END, const(I32, 10), simple("i32.add"),
            END, const(I32, 20), simple("i32.mul"),
            END, const(I32, 3), simple("i32.sub")]
    m.func([I32, I32], [I32], [], body, export="brt")
    # if / else with results, nested, early return
    m.func([I32, I32], [I32], [], [lget(0), if_(bt_val(I32)), lget(1), if_(bt_val(I32)), const(I32, 11), ELSE,
                                   const(I32, 12), END, ELSE, lget(1), simple("i32.eqz"), if_(), const(I32, 99),
                                   simple("return"), END, const(I32, 21), END, const(I32, 1000),
                                   simple("i32.add")], export="ifs")
    # br_if carrying a value out of a value block; unwinding extra operands on branch
    m.func([I32], [I32], [], [block(bt_val(I32)), const(I32, 7), const(I32, 8), const(I32, 9), lget(0), br_if(0),
                              simple("drop"), simple("drop"), simple("drop"), const(I32, 5), END], export="unwind")
    # loop that counts into a global and memory, exits through nested br from inside an if
    m.func([I32], [I32], [I32], [block(), loop(), lget(1), lget(0), simple("i32.ge_u"), if_(), br(2), END,
                                 gget(g), lget(1), simple("i64.extend_i32_u"), simple("i64.add"), gset(g),
                                 lget(1), const(I32, 4), simple("i32.mul"), lget(1), mem("i32.store", 16),
                                 lget(1), const(I32, 1), simple("i32.add"), lset(1), br(0), END, END,
                                 lget(1)], export="count")
    # unreachable after a conditional
    m.func([I32], [I32], [], [lget(0), if_(), simple("unreachable"), END, const(I32, 1)], export="unr")
    # dead code after br / return (unreachable code is still validated, never executed)
    m.func([I32], [I32], [], [block(bt_val(I32)), lget(0), br(0), const(I32, 1), simple("i32.add"), END,
                              simple("return"), simple("drop"), const(I32, 3)], export="dead")
    # else-less if with the branch to the function label carrying the result
    m.func([I32], [I32], [], [const(I32, 40), lget(0), br_if(0), simple("drop"), const(I32, 41)], export="brfn")
    calls = []
    for n in (0, 1, 5, 20, 21):
        calls.append(C("fac", [n], [I64]))
    for k in (0, 1, 2, 3, 4, 5, -1, 1 << 20):
        calls.append(C("brt", [signed(k, I32), 7], [I32, I32]))
    for a in (0, 1, -5):
        for b in (0, 1):
            calls.append(C("ifs", [a, b], [I32, I32]))
    for a in (0, 1, 2):
        calls.append(C("unwind", [a], [I32]))
        calls.append(C("dead", [a], [I32]))
        calls.append(C("brfn", [a], [I32]))
    for a in (0, 1, 6):
        calls.append(C("count", [a], [I32]))
    calls.append(C("unr", [0], [I32]))
    return item("control", m, [calls, [C("count", [3], [I32]), C("unr", [1], [I32])]])


def m_blockparam():
    """Block types given by a type index (multi-value): a loop with a parameter, a block with parameter and result."""
    m = Mod()
    ty = m.type([I32], [I32])
    m.func([I32], [I32], [I32], [lget(0), loop(bt_idx(ty)), ltee(1), const(I32, 3), simple("i32.sub"), ltee(1),
                                 const(I32, 0), simple("i32.gt_s"), if_(), lget(1), br(1), END, lget(1), END],
           export="loopparam")
    m.func([I32], [I32], [], [lget(0), block(bt_idx(ty)), const(I32, 5), simple("i32.mul"), END], export="blockparam")
    calls = [C("loopparam", [a], [I32]) for a in (0, 1, 3, 4, 10, -2)] + [C("blockparam", [a], [I32]) for a in (0, 7, -1)]
    return item("blockparam", m, [calls])


def m_locals():
    """Declared locals start at zero in every activation: functions whose locals are first *written* inside a branch
    that is not taken / a loop that runs zero times and are then read, called right after a function that filled
    the (native) stack with non-zero values."""
    m = Mod()
    n64, n32 = 14, 8
    body = []
    for k in range(n64):
        body += [lget(0), const(I64, k + 1), simple("i64.add"), lset(1 + k)]
    for k in range(n32):
        body += [lget(0), simple("i32.wrap_i64"), const(I32, -1 - k), simple("i32.xor"), lset(1 + n64 + k)]
    body += [const(I64, 0)]
    for k in range(n64):
        body += [lget(1 + k), simple("i64.xor")]
    for k in range(n32):
        body += [lget(1 + n64 + k), simple("i64.extend_i32_u"), simple("i64.add")]
    m.func([I64], [I64], [I64] * n64 + [I32] * n32, body, export="dirty")
    m.func([I32], [I32], [I32], [lget(0), if_(), const(I32, 5), lset(1), END, lget(1)], export="if_set")
    m.func([I32], [I64], [I64, I64], [lget(0), if_(), const(I64, 5), lset(2), const(I64, 6), lset(1), END, lget(1), lget(2),
                                      simple("i64.add")], export="if_set64")
    m.func([I32], [I32], [I32], [lget(0), if_(), simple("nop"), ELSE, const(I32, 9), lset(1), END, lget(1)], export="else_set")
    m.func([I32], [I32], [I32, I32], [block(), loop(), lget(0), simple("i32.eqz"), br_if(1), const(I32, 7), lset(1),
                                      lget(2), const(I32, 1), simple("i32.add"), lset(2), lget(0), const(I32, 1),
                                      simple("i32.sub"), lset(0), br(0), END, END, lget(1), const(I32, 100),
                                      simple("i32.mul"), lget(2), simple("i32.add")], export="loop_set")
    m.func([I32], [I32], [I32, I32, I32], [block(), lget(0), br_if(0), const(I32, 3), lset(2), block(), lget(0),
                                           simple("i32.eqz"), br_if(1), const(I32, 4), lset(3), END, END, lget(1),
                                           lget(2), simple("i32.add"), lget(3), simple("i32.add")], export="skip_set")
    d1, d2, d3 = -1, 0x5555555555555555, signed(0xFEDCBA9876543210, I64)
    calls = [C("dirty", [d1], [I64]), C("if_set", [0], [I32]), C("dirty", [d2], [I64]), C("if_set64", [0], [I32]),
             C("dirty", [d3], [I64]), C("loop_set", [0], [I32]), C("dirty", [d1], [I64]), C("else_set", [1], [I32]),
             C("dirty", [d2], [I64]), C("skip_set", [1], [I32]), C("if_set", [1], [I32]), C("if_set64", [7], [I32]),
             C("loop_set", [3], [I32]), C("else_set", [0], [I32]), C("skip_set", [0], [I32]), C("dirty", [d3], [I64]),
             C("if_set", [0], [I32]), C("loop_set", [0], [I32])]
    return item("locals_init", m, [calls])


def m_calls(rng):
    m = Mod()
    m.memory(1, 2)
    m.table(6, 8)
    g = m.glob(I32, True, 0, export="g")
    gc = m.glob(I64, False, -3, export="k")
    t_ii = m.type([I32], [I32])
    t_ll = m.type([I64], [I64])
    t_v = m.type([], [])
    f_inc = m.func([I32], [I32], [], [lget(0), const(I32, 1), simple("i32.add")])
    f_dbl = m.func([I32], [I32], [], [lget(0), const(I32, 2), simple("i32.mul")])
    f_neg = m.func([I64], [I64], [], [const(I64, 0), lget(0), simple("i64.sub")])
    f_side = m.func([], [], [], [gget(g), const(I32, 10), simple("i32.add"), gset(g)])
    # recursion: fib
    f_fib = len(m.m["funcs"])
    m.func([I32], [I32], [], [lget(0), const(I32, 2), simple("i32.lt_u"), if_(bt_val(I32)), lget(0), ELSE,
                              lget(0), const(I32, 1), simple("i32.sub"), call(f_fib), lget(0), const(I32, 2),
                              simple("i32.sub"), call(f_fib), simple("i32.add"), END], export="fib")
    m.elem(0, [f_inc, f_dbl, f_neg])
    m.elem(4, [f_side])
    m.func([I32, I32], [I32], [], [lget(1), lget(0), call_indirect(t_ii)], export="ind_ii")
    m.func([I32, I64], [I64], [], [lget(1), lget(0), call_indirect(t_ll)], export="ind_ll")
    m.func([I32], [], [], [lget(0), call_indirect(t_v)], export="ind_v")
    m.func([I32], [I32], [], [lget(0), call(f_inc), call(f_dbl), call(f_side), gget(g), simple("i32.add")], export="chain")
    m.func([], [I64], [], [gget(gc), call(f_neg)], export="constglobal")
    # start function writes memory and a global
    f_start = m.func([], [], [], [const(I32, 32), const(I32, 0x11223344), mem("i32.store"), const(I32, 3), gset(g)])
    m.start(f_start)
    m.data(40, [9, 8, 7])
    ok = [C("fib", [n], [I32]) for n in (0, 1, 2, 7, 10)]
    ok += [C("ind_ii", [0, 41], [I32, I32]), C("ind_ii", [1, 21], [I32, I32]), C("ind_ll", [2, 5], [I32, I64]),
           C("ind_v", [4], [I32]), C("chain", [3], [I32]), C("constglobal", [], []), C("ind_v", [4], [I32])]
    traps = [[C("ind_ii", [2, 1], [I32, I32])],        # signature mismatch
             [C("ind_ii", [3, 1], [I32, I32])],        # null entry
             [C("ind_ii", [5, 1], [I32, I32])],        # null entry (never initialised)
             [C("ind_ii", [6, 1], [I32, I32])],        # out of range
             [C("ind_ii", [-1, 1], [I32, I32])],       # out of range (2^32 - 1)
             [C("ind_ll", [0, 1], [I32, I64])],        # mismatch the other way
             [C("ind_v", [0], [I32])],
             [C("ind_ii", [4, 1], [I32, I32])]]
    return item("calls", m, [ok] + traps)


def m_imports(rng):
    m = Mod()
    f_add = m.imp_func("env", "add3", [I32, I32], [I32])
    f_log = m.imp_func("env", "log", [I64], [])
    f_get = m.imp_func("env", "get", [], [I64])
    g = m.glob(I64, True, 0, export="g")
    m.func([I32, I32], [I32], [], [lget(0), lget(1), call(f_add), lget(0), call(f_add)], export="twice")
    m.func([I64], [I64], [], [lget(0), call(f_log), call(f_get), call(f_get), simple("i64.add"), ltee(0), gset(g),
                              lget(0), call(f_log), lget(0)], export="io")
    calls = [C("twice", [1, 2], [I32, I32]), C("twice", [-1, 1 << 30], [I32, I32]), C("io", [5], [I64]),
             C("io", [-(1 << 63)], [I64])]
    it = item("imports", m, [calls])
    it["ext"] = [{"name": "add3", "ty": I32, "rets": [7, -2, 0x7FFFFFFF, 5, 6]}, {"name": "log", "ty": "", "rets": []},
                 {"name": "get", "ty": I64, "rets": [1 << 40, -1, 3, 4]}]
    return it


def m_init_traps():
    out = []
    m = Mod()
    m.memory(1, 1)
    m.data(65534, [1, 2, 3])
    m.func([], [I32], [], [const(I32, 1)], export="one")
    out.append(item("init_data_oob", m, [[C("one", [], [])]]))
    m = Mod()
    m.table(2)
    f = m.func([], [I32], [], [const(I32, 1)], export="one")
    m.elem(1, [f, f])
    out.append(item("init_elem_oob", m, [[C("one", [], [])]]))
    m = Mod()
    m.memory(1)
    g = m.glob(I32, True, 1, export="g")
    f = m.func([], [], [], [const(I32, 5), gset(g), const(I32, 0), gget(g), mem("i32.store"), simple("unreachable")])
    m.func([], [I32], [], [gget(g)], export="one")
    m.start(f)
    out.append(item("init_start_trap", m, [[C("one", [], [])]]))
    m = Mod()   # empty data at the very end of memory is fine; memory of zero pages
    m.memory(0, 1)
    m.data(0, [])
    m.func([I32], [I32], [], [lget(0), mem("i32.load8_u")], export="ld")
    m.func([I32], [I32], [], [lget(0), ins("memory.grow", m=0)], export="grow")
    out.append(item("init_zero_pages", m, [[C("grow", [1], [I32]), C("ld", [65535], [I32]), C("grow", [1], [I32])],
                                           [C("ld", [0], [I32])]]))
    return out


def directed(rng, thorough=False):
    npairs = 20 if thorough else 5
    ntraps = 12 if thorough else 3
    out = []
    for t in (I32, I64):
        for grp in "abc":
            out += m_binops(t, grp, rng, npairs, ntraps)
        out += m_cmp(t, rng, npairs if thorough else 6)
        out += m_unary(t, rng, npairs)
        out += m_loads(t, rng, 40 if thorough else 4)
        out += m_stores(t, rng, 16 if thorough else 2)
    out += m_grow(rng)
    out.append(m_control(rng))
    out.append(m_blockparam())
    out.append(m_locals())
    out.append(m_calls(rng))
    out.append(m_imports(rng))
    out.extend(m_init_traps())
    return out


# ---------------------------------------------------------------------------------------------------
# random modules
# ---------------------------------------------------------------------------------------------------
class RandGen:
    """Random valid modules: typed expression trees and structured statements flattened to stack code."""

    def __init__(self, rng, size=1.0, imports=False, ncalls=3):
        self.rng = rng
        self.ncalls = ncalls
        self.size = size
        self.m = Mod()
        self.use_imports = imports

    def ty(self):
        return self.rng.choice([I32, I32, I64])

    def cval(self, t):
        r = self.rng
        if r.random() < 0.5:
            return signed(r.choice(boundary(t)), t)
        if r.random() < 0.5:
            return r.randrange(-16, 17)
        return signed(r.getrandbits(BITS[t]), t)

    # ---- expressions: return instruction list leaving one value of type t ----
    def expr(self, t, d):
        r = self.rng
        f = self.f
        if d <= 0 or r.random() < 0.18:
            c = r.random()
            locs = [k for k, lt in enumerate(f["ltys"]) if lt == t]
            globs = [k for k, g in enumerate(self.m.m["globals"]) if g["ty"] == t]
            if c < 0.45 and locs:
                return [lget(r.choice(locs))]
            if c < 0.55 and globs:
                return [gget(r.choice(globs))]
            if c < 0.6 and t == I32 and self.m.m["mems"]:
                return [ins("memory.size", m=0)]
            return [const(t, self.cval(t))]
        c = r.random()
        if c < 0.34:
            o = r.choice(BIN)
            a = self.expr(t, d - 1)
            b = self.expr(t, d - 1)
            if o in ("div_s", "div_u", "rem_s", "rem_u") and (r.random() < 0.93 or o == "rem_s"):
                # make the divisor odd and small-ish positive: no trap
                b = b + [const(t, 0x7F), simple(t + ".and"), const(t, 1), simple(t + ".or")]
            return a + b + [simple("%s.%s" % (t, o))]
        if c < 0.42:
            o = r.choice(UN + ["extend8_s", "extend16_s"] + (["extend32_s"] if t == I64 else []))
            return self.expr(t, d - 1) + [simple("%s.%s" % (t, o))]
        if c < 0.52 and t == I32:
            t2 = self.ty()
            if r.random() < 0.2:
                return self.expr(t2, d - 1) + [simple(t2 + ".eqz")]
            return self.expr(t2, d - 1) + self.expr(t2, d - 1) + [simple("%s.%s" % (t2, r.choice(CMP)))]
        if c < 0.58:
            if t == I32:
                return self.expr(I64, d - 1) + [simple("i32.wrap_i64")]
            return self.expr(I32, d - 1) + [simple("i64.extend_i32_" + r.choice("su"))]
        if c < 0.68 and self.m.m["mems"]:
            o = r.choice(LOADS[t])
            n = acc_bytes(t, o)
            off = r.choice([0, 0, 1, 4, 8, 60])
            return self.addr(d - 1) + [mem("%s.%s" % (t, o), off, align=r.randrange(0, n.bit_length()))]
        if c < 0.74:
            return self.expr(t, d - 1) + self.expr(t, d - 1) + self.expr(I32, d - 1) + [simple("select")]
        if c < 0.82:
            return (self.expr(I32, d - 1) + [if_(bt_val(t))] + self.inner(lambda: self.expr(t, d - 1), [t]) + [ELSE]
                    + self.inner(lambda: self.expr(t, d - 1), [t]) + [END])
        if c < 0.87:
            # value block left early with br_if carrying the value
            body = self.inner(lambda: self.expr(t, d - 1) + self.expr(I32, d - 1) + [br_if(0), simple("drop")]
                              + self.expr(t, d - 1), [t])
            return [block(bt_val(t))] + body + [END]
        if c < 0.93 and self.callable_(t):
            x, params = r.choice(self.callable_(t))
            out = []
            for p in params:
                out += self.expr(p, d - 1)
            return out + [call(x)]
        if c < 0.96 and self.table_sigs.get(t):
            ty, params, slots = r.choice(self.table_sigs[t])
            out = []
            for p in params:
                out += self.expr(p, d - 1)
            slot = r.choice(slots)
            return out + [const(I32, slot), call_indirect(ty)]
        locs = [k for k, lt in enumerate(f["ltys"]) if lt == t and k not in self.counters]
        if locs:
            return self.expr(t, d - 1) + [ltee(r.choice(locs))]
        return [const(t, self.cval(t))]

    def addr(self, d):
        # an address inside the first 4 KiB (8-aligned), so that every access with the small offsets is in bounds
        return self.expr(I32, d) + [const(I32, 0xFF8), simple("i32.and")]

    def inner(self, gen, results):
        self.labels.append((results, False))
        try:
            return gen()
        finally:
            self.labels.pop()

    def callable_(self, t):
        return [(x, p) for x, p, res in self.sigs if res == [t]]

    # ---- statements: instruction lists with no net stack effect ----
    def stmt(self, d):
        r = self.rng
        f = self.f
        c = r.random()
        wl = [k for k in range(len(f["ltys"])) if k not in self.counters]
        if c < 0.28 and wl:
            k = r.choice(wl)
            return self.expr(f["ltys"][k], 2) + [lset(k)]
        if c < 0.38:
            gs = [k for k, g in enumerate(self.m.m["globals"]) if g["mut"]]
            if gs:
                k = r.choice(gs)
                return self.expr(self.m.m["globals"][k]["ty"], 2) + [gset(k)]
        if c < 0.52 and self.m.m["mems"]:
            t = self.ty()
            o = r.choice(STORES[t])
            n = acc_bytes(t, o)
            return self.addr(1) + self.expr(t, 2) + [mem("%s.%s" % (t, o), r.choice([0, 2, 8, 24]),
                                                       align=r.randrange(0, n.bit_length()))]
        if c < 0.66 and d > 0:
            out = self.expr(I32, 2) + [if_()] + self.inner(lambda: self.stmts(d - 1, 2), [])
            if r.random() < 0.6:
                out += [ELSE] + self.inner(lambda: self.stmts(d - 1, 2), [])
            return out + [END]
        if c < 0.78 and d > 0 and wl and len(self.counters) < 1:
            # counted loop: fresh i32 counter local
            f["ltys"].append(I32)
            k = len(f["ltys"]) - 1
            self.counters.append(k)
            n = r.randrange(1, 4)
            self.labels.append(([], False))      # block
            self.labels.append(([], True))       # loop
            body = self.stmts(d - 1, 2)
            self.labels.pop()
            self.labels.pop()
            self.counters.pop()
            return ([const(I32, n), lset(k), block(), loop()] + body +
                    [lget(k), const(I32, 1), simple("i32.sub"), ltee(k), simple("i32.eqz"), br_if(1), br(0), END, END])
        if c < 0.86 and d > 0:
            # br_table dispatch over nested empty blocks
            n = r.randrange(2, 5)
            sel = self.expr(I32, 2)
            out = [block() for _ in range(n)]
            for _ in range(n):
                self.labels.append(([], False))
            targets = [r.randrange(0, n) for _ in range(r.randrange(1, 5))]
            out += sel + [br_table(targets, r.randrange(0, n))]
            for k in range(n):
                self.labels.pop()
                out += [END]
                if k < n - 1:
                    out += self.stmts(0, 1)
            return out
        if c < 0.9:
            # conditional branch out of an enclosing empty-result label (never to a loop head)
            outs = [k for k, l in enumerate(reversed(self.labels)) if l[0] == [] and not l[1]]
            if outs:
                return self.expr(I32, 2) + [br_if(r.choice(outs))]
        if c < 0.94:
            return self.expr(self.ty(), 2) + [simple("drop")]
        if c < 0.96:
            return [simple("nop")]
        procs = [(x, p) for x, p, res in self.sigs if res == []]
        if procs:
            x, params = r.choice(procs)
            out = []
            for p in params:
                out += self.expr(p, 1)
            return out + [call(x)]
        return [simple("nop")]

    def stmts(self, d, n):
        out = []
        for _ in range(self.rng.randrange(1, n + 1)):
            out += self.stmt(d)
        return out

    def module(self):
        r = self.rng
        m = self.m
        if r.random() < 0.9:
            m.memory(1, r.choice([-1, 1, 2]))
            m.data(r.randrange(0, 64), [r.getrandbits(8) for _ in range(r.randrange(1, 24))])
            if r.random() < 0.5:
                m.data(r.randrange(1024, 4090), [r.getrandbits(8) for _ in range(r.randrange(1, 16))])
        for k in range(r.randrange(0, 4)):
            t = self.ty()
            m.glob(t, r.random() < 0.8, self.cval(t), export="g%d" % k)
        self.sigs = []
        self.table_sigs = {}
        if self.use_imports:
            for k in range(r.randrange(1, 3)):
                res = [self.ty()] if r.random() < 0.7 else []
                params = [self.ty() for _ in range(r.randrange(0, 3))]
                x = m.imp_func("env", "h%d" % k, params, res)
                self.sigs.append((x, params, res))
        nf = max(2, int(r.randrange(2, 6) * self.size))
        exported = []
        table_funcs = []
        for k in range(nf):
            params = [self.ty() for _ in range(r.randrange(0, 4))]
            res = [self.ty()] if r.random() < 0.85 else []
            self.f = {"ltys": list(params) + [self.ty() for _ in range(r.randrange(0, 3))], "nparams": len(params)}
            self.labels = []
            self.counters = []
            body = self.stmts(2, int(3 * self.size) + 1)
            if res:
                body += self.expr(res[0], 3)
            name = "f%d" % k
            x = m.func(params, res, self.f["ltys"][len(params):], body, export=name)
            self.sigs.append((x, params, res))
            exported.append((name, params))
            if res and r.random() < 0.6:
                table_funcs.append((x, params, res))
            if table_funcs and not m.m["tables"] and k >= 1 and r.random() < 0.7:
                # functions defined from now on may call the earlier ones through the table
                m.table(len(table_funcs) + 1)
                m.elem(0, [x_ for x_, _, _ in table_funcs])
                for slot, (x_, p_, res_) in enumerate(table_funcs):
                    ty = m.type(p_, res_)
                    same = [s for s, (_, p2, r2) in enumerate(table_funcs) if p2 == p_ and r2 == res_]
                    self.table_sigs.setdefault(res_[0], []).append((ty, p_, same))
        traces = []
        # functions without a result are called last
        for name, params in sorted(exported, key=lambda e: not func_has_result(m.m, e[0])):
            traces.append([C(name, [self.cval(p) for p in params], params) for _ in range(self.ncalls)])
        return m, traces


def func_has_result(mod, name):
    for e in mod["exports"]:
        if e["kind"] == "func" and e["name"] == name:
            nfi = sum(1 for i in mod["imports"] if i["kind"] == "func")
            return bool(mod["types"][mod["funcs"][e["idx"] - nfi]["type"]]["results"])
    return False


def random_item(rng, key, size=1.0, imports=False, ncalls=3, one_trace=False):
    g = RandGen(rng, size=size, imports=imports, ncalls=ncalls)
    m, traces = g.module()
    it = item(key, m, [[c for t in traces for c in t]] if one_trace else traces)
    if imports:
        it["ext"] = [{"name": im["name"], "ty": (m.m["types"][im["type"]]["results"] or [""])[0],
                      "rets": [g.cval(m.m["types"][im["type"]]["results"][0]) for _ in range(12)]
                      if m.m["types"][im["type"]]["results"] else []}
                     for im in m.m["imports"]]
    return it
