#!/usr/bin/env python3
"""Regenerate the generated tables of DESIGN.md (appendix F/G) from manifest.d, evidence, known.d and seeded/."""
import glob
import json
import os
import re

V = os.path.dirname(os.path.dirname(os.path.abspath(__file__)))


def asbuilt():
    rows = ["| id | level | TLA+ modules run by the check | deciding method | known / fixed |", "|---|---|---|---|---|"]
    for f in sorted(glob.glob(os.path.join(V, "manifest.d", "C*.json"))):
        c = json.load(open(f))
        pid = c["property_id"]
        try:
            cov = json.load(open(os.path.join(V, "evidence", pid + ".json")))["coverage"]
        except Exception:
            cov = {}
        mods = sorted({r["module"] for r in cov.get("tlc_runs", [])})
        kf = os.path.join(V, "known.d", pid + ".json")
        k = json.load(open(kf)) if os.path.exists(kf) else {"known": [], "fixed": []}
        rows.append("| %s | %s | %s | %s | %d / %d |" % (pid, c["level_claimed"]["category"], ", ".join(mods) or "–",
                                                        c.get("technique", "").replace("|", "/"), len(k["known"]), len(k["fixed"])))
    return "\n".join(rows)


def fixes():
    k = json.load(open(os.path.join(V, "known_findings.json")))
    rows = ["| property | commit | what failed |", "|---|---|---|"]
    for f in k["fixed"]:
        rows.append("| %s | %s | %s |" % (f["property"], f["commit"], f["what"].replace("|", "/")))
    rows.append("")
    rows.append("Known findings (not repaired), by property: " + ", ".join(
        "%s: %d" % (p, n) for p, n in sorted(_count(k["known"]).items())) + ".")
    return "\n".join(rows)


def _count(lst):
    out = {}
    for e in lst:
        out[e["property"]] = out.get(e["property"], 0) + 1
    return out


def seeded():
    rows = ["| id | files changed | what breaks / what it needs | result of the check |", "|---|---|---|---|"]
    for d in sorted(glob.glob(os.path.join(V, "seeded", "*"))):
        try:
            m = json.load(open(os.path.join(d, "meta.json")))
        except Exception:
            continue
        rows.append("| %s | %s | %s — needs: %s | %s |" % (
            os.path.basename(d), ", ".join(os.path.basename(x) for x in m.get("files_changed", [])),
            str(m.get("what_breaks", ""))[:160].replace("|", "/").replace("\n", " "),
            str(m.get("needs_to_manifest", ""))[:160].replace("|", "/").replace("\n", " "),
            str(m.get("check_result", ""))[:200].replace("|", "/").replace("\n", " ")))
    return "\n".join(rows)


def extensions():
    rows = ["| id | title | statement | anchors | level | TLA+ modules run | deciding method | known / fixed |", "|---|---|---|---|---|---|---|---|"]
    for f in sorted(glob.glob(os.path.join(V, "ext.d", "X*.json"))):
        x = json.load(open(f))
        try:
            cov = json.load(open(os.path.join(V, "evidence", "ext", x["id"] + ".json")))["coverage"]
        except Exception:
            cov = {}
        mods = sorted({r["module"] for r in cov.get("tlc_runs", [])})
        kf = os.path.join(V, "known.d", x["id"] + ".json")
        k = json.load(open(kf)) if os.path.exists(kf) else {"known": [], "fixed": []}
        rows.append("| %s | %s | %s | %s | %s | %s | %s | %d / %d |" % (
            x["id"], x["title"], str(x["statement"]).replace("|", "/").replace("\n", " "),
            ", ".join(os.path.basename(a) for a in x.get("anchors", [])), x.get("level_claimed", {}).get("category", ""),
            ", ".join(mods) or "–", str(x.get("technique", "")).replace("|", "/"), len(k["known"]), len(k["fixed"])))
    return "\n".join(rows)


def main():
    p = os.path.join(V, "DESIGN.md")
    s = open(p).read()
    for name, fn in (("asbuilt", asbuilt), ("fixes", fixes), ("seeded", seeded), ("extensions", extensions)):
        b, e = "<!-- BEGIN GENERATED:%s -->" % name, "<!-- END GENERATED:%s -->" % name
        if b not in s:
            s += "\n%s\n%s\n" % (b, e)
        s = re.sub(re.escape(b) + r".*?" + re.escape(e), lambda m: b + "\n" + fn() + "\n" + e, s, flags=re.S)
    open(p, "w").write(s)


if __name__ == "__main__":
    main()
