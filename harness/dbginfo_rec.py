"""X23 -- recorder of real compiles and links with debug information (input of DebugInfo_Trace.tla).

Nothing is decided here.  The real BinaryOutputStream / CodeGenerator / Linker run; wrappers placed
from here (no edit of /repo) write down
  * per object: sections, symbol table, the extent of every item that put bytes into a section while
    a function (or a global variable) was being generated, and the object's debug tables annotated with
    what only the compiler knows (which function / IR block an emitted location came from, its rank in
    the front-end's order, the IR name of a function / variable, the frame size);
  * per link: a snapshot (symbols, sections, debug tables) of the linker's destination object after
    every phase that touches them (each inject_object, layout_sections, _apply_relaxation_holes with
    its hole map, and the returned object).
Tuples (JSON arrays) instead of objects keep TLC's JSON reader fast:
  symbol   [name, binding, section or "", value or -1, defined]
  section  [name, size, alignment, address]
  item     [section, offset, size, function index (1-based, 0 = none), 1 = machine instruction / 0 = data]
  address  [kind, a, b]      fixed: a = symbol id;  fprel: a = offset, b = size;  unknown / other
  location [address, line, function index, block index, front-end rank]       (snapshot: [address, line])
  function [debug name, symbol name, begin, end, frame size, fp at top, [[local name, address]...]]
                                                                  (snapshot: [debug name, begin, end, locals])
  variable [debug name, symbol name, address, [section, offset, size]]        (snapshot: [debug name, address])
"""
import contextlib
import io
import logging


def _addr(a):
    from ppci.binutils import debuginfo as di

    try:
        if isinstance(a, di.DebugAddress):
            return ["fixed", int(a.symbol_id), 0]
        if isinstance(a, di.FpOffsetAddress):
            return ["fprel", int(a.offset.offset), int(a.offset.size)]
        if isinstance(a, di.UnknownAddress):
            return ["unknown", 0, 0]
    except Exception:
        pass
    return ["other:" + type(a).__name__, 0, 0]


def _row(loc):
    try:
        return int(loc.row)
    except Exception:
        return -1


def snap_dbg(dbg):
    """Debug tables as the linker / a loaded object holds them (no compiler-side annotation)."""
    if dbg is None:
        return {"locs": [], "funcs": [], "vars": [], "none": True}
    return {
        "locs": [[_addr(l.address), _row(l.loc)] for l in dbg.locations],
        "funcs": [[str(f.name), _addr(f.begin), _addr(f.end), [[str(v.name), _addr(v.address)] for v in f.variables]]
                  for f in dbg.functions],
        "vars": [[str(v.name), _addr(v.address)] for v in dbg.variables],
        "none": False,
    }


def snap_syms(obj):
    out = []
    for s in obj.symbols:
        d = s.value is not None
        out.append([str(s.name), str(s.binding), s.section if s.section is not None else "",
                    int(s.value) if d else -1, bool(d)])
    return out


def snap_secs(obj):
    return [[str(s.name), int(s.size), int(s.alignment), int(s.address)] for s in obj.sections]


def snapshot(obj):
    return {"syms": snap_syms(obj), "secs": snap_secs(obj), "dbg": snap_dbg(obj.debug_info),
            "symsame": False, "dbgsame": False,
            "ids": all(s.id == n for n, s in enumerate(obj.symbols))}


def compress(steps):
    """Do not repeat a table that is, field for field, the table of the step before (mark it "same")."""
    last_syms = last_dbg = None
    for st in steps:
        sn = st["snap"]
        if last_syms is not None and sn["syms"] == last_syms:
            sn["syms"], sn["symsame"] = [], True
        else:
            last_syms = sn["syms"]
        if last_dbg is not None and sn["dbg"] == last_dbg:
            sn["dbg"], sn["dbgsame"] = {"locs": [], "funcs": [], "vars": [], "none": False}, True
        else:
            last_dbg = sn["dbg"]
    return steps


class CompileRec:
    """What the wrappers saw during one compile."""

    def __init__(self):
        self.items = []        # [sec, off, size, fname or None, is_instruction]
        self.fn_of_dbg = {}    # id(DebugFunction) -> (ir name, stacksize, fp at top)
        self.loc_info = {}     # id(DebugLocation) -> (ir function name, block index, rank)
        self.loc_fn = {}       # id(DebugLocation) -> ir function name at emission
        self.var_info = {}     # id(DebugVariable) -> (ir name, [sec, off, size])
        self.keep = []         # strong references (id() must stay unique)
        self.cur_fn = None
        self.cur_var = None


@contextlib.contextmanager
def compile_recorder(rec):
    from ppci.arch import generic_instructions as gi
    from ppci.arch.encoding import Instruction
    from ppci.arch.stack import FramePointerLocation
    from ppci.binutils import debuginfo as di
    from ppci.binutils import outstream
    from ppci.codegen import codegen as cg

    o_emit = outstream.BinaryOutputStream.do_emit
    o_fn = cg.CodeGenerator.generate_function
    o_frame = cg.CodeGenerator.emit_frame_to_stream
    o_glob = cg.CodeGenerator.generate_global
    data_kinds = tuple(getattr(gi, n) for n in ("Alignment", "DByte", "DZero", "Label", "Comment", "DebugData",
                                                "Global", "SectionInstruction", "SetSymbolType") if hasattr(gi, n))

    def do_emit(self, item):
        sec = self.current_section
        before = sec.size if sec is not None else 0
        o_emit(self, item)
        sec2 = self.current_section
        if sec is not None and sec2 is sec and sec.size > before:
            real = isinstance(item, Instruction) and not isinstance(item, data_kinds) and \
                not type(item).__name__.lower().startswith(("dcd", "dw", "dq", "db", "dd"))
            rec.items.append([sec.name, before, sec.size - before, rec.cur_fn, 1 if real else 0])
            if rec.cur_var is not None:
                rec.cur_var[1].append((sec.name, before, sec.size - before))
        if isinstance(item, gi.Label) and rec.cur_var is not None and item.name == rec.cur_var[0]:
            del rec.cur_var[1][:]      # alignment padding in front of the variable's label is not its storage
        if isinstance(item, gi.DebugData):
            d = item.data
            rec.keep.append(d)
            if isinstance(d, di.DebugLocation):
                rec.loc_fn[id(d)] = rec.cur_fn
            elif isinstance(d, di.DebugVariable) and rec.cur_var is not None:
                rec.var_info[id(d)] = rec.cur_var

    def generate_function(self, ir_function, *a, **kw):
        rec.cur_fn = ir_function.name
        try:
            db = self.debug_db
            for bi, block in enumerate(ir_function, 1):
                rank = 0
                for ins in block:
                    try:
                        has = db.contains(ins)
                    except Exception:
                        has = False
                    if has:
                        d = db.get(ins)
                        if isinstance(d, di.DebugLocation) and id(d) not in rec.loc_info:
                            rank += 1
                            rec.keep.append(d)
                            rec.loc_info[id(d)] = (ir_function.name, bi, rank)
        except Exception:
            pass
        try:
            return o_fn(self, ir_function, *a, **kw)
        finally:
            rec.cur_fn = None

    def emit_frame_to_stream(self, frame, *a, **kw):
        r = o_frame(self, frame, *a, **kw)
        try:
            if self.debug_db.contains(frame):
                d = self.debug_db.get(frame)
                rec.keep.append(d)
                rec.fn_of_dbg[id(d)] = (frame.name, int(frame.stacksize), frame.fp_location == FramePointerLocation.TOP)
        except Exception:
            pass
        return r

    def generate_global(self, var, *a, **kw):
        rec.cur_var = (var.name, [])
        try:
            return o_glob(self, var, *a, **kw)
        finally:
            rec.cur_var = None

    outstream.BinaryOutputStream.do_emit = do_emit
    cg.CodeGenerator.generate_function = generate_function
    cg.CodeGenerator.emit_frame_to_stream = emit_frame_to_stream
    cg.CodeGenerator.generate_global = generate_global
    try:
        yield rec
    finally:
        outstream.BinaryOutputStream.do_emit = o_emit
        cg.CodeGenerator.generate_function = o_fn
        cg.CodeGenerator.emit_frame_to_stream = o_frame
        cg.CodeGenerator.generate_global = o_glob


def project_object(obj, rec):
    """Input object of a link job: tables + the compiler-side annotation."""
    dbg = obj.debug_info
    funcs = []
    fidx = {}
    for n, f in enumerate(dbg.functions if dbg else [], 1):
        name, frame, top = rec.fn_of_dbg.get(id(f), ("?" + str(f.name), -1, True))
        fidx[name] = n
        funcs.append([str(f.name), name, _addr(f.begin), _addr(f.end), frame, bool(top),
                      [[str(v.name), _addr(v.address)] for v in f.variables]])
    locs = []
    for l in (dbg.locations if dbg else []):
        fn_emit = rec.loc_fn.get(id(l))
        fname, blk, rank = rec.loc_info.get(id(l), (fn_emit, 0, 0))
        locs.append([_addr(l.address), _row(l.loc), fidx.get(fn_emit, 0), blk if fname == fn_emit else 0, rank])
    vars_ = []
    for v in (dbg.variables if dbg else []):
        name, ext = rec.var_info.get(id(v), ("?" + str(v.name), []))
        if ext:
            e = [ext[0][0], ext[0][1], sum(x[2] for x in ext if x[0] == ext[0][0])]
        else:
            e = ["", -1, 0]
        vars_.append([str(v.name), name, _addr(v.address), e])
    # a variable without initial bytes of its own (size 0) keeps the offset of its label
    items = [[s, o, z, fidx.get(fn, 0), k] for s, o, z, fn, k in rec.items if fn is not None]
    return {"secs": [[s.name, int(s.size), int(s.alignment)] for s in obj.sections],
            "syms": snap_syms(obj), "ids": all(s.id == n for n, s in enumerate(obj.symbols)),
            "ins": items, "locs": locs, "funcs": funcs, "vars": vars_}


def compile_src(lang, src, march, **kw):
    """-> (object, CompileRec).  Exceptions propagate to the caller (recorded as the outcome)."""
    from ppci import api

    rec = CompileRec()
    logging.disable(logging.WARNING)
    try:
        with compile_recorder(rec):
            if lang == "c":
                obj = api.cc(io.StringIO(src), march, debug=True, **kw)
            elif lang == "c3":
                obj = api.c3c([io.StringIO(src)], [], march, debug=True, **kw)
            else:
                raise ValueError(lang)
    finally:
        logging.disable(logging.NOTSET)
    return obj, rec


def project_layout(text):
    """The memory description as data (parsed by ppci's own layout reader, then read off its objects)."""
    if not text:
        return {"has": False, "mems": []}
    from ppci.binutils import layout as lay

    l = lay.get_layout(io.StringIO(text))
    mems = []
    for m in l.memories:
        inputs = []
        for i in m.inputs:
            if isinstance(i, lay.Section):
                inputs.append(["sec", i.section_name, 0])
            elif isinstance(i, lay.Align):
                inputs.append(["align", "", int(i.alignment)])
            elif isinstance(i, lay.SymbolDefinition):
                inputs.append(["sym", i.symbol_name, 0])
            else:
                inputs.append(["other", type(i).__name__, 0])
        mems.append([int(m.location), inputs])
    return {"has": True, "mems": mems}


def link_rec(objs, layout_text, partial=False, use_runtime=False):
    """Link with debug=True; -> (steps, output object or None, exception name or "")."""
    from ppci import api
    from ppci.binutils import linker as lk

    steps = []
    o_inject = lk.Linker.inject_object
    o_layout = lk.Linker.layout_sections
    o_holes = lk.Linker._apply_relaxation_holes
    n = [0]

    def inject_object(self, obj, debug):
        r = o_inject(self, obj, debug)
        n[0] += 1
        steps.append({"ph": "merge", "k": n[0], "holes": [], "snap": snapshot(self.dst)})
        return r

    def layout_sections(self, layout):
        r = o_layout(self, layout)
        steps.append({"ph": "layout", "k": 0, "holes": [], "snap": snapshot(self.dst),
                      "images": [[s.name for s in im.sections] for im in self.dst.images]})
        return r

    def _apply(self, hole_map):
        holes = [[sec, [[int(a), int(b)] for a, b in hs]] for sec, hs in sorted(dict(hole_map).items()) if hs]
        r = o_holes(self, hole_map)
        steps.append({"ph": "relax", "k": 0, "holes": holes, "snap": snapshot(self.dst)})
        return r

    lk.Linker.inject_object = inject_object
    lk.Linker.layout_sections = layout_sections
    lk.Linker._apply_relaxation_holes = _apply
    out, exc = None, ""
    logging.disable(logging.ERROR)
    try:
        out = api.link(objs, layout=io.StringIO(layout_text) if layout_text else None, debug=True,
                       partial_link=partial, use_runtime=use_runtime)
        steps.append({"ph": "final", "k": 0, "holes": [], "snap": snapshot(out)})
    except Exception as e:  # recorded; TLC judges (NoCrash)
        exc = type(e).__name__
    finally:
        logging.disable(logging.NOTSET)
        lk.Linker.inject_object = o_inject
        lk.Linker.layout_sections = o_layout
        lk.Linker._apply_relaxation_holes = o_holes
    return compress(steps), out, exc


def save_load(obj):
    """Object -> dict -> JSON text -> dict -> object (ObjectFile.save / load); -> (before, after) debug tables
    and symbol tables, or the exception name."""
    from ppci.binutils.objectfile import ObjectFile

    before = {"dbg": snap_dbg(obj.debug_info), "syms": snap_syms(obj), "types": _types(obj.debug_info)}
    try:
        f = io.StringIO()
        obj.save(f)
        obj2 = ObjectFile.load(io.StringIO(f.getvalue()))
        after = {"dbg": snap_dbg(obj2.debug_info), "syms": snap_syms(obj2), "types": _types(obj2.debug_info)}
        f2 = io.StringIO()
        obj2.save(f2)
        return {"ok": True, "exc": "", "before": before, "after": after, "stable": f2.getvalue() == f.getvalue()}
    except Exception as e:
        return {"ok": False, "exc": type(e).__name__, "before": before, "after": before, "stable": False}


def _types(dbg):
    """Names / sizes of the debug types in table order and the type of every variable and function (as
    index into that table): the part of the debug info that is not an address."""
    from ppci.binutils import debuginfo as di

    if dbg is None:
        return []
    idx = {id(t): n for n, t in enumerate(dbg.types, 1)}

    def show(t, depth=0):
        if isinstance(t, di.DebugBaseType):
            return "base:%s:%s" % (t.name, t.size)
        if depth > 3:
            return type(t).__name__
        if isinstance(t, di.DebugPointerType):
            return "ptr(" + show(t.pointed_type, depth + 1) + ")"
        if isinstance(t, di.DebugArrayType):
            return "arr%d(" % t.size + show(t.element_type, depth + 1) + ")"
        if isinstance(t, di.DebugStructType):
            return "struct{" + ",".join("%s@%s:%s" % (f.name, f.offset, show(f.typ, depth + 1)) for f in t.fields) + "}"
        return type(t).__name__

    out = [show(t) for t in dbg.types]
    out += ["var:%s:%s" % (v.name, show(v.typ)) for v in dbg.variables]
    out += ["fn:%s:%s:%s:%s" % (f.name, show(f.return_type), ",".join("%s:%s" % (a.name, show(a.typ)) for a in f.arguments),
                               ",".join("%s:%s" % (v.name, show(v.typ)) for v in f.variables)) for f in dbg.functions]
    out += ["loc:%s:%s:%s:%s" % (l.loc.filename, l.loc.row, l.loc.col, l.loc.length) for l in dbg.locations]
    return out
