"""Directed IR corpus: many tiny well-formed modules, each aimed at one rewrite rule / one shape
that an optimisation pass special-cases (DESIGN §5 C02: "shapes the property names").

patterns(rng, thorough) -> list of (key, make_module, fn_name, param type names)
Every make_module() builds a fresh module through ppci.ir.
"""

T3 = ["i8", "u8", "i32", "u32", "i16", "i64"]
BITS = {"i8": 8, "u8": 8, "i16": 16, "u16": 16, "i32": 32, "u32": 32, "i64": 64, "u64": 64}
ARITH = ["+", "-", "*", "&", "|", "^", "<<", ">>", "/", "%"]


def _wrap(v, t):
    b = BITS[t]
    v &= (1 << b) - 1
    if t[0] == "i" and v >> (b - 1):
        v -= 1 << b
    return v


class B:
    """Small builder around one function."""

    def __init__(self, name, rty, ptys, module=None):
        from ppci import ir
        from ppci.binutils.debuginfo import DebugDb

        self.ir = ir
        self.m = module or ir.Module("pat", debug_db=DebugDb())
        self.f = ir.Function(name, ir.Binding.GLOBAL, getattr(ir, rty)) if rty else ir.Procedure(name, ir.Binding.GLOBAL)
        self.m.add_function(self.f)
        self.n = 0
        self.cur = self.block("entry")
        self.f.entry = self.cur
        self.p = []
        for k, t in enumerate(ptys):
            p = ir.Parameter("p%d" % k, getattr(ir, t))
            self.f.add_parameter(p)
            self.p.append(p)

    def nm(self, s="v"):
        self.n += 1
        return "%s%d" % (s, self.n)

    def block(self, s="b"):
        self.n = getattr(self, "n", 0) + 1
        b = self.ir.Block("%s_%s%d" % (self.f.name, s, self.n))
        self.f.add_block(b)
        return b

    def at(self, b):
        self.cur = b
        return self

    def e(self, ins):
        self.cur.add_instruction(ins)
        return ins

    def c(self, v, t):
        return self.e(self.ir.Const(_wrap(v, t), self.nm("c"), getattr(self.ir, t)))

    def bin(self, a, op, b, t):
        return self.e(self.ir.Binop(a, op, b, self.nm(), getattr(self.ir, t)))

    def cast(self, a, t):
        return self.e(self.ir.Cast(a, self.nm("k"), getattr(self.ir, t)))

    def alloc(self, size, align=None):
        a = self.e(self.ir.Alloc(self.nm("al"), size, align or size))
        return self.e(self.ir.AddressOf(a, self.nm("ap")))

    def store(self, v, addr, vol=False):
        return self.e(self.ir.Store(v, addr, volatile=vol))

    def load(self, addr, t, vol=False):
        return self.e(self.ir.Load(addr, self.nm("ld"), getattr(self.ir, t), volatile=vol))

    def off(self, addr, k):
        o = self.e(self.ir.Const(k, self.nm("o"), self.ir.ptr))
        return self.e(self.ir.Binop(addr, "+", o, self.nm("ea"), self.ir.ptr))

    def ret(self, v):
        return self.e(self.ir.Return(v))

    def jmp(self, b):
        return self.e(self.ir.Jump(b))

    def cj(self, a, cond, b, yes, no):
        return self.e(self.ir.CJump(a, cond, b, yes, no))

    def phi(self, t, pairs):
        p = self.ir.Phi(self.nm("phi"), getattr(self.ir, t))
        self.cur.add_instruction(p)
        for blk, v in pairs:
            p.set_incoming(blk, v)
        return p

    def glob(self, name, size, init=None):
        g = self.ir.Variable(name, self.ir.Binding.GLOBAL, size, min(size, 8), value=init)
        self.m.add_variable(g)
        return g


def patterns(rng, thorough=False):
    out = []

    def add(key, make, fn, ptys):
        out.append(("pat:" + key, make, fn, ptys))

    consts = [0, 1, 2, 3, 5, 7, -1, -3, 100, 127, 128, 255]
    # A. chains ((y op1 c1) op2 c2) and mirrored forms
    types = T3 if thorough else ["i8", "u8", "i32", "u32"]
    ops = ["+", "-", "*", "&", "|", "^"]
    for t in types:
        for op1 in ops:
            for op2 in ops:
                if not thorough and ("*" in (op1, op2) or op1 in "&|^" or op2 in "&|^") and rng.random() < 0.6:
                    continue
                for _ in range(2):
                    c1, c2 = rng.choice(consts), rng.choice(consts)
                    for form in ("yc_c", "cy_c", "c_yc"):
                        def make(t=t, op1=op1, op2=op2, c1=c1, c2=c2, form=form):
                            b = B("f", t, [t])
                            y = b.p[0]
                            k1, k2 = b.c(c1, t), b.c(c2, t)
                            if form == "yc_c":
                                r = b.bin(b.bin(y, op1, k1, t), op2, k2, t)
                            elif form == "cy_c":
                                r = b.bin(b.bin(k1, op1, y, t), op2, k2, t)
                            else:
                                r = b.bin(k2, op2, b.bin(y, op1, k1, t), t)
                            b.ret(r)
                            return b.m
                        add("chain:%s:%s:%s:%s:%d,%d" % (t, form, op1, op2, c1, c2), make, "f", [t])
    # B. algebraic identities: x op x, x op 0/1, 0/1 op x
    for t in types:
        for op in ARITH:
            for form in ("xx", "x0", "0x", "x1", "1x", "xm1"):
                def make(t=t, op=op, form=form):
                    b = B("f", t, [t])
                    x = b.p[0]
                    if op in ("/", "%") and form in ("xx", "0x", "1x"):
                        d = b.bin(x, "|", b.c(1, t), t)
                    else:
                        d = None
                    if form == "xx":
                        r = b.bin(x, op, d or x, t)
                    elif form == "x0":
                        r = b.bin(x, op, b.c(1 if op in ("/", "%") else 0, t), t)
                    elif form == "0x":
                        r = b.bin(b.c(0, t), op, d or (b.bin(x, "&", b.c(3, t), t) if op in ("<<", ">>") else x), t)
                    elif form == "x1":
                        r = b.bin(x, op, b.c(1, t), t)
                    elif form == "1x":
                        r = b.bin(b.c(1, t), op, d or (b.bin(x, "&", b.c(3, t), t) if op in ("<<", ">>") else x), t)
                    else:
                        r = b.bin(x, op, b.c(3 if op in ("<<", ">>") else -1, t), t)
                    b.ret(r)
                    return b.m
                add("ident:%s:%s:%s" % (t, op, form), make, "f", [t])
    # C. constants only (incl. negative operands of / % >>) and nested constant casts
    for t in types:
        for op in ARITH:
            for _ in range(3 if not thorough else 8):
                a = rng.choice([-7, 7, -1, 100, -128, 127, 200, 3])
                c = rng.choice([2, 3, -2, 5, 1, 7])
                if op in ("<<", ">>"):
                    c = abs(c) % BITS[t]
                def make(t=t, op=op, a=a, c=c):
                    b = B("f", t, [t])
                    r = b.bin(b.bin(b.c(a, t), op, b.c(c, t), t), "+", b.p[0], t)
                    b.ret(r)
                    return b.m
                add("const:%s:%s:%d,%d" % (t, op, a, c), make, "f", [t])
    for t in types:
        for t2 in types:
            if t == t2:
                continue
            def make(t=t, t2=t2):
                b = B("f", t, [t])
                k = b.cast(b.cast(b.c(rng_const(t), t), t2), t)
                r = b.bin(b.cast(b.cast(b.p[0], t2), t), "^", k, t)
                b.ret(r)
                return b.m
            add("casts:%s:%s" % (t, t2), make, "f", [t])
    # E. memory: store / <something in between> / load
    between = ["none", "store_same", "store_other", "store_narrow", "alias_store", "copy_in", "copy_out", "call",
               "vol_load", "narrow_load", "store_same_then_load"]
    for t in (["i32", "u8", "i16"] if not thorough else T3):
        sz = BITS[t] // 8
        for bt in between:
            for first_pos in (0, 1):
                def make(t=t, sz=sz, bt=bt, first_pos=first_pos):
                    from ppci import ir
                    b = B("g", t, ["ptr", "ptr", t, t])
                    p, q, y, z = b.p
                    gl = b.glob("G", 8, bytes(range(1, 9)))
                    ext = ir.ExternalFunction("ext_f", [ir.i32], ir.i32)
                    b.m.add_external(ext)
                    if first_pos:
                        b.bin(y, "+", z, t)
                    a = b.alloc(8)
                    b.store(y, a)
                    if bt == "store_same":
                        b.store(z, a)
                    elif bt == "store_other":
                        b.store(z, b.alloc(8))
                    elif bt == "store_narrow":
                        b.store(b.cast(z, "u8"), b.off(a, 0 if sz == 1 else 1))
                    elif bt == "alias_store":
                        b.store(y, p)
                        x0 = b.load(q, t)
                        b.store(z, p)
                        b.store(x0, b.off(a, 0))
                    elif bt == "copy_in":
                        b.e(ir.CopyBlob(a, gl, 8))
                    elif bt == "copy_out":
                        b.e(ir.CopyBlob(gl, a, 8))
                    elif bt == "call":
                        b.e(ir.FunctionCall(ext, [b.c(1, "i32")], b.nm("x"), ir.i32))
                    elif bt == "vol_load":
                        v0 = b.load(a, t, vol=True)
                        b.store(z, a)
                        b.store(b.bin(v0, "+", b.load(a, t), t), a)
                    elif bt == "narrow_load":
                        n0 = b.load(a, "u8")
                        b.store(z, a)
                        b.store(b.bin(b.cast(n0, t), "+", b.load(a, t), t), a)
                    elif bt == "store_same_then_load":
                        b.store(z, a)
                        l1 = b.load(a, t)
                        b.store(y, a)
                        b.store(b.bin(l1, "^", b.load(a, t), t), a)
                    r = b.load(a, t)
                    r2 = b.bin(r, "+", b.load(p, t), t)
                    b.ret(r2)
                    # wrapper passing two pointers to the same global
                    w = B("f", t, [t, t], module=b.m)
                    ga = w.e(ir.AddressOf(gl, w.nm("ga"))) if False else gl
                    rr = w.e(ir.FunctionCall(b.f, [gl, gl, w.p[0], w.p[1]], w.nm("r"), getattr(ir, t)))
                    w.ret(rr)
                    return b.m
                add("mem:%s:%s:%d" % (t, bt, first_pos), make, "f", [t, t])
    # F. control flow shapes
    for t in (["i32", "u8"] if not thorough else ["i32", "u8", "i16", "i64"]):
        def join_store(t=t):
            # join block loads, modifies and stores a variable also stored in one branch
            b = B("f", t, [t, t])
            y, z = b.p
            x = b.alloc(8)
            b.store(b.c(0, t), x)
            then, join = b.block("then"), b.block("join")
            b.cj(y, "<", z, then, join)
            b.at(then).store(b.c(1, t), x)
            b.jmp(join)
            b.at(join)
            tv = b.load(x, t)
            b.store(b.bin(tv, "+", b.c(2, t), t), x)
            b.ret(b.load(x, t))
            return b.m
        add("cf:join_store:%s" % t, join_store, "f", [t, t])

        def self_loop(t=t):
            b = B("f", t, [t, t])
            y, z = b.p
            x = b.alloc(8)
            b.store(b.bin(y, "&", b.c(3, t), t), x)
            loop, done = b.block("loop"), b.block("done")
            b.jmp(loop)
            b.at(loop)
            tv = b.load(x, t)
            b.store(b.bin(tv, "+", b.c(1, t), t), x)
            b.cj(tv, "<", b.c(5, t), loop, done)
            b.at(done).ret(b.bin(b.load(x, t), "+", z, t))
            return b.m
        add("cf:self_loop:%s" % t, self_loop, "f", [t, t])

        for variant in range(4):
            def empty_blocks(t=t, variant=variant):
                # jump-only blocks between a branch and a join with phis; one predecessor also jumps directly
                b = B("f", t, [t, t])
                y, z = b.p
                e1, e2, join = b.block("e"), b.block("e"), b.block("join")
                one, two = b.c(1, t), b.c(2, t)
                if variant == 0:
                    b.cj(y, "<", z, e1, join)       # entry -> e1 -> join and entry -> join
                    b.at(e1).jmp(join)
                    b.f.remove_block(e2)
                    b.at(join)
                    ph = b.phi(t, [(b.f.entry, one), (e1, two)])
                elif variant == 1:
                    b.cj(y, "<", z, e1, e2)         # two empty blocks to the same join
                    b.at(e1).jmp(join)
                    b.at(e2).jmp(join)
                    b.at(join)
                    ph = b.phi(t, [(e1, y), (e2, z)])
                elif variant == 2:
                    b.cj(y, "==", z, e1, e2)        # chain of empty blocks
                    b.at(e1).jmp(e2)
                    b.at(e2).jmp(join)
                    b.at(join)
                    ph = b.phi(t, [(e2, y)])
                else:
                    mid = b.block("mid")
                    b.cj(y, ">", z, e1, mid)
                    b.at(mid)
                    s = b.bin(y, "+", z, t)
                    b.cj(s, "<", y, e1, e2)         # e1 has two predecessors
                    b.at(e1).jmp(join)
                    b.at(e2).jmp(join)
                    b.at(join)
                    ph = b.phi(t, [(e1, y), (e2, s)])
                b.ret(b.bin(ph, "^", z, t))
                return b.m
            add("cf:empty_blocks:%s:%d" % (t, variant), empty_blocks, "f", [t, t])

        for cond in ("==", "<", ">", "!=", "<=", ">="):
            for ca, cb in ((1, 2), (2, 1), (3, 3), (-1, 1)):
                def const_cjmp(t=t, cond=cond, ca=ca, cb=cb):
                    b = B("f", t, [t, t])
                    y, z = b.p
                    yes, no, join = b.block("yes"), b.block("no"), b.block("join")
                    b.cj(b.c(ca, t), cond, b.c(cb, t), yes, no)
                    b.at(yes)
                    v1 = b.bin(y, "+", z, t)
                    b.jmp(join)
                    b.at(no)
                    v2 = b.bin(y, "-", z, t)
                    b.jmp(join)
                    b.at(join)
                    ph = b.phi(t, [(yes, v1), (no, v2)])
                    b.ret(ph)
                    return b.m
                add("cf:const_cjmp:%s:%s:%d,%d" % (t, cond, ca, cb), const_cjmp, "f", [t, t])

        for ncyc in (2, 3):
            def empty_cycle(t=t, ncyc=ncyc):
                # a cycle made only of jump-only blocks, entered from another block: if (y < z) for (;;) { }
                b = B("f", t, [t, t])
                y, z = b.p
                cyc = [b.block("cy") for _ in range(ncyc)]
                out_b = b.block("out")
                b.cj(y, "<", z, cyc[0], out_b)
                for k, blk in enumerate(cyc):
                    b.at(blk).jmp(cyc[(k + 1) % ncyc])
                b.at(out_b).ret(b.bin(y, "+", z, t))
                return b.m
            add("cf:empty_cycle:%s:%d" % (t, ncyc), empty_cycle, "f", [t, t])

        def cond_store_in_loop(t=t):
            # a store reached only under an if nested inside a loop: phis are needed at the
            # *iterated* dominance frontier (if-join, then loop header)
            b = B("f", t, [t, t])
            y, z = b.p
            x, i = b.alloc(8), b.alloc(8)
            b.store(b.c(0, t), x)
            b.store(b.c(0, t), i)
            head, body, then, join, done = [b.block(s) for s in ("head", "body", "then", "join", "done")]
            b.jmp(head)
            b.at(head).cj(b.load(i, t), "<", b.c(3, t), body, done)
            b.at(body).cj(b.bin(b.load(i, t), "+", y, t), ">", z, then, join)
            b.at(then).store(b.bin(b.load(x, t), "+", b.c(9, t), t), x)
            b.jmp(join)
            b.at(join).store(b.bin(b.load(i, t), "+", b.c(1, t), t), i)
            b.jmp(head)
            b.at(done).ret(b.load(x, t))
            return b.m
        add("cf:cond_store_in_loop:%s" % t, cond_store_in_loop, "f", [t, t])

        def nested_if_store(t=t):
            # inner if inside an outer if, value used after the outer join
            b = B("f", t, [t, t])
            y, z = b.p
            x = b.alloc(8)
            b.store(b.c(5, t), x)
            outer, inner, ij, oj = [b.block(s) for s in ("outer", "inner", "ij", "oj")]
            b.cj(y, ">", b.c(0, t), outer, oj)
            b.at(outer).cj(z, ">", b.c(0, t), inner, ij)
            b.at(inner).store(b.bin(y, "+", z, t), x)
            b.jmp(ij)
            b.at(ij).jmp(oj)
            b.at(oj).ret(b.bin(b.load(x, t), "^", y, t))
            return b.m
        add("cf:nested_if_store:%s" % t, nested_if_store, "f", [t, t])

        def inner_alloc_in_loop(t=t):
            # an alloc in a non-entry block inside a loop, assigned on one arm only, read after the join
            b = B("f", t, [t, t])
            y, z = b.p
            i = b.alloc(8)
            acc = b.alloc(8)
            b.store(b.c(0, t), i)
            b.store(b.c(0, t), acc)
            head, body, then, join, done = [b.block(s) for s in ("head", "body", "then", "join", "done")]
            b.jmp(head)
            b.at(head).cj(b.load(i, t), "<", b.c(2, t), body, done)
            b.at(body)
            v = b.alloc(8)
            b.store(z, v)
            b.cj(y, ">", b.load(i, t), then, join)
            b.at(then).store(b.bin(y, "+", b.load(i, t), t), v)
            b.jmp(join)
            b.at(join)
            b.store(b.bin(b.load(acc, t), "+", b.load(v, t), t), acc)
            b.store(b.bin(b.load(i, t), "+", b.c(1, t), t), i)
            b.jmp(head)
            b.at(done).ret(b.load(acc, t))
            return b.m
        add("cf:inner_alloc_in_loop:%s" % t, inner_alloc_in_loop, "f", [t, t])

        def inner_alloc_one_arm(t=t):
            # like above but the inner variable is assigned on one arm only (undefined on the other path, not read there)
            b = B("f", t, [t, t])
            y, z = b.p
            i = b.alloc(8)
            acc = b.alloc(8)
            b.store(b.c(0, t), i)
            b.store(z, acc)
            head, body, then, join, done = [b.block(s) for s in ("head", "body", "then", "join", "done")]
            b.jmp(head)
            b.at(head).cj(b.load(i, t), "<", b.c(2, t), body, done)
            b.at(body)
            v = b.alloc(8)
            b.cj(y, ">", b.load(i, t), then, join)
            b.at(then)
            b.store(b.bin(y, "+", b.load(i, t), t), v)
            b.store(b.bin(b.load(acc, t), "+", b.load(v, t), t), acc)
            b.jmp(join)
            b.at(join).store(b.bin(b.load(i, t), "+", b.c(1, t), t), i)
            b.jmp(head)
            b.at(done).ret(b.load(acc, t))
            return b.m
        add("cf:inner_alloc_one_arm:%s" % t, inner_alloc_one_arm, "f", [t, t])

        def nested_loops(t=t):
            # loop nest with two stores to one variable (phi placement at iterated dominance frontier)
            b = B("f", t, [t, t])
            y, z = b.p
            x, i, j = b.alloc(8), b.alloc(8), b.alloc(8)
            b.store(y, x)
            b.store(b.c(0, t), i)
            oh, ob, ih, ib, ie, done = [b.block(s) for s in ("oh", "ob", "ih", "ib", "ie", "done")]
            b.jmp(oh)
            b.at(oh).cj(b.load(i, t), "<", b.c(2, t), ob, done)
            b.at(ob).store(b.c(0, t), j)
            b.jmp(ih)
            b.at(ih).cj(b.load(j, t), "<", b.c(2, t), ib, ie)
            b.at(ib)
            b.store(b.bin(b.load(x, t), "+", z, t), x)
            b.store(b.bin(b.load(j, t), "+", b.c(1, t), t), j)
            b.jmp(ih)
            b.at(ie)
            b.store(b.bin(b.load(x, t), "^", b.c(1, t), t), x)
            b.store(b.bin(b.load(i, t), "+", b.c(1, t), t), i)
            b.jmp(oh)
            b.at(done).ret(b.load(x, t))
            return b.m
        add("cf:nested_loops:%s" % t, nested_loops, "f", [t, t])

        def self_assign(t=t):
            # x = x; then read again (store whose value is a load of the same slot)
            b = B("f", t, [t, t])
            y, z = b.p
            x = b.alloc(8)
            b.store(y, x)
            then, join = b.block("then"), b.block("join")
            b.cj(y, "<", z, then, join)
            b.at(then)
            b.store(b.load(x, t), x)
            b.store(b.bin(b.load(x, t), "+", z, t), x)
            b.jmp(join)
            b.at(join)
            b.store(b.load(x, t), x)
            b.ret(b.load(x, t))
            return b.m
        add("cf:self_assign:%s" % t, self_assign, "f", [t, t])
    # F2. two loop-carried variables whose new values are computed from each other's OLD value
    #     (t = a; a = b + 1; b = t * 2): after mem2reg the two phis must be copied in parallel
    for t in ("i32", "u8", "i64"):
        def cross_loop(t=t):
            b = B("f", t, [t, t])
            y, z = b.p
            xa, xb, xi = b.alloc(8), b.alloc(8), b.alloc(8)
            b.store(y, xa)
            b.store(z, xb)
            b.store(b.c(0, t), xi)
            head, body, done = b.block("head"), b.block("body"), b.block("done")
            b.jmp(head)
            b.at(head).cj(b.load(xi, t), "<", b.c(3, t), body, done)
            b.at(body)
            old_a = b.load(xa, t)
            b.store(b.bin(b.load(xb, t), "+", b.c(1, t), t), xa)
            b.store(b.bin(old_a, "*", b.c(2, t), t), xb)
            b.store(b.bin(b.load(xi, t), "+", b.c(1, t), t), xi)
            b.jmp(head)
            b.at(done).ret(b.bin(b.bin(b.load(xa, t), "*", b.c(5, t), t), "^", b.load(xb, t), t))
            return b.m
        add("cf:cross_loop:%s" % t, cross_loop, "f", [t, t])

        def swap_loop(t=t):
            b = B("f", t, [t, t])
            y, z = b.p
            xa, xb, xi = b.alloc(8), b.alloc(8), b.alloc(8)
            b.store(y, xa)
            b.store(z, xb)
            b.store(b.c(0, t), xi)
            head, body, done = b.block("head"), b.block("body"), b.block("done")
            b.jmp(head)
            b.at(head).cj(b.load(xi, t), "<", b.c(3, t), body, done)
            b.at(body)
            old_a = b.load(xa, t)
            b.store(b.load(xb, t), xa)          # plain swap through a temporary
            b.store(old_a, xb)
            b.store(b.bin(b.load(xi, t), "+", b.c(1, t), t), xi)
            b.jmp(head)
            b.at(done).ret(b.bin(b.bin(b.load(xa, t), "*", b.c(3, t), t), "+", b.load(xb, t), t))
            return b.m
        add("cf:swap_loop:%s" % t, swap_loop, "f", [t, t])
    # G. tail calls
    for t, t2 in (("i32", "i8"), ("u8", "i32"), ("i32", "i32")):
        for unused_first in (True, False):
            def tail(t=t, t2=t2, unused_first=unused_first):
                from ppci import ir
                ptys = [t2, t, t] if unused_first else [t, t, t2]
                b = B("cnt", t, ptys)
                n, acc = (b.p[1], b.p[2]) if unused_first else (b.p[0], b.p[1])
                rec, base = b.block("rec"), b.block("base")
                b.cj(n, "==", b.c(0, t), base, rec)
                b.at(base).ret(acc)
                b.at(rec)
                n1 = b.bin(n, "-", b.c(1, t), t)
                a1 = b.bin(acc, "+", n, t)
                tag = b.c(7, t2)
                args = [tag, n1, a1] if unused_first else [n1, a1, tag]
                r = b.e(ir.FunctionCall(b.f, args, b.nm("r"), getattr(ir, t)))
                b.ret(r)
                w = B("f", t, [t, t], module=b.m)
                m3 = w.bin(w.p[0], "&", w.c(3, t), t)
                wa = [w.c(1, t2), m3, w.p[1]] if unused_first else [m3, w.p[1], w.c(1, t2)]
                w.ret(w.e(ir.FunctionCall(b.f, wa, w.nm("r"), getattr(ir, t))))
                return b.m
            add("tail:%s:%s:%d" % (t, t2, unused_first), tail, "f", [t, t])
    # G2. self tail calls that pass a parameter straight through into ANOTHER argument position
    #     (fib(a, b, n) -> fib(b, a + b, n - 1); gcd(a, b) -> gcd(b, a % b)): the argument phis must be fed from
    #     the current iteration's values, in parallel
    for t in ("i32", "u8"):
        def tail_rot(t=t):
            from ppci import ir
            b = B("fib", t, [t, t, t])
            a, bb, n = b.p
            rec, base = b.block("rec"), b.block("base")
            b.cj(n, "==", b.c(0, t), base, rec)
            b.at(base).ret(a)
            b.at(rec)
            s2 = b.bin(a, "+", bb, t)
            n1 = b.bin(n, "-", b.c(1, t), t)
            r = b.e(ir.FunctionCall(b.f, [bb, s2, n1], b.nm("r"), getattr(ir, t)))
            b.ret(r)
            w = B("f", t, [t, t], module=b.m)
            cnt = w.bin(w.p[1], "&", w.c(7, t), t)
            w.ret(w.e(ir.FunctionCall(b.f, [w.p[0], w.c(1, t), cnt], w.nm("r"), getattr(ir, t))))
            return b.m
        add("tail:rotate:%s" % t, tail_rot, "f", [t, t])

        def tail_swap(t=t):
            from ppci import ir
            b = B("sw", t, [t, t, t])
            a, bb, n = b.p
            rec, base = b.block("rec"), b.block("base")
            b.cj(n, "==", b.c(0, t), base, rec)
            b.at(base).ret(b.bin(b.bin(a, "*", b.c(3, t), t), "+", bb, t))
            b.at(rec)
            n1 = b.bin(n, "-", b.c(1, t), t)
            r = b.e(ir.FunctionCall(b.f, [bb, a, n1], b.nm("r"), getattr(ir, t)))   # plain swap of two parameters
            b.ret(r)
            w = B("f", t, [t, t], module=b.m)
            cnt = w.bin(w.p[1], "&", w.c(3, t), t)
            w.ret(w.e(ir.FunctionCall(b.f, [w.p[0], w.c(5, t), cnt], w.nm("r"), getattr(ir, t))))
            return b.m
        add("tail:swap:%s" % t, tail_swap, "f", [t, t])
    return out


def rng_const(t):
    return {"i8": -100, "u8": 200, "i16": -30000, "u16": 60000, "i32": -2000000000, "u32": 4000000000,
            "i64": -(1 << 62), "u64": (1 << 63) + 5}[t]
